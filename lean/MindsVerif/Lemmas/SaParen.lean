import MindsVerif.Model.SaParen
import MindsVerif.Lemmas.OPMSql
/-! T6.2: under `compatible`, the text SQLAlchemy prints for an operator tree is regrouped by the
target engine's precedence table to exactly the tree SQLAlchemy holds. -/
namespace MindsVerif.SaParen
open MindsVerif.OPM

structure Compat (π : Policy) (P : Table) (F : Fragment) : Prop where
  red : ∀ pr, pr ∈ prods π P F → ∀ la, la ∈ las π P F → la.2.2 < pr.2.1 →
    resolve pr.1 (P.tokLevel la.1) = .reduce
  shf : ∀ pr, pr ∈ prods π P F → ∀ la, la ∈ las π P F → pr.2.2 < la.2.1 →
    resolve pr.1 (P.tokLevel la.1) = .shift
  nat : ∀ o, o ∈ F.bins → π.natural o = true → resolve (P.binProd o) (P.tokLevel o) = .reduce
  isPre : ∀ o, o ∈ F.pres → P.isPre o = true
  notBtw : ∀ o, o ∈ F.bins → o ≠ P.btwTok
  andMem : P.andTok ∈ F.bins
  andLt : grp π P.andTok < π.rkBtw

theorem Compat.of_compatible {π : Policy} {P : Table} {F : Fragment}
    (h : compatible π P F = true) : Compat π P F := by
  simp only [compatible, Bool.and_eq_true, List.all_eq_true, Bool.or_eq_true, Bool.not_eq_true',
    decide_eq_false_iff_not, beq_iff_eq, bne_iff_ne, ne_eq, List.contains_eq_mem,
    decide_eq_true_eq, Nat.not_lt] at h
  obtain ⟨⟨⟨⟨⟨h1, h2⟩, h3⟩, h4⟩, h5⟩, h6⟩ := h
  refine ⟨?_, ?_, ?_, h3, h4, h5, h6⟩
  · intro pr hpr la hla hlt
    rcases (h1 pr hpr la hla).1 with h | h
    · omega
    · exact h
  · intro pr hpr la hla hlt
    rcases (h1 pr hpr la hla).2 with h | h
    · omega
    · exact h
  · intro o ho hn
    rcases h2 o ho with h | h
    · rw [hn] at h; cases h
    · exact h

theorem mem_las {π : Policy} {P : Table} {F : Fragment} {a ra ga : Nat} :
    (a, ra, ga) ∈ las π P F ↔
      (a ∈ F.bins ∧ ra = π.rkBin a ∧ ga = grp π a) ∨ (a = P.btwTok ∧ ra = π.rkBtw ∧ ga = π.rkBtw) := by
  simp only [las, List.mem_append, List.mem_map, List.mem_singleton, Prod.mk.injEq]
  constructor
  · rintro (⟨b, hb, rfl, rfl, rfl⟩ | ⟨rfl, rfl, rfl⟩)
    · exact Or.inl ⟨hb, rfl, rfl⟩
    · exact Or.inr ⟨rfl, rfl, rfl⟩
  · rintro (⟨hb, rfl, rfl⟩ | ⟨rfl, rfl, rfl⟩)
    · exact Or.inl ⟨a, hb, rfl, rfl, rfl⟩
    · exact Or.inr ⟨rfl, rfl, rfl⟩

theorem bin_mem_prods {π : Policy} {P : Table} {F : Fragment} {o : Nat} (ho : o ∈ F.bins) :
    (P.binProd o, π.rkBin o, grp π o) ∈ prods π P F := by
  simp only [prods, List.mem_append, List.mem_map, List.mem_singleton]
  exact Or.inl (Or.inl ⟨o, ho, rfl⟩)

theorem pre_mem_prods {π : Policy} {P : Table} {F : Fragment} {o : Nat} (ho : o ∈ F.pres) :
    (P.preProd o, π.rkPre o, π.rkPre o) ∈ prods π P F := by
  simp only [prods, List.mem_append, List.mem_map, List.mem_singleton]
  exact Or.inl (Or.inr ⟨o, ho, rfl⟩)

theorem btw_mem_prods {π : Policy} {P : Table} {F : Fragment} :
    (P.btwProd, π.rkBtw, π.rkBtw) ∈ prods π P F := by
  simp [prods]

theorem rkBin_le_grp (π : Policy) (o : Nat) : π.rkBin o ≤ grp π o := by
  unfold grp
  rcases π.extra o with _ | ⟨k, _ | x⟩
  · exact Nat.le_refl _
  · exact Nat.le_max_right _ _
  · exact Nat.le_refl _

theorem head_none {π : Policy} (P : Table) {e : Expr} (h : head π e = none) :
    leftOps P e = [] ∧ rightProds P e = [] := by
  cases e <;> simp [head] at h <;> simp [leftOps, rightProds]

/-- an operand that `needs` leaves bare has a top operator of rank above `k` -/
theorem needs_false {π : Policy} {k : Nat} {e : Expr} (h : needs π k e = false) :
    head π e = none ∨ ∃ r, head π e = some r ∧ k < r := by
  unfold needs at h
  cases hh : head π e with
  | none => exact Or.inl rfl
  | some r =>
    rw [hh] at h
    simp only [decide_eq_false_iff_not, Nat.not_le] at h
    exact Or.inr ⟨r, rfl, h⟩

/-- a bare operand of `o` that is not `o`'s own natural chain has a top operator of rank above
`grp π o` -/
theorem needsB_false {π : Policy} {o : Nat} {e : Expr} (h : needsB π o e = false)
    (hs : sameNat π o e = false) : head π e = none ∨ ∃ r, head π e = some r ∧ grp π o < r := by
  simp only [needsB, hs, Bool.not_false, Bool.true_and, Bool.or_eq_false_iff] at h
  obtain ⟨h1, h2⟩ := h
  rcases needs_false h1 with hn | ⟨r, hr, hlt⟩
  · exact Or.inl hn
  · refine Or.inr ⟨r, hr, ?_⟩
    unfold grp
    rcases hx : π.extra o with _ | ⟨k, _ | x⟩
    · exact hlt
    · rw [hx] at h2
      simp only [Bool.not_false, Bool.and_true] at h2
      rcases needs_false h2 with hn | ⟨r', hr', hlt'⟩
      · rw [hn] at hr; cases hr
      · rw [hr] at hr'; cases hr'
        exact Nat.max_lt.2 ⟨hlt', hlt⟩
    · exact hlt

theorem needsP_false {π : Policy} {o : Nat} {e : Expr} (h : needsP π o e = false) :
    needs π (π.rkPre o) e = false := by
  simp only [needsP, Bool.or_eq_false_iff] at h
  exact h.1

theorem strip_saParens (π : Policy) (e : Expr) : strip (saParens π e) = strip e := by
  induction e with
  | atom n => rfl
  | paren e ih => simp only [saParens, strip, ih]
  | pre o e ih => simp only [saParens, strip, strip_wrapIf, ih]
  | bin o l r ihl ihr => simp only [saParens, strip, strip_wrapIf, ihl, ihr]
  | btw x y z ihx ihy ihz => simp only [saParens, strip, strip_wrapIf, ihx, ihy, ihz]

/-- operators on the left spine of the printed tree have rank at least that of its top operator -/
theorem leftOps_rank {π : Policy} {P : Table} {F : Fragment} (e : Expr)
    (he : inFragment F e = true) :
    ∀ a, a ∈ leftOps P (saParens π e) →
      ∃ ra ga, (a, ra, ga) ∈ las π P F ∧ ∀ r, head π (saParens π e) = some r → r ≤ ra := by
  induction e with
  | atom n => intro a h; simp [saParens, leftOps] at h
  | paren e ih =>
    simp only [inFragment] at he
    simpa only [saParens] using ih he
  | pre o e _ => intro a h; simp [saParens, leftOps] at h
  | bin o l r ihl _ =>
    intro a h
    simp only [inFragment, Bool.and_eq_true, List.contains_eq_mem, decide_eq_true_eq] at he
    obtain ⟨⟨ho, hl⟩, _⟩ := he
    simp only [saParens, leftOps, List.mem_cons] at h
    rcases h with rfl | h
    · refine ⟨π.rkBin a, grp π a, mem_las.2 (Or.inl ⟨ho, rfl, rfl⟩), ?_⟩
      intro r hr
      simp only [saParens, head, Option.some.injEq] at hr
      omega
    · obtain ⟨hc, hm⟩ := mem_leftOps_wrapIf h
      obtain ⟨ra, ga, hla, hle⟩ := ihl hl a hm
      refine ⟨ra, ga, hla, ?_⟩
      intro r hr
      simp only [saParens, head, Option.some.injEq] at hr
      subst hr
      cases hs : sameNat π o (saParens π l) with
      | true =>
        generalize saParens π l = l' at *
        cases l' <;> simp [sameNat] at hs
        obtain ⟨rfl, _⟩ := hs
        exact hle _ rfl
      | false =>
        rcases needsB_false hc hs with hn | ⟨r', hr', hlt⟩
        · rw [(head_none P hn).1] at hm; cases hm
        · have := hle r' hr'
          have := rkBin_le_grp π o
          omega
  | btw x y z ihx _ _ =>
    intro a h
    simp only [inFragment, Bool.and_eq_true] at he
    obtain ⟨⟨hx, _⟩, _⟩ := he
    simp only [saParens, leftOps, List.mem_cons] at h
    rcases h with rfl | h
    · refine ⟨π.rkBtw, π.rkBtw, mem_las.2 (Or.inr ⟨rfl, rfl, rfl⟩), ?_⟩
      intro r hr
      simp only [saParens, head, Option.some.injEq] at hr
      omega
    · obtain ⟨hc, hm⟩ := mem_leftOps_wrapIf h
      obtain ⟨ra, ga, hla, hle⟩ := ihx hx a hm
      refine ⟨ra, ga, hla, ?_⟩
      intro r hr
      simp only [saParens, head, Option.some.injEq] at hr
      subst hr
      rcases needs_false hc with hn | ⟨r', hr', hlt⟩
      · rw [(head_none P hn).1] at hm; cases hm
      · have := hle r' hr'; omega

/-- productions pending on the right spine of the printed tree have rank at least that of its top
operator -/
theorem rightProds_rank {π : Policy} {P : Table} {F : Fragment} (e : Expr)
    (he : inFragment F e = true) (hok : saOk π e = true) :
    ∀ p, p ∈ rightProds P (saParens π e) →
      ∃ rp gp, (p, rp, gp) ∈ prods π P F ∧ ∀ r, head π (saParens π e) = some r → r ≤ rp := by
  induction e with
  | atom n => intro p h; simp [saParens, rightProds] at h
  | paren e ih =>
    simp only [inFragment] at he
    simp only [saOk] at hok
    simpa only [saParens] using ih he hok
  | pre o e ih =>
    intro p h
    simp only [inFragment, Bool.and_eq_true, List.contains_eq_mem, decide_eq_true_eq] at he
    obtain ⟨ho, hi⟩ := he
    simp only [saOk] at hok
    simp only [saParens, rightProds, List.mem_cons] at h
    rcases h with rfl | h
    · refine ⟨π.rkPre o, π.rkPre o, pre_mem_prods ho, ?_⟩
      intro r hr
      simp only [saParens, head, Option.some.injEq] at hr
      omega
    · obtain ⟨hc, hm⟩ := mem_rightProds_wrapIf h
      obtain ⟨rp, gp, hp, hle⟩ := ih hi hok p hm
      refine ⟨rp, gp, hp, ?_⟩
      intro r hr
      simp only [saParens, head, Option.some.injEq] at hr
      subst hr
      rcases needs_false (needsP_false hc) with hn | ⟨r', hr', hlt⟩
      · rw [(head_none P hn).2] at hm; cases hm
      · have := hle r' hr'; omega
  | bin o l r _ ihr =>
    intro p h
    simp only [inFragment, Bool.and_eq_true, List.contains_eq_mem, decide_eq_true_eq] at he
    obtain ⟨⟨ho, _⟩, hr⟩ := he
    simp only [saOk, Bool.and_eq_true, Bool.not_eq_true'] at hok
    obtain ⟨⟨_, hokr⟩, hns⟩ := hok
    simp only [saParens, rightProds, List.mem_cons] at h
    rcases h with rfl | h
    · refine ⟨π.rkBin o, grp π o, bin_mem_prods ho, ?_⟩
      intro r hr
      simp only [saParens, head, Option.some.injEq] at hr
      omega
    · obtain ⟨hc, hm⟩ := mem_rightProds_wrapIf h
      obtain ⟨rp, gp, hp, hle⟩ := ihr hr hokr p hm
      refine ⟨rp, gp, hp, ?_⟩
      intro r' hr'
      simp only [saParens, head, Option.some.injEq] at hr'
      subst hr'
      rcases needsB_false hc hns with hn | ⟨r', hr', hlt⟩
      · rw [(head_none P hn).2] at hm; cases hm
      · have := hle r' hr'
        have := rkBin_le_grp π o
        omega
  | btw x y z _ _ ihz =>
    intro p h
    simp only [inFragment, Bool.and_eq_true] at he
    obtain ⟨⟨_, _⟩, hz⟩ := he
    simp only [saOk, Bool.and_eq_true] at hok
    obtain ⟨⟨_, _⟩, hokz⟩ := hok
    simp only [saParens, rightProds, List.mem_cons] at h
    rcases h with rfl | h
    · refine ⟨π.rkBtw, π.rkBtw, btw_mem_prods, ?_⟩
      intro r hr
      simp only [saParens, head, Option.some.injEq] at hr
      omega
    · obtain ⟨hc, hm⟩ := mem_rightProds_wrapIf h
      obtain ⟨rp, gp, hp, hle⟩ := ihz hz hokz p hm
      refine ⟨rp, gp, hp, ?_⟩
      intro r' hr'
      simp only [saParens, head, Option.some.injEq] at hr'
      subst hr'
      rcases needs_false hc with hn | ⟨r', hr', hlt⟩
      · rw [(head_none P hn).2] at hm; cases hm
      · have := hle r' hr'; omega

/-- the right operand of a printed binary node comes from a right operand that `saOk` accepted -/
theorem saParens_bin {π : Policy} {F : Fragment} (e : Expr) (he : inFragment F e = true)
    (hok : saOk π e = true) :
    ∀ o a b, saParens π e = .bin o a b →
      ∃ r1, inFragment F r1 = true ∧ saOk π r1 = true ∧ sameNat π o (saParens π r1) = false ∧
        b = wrapIf (needsB π o (saParens π r1)) (saParens π r1) := by
  induction e with
  | atom n => intro o a b h; simp [saParens] at h
  | paren e ih =>
    simp only [inFragment] at he
    simp only [saOk] at hok
    simpa only [saParens] using ih he hok
  | pre o e _ => intro o' a b h; simp [saParens] at h
  | bin o l r _ _ =>
    intro o' a b h
    simp only [inFragment, Bool.and_eq_true] at he
    simp only [saOk, Bool.and_eq_true, Bool.not_eq_true'] at hok
    simp only [saParens, Expr.bin.injEq] at h
    obtain ⟨rfl, _, rfl⟩ := h
    exact ⟨r, he.2, hok.1.2, hok.2, rfl⟩
  | btw x y z _ _ _ => intro o a b h; simp [saParens] at h

/-- **T6.2 (canonicity)** -/
theorem sa_canon {π : Policy} {P : Table} {F : Fragment} (H : Compat π P F) (e : Expr)
    (he : inFragment F e = true) (hok : saOk π e = true) : canon P (saParens π e) = true := by
  induction e with
  | atom n => rfl
  | paren e ih =>
    simp only [inFragment] at he
    simp only [saOk] at hok
    simpa only [saParens] using ih he hok
  | pre o e ih =>
    simp only [inFragment, Bool.and_eq_true, List.contains_eq_mem, decide_eq_true_eq] at he
    obtain ⟨ho, hi⟩ := he
    simp only [saOk] at hok
    simp only [saParens, canon, canon_wrapIf, Bool.and_eq_true]
    refine ⟨⟨H.isPre o ho, ih hi hok⟩, ?_⟩
    rw [allShift_iff]
    intro a ha
    obtain ⟨hc, hm⟩ := mem_leftOps_wrapIf ha
    obtain ⟨ra, ga, hla, hle⟩ := leftOps_rank (π := π) (P := P) e hi a hm
    rcases needs_false (needsP_false hc) with hn | ⟨r', hr', hlt⟩
    · rw [(head_none P hn).1] at hm; cases hm
    · have := hle r' hr'
      exact H.shf _ (pre_mem_prods ho) _ hla (by simp only; omega)
  | bin o l r ihl ihr =>
    simp only [inFragment, Bool.and_eq_true, List.contains_eq_mem, decide_eq_true_eq] at he
    obtain ⟨⟨ho, hl⟩, hr⟩ := he
    simp only [saOk, Bool.and_eq_true, Bool.not_eq_true'] at hok
    obtain ⟨⟨hokl, hokr⟩, hns⟩ := hok
    simp only [saParens, canon, canon_wrapIf, Bool.and_eq_true, bne_iff_ne, ne_eq]
    refine ⟨⟨⟨⟨H.notBtw o ho, ihl hl hokl⟩, ihr hr hokr⟩, ?_⟩, ?_⟩
    · rw [allReduce_iff]
      intro p hp
      obtain ⟨hc, hm⟩ := mem_rightProds_wrapIf hp
      have hla : (o, π.rkBin o, grp π o) ∈ las π P F := mem_las.2 (Or.inl ⟨ho, rfl, rfl⟩)
      cases hs : sameNat π o (saParens π l) with
      | false =>
        obtain ⟨rp, gp, hpr, hle⟩ := rightProds_rank (π := π) (P := P) l hl hokl p hm
        rcases needsB_false hc hs with hn | ⟨r', hr', hlt⟩
        · rw [(head_none P hn).2] at hm; cases hm
        · have := hle r' hr'
          exact H.red _ hpr _ hla (by simp only; omega)
      | true =>
        have shape := saParens_bin (π := π) l hl hokl
        generalize saParens π l = l' at *
        cases l' with
        | bin o' a b =>
          simp only [sameNat, Bool.and_eq_true, beq_iff_eq] at hs
          obtain ⟨rfl, hnat⟩ := hs
          obtain ⟨r1, hr1, hokr1, hns1, rfl⟩ := shape _ _ _ rfl
          simp only [rightProds, List.mem_cons] at hm
          rcases hm with rfl | hm
          · exact H.nat _ ho hnat
          · obtain ⟨hc1, hm1⟩ := mem_rightProds_wrapIf hm
            obtain ⟨rp, gp, hpr, hle⟩ := rightProds_rank (π := π) (P := P) r1 hr1 hokr1 p hm1
            rcases needsB_false hc1 hns1 with hn | ⟨r', hr', hlt⟩
            · rw [(head_none P hn).2] at hm1; cases hm1
            · have := hle r' hr'
              exact H.red _ hpr _ hla (by simp only; omega)
        | atom n => simp [sameNat] at hs
        | paren e => simp [sameNat] at hs
        | pre o' e => simp [sameNat] at hs
        | btw x y z => simp [sameNat] at hs
    · rw [allShift_iff]
      intro a ha
      obtain ⟨hc, hm⟩ := mem_leftOps_wrapIf ha
      obtain ⟨ra, ga, hla, hle⟩ := leftOps_rank (π := π) (P := P) r hr a hm
      rcases needsB_false hc hns with hn | ⟨r', hr', hlt⟩
      · rw [(head_none P hn).1] at hm; cases hm
      · have := hle r' hr'
        exact H.shf _ (bin_mem_prods ho) _ hla (by simp only; omega)
  | btw x y z ihx ihy ihz =>
    simp only [inFragment, Bool.and_eq_true] at he
    obtain ⟨⟨hx, hy⟩, hz⟩ := he
    simp only [saOk, Bool.and_eq_true] at hok
    obtain ⟨⟨hokx, hoky⟩, hokz⟩ := hok
    have hand : (P.andTok, π.rkBin P.andTok, grp π P.andTok) ∈ las π P F :=
      mem_las.2 (Or.inl ⟨H.andMem, rfl, rfl⟩)
    have hbt : (P.btwTok, π.rkBtw, π.rkBtw) ∈ las π P F := mem_las.2 (Or.inr ⟨rfl, rfl, rfl⟩)
    have handlt := H.andLt
    have handle := rkBin_le_grp π P.andTok
    simp only [saParens, canon, canon_wrapIf, Bool.and_eq_true, bne_iff_ne, ne_eq,
      Bool.not_eq_true', List.contains_eq_mem, decide_eq_false_iff_not]
    refine ⟨⟨⟨⟨⟨⟨⟨ihx hx hokx, ihy hy hoky⟩, ihz hz hokz⟩, ?_⟩, ?_⟩, ?_⟩, ?_⟩,
      H.notBtw _ H.andMem⟩
    · rw [allReduce_iff]
      intro p hp
      obtain ⟨hc, hm⟩ := mem_rightProds_wrapIf hp
      obtain ⟨rp, gp, hpr, hle⟩ := rightProds_rank (π := π) (P := P) x hx hokx p hm
      rcases needs_false hc with hn | ⟨r', hr', hlt⟩
      · rw [(head_none P hn).2] at hm; cases hm
      · have := hle r' hr'
        exact H.red _ hpr _ hbt (by simp only; omega)
    · rw [allReduce_iff]
      intro p hp
      obtain ⟨hc, hm⟩ := mem_rightProds_wrapIf hp
      obtain ⟨rp, gp, hpr, hle⟩ := rightProds_rank (π := π) (P := P) y hy hoky p hm
      rcases needs_false hc with hn | ⟨r', hr', hlt⟩
      · rw [(head_none P hn).2] at hm; cases hm
      · have := hle r' hr'
        exact H.red _ hpr _ hand (by simp only; omega)
    · intro ha
      obtain ⟨hc, hm⟩ := mem_leftOps_wrapIf ha
      obtain ⟨ra, ga, hla, hle⟩ := leftOps_rank (π := π) (P := P) y hy _ hm
      rcases needs_false hc with hn | ⟨r', hr', hlt⟩
      · rw [(head_none P hn).1] at hm; cases hm
      · have := hle r' hr'
        rcases mem_las.1 hla with ⟨_, rfl, _⟩ | ⟨hb, _, _⟩
        · omega
        · exact H.notBtw _ H.andMem hb
    · rw [allShift_iff]
      intro a ha
      obtain ⟨hc, hm⟩ := mem_leftOps_wrapIf ha
      obtain ⟨ra, ga, hla, hle⟩ := leftOps_rank (π := π) (P := P) z hz a hm
      rcases needs_false hc with hn | ⟨r', hr', hlt⟩
      · rw [(head_none P hn).1] at hm; cases hm
      · have := hle r' hr'
        exact H.shf _ btw_mem_prods _ hla (by simp only; omega)

/-- **T6.2** the engine regroups the printed text to the printed tree, which is the tree
SQLAlchemy holds up to parentheses -/
theorem sa_roundtrip (π : Policy) (P : Table) (F : Fragment) (h : compatible π P F = true)
    (e : Expr) (he : inFragment F e = true) (hok : saOk π e = true) :
    parse P (print P (saParens π e)) [] none = some (saParens π e) ∧
      strip (saParens π e) = strip e :=
  ⟨roundtrip P _ (sa_canon (Compat.of_compatible h) e he hok), strip_saParens π e⟩

end MindsVerif.SaParen
