import MindsVerif.Lemmas.SelectSkel
/-! Composition L(1,2) ∘ L3: a SELECT whose clause payloads are *texts* (`T`) parsed by a payload parser
`f : T → Option E` and printed by a payload printer `g : E → T`.  If every payload that occurs in a record
round-trips through `g` / `f` (the L1 / L2 statements, hypothesis G2), then the whole record does. -/
namespace MindsVerif.SelectSkel

/-- `Option`-traverse of a list -/
def trav {A B : Type} (f : A → Option B) : List A → Option (List B)
  | [] => some []
  | a :: as => match f a, trav f as with
    | some b, some bs => some (b :: bs)
    | _, _ => none

theorem trav_map {A B : Type} (F : B → Option A) (G : A → B) : ∀ (l : List A),
    (∀ a ∈ l, F (G a) = some a) → trav F (l.map G) = some l
  | [], _ => rfl
  | a :: as, h => by
    have h1 := h a (by simp)
    have h2 := trav_map F G as (fun x hx => h x (by simp [hx]))
    simp [trav, h1, h2]

variable {T E : Type}

def Clause.payloads : Clause E → List E
  | .from_ e | .where_ e | .having e | .limit e | .offset e | .usng e => [e]
  | .groupBy e es | .orderBy e es => e :: es
  | .limit2 a b => [a, b]
  | .forUpdate => []

def Clause.map (g : E → T) : Clause E → Clause T
  | .from_ e => .from_ (g e) | .where_ e => .where_ (g e) | .having e => .having (g e)
  | .limit e => .limit (g e) | .offset e => .offset (g e) | .usng e => .usng (g e)
  | .groupBy e es => .groupBy (g e) (es.map g) | .orderBy e es => .orderBy (g e) (es.map g)
  | .limit2 a b => .limit2 (g a) (g b)
  | .forUpdate => .forUpdate

def Clause.traverse (f : T → Option E) : Clause T → Option (Clause E)
  | .from_ e => (f e).map .from_ | .where_ e => (f e).map .where_ | .having e => (f e).map .having
  | .limit e => (f e).map .limit | .offset e => (f e).map .offset | .usng e => (f e).map .usng
  | .groupBy e es => match f e, trav f es with | some e', some es' => some (.groupBy e' es') | _, _ => none
  | .orderBy e es => match f e, trav f es with | some e', some es' => some (.orderBy e' es') | _, _ => none
  | .limit2 a b => match f a, f b with | some a', some b' => some (.limit2 a' b') | _, _ => none
  | .forUpdate => some .forUpdate

theorem clause_trav (f : T → Option E) (g : E → T) (c : Clause E)
    (h : ∀ e ∈ c.payloads, f (g e) = some e) : Clause.traverse f (Clause.map g c) = some c := by
  cases c with
  | groupBy e es =>
    have h1 := h e (by simp [Clause.payloads])
    have h2 := trav_map f g es (fun x hx => h x (by simp [Clause.payloads, hx]))
    simp [Clause.map, Clause.traverse, h1, h2]
  | orderBy e es =>
    have h1 := h e (by simp [Clause.payloads])
    have h2 := trav_map f g es (fun x hx => h x (by simp [Clause.payloads, hx]))
    simp [Clause.map, Clause.traverse, h1, h2]
  | limit2 a b =>
    have h1 := h a (by simp [Clause.payloads])
    have h2 := h b (by simp [Clause.payloads])
    simp [Clause.map, Clause.traverse, h1, h2]
  | forUpdate => rfl
  | from_ e | where_ e | having e | limit e | offset e | usng e =>
    have h1 := h e (by simp [Clause.payloads])
    simp [Clause.map, Clause.traverse, h1]

/-- the statement-level parser: payload texts are parsed first, then the clause rules run -/
def parseSelT (c : Cfg E) (f : T → Option E) (cte : Option T) (d : Bool) (ts : List T) (cs : List (Clause T)) :
    Option (Sel E) :=
  match (match cte with | none => some none | some x => (f x).map some), trav f ts, trav (Clause.traverse f) cs with
  | some cte', some ts', some cs' =>
    (match parseSel c cte' d ts' cs' with
     | .ok s => some s
     | .error _ => none)
  | _, _, _ => none

/-- every payload of a record: CTE block, targets, and the payloads of the printed clauses -/
def Sel.payloads (s : Sel E) : List E :=
  s.cte.toList ++ s.targets ++ s.clauses.flatMap Clause.payloads

/-- **composition**: good record + payload round trip (G2) ⇒ statement round trip -/
theorem compose_roundtrip (c : Cfg E) (f : T → Option E) (g : E → T) (s : Sel E) (hg : Good c s = true)
    (h : ∀ e ∈ s.payloads, f (g e) = some e) :
    parseSelT c f (s.cte.map g) s.distinct (s.targets.map g) (s.clauses.map (Clause.map g)) = some s := by
  have hcte : (match s.cte.map g with | none => some none | some x => (f x).map some) = some s.cte := by
    cases hc : s.cte with
    | none => rfl
    | some x =>
      have := h x (by simp [Sel.payloads, hc])
      simp [this]
  have hts : trav f (s.targets.map g) = some s.targets :=
    trav_map f g s.targets (fun x hx => h x (by simp [Sel.payloads, hx]))
  have hcs : trav (Clause.traverse f) (s.clauses.map (Clause.map g)) = some s.clauses :=
    trav_map (Clause.traverse f) (Clause.map g) s.clauses (fun cl hcl =>
      clause_trav f g cl (fun e he => h e (by
        simp only [Sel.payloads, List.mem_append, List.mem_flatMap]
        exact Or.inr ⟨cl, hcl, he⟩)))
  unfold parseSelT
  rw [hcte, hts, hcs]
  simp [print_parse c s hg]

end MindsVerif.SelectSkel
