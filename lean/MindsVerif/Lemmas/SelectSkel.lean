import MindsVerif.Model.SelectSkel
/-! Round trip of the SELECT skeleton: for every record the clause rules can build, the clauses
`Select.get_string` emits pass `ensure_select_keyword_order` in that order and rebuild the record;
and every record the rules build is `Good`.  Set-operation chains: left-nested chains round-trip. -/
namespace MindsVerif.SelectSkel

variable {E : Type}

theorem fold_append (c : Cfg E) : ∀ (xs ys : List (Clause E)) (s : Sel E),
    foldClauses c s (xs ++ ys) = match foldClauses c s xs with
      | .ok s' => foldClauses c s' ys
      | .error e => .error e := by
  intro xs
  induction xs with
  | nil => intro ys s; rfl
  | cons x xs ih =>
    intro ys s
    simp only [List.cons_append, foldClauses]
    cases step c s x with
    | ok s' => exact ih ys s'
    | error e => rfl

/-- fold one optional clause group, then the rest -/
theorem fold_step (c : Cfg E) (s s' : Sel E) (xs ys : List (Clause E))
    (h : foldClauses c s xs = .ok s') :
    foldClauses c s (xs ++ ys) = foldClauses c s' ys := by
  rw [fold_append, h]

/-! the intermediate records while re-reading the printed clauses -/
def upTo (s : Sel E) (k : Nat) : Sel E :=
  { cte := s.cte, distinct := s.distinct, targets := s.targets,
    from_ := if 0 < k then s.from_ else none,
    where_ := if 1 < k then s.where_ else none,
    groupBy := if 2 < k then s.groupBy else none,
    having := if 3 < k then s.having else none,
    orderBy := if 4 < k then s.orderBy else none,
    limit := if 5 < k then s.limit else none,
    offset := if 6 < k then s.offset else none,
    mode := if 7 < k then s.mode else false,
    usng := if 8 < k then s.usng else none }

theorem upTo_zero (s : Sel E) : upTo s 0 = init s.cte s.distinct s.targets := rfl

theorem upTo_nine (s : Sel E) : upTo s 9 = s := by cases s; rfl

section steps
variable (c : Cfg E) (s : Sel E)

theorem st0 : foldClauses c (upTo s 0) (opt .from_ s.from_) = .ok (upTo s 1) := by
  cases h : s.from_ <;> simp [opt, foldClauses, upTo, h, step, check, guard, Sel.has, requirements, fromOp,
    precedence, truthyList, bind, Except.bind, pure, Except.pure]

theorem st1 (hg : Good c s = true) : foldClauses c (upTo s 1) (opt .where_ s.where_) = .ok (upTo s 2) := by
  cases h : s.where_ with
  | none => simp [opt, foldClauses, upTo, h]
  | some e =>
    cases hf : s.from_ <;>
      simp_all [Good, opt, foldClauses, upTo, step, check, guard, Sel.has, requirements, fromOp,
        precedence, truthyList, bind, Except.bind, pure, Except.pure]

theorem st2 (hg : Good c s = true) : foldClauses c (upTo s 2) (optList .groupBy s.groupBy) = .ok (upTo s 3) := by
  cases h : s.groupBy with
  | none => simp [optList, foldClauses, upTo, h]
  | some l =>
    cases l with
    | nil => simp_all [Good, truthyList]
    | cons e es =>
      cases hf : s.from_ <;>
        simp_all [Good, optList, foldClauses, upTo, step, check, guard, Sel.has, requirements, fromOp,
          precedence, truthyList, bind, Except.bind, pure, Except.pure]

theorem st3 (hg : Good c s = true) : foldClauses c (upTo s 3) (opt .having s.having) = .ok (upTo s 4) := by
  cases h : s.having with
  | none => simp [opt, foldClauses, upTo, h]
  | some e =>
    simp_all [Good, opt, foldClauses, upTo, step, check, guard, Sel.has, requirements, fromOp,
      precedence, truthyList, bind, Except.bind, pure, Except.pure]

theorem st4 (hg : Good c s = true) : foldClauses c (upTo s 4) (optList .orderBy s.orderBy) = .ok (upTo s 5) := by
  cases h : s.orderBy with
  | none => simp [optList, foldClauses, upTo, h]
  | some l =>
    cases l with
    | nil => simp_all [Good, truthyList]
    | cons e es =>
      cases hf : s.from_ <;>
        simp_all [Good, optList, foldClauses, upTo, step, check, guard, Sel.has, requirements, fromOp,
          precedence, truthyList, bind, Except.bind, pure, Except.pure]

theorem st5 (hg : Good c s = true) : foldClauses c (upTo s 5) (opt .limit s.limit) = .ok (upTo s 6) := by
  cases h : s.limit with
  | none => simp [opt, foldClauses, upTo, h]
  | some e =>
    simp_all [Good, opt, foldClauses, upTo, step, check, guard, Sel.has, requirements, fromOp,
      precedence, truthyList, bind, Except.bind, pure, Except.pure]

theorem st6 (hg : Good c s = true) : foldClauses c (upTo s 6) (opt .offset s.offset) = .ok (upTo s 7) := by
  cases h : s.offset with
  | none => simp [opt, foldClauses, upTo, h]
  | some e =>
    simp_all [Good, opt, foldClauses, upTo, step, check, guard, Sel.has, requirements, fromOp,
      precedence, truthyList, bind, Except.bind, pure, Except.pure]

theorem st7 : foldClauses c (upTo s 7) (if s.mode then [Clause.forUpdate] else []) = .ok (upTo s 8) := by
  cases h : s.mode <;>
    simp [foldClauses, upTo, h, step, check, guard, Sel.has, requirements, fromOp,
      precedence, truthyList, bind, Except.bind, pure, Except.pure]

theorem st8 : foldClauses c (upTo s 8) (opt .usng s.usng) = .ok (upTo s 9) := by
  cases h : s.usng <;> simp [opt, foldClauses, upTo, h, step, pure, Except.pure]

end steps

/-- **T1.3** printing any good record emits its clauses in an order the guard accepts, and the
clause rules rebuild exactly that record -/
theorem print_parse (c : Cfg E) (s : Sel E) (hg : Good c s = true) :
    parseSel c s.cte s.distinct s.targets s.clauses = .ok s := by
  unfold parseSel Sel.clauses
  rw [← upTo_zero]
  rw [fold_step c _ _ _ _ (st0 c s), fold_step c _ _ _ _ (st1 c s hg), fold_step c _ _ _ _ (st2 c s hg),
    fold_step c _ _ _ _ (st3 c s hg), fold_step c _ _ _ _ (st4 c s hg), fold_step c _ _ _ _ (st5 c s hg),
    fold_step c _ _ _ _ (st6 c s hg), fold_step c _ _ _ _ (st7 c s), st8 c s, upTo_nine]

/-! ### every record the rules build is good -/

theorem init_good (c : Cfg E) (cte : Option E) (d : Bool) (t : List E) : Good c (init cte d t) = true := by
  simp [Good, init, truthyList]

theorem check_ok {s : Sel E} {op : Op} (h : check s op = .ok ()) : guard s op = none := by
  unfold check at h
  cases hg : guard s op with
  | none => rfl
  | some e => rw [hg] at h; cases h

theorem step_good (c : Cfg E) (s s' : Sel E) (x : Clause E) (hg : Good c s = true)
    (h : step c s x = .ok s') : Good c s' = true := by
  cases x with
  | from_ e =>
    simp only [step, bind, Except.bind, pure, Except.pure] at h
    cases hc : check s .from_ with
    | error e => rw [hc] at h; cases h
    | ok u =>
      rw [hc] at h; cases h
      simp_all [Good]
  | where_ e =>
    simp only [step, bind, Except.bind, pure, Except.pure] at h
    cases hc : check s .where_ with
    | error e => rw [hc] at h; cases h
    | ok u =>
      rw [hc] at h
      have hgd := check_ok hc
      cases ho : c.isOp e with
      | false => simp [ho] at h
      | true =>
        simp only [ho, if_true] at h; cases h
        cases hf : s.from_ <;> simp_all [Good, guard, Sel.has, requirements]
  | groupBy e es =>
    simp only [step, bind, Except.bind, pure, Except.pure] at h
    cases hc : check s .groupBy with
    | error e => rw [hc] at h; cases h
    | ok u =>
      rw [hc] at h; cases h
      have hgd := check_ok hc
      cases hf : s.from_ <;> cases hgb : s.groupBy <;> simp_all [Good, guard, Sel.has, requirements, truthyList]
  | having e =>
    simp only [step, bind, Except.bind, pure, Except.pure] at h
    cases hc : check s .having with
    | error e => rw [hc] at h; cases h
    | ok u =>
      rw [hc] at h
      cases ho : c.isOp e with
      | false => simp [ho] at h
      | true =>
        simp only [ho, if_true] at h; cases h
        simp_all [Good]
  | orderBy e es =>
    simp only [step, bind, Except.bind, pure, Except.pure] at h
    cases hc : check s .orderBy with
    | error e => rw [hc] at h; cases h
    | ok u =>
      rw [hc] at h; cases h
      have hgd := check_ok hc
      cases hf : s.from_ <;> cases hob : s.orderBy <;> simp_all [Good, guard, Sel.has, requirements, truthyList]
  | limit e =>
    simp only [step, bind, Except.bind, pure, Except.pure] at h
    cases hc : check s .limit with
    | error e => rw [hc] at h; cases h
    | ok u =>
      rw [hc] at h
      cases ho : c.isInt e with
      | false => simp [ho] at h
      | true =>
        simp only [ho, if_true] at h; cases h
        simp_all [Good]
  | limit2 off lim =>
    simp only [step, bind, Except.bind, pure, Except.pure] at h
    cases hc : check s .limit with
    | error e => rw [hc] at h; cases h
    | ok u =>
      rw [hc] at h
      cases ho : c.isInt off <;> cases hl : c.isInt lim <;> simp [ho, hl] at h
      cases h
      simp_all [Good]
  | offset e =>
    simp only [step, bind, Except.bind, pure, Except.pure] at h
    cases hs : s.offset.isSome with
    | true => simp [hs] at h
    | false =>
      simp only [hs] at h
      cases hc : check s .offset with
      | error e => rw [hc] at h; simp at h
      | ok u =>
        rw [hc] at h
        cases ho : c.isInt e with
        | false => simp [ho] at h
        | true =>
          simp [ho] at h; cases h
          simp_all [Good]
  | forUpdate =>
    simp only [step, bind, Except.bind, pure, Except.pure] at h
    cases hc : check s .mode with
    | error e => rw [hc] at h; cases h
    | ok u =>
      rw [hc] at h; cases h
      simp_all [Good]
  | usng u =>
    simp only [step, pure, Except.pure] at h
    cases h
    simp_all [Good]

theorem fold_good (c : Cfg E) : ∀ (xs : List (Clause E)) (s s' : Sel E), Good c s = true →
    foldClauses c s xs = .ok s' → Good c s' = true := by
  intro xs
  induction xs with
  | nil => intro s s' hg h; simp only [foldClauses] at h; cases h; exact hg
  | cons x xs ih =>
    intro s s' hg h
    simp only [foldClauses] at h
    cases hs : step c s x with
    | error e => rw [hs] at h; cases h
    | ok s1 =>
      rw [hs] at h
      exact ih s1 s' (step_good c s s1 x hg hs) h

theorem fold_head (c : Cfg E) : ∀ (xs : List (Clause E)) (s s' : Sel E),
    foldClauses c s xs = .ok s' → s'.cte = s.cte ∧ s'.distinct = s.distinct ∧ s'.targets = s.targets := by
  intro xs
  induction xs with
  | nil => intro s s' h; simp only [foldClauses] at h; cases h; exact ⟨rfl, rfl, rfl⟩
  | cons x xs ih =>
    intro s s' h
    simp only [foldClauses] at h
    cases hs : step c s x with
    | error e => rw [hs] at h; cases h
    | ok s1 =>
      rw [hs] at h
      have h1 := ih s1 s' h
      have h2 : s1.cte = s.cte ∧ s1.distinct = s.distinct ∧ s1.targets = s.targets := by
        cases x <;> simp only [step, bind, Except.bind, pure, Except.pure] at hs <;>
          (repeat' split at hs) <;> first | (cases hs; exact ⟨rfl, rfl, rfl⟩) | cases hs
      exact ⟨h1.1.trans h2.1, h1.2.1.trans h2.2.1, h1.2.2.trans h2.2.2⟩

/-- the round trip for EVERY clause sequence the rules accept -/
theorem select_roundtrip (c : Cfg E) (cte : Option E) (d : Bool) (t : List E) (cs : List (Clause E)) (s : Sel E)
    (h : parseSel c cte d t cs = .ok s) :
    parseSel c cte d t s.clauses = .ok s := by
  have hg : Good c s = true := fold_good c cs _ s (init_good c cte d t) h
  have hh := fold_head c cs _ s h
  have := print_parse c s hg
  simp only [init] at hh
  rw [hh.1, hh.2.1, hh.2.2] at this
  exact this

end MindsVerif.SelectSkel
