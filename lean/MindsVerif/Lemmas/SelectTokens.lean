import MindsVerif.Lemmas.SelectCompose
/-! Token level of the SELECT skeleton (the glue G1 made explicit).
A printed SELECT tail is a token list: clause keywords, commas and *payload tokens* (anything that is neither a clause
keyword nor a top-level comma; a parenthesised group is one payload token — the LR parser has reduced it before it
returns to the clause level).  `printTks` is the token sequence `Select.get_string` emits for a clause list whose
payloads are token lists; `splitTks` cuts a token list at the clause keywords and commas.  For every clause list with
non-empty payloads `splitTks (printTks cs) = some cs`: the printed text determines its clauses.  What remains of G1 is
that the LALR parser cuts where `splitTks` cuts, i.e. that no payload token is taken for a clause keyword and vice
versa (C04 Φ4 reserved words; the OFFSET-as-alias hole was exactly a violation of this). -/
namespace MindsVerif.SelectSkel

inductive Kw where
  | from_ | where_ | groupBy | having | orderBy | limit | offset | forUpdate | usng
  deriving DecidableEq, Repr

inductive Tk (P : Type) where
  | kw (k : Kw)
  | comma
  | pay (p : P)
  deriving DecidableEq, Repr

variable {P : Type}

def payTks (e : List P) : List (Tk P) := e.map .pay

/-- `', '.join(items)` -/
def itemsTks : List (List P) → List (Tk P)
  | [] => []
  | [e] => payTks e
  | e :: es => payTks e ++ (.comma :: itemsTks es)

def clauseTks : Clause (List P) → List (Tk P)
  | .from_ e => .kw .from_ :: payTks e
  | .where_ e => .kw .where_ :: payTks e
  | .groupBy e es => .kw .groupBy :: itemsTks (e :: es)
  | .having e => .kw .having :: payTks e
  | .orderBy e es => .kw .orderBy :: itemsTks (e :: es)
  | .limit e => .kw .limit :: payTks e
  | .limit2 a b => .kw .limit :: itemsTks [a, b]
  | .offset e => .kw .offset :: payTks e
  | .forUpdate => [.kw .forUpdate]
  | .usng u => .kw .usng :: payTks u

def printTks (cs : List (Clause (List P))) : List (Tk P) := cs.flatMap clauseTks

/-- read comma-separated items up to the next keyword: finished items (reversed), current item (reversed) -/
def scanItems : List (List P) → List P → List (Tk P) → List (List P) × List (Tk P)
  | items, cur, .pay p :: t => scanItems items (p :: cur) t
  | items, cur, .comma :: t => scanItems (cur.reverse :: items) [] t
  | items, cur, rest => ((cur.reverse :: items).reverse, rest)

def mkClause : Kw → List (List P) → Option (Clause (List P))
  | .from_, [e] => some (.from_ e)
  | .where_, [e] => some (.where_ e)
  | .having, [e] => some (.having e)
  | .offset, [e] => some (.offset e)
  | .usng, [e] => some (.usng e)
  | .limit, [e] => some (.limit e)
  | .limit, [a, b] => some (.limit2 a b)
  | .groupBy, e :: es => some (.groupBy e es)
  | .orderBy, e :: es => some (.orderBy e es)
  | .forUpdate, [[]] => some .forUpdate
  | _, _ => none

def nonEmptyItems (k : Kw) (items : List (List P)) : Bool :=
  k == .forUpdate || items.all (fun e => !e.isEmpty)

def parseClauseTks : List (Tk P) → Option (Clause (List P) × List (Tk P))
  | .kw k :: t =>
    let (items, rest) := scanItems [] [] t
    if nonEmptyItems k items then (mkClause k items).map (·, rest) else none
  | _ => none

def splitFuel : Nat → List (Tk P) → Option (List (Clause (List P)))
  | _, [] => some []
  | 0, _ => none
  | n + 1, toks => match parseClauseTks toks with
    | some (c, rest) => (splitFuel n rest).map (c :: ·)
    | none => none

def splitTks (toks : List (Tk P)) : Option (List (Clause (List P))) := splitFuel (toks.length + 1) toks

/-- the rest starts a new clause (or is empty) -/
def clean : List (Tk P) → Bool
  | [] => true
  | .kw _ :: _ => true
  | _ => false

theorem scan_pay (items : List (List P)) (cur e : List P) (rest : List (Tk P)) :
    scanItems items cur (payTks e ++ rest) = scanItems items (e.reverse ++ cur) rest := by
  induction e generalizing cur with
  | nil => rfl
  | cons p e ih =>
    simp only [payTks, List.map_cons, List.cons_append, scanItems, List.reverse_cons, List.append_assoc]
    exact ih (p :: cur)

theorem scan_stop (items : List (List P)) (cur : List P) (rest : List (Tk P)) (h : clean rest = true) :
    scanItems items cur rest = ((cur.reverse :: items).reverse, rest) := by
  cases rest with
  | nil => rfl
  | cons t r => cases t with
    | kw k => rfl
    | comma => simp [clean] at h
    | pay p => simp [clean] at h

theorem scan_items : ∀ (l : List (List P)) (items : List (List P)) (e : List P) (rest : List (Tk P)),
    clean rest = true →
    scanItems items [] (itemsTks (e :: l) ++ rest) = ((items.reverse ++ (e :: l)), rest)
  | [], items, e, rest, h => by
    simp only [itemsTks]
    rw [scan_pay, scan_stop _ _ _ h]
    simp
  | e2 :: l, items, e, rest, h => by
    have ih := scan_items l (e :: items) e2 rest h
    simp only [itemsTks, List.append_assoc, List.cons_append] at ih ⊢
    rw [scan_pay]
    simp only [scanItems, List.append_nil, List.reverse_reverse]
    rw [ih]
    simp

/-- payloads of a clause are non-empty token lists -/
def clauseOK (c : Clause (List P)) : Bool := c.payloads.all (fun e => !e.isEmpty)

theorem parse_clause (c : Clause (List P)) (rest : List (Tk P)) (hc : clauseOK c = true) (h : clean rest = true) :
    parseClauseTks (clauseTks c ++ rest) = some (c, rest) := by
  cases c with
  | forUpdate =>
    simp only [clauseTks, List.cons_append, List.nil_append, parseClauseTks]
    rw [scan_stop _ _ _ h]
    simp [nonEmptyItems, mkClause]
  | groupBy e es =>
    simp only [clauseTks, List.cons_append, parseClauseTks]
    rw [scan_items es [] e rest h]
    simp only [clauseOK, Clause.payloads] at hc
    simp [nonEmptyItems, mkClause, hc]
  | orderBy e es =>
    simp only [clauseTks, List.cons_append, parseClauseTks]
    rw [scan_items es [] e rest h]
    simp only [clauseOK, Clause.payloads] at hc
    simp [nonEmptyItems, mkClause, hc]
  | limit2 a b =>
    simp only [clauseTks, List.cons_append, parseClauseTks]
    rw [scan_items [b] [] a rest h]
    simp only [clauseOK, Clause.payloads] at hc
    simp [nonEmptyItems, mkClause, hc]
  | from_ e | where_ e | having e | limit e | offset e | usng e =>
    simp only [clauseTks, List.cons_append, parseClauseTks]
    have := scan_items [] [] e rest h
    simp only [itemsTks] at this
    rw [this]
    simp only [clauseOK, Clause.payloads] at hc
    simp [nonEmptyItems, mkClause, hc]

theorem clean_print (cs : List (Clause (List P))) : clean (printTks cs) = true := by
  cases cs with
  | nil => rfl
  | cons c cs => cases c <;> rfl

theorem split_fuel : ∀ (cs : List (Clause (List P))) (n : Nat), cs.length < n →
    cs.all clauseOK = true → splitFuel n (printTks cs) = some cs
  | [], n, hn, _ => by cases n <;> rfl
  | c :: cs, n, hn, hok => by
    cases n with
    | zero => simp at hn
    | succ n =>
      simp only [List.all_cons, Bool.and_eq_true] at hok
      have hp : printTks (c :: cs) = clauseTks c ++ printTks cs := by simp [printTks]
      have hne : printTks (c :: cs) ≠ [] := by rw [hp]; cases c <;> simp [clauseTks]
      rw [hp] at hne ⊢
      cases hl : clauseTks c ++ printTks cs with
      | nil => exact absurd hl hne
      | cons t r =>
        simp only [splitFuel]
        rw [← hl, parse_clause c (printTks cs) hok.1 (clean_print cs)]
        have := split_fuel cs n (by simp at hn; omega) hok.2
        simp [this]

theorem length_print (cs : List (Clause (List P))) : cs.length ≤ (printTks cs).length := by
  induction cs with
  | nil => simp [printTks]
  | cons c cs ih =>
    have hp : printTks (c :: cs) = clauseTks c ++ printTks cs := by simp [printTks]
    rw [hp, List.length_append, List.length_cons]
    have : 1 ≤ (clauseTks c).length := by cases c <;> simp [clauseTks]
    omega

/-- **the printed token sequence determines the clause list** -/
theorem split_print (cs : List (Clause (List P))) (h : cs.all clauseOK = true) :
    splitTks (printTks cs) = some cs :=
  split_fuel cs _ (by have := length_print cs; omega) h

end MindsVerif.SelectSkel

namespace MindsVerif.SelectSkel
variable {P E : Type}

theorem payloads_map (g : E → List P) (c : Clause E) : (Clause.map g c).payloads = c.payloads.map g := by
  cases c <;> simp [Clause.map, Clause.payloads]

/-- statement-level parser on tokens: cut into clauses, parse the payload token lists, run the clause rules -/
def parseSelTks (c : Cfg E) (f : List P → Option E) (cte : Option (List P)) (d : Bool) (ts : List (List P))
    (toks : List (Tk P)) : Option (Sel E) :=
  match splitTks toks with
  | some cs => parseSelT c f cte d ts cs
  | none => none

/-- **L1/L2 ∘ G1-tokens ∘ L3**: a good record whose payloads print to non-empty token lists that parse back (G2)
is recovered from the token sequence of its printed clauses -/
theorem tokens_roundtrip (c : Cfg E) (f : List P → Option E) (g : E → List P) (s : Sel E) (hg : Good c s = true)
    (h : ∀ e ∈ s.payloads, f (g e) = some e) (hne : ∀ e ∈ s.payloads, g e ≠ []) :
    parseSelTks c f (s.cte.map g) s.distinct (s.targets.map g) (printTks (s.clauses.map (Clause.map g))) = some s := by
  have hok : (s.clauses.map (Clause.map g)).all clauseOK = true := by
    simp only [List.all_map, List.all_eq_true]
    intro cl hcl
    simp only [Function.comp, clauseOK, payloads_map, List.all_map, List.all_eq_true]
    intro e he
    have : g e ≠ [] := hne e (by
      simp only [Sel.payloads, List.mem_append, List.mem_flatMap]
      exact Or.inr ⟨cl, hcl, he⟩)
    cases hge : g e with
    | nil => exact absurd hge this
    | cons _ _ => rfl
  unfold parseSelTks
  rw [split_print _ hok]
  exact compose_roundtrip c f g s hg h

end MindsVerif.SelectSkel
