import MindsVerif.Model.SemAgg
import MindsVerif.Lemmas.SemPlan3
/-! Select lists with aggregates: the recogniser finds an aggregate at any depth; LIMIT commutes with the select list exactly
in the row-wise (aggregate-free) case; the two-table fragment with a select list is planned correctly. -/
set_option linter.unusedSimpArgs false
namespace MindsVerif.Sem

/-! ### the recogniser -/

theorem Tgt.self_mem_subterms (t : Tgt) : t ∈ t.subterms := by
  cases t <;> simp [Tgt.subterms]

/-- `hasAgg` = some sub-term (at any depth) is an aggregate call -/
theorem Tgt.hasAgg_iff_subterm (t : Tgt) : t.hasAgg = true ↔ ∃ s ∈ t.subterms, s.topAgg = true := by
  induction t with
  | star => simp [Tgt.hasAgg, Tgt.subterms, Tgt.topAgg]
  | col s c => simp [Tgt.hasAgg, Tgt.subterms, Tgt.topAgg]
  | const v => simp [Tgt.hasAgg, Tgt.subterms, Tgt.topAgg]
  | agg f a _ =>
    simp only [Tgt.hasAgg, Tgt.subterms, true_iff]
    exact ⟨_, List.mem_cons_self, rfl⟩
  | fn1 a ih =>
    simp only [Tgt.hasAgg, Tgt.subterms, List.mem_cons, exists_eq_or_imp, Tgt.topAgg, ih]
    simp
  | cast a ih =>
    simp only [Tgt.hasAgg, Tgt.subterms, List.mem_cons, exists_eq_or_imp, Tgt.topAgg, ih]
    simp
  | fn2 a b iha ihb =>
    simp only [Tgt.hasAgg, Tgt.subterms, List.mem_cons, List.mem_append, exists_eq_or_imp, Tgt.topAgg,
      Bool.or_eq_true, iha, ihb]
    constructor
    · rintro (⟨s, hs, h⟩ | ⟨s, hs, h⟩)
      · exact Or.inr ⟨s, Or.inl hs, h⟩
      · exact Or.inr ⟨s, Or.inr hs, h⟩
    · rintro (h | ⟨s, hs | hs, h⟩)
      · simp at h
      · exact Or.inl ⟨s, hs, h⟩
      · exact Or.inr ⟨s, hs, h⟩
  | arith o a b iha ihb =>
    simp only [Tgt.hasAgg, Tgt.subterms, List.mem_cons, List.mem_append, exists_eq_or_imp, Tgt.topAgg,
      Bool.or_eq_true, iha, ihb]
    constructor
    · rintro (⟨s, hs, h⟩ | ⟨s, hs, h⟩)
      · exact Or.inr ⟨s, Or.inl hs, h⟩
      · exact Or.inr ⟨s, Or.inr hs, h⟩
    · rintro (h | ⟨s, hs | hs, h⟩)
      · simp at h
      · exact Or.inl ⟨s, hs, h⟩
      · exact Or.inr ⟨s, hs, h⟩
  | cmp o a b iha ihb =>
    simp only [Tgt.hasAgg, Tgt.subterms, List.mem_cons, List.mem_append, exists_eq_or_imp, Tgt.topAgg,
      Bool.or_eq_true, iha, ihb]
    constructor
    · rintro (⟨s, hs, h⟩ | ⟨s, hs, h⟩)
      · exact Or.inr ⟨s, Or.inl hs, h⟩
      · exact Or.inr ⟨s, Or.inr hs, h⟩
    · rintro (h | ⟨s, hs | hs, h⟩)
      · simp at h
      · exact Or.inl ⟨s, hs, h⟩
      · exact Or.inr ⟨s, hs, h⟩
  | case c t e ihc iht ihe =>
    simp only [Tgt.hasAgg, Tgt.subterms, List.mem_cons, List.mem_append, exists_eq_or_imp, Tgt.topAgg,
      Bool.or_eq_true, ihc, iht, ihe]
    constructor
    · rintro ((⟨s, hs, h⟩ | ⟨s, hs, h⟩) | ⟨s, hs, h⟩)
      · exact Or.inr ⟨s, Or.inl (Or.inl hs), h⟩
      · exact Or.inr ⟨s, Or.inl (Or.inr hs), h⟩
      · exact Or.inr ⟨s, Or.inr hs, h⟩
    · rintro (h | ⟨s, (hs | hs) | hs, h⟩)
      · simp at h
      · exact Or.inl (Or.inl ⟨s, hs, h⟩)
      · exact Or.inl (Or.inr ⟨s, hs, h⟩)
      · exact Or.inr ⟨s, hs, h⟩

/-- the shallow test is sound but not complete -/
theorem Tgt.hasAgg_of_topAgg (t : Tgt) (h : t.topAgg = true) : t.hasAgg = true := by
  cases t <;> simp_all [Tgt.topAgg, Tgt.hasAgg]

theorem selHasAgg_of_selTopAgg (ts : List Tgt) (h : selTopAgg ts = true) : selHasAgg ts = true := by
  simp only [selTopAgg, selHasAgg, List.any_eq_true] at *
  obtain ⟨t, ht, h⟩ := h
  exact ⟨t, ht, t.hasAgg_of_topAgg h⟩

/-! ### LIMIT and the select list -/

theorem limitOf_map {α β : Type} (f : α → β) (n : Option Nat) (rows : List α) :
    limitOf n (rows.map f) = (limitOf n rows).map f := by
  cases n <;> simp [limitOf, List.map_take]

/-- without an aggregate the select list is evaluated row by row, so LIMIT may be applied before it -/
theorem selectRows_limit_noagg (ts : List Tgt) (h : selHasAgg ts = false) (n : Option Nat)
    (rows : List (TRow × TRow)) :
    limitOf n (selectRows ts rows) = selectRows ts (limitOf n rows) := by
  simp [selectRows, h, limitOf_map]

/-- LIMIT n below a LEFT join, select list and LIMIT n on top: row-preserving when no aggregate occurs anywhere -/
theorem limit_left_select_noagg {α β : Type} (ts : List Tgt) (h : selHasAgg ts = false)
    (on : α → β → Bool) (mk : α → β → TRow × TRow) (nr : β) (n : Nat) (L : List α) (R : List β) :
    limitOf (some n) (selectRows ts (leftJoin on mk nr (L.take n) R))
      = limitOf (some n) (selectRows ts (leftJoin on mk nr L R)) := by
  rw [selectRows_limit_noagg ts h, selectRows_limit_noagg ts h]
  show selectRows ts ((leftJoin on mk nr (L.take n) R).take n) = selectRows ts ((leftJoin on mk nr L R).take n)
  rw [limit_left_join on mk nr n L R]

/-! ### the fragment with a select list -/

theorem plan_limit (q : Q2) : (plan q).limit = q.limit := rfl

/-- an aggregated query (aggregate at any depth) never gets LIMIT in its first fetch -/
theorem planA_limit0_none_of_agg (q : QA) (h : selHasAgg q.targets = true) : (planA q).limit0 = none := by
  simp [planA, plan, QA.toQ2, h, checkUseLimit]

/-- … i.e. LIMIT in the first fetch only if no aggregate occurs anywhere in the select list -/
theorem planA_limit0_some_only_if_noagg (q : QA) (h : (planA q).limit0.isSome = true) : selHasAgg q.targets = false := by
  cases hs : selHasAgg q.targets with
  | false => rfl
  | true => rw [planA_limit0_none_of_agg q hs] at h; simp at h

/-- rows reaching the outer QueryStep when nothing is limited in the first fetch -/
theorem core_rows (q : Q2) (db : DB) :
    execPlan { plan q with limit0 := none, limit := none } db = evalQuery { q with limit := none } db := by
  have h := plan2_sound { q with limit := none } db (by simp [planSound, limitSound, plan])
  have hp : plan { q with limit := none } = { plan q with limit0 := none, limit := none } := by
    simp [plan]
  rw [hp] at h
  exact h

theorem execPlan_limit_split (p : Plan2) (db : DB) :
    limitOf p.limit (execPlan { p with limit := none } db) = execPlan p db := by
  simp [execPlan, limitOf]

theorem evalQuery_limit_split (q : Q2) (db : DB) :
    limitOf q.limit (evalQuery { q with limit := none } db) = evalQuery q db := by
  simp [evalQuery, limitOf]

/-- **fragment theorem with a select list**: under the decidable side condition of `plan2_sound` the plan returns the rows of
the query, whether the select list is row-wise or aggregated (aggregate calls at any depth) -/
theorem planA_sound (q : QA) (db : DB) (h : planSound q.toQ2 = true) :
    execPlanA (planA q) q.targets db = evalQueryA q db := by
  cases hs : selHasAgg q.targets with
  | true =>
    have h0 : (plan q.toQ2).limit0 = none := planA_limit0_none_of_agg q hs
    have hp : ({ plan q.toQ2 with limit := none } : Plan2) = { plan q.toQ2 with limit0 := none, limit := none } := by
      rw [← h0]
    unfold execPlanA evalQueryA planA
    rw [hp, core_rows q.toQ2 db]
    rfl
  | false =>
    unfold execPlanA evalQueryA planA
    rw [selectRows_limit_noagg _ hs, selectRows_limit_noagg _ hs, execPlan_limit_split]
    have he := evalQuery_limit_split q.toQ2 db
    rw [show q.toQ2.limit = q.limit from rfl] at he
    rw [he, plan2_sound q.toQ2 db h]

/-! ### api integrations -/

theorem limitOf_idem {α : Type} (n : Option Nat) (rows : List α) : limitOf n (limitOf n rows) = limitOf n rows := by
  cases n <;> simp [limitOf, List.take_take]

/-- the split plan of `plan_api_db_select` returns the rows of the query -/
theorem api_sound (ts : List Tgt) (n : Option Nat) (T : List TRow) :
    execApi (apiPushLimit ts) ts n T = evalApi ts n T := by
  cases hs : selHasAgg ts with
  | true => simp [execApi, evalApi, apiPushLimit, hs]
  | false =>
    simp only [execApi, evalApi, apiPushLimit, hs, Bool.not_false, if_true]
    rw [selectRows_limit_noagg ts hs, selectRows_limit_noagg ts hs]
    congr 1
    simp only [asPairs, ← limitOf_map, limitOf_idem]

end MindsVerif.Sem
