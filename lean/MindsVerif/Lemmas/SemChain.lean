import MindsVerif.Lemmas.SemPlan3
/-! Left-deep chains of three tables: component theorems (the planner restricts the fetch of table 3 by the DISTINCT keys
of the *fetch* of an earlier table, and pushes LIMIT into the fetch of table 1 when the later joins are LEFT). -/
set_option linter.unusedSimpArgs false
namespace MindsVerif.Sem

section generic
variable {α β γ δ ε : Type}

theorem flatMap_ne_nil_of {f : α → List γ} (hf : ∀ a, f a ≠ []) (g : γ → List ε) (hg : ∀ c, g c ≠ []) (a : α) :
    (f a).flatMap g ≠ [] := by
  cases hfa : f a with
  | nil => exact absurd hfa (hf a)
  | cons c cs =>
    simp only [List.flatMap_cons]
    intro h
    have := List.append_eq_nil_iff.mp h
    exact hg c this.1

/-- LIMIT n pushed into the first table of `(L LEFT JOIN R1) LEFT JOIN R2` -/
theorem limit_left_left_join (on1 : α → β → Bool) (mk1 : α → β → γ) (nr1 : β)
    (on2 : γ → δ → Bool) (mk2 : γ → δ → ε) (nr2 : δ) (n : Nat) (L : List α) (R1 : List β) (R2 : List δ) :
    (leftJoin on2 mk2 nr2 (leftJoin on1 mk1 nr1 (L.take n) R1) R2).take n
      = (leftJoin on2 mk2 nr2 (leftJoin on1 mk1 nr1 L R1) R2).take n := by
  unfold leftJoin
  rw [List.flatMap_assoc, List.flatMap_assoc]
  exact take_flatMap_take _
    (flatMap_ne_nil_of (leftRows_ne_nil on1 mk1 nr1 R1) _ (leftRows_ne_nil on2 mk2 nr2 R2)) L n n (Nat.le_refl n)

/-- the IN filter of the THIRD table is computed from the fetch `F` of an earlier table, not from the join result:
sound for inner / left joins as long as every joined row carries (in `proj`) a row of `F` — or a NULL-padded one, whose
key is NULL and never satisfies ON -/
theorem third_table_restrict_inner (on : γ → δ → Bool) (mk : γ → δ → ε) (s : δ → Bool) (J : List γ) (R : List δ)
    (h : ∀ x ∈ J, ∀ r, on x r = true → s r = true) :
    innerJoin on mk J (R.filter s) = innerJoin on mk J R :=
  innerJoin_restrict on mk s J R h

theorem third_table_restrict_left (on : γ → δ → Bool) (mk : γ → δ → ε) (nr : δ) (s : δ → Bool) (J : List γ) (R : List δ)
    (h : ∀ x ∈ J, ∀ r, on x r = true → s r = true) :
    leftJoin on mk nr J (R.filter s) = leftJoin on mk nr J R :=
  leftJoin_restrict on mk nr s J R h

end generic

/-- instance for rows of the fragment: `J` = result of joining fetch `F` with something (pairs whose first component is
in `F` or is an all-NULL row), ON of the third table = `first.c0 = third.c1` -/
theorem third_table_semi_ok (F : List TRow) (n c0 c1 : Nat) (J : List (TRow × TRow))
    (hJ : ∀ x ∈ J, x.1 ∈ F ∨ x.1 = nullRow n) :
    ∀ x ∈ J, ∀ r : TRow, (cmpVal .eq (x.1.col c0) (r.col c1) == .t) = true →
      (sqlIn (r.col c1) (distinct (F.map fun l => l.col c0)) == .t) = true := by
  intro x hx r hon
  have hk := cmpVal_eq_t _ _ hon
  rcases hJ x hx with hF | hN
  · have hin : sqlIn (r.col c1) (distinct (F.map fun l => l.col c0)) = .t := by
      rw [sqlIn_true_iff]
      refine ⟨hk.2, ?_⟩
      rw [mem_distinct, hk.1]
      exact List.mem_map_of_mem (f := fun l => l.col c0) hF
    simp [hin]
  · rw [hN, nullRow_col] at hk
    exact absurd hk.1 hk.2

end MindsVerif.Sem
