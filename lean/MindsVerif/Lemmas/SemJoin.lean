import MindsVerif.Model.Sem
/-! Helper lemmas for C08: list facts, DISTINCT, `IN`, join congruences, filter pushdown, limit pushdown. -/
set_option linter.unusedSimpArgs false
namespace MindsVerif.Sem

/-! ### list facts (proved directly, by induction) -/

theorem filter_filter_of_imp {α : Type} (p q : α → Bool) (h : ∀ a, p a = true → q a = true) (l : List α) :
    (l.filter q).filter p = l.filter p := by
  induction l with
  | nil => rfl
  | cons a l ih =>
    by_cases hp : p a = true
    · have hq := h a hp
      simp [List.filter_cons, hp, hq, ih]
    · by_cases hq : q a = true
      · simp [List.filter_cons, hp, hq, ih]
      · simp [List.filter_cons, hp, hq, ih]

theorem filter_comm' {α : Type} (p q : α → Bool) (l : List α) :
    (l.filter q).filter p = (l.filter p).filter q := by
  induction l with
  | nil => rfl
  | cons a l ih =>
    by_cases hp : p a = true <;> by_cases hq : q a = true <;> simp [List.filter_cons, hp, hq, ih]

theorem flatMap_congr_mem {α β : Type} (f g : α → List β) (L : List α) (h : ∀ l ∈ L, f l = g l) :
    L.flatMap f = L.flatMap g := by
  induction L with
  | nil => rfl
  | cons a L ih =>
    simp only [List.flatMap_cons]
    rw [h a (List.mem_cons_self), ih (fun l hl => h l (List.mem_cons_of_mem _ hl))]

theorem filter_flatMap' {α β : Type} (f : α → List β) (w : β → Bool) (L : List α) :
    (L.flatMap f).filter w = L.flatMap (fun l => (f l).filter w) := by
  induction L with
  | nil => rfl
  | cons a L ih => simp only [List.flatMap_cons, List.filter_append, ih]

/-! ### DISTINCT and IN -/

theorem mem_distinct (v : Val) (xs : List Val) : v ∈ distinct xs ↔ v ∈ xs := by
  induction xs with
  | nil => simp [distinct]
  | cons x xs ih =>
    simp only [distinct, List.mem_cons, List.mem_filter, ih]
    constructor
    · rintro (h | ⟨h, _⟩)
      · exact Or.inl h
      · exact Or.inr h
    · intro h
      by_cases hx : v = x
      · exact Or.inl hx
      · rcases h with h | h
        · exact Or.inl h
        · refine Or.inr ⟨h, ?_⟩
          simp [hx]

theorem sqlIn_true_iff (v : Val) (vs : List Val) : sqlIn v vs = .t ↔ v ≠ .null ∧ v ∈ vs := by
  unfold sqlIn
  by_cases h1 : v = .null
  · simp [h1]
  · by_cases h2 : v ∈ vs
    · simp [h1, h2]
    · by_cases h3 : Val.null ∈ vs <;> simp [h1, h2, h3]

theorem semi_of_match (cL cR : Row → Val) (L : List Row) (l r : Row) (hl : l ∈ L)
    (h : cR r = cL l ∧ cR r ≠ .null) : semi cR (distinct (L.map cL)) r = true := by
  unfold semi
  have : sqlIn (cR r) (distinct (L.map cL)) = .t := by
    rw [sqlIn_true_iff]
    refine ⟨h.2, ?_⟩
    rw [mem_distinct, h.1]
    exact List.mem_map_of_mem hl
  simp [this]

/-! ### T8.1 semi-join reduction (generic version: any restriction `s` of the right table that keeps every partner
of every left row) -/

section generic
variable {α β γ : Type}

theorem innerJoin_restrict (on : α → β → Bool) (mk : α → β → γ) (s : β → Bool) (L : List α) (R : List β)
    (h : ∀ l ∈ L, ∀ r, on l r = true → s r = true) :
    innerJoin on mk L (R.filter s) = innerJoin on mk L R := by
  unfold innerJoin
  apply flatMap_congr_mem
  intro l hl
  rw [filter_filter_of_imp (on l) s (h l hl)]

theorem leftJoin_restrict (on : α → β → Bool) (mk : α → β → γ) (nr : β) (s : β → Bool) (L : List α) (R : List β)
    (h : ∀ l ∈ L, ∀ r, on l r = true → s r = true) :
    leftJoin on mk nr L (R.filter s) = leftJoin on mk nr L R := by
  unfold leftJoin
  apply flatMap_congr_mem
  intro l hl
  unfold leftRows
  rw [filter_filter_of_imp (on l) s (h l hl)]

/-! ### T8.2 pushing a filter that the outer WHERE implies -/

theorem map_filter_implied (mk : α → β → γ) (w : γ → Bool) (p : β → Bool) (l : α)
    (h : ∀ r, w (mk l r) = true → p r = true) (M : List β) :
    ((M.filter p).map (mk l)).filter w = (M.map (mk l)).filter w := by
  induction M with
  | nil => rfl
  | cons r M ih =>
    by_cases hp : p r = true
    · simp [List.filter_cons, hp, ih]
    · have hw : ¬ w (mk l r) = true := fun hw => hp (h r hw)
      simp [List.filter_cons, hp, hw, ih]

/-- inner join, filter pushed into the RIGHT operand -/
theorem push_right_inner (on : α → β → Bool) (mk : α → β → γ) (w : γ → Bool) (p : β → Bool)
    (h : ∀ l r, w (mk l r) = true → p r = true) (L : List α) (R : List β) :
    (innerJoin on mk L (R.filter p)).filter w = (innerJoin on mk L R).filter w := by
  unfold innerJoin
  rw [filter_flatMap', filter_flatMap']
  apply flatMap_congr_mem
  intro l _
  rw [filter_comm' (on l) p R]
  exact map_filter_implied mk w p l (h l) _

theorem filter_rows_none (mk : α → β → γ) (w : γ → Bool) (l : α) (M : List β)
    (h : ∀ r, w (mk l r) = false) : (M.map (mk l)).filter w = [] := by
  induction M with
  | nil => rfl
  | cons r M ih => simp [List.filter_cons, h r, ih]

/-- inner join, filter pushed into the LEFT operand -/
theorem push_left_inner (on : α → β → Bool) (mk : α → β → γ) (w : γ → Bool) (p : α → Bool)
    (h : ∀ l r, w (mk l r) = true → p l = true) (L : List α) (R : List β) :
    (innerJoin on mk (L.filter p) R).filter w = (innerJoin on mk L R).filter w := by
  unfold innerJoin
  induction L with
  | nil => rfl
  | cons l L ih =>
    by_cases hp : p l = true
    · simp only [List.filter_cons, hp, if_true, List.flatMap_cons, List.filter_append, ih]
    · have hw : ∀ r, w (mk l r) = false := by
        intro r
        cases hwr : w (mk l r) with
        | false => rfl
        | true => exact absurd (h l r hwr) hp
      simp only [List.filter_cons, hp, List.flatMap_cons, List.filter_append,
        filter_rows_none mk w l _ hw, List.nil_append]
      simpa using ih

/-- LEFT join, filter pushed into the LEFT (row-preserving) operand -/
theorem push_left_left (on : α → β → Bool) (mk : α → β → γ) (nr : β) (w : γ → Bool) (p : α → Bool)
    (h : ∀ l r, w (mk l r) = true → p l = true) (L : List α) (R : List β) :
    (leftJoin on mk nr (L.filter p) R).filter w = (leftJoin on mk nr L R).filter w := by
  unfold leftJoin
  induction L with
  | nil => rfl
  | cons l L ih =>
    by_cases hp : p l = true
    · simp only [List.filter_cons, hp, if_true, List.flatMap_cons, List.filter_append, ih]
    · have hw : ∀ r, w (mk l r) = false := by
        intro r
        cases hwr : w (mk l r) with
        | false => rfl
        | true => exact absurd (h l r hwr) hp
      have hnone : (leftRows on mk nr R l).filter w = [] := by
        unfold leftRows
        split
        · simp [List.filter_cons, hw nr]
        · exact filter_rows_none mk w l _ hw
      simp only [List.filter_cons, hp, List.flatMap_cons, List.filter_append, hnone, List.nil_append]
      simpa using ih

/-- LEFT join, filter pushed into the RIGHT (null-supplying) operand: needs, besides implication, that the pushed
predicate rejects the all-NULL row -/
theorem push_right_left (on : α → β → Bool) (mk : α → β → γ) (nr : β) (w : γ → Bool) (p : β → Bool)
    (h : ∀ l r, w (mk l r) = true → p r = true) (hn : p nr = false) (L : List α) (R : List β) :
    (leftJoin on mk nr L (R.filter p)).filter w = (leftJoin on mk nr L R).filter w := by
  unfold leftJoin
  rw [filter_flatMap', filter_flatMap']
  apply flatMap_congr_mem
  intro l _
  have hwn : w (mk l nr) = false := by
    cases hwr : w (mk l nr) with
    | false => rfl
    | true => rw [h l nr hwr] at hn; exact absurd hn (by simp)
  have hB := map_filter_implied mk w p l (h l) (R.filter (on l))
  unfold leftRows
  rw [filter_comm' (on l) p R]
  by_cases h1 : ((R.filter (on l)).filter p).isEmpty = true
  · rw [if_pos h1]
    have h1' : (R.filter (on l)).filter p = [] := List.isEmpty_iff.mp h1
    by_cases h2 : (R.filter (on l)).isEmpty = true
    · rw [if_pos h2]
    · rw [if_neg h2, ← hB, h1']
      simp [List.filter_cons, hwn]
  · rw [if_neg h1]
    have h2 : ¬ (R.filter (on l)).isEmpty = true := by
      intro h2
      have : R.filter (on l) = [] := List.isEmpty_iff.mp h2
      rw [this] at h1
      simp at h1
    rw [if_neg h2]
    exact hB

/-! ### T8.3 LIMIT below a join whose every left row yields at least one row -/

theorem take_flatMap_take (f : α → List γ) (hf : ∀ l, f l ≠ []) :
    ∀ (L : List α) (m k : Nat), m ≤ k → ((L.take k).flatMap f).take m = (L.flatMap f).take m := by
  intro L
  induction L with
  | nil => intro m k _; simp
  | cons l L ih =>
    intro m k hmk
    cases k with
    | zero =>
      have : m = 0 := Nat.le_zero.mp hmk
      subst this
      simp
    | succ k =>
      simp only [List.take_succ_cons, List.flatMap_cons, List.take_append]
      congr 1
      have hlen : 1 ≤ (f l).length := by
        cases hfl : f l with
        | nil => exact absurd hfl (hf l)
        | cons a as => simp
      apply ih
      omega

theorem leftRows_ne_nil (on : α → β → Bool) (mk : α → β → γ) (nr : β) (R : List β) (l : α) :
    leftRows on mk nr R l ≠ [] := by
  unfold leftRows
  split
  · simp
  · rename_i h
    intro hm
    apply h
    have : R.filter (on l) = [] := by
      cases hR : R.filter (on l) with
      | nil => rfl
      | cons a as => rw [hR] at hm; simp at hm
    simp [this]

/-- LIMIT n pushed into the left operand of a LEFT join (row order of the left operand is kept by the join) -/
theorem limit_left_join (on : α → β → Bool) (mk : α → β → γ) (nr : β) (n : Nat) (L : List α) (R : List β) :
    (leftJoin on mk nr (L.take n) R).take n = (leftJoin on mk nr L R).take n := by
  unfold leftJoin
  exact take_flatMap_take _ (leftRows_ne_nil on mk nr R) L n n (Nat.le_refl n)

end generic

/-! ### model of `check_query_conditions`: what it pushes is a top-level conjunct, hence implied by WHERE -/

theorem TV.and_eq_t (a b : TV) : a.and b = .t ↔ a = .t ∧ b = .t := by
  cases a <;> cases b <;> simp [TV.and]

theorem collected_implied (w : Expr) (l r : TRow)
    (hw : w.holds l r = true) : ∀ e ∈ w.collected, e.holds l r = true := by
  induction w with
  | cmpC op s c k => intro e he; simp [Expr.collected] at he; subst he; exact hw
  | cmpCC op c0 c1 => intro e he; simp [Expr.collected] at he
  | isNull s c => intro e he; simp [Expr.collected] at he; subst he; exact hw
  | and a b iha ihb =>
    have hab : a.eval l r = .t ∧ b.eval l r = .t := by
      have : (a.eval l r).and (b.eval l r) = .t := by
        simpa [Expr.holds, Expr.eval] using hw
      exact (TV.and_eq_t _ _).mp this
    intro e he
    simp only [Expr.collected, List.mem_append] at he
    rcases he with he | he
    · exact iha (by simp [Expr.holds, hab.1]) e he
    · exact ihb (by simp [Expr.holds, hab.2]) e he
  | or a b _ _ => intro e he; simp [Expr.collected] at he
  | not a _ => intro e he; simp [Expr.collected] at he

/-- a pushed comparison on side 1 does not look at the left row -/
theorem holds_side1 (e : Expr) (he : e.side = 1) (l l' r : TRow) : e.holds l r = e.holds l' r := by
  cases e <;> simp_all [Expr.side, Expr.holds, Expr.eval, colOf]

theorem holds_side0 (e : Expr) (he : e.side = 0) (l r r' : TRow) : e.holds l r = e.holds l r' := by
  cases e <;> simp_all [Expr.side, Expr.holds, Expr.eval, colOf]

end MindsVerif.Sem
