import MindsVerif.Lemmas.SemJoin
/-! When ARE the LIMIT / OFFSET pushdowns that the test-suite pins (below an INNER join; OFFSET moved into the fetch)
sound?  Exactly-one / at-least-one partner conditions. -/
set_option linter.unusedSimpArgs false
namespace MindsVerif.Sem
section generic
variable {α β γ : Type}

/-- membership version of `take_flatMap_take` -/
theorem take_flatMap_take_mem (f : α → List γ) :
    ∀ (L : List α), (∀ l ∈ L, f l ≠ []) → ∀ (m k : Nat), m ≤ k →
      ((L.take k).flatMap f).take m = (L.flatMap f).take m := by
  intro L
  induction L with
  | nil => intro _ m k _; simp
  | cons l L ih =>
    intro hf m k hmk
    cases k with
    | zero =>
      have : m = 0 := Nat.le_zero.mp hmk
      subst this
      simp
    | succ k =>
      simp only [List.take_succ_cons, List.flatMap_cons, List.take_append]
      congr 1
      have hlen : 1 ≤ (f l).length := by
        cases hfl : f l with
        | nil => exact absurd hfl (hf l List.mem_cons_self)
        | cons a as => simp
      apply ih (fun x hx => hf x (List.mem_cons_of_mem _ hx))
      omega

/-- if every element yields exactly one row, `flatMap` commutes with `take` and `drop` -/
theorem take_flatMap_one (f : α → List γ) : ∀ (L : List α), (∀ l ∈ L, (f l).length = 1) → ∀ n,
    (L.flatMap f).take n = (L.take n).flatMap f := by
  intro L
  induction L with
  | nil => intro _ n; simp
  | cons l L ih =>
    intro hf n
    cases n with
    | zero => simp
    | succ n =>
      have h1 := hf l List.mem_cons_self
      simp only [List.take_succ_cons, List.flatMap_cons, List.take_append, h1]
      rw [List.take_of_length_le (by omega)]
      congr 1
      simpa using ih (fun x hx => hf x (List.mem_cons_of_mem _ hx)) n

theorem drop_flatMap_one (f : α → List γ) : ∀ (L : List α), (∀ l ∈ L, (f l).length = 1) → ∀ k,
    (L.flatMap f).drop k = (L.drop k).flatMap f := by
  intro L
  induction L with
  | nil => intro _ k; simp
  | cons l L ih =>
    intro hf k
    cases k with
    | zero => simp
    | succ k =>
      have h1 := hf l List.mem_cons_self
      simp only [List.drop_succ_cons, List.flatMap_cons, List.drop_append, h1]
      rw [List.drop_of_length_le (by omega)]
      simpa using ih (fun x hx => hf x (List.mem_cons_of_mem _ hx)) k

/-- LIMIT n below an INNER join is sound if the join loses no left row (every left row has at least one partner) -/
theorem limit_inner_total (on : α → β → Bool) (mk : α → β → γ) (n : Nat) (L : List α) (R : List β)
    (h : ∀ l ∈ L, R.filter (on l) ≠ []) :
    (innerJoin on mk (L.take n) R).take n = (innerJoin on mk L R).take n := by
  unfold innerJoin
  apply take_flatMap_take_mem _ L _ n n (Nat.le_refl n)
  intro l hl hm
  exact h l hl (List.map_eq_nil_iff.mp hm)

/-- LIMIT n OFFSET k moved into the fetch below an INNER join is sound if every left row has exactly one partner
(the join is a one-to-one extension of the left table, e.g. a foreign key to a unique key) -/
theorem limit_offset_inner_one (on : α → β → Bool) (mk : α → β → γ) (n k : Nat) (L : List α) (R : List β)
    (h : ∀ l ∈ L, (R.filter (on l)).length = 1) :
    innerJoin on mk ((L.drop k).take n) R = ((innerJoin on mk L R).drop k).take n := by
  unfold innerJoin
  have h1 : ∀ l ∈ L, ((R.filter (on l)).map (mk l)).length = 1 := by
    intro l hl; simpa using h l hl
  rw [drop_flatMap_one _ L h1 k,
    take_flatMap_one _ (L.drop k) (fun l hl => h1 l (List.mem_of_mem_drop hl)) n]

/-- … and below a LEFT join if every left row has at most one partner -/
theorem limit_offset_left_atmost_one (on : α → β → Bool) (mk : α → β → γ) (nr : β) (n k : Nat) (L : List α) (R : List β)
    (h : ∀ l ∈ L, (R.filter (on l)).length ≤ 1) :
    leftJoin on mk nr ((L.drop k).take n) R = ((leftJoin on mk nr L R).drop k).take n := by
  unfold leftJoin
  have h1 : ∀ l ∈ L, (leftRows on mk nr R l).length = 1 := by
    intro l hl
    unfold leftRows
    split
    · rfl
    · rename_i hne
      have hle := h l hl
      have : (R.filter (on l)).length ≠ 0 := by
        intro h0
        exact hne (by simp [List.length_eq_zero_iff.mp h0])
      simp only [List.length_map]
      omega
  rw [drop_flatMap_one _ L h1 k,
    take_flatMap_one _ (L.drop k) (fun l hl => h1 l (List.mem_of_mem_drop hl)) n]

end generic
end MindsVerif.Sem
