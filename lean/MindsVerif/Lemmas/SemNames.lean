import MindsVerif.Model.SemNames
/-! Rebuilding a column from its last part keeps the column for EVERY name; re-parsing the name as a dotted path keeps it
exactly for names without a dot. -/
set_option linter.unusedSimpArgs false
namespace MindsVerif.Sem

theorem splitDots_ne_nil (cs : Name) : splitDots cs ≠ [] := by
  induction cs with
  | nil => simp [splitDots]
  | cons ch cs ih =>
    unfold splitDots
    split
    · simp
    · split <;> simp

/-- no dot: the name is one part -/
theorem splitDots_of_no_dot (cs : Name) (h : '.' ∉ cs) : splitDots cs = [cs] := by
  induction cs with
  | nil => rfl
  | cons ch cs ih =>
    have hc : ch ≠ '.' := fun e => h (e ▸ List.mem_cons_self)
    have hr : '.' ∉ cs := fun e => h (List.mem_cons_of_mem _ e)
    simp [splitDots, hc, ih hr]

/-- a dot: at least two parts -/
theorem splitDots_length_of_dot (cs : Name) (h : '.' ∈ cs) : 2 ≤ (splitDots cs).length := by
  induction cs with
  | nil => simp at h
  | cons ch cs ih =>
    unfold splitDots
    split
    · have := splitDots_ne_nil cs
      cases hs : splitDots cs with
      | nil => exact absurd hs this
      | cons p ps => simp
    · rename_i hc
      have hr : '.' ∈ cs := by
        rcases List.mem_cons.mp h with e | e
        · exact absurd e.symm hc
        · exact e
      have := ih hr
      split
      · rename_i hs; rw [hs] at this; simp at this
      · rename_i p ps hs; rw [hs] at this; simpa using this

theorem splitDots_eq_singleton_iff (cs : Name) : splitDots cs = [cs] ↔ '.' ∉ cs := by
  constructor
  · intro h hd
    have := splitDots_length_of_dot cs hd
    rw [h] at this
    simp at this
  · exact splitDots_of_no_dot cs

/-- the code's rebuild denotes the same column as the qualified original, for every alias and every name -/
theorem resolve_bare_qualified (s : Scope) (n : Name) :
    s.resolve (bareColumn [s.alias, n]) = s.resolve [s.alias, n] := by
  simp [bareColumn, Scope.resolve]

theorem resolve_bare_unqualified (s : Scope) (n : Name) :
    s.resolve (bareColumn [n]) = s.resolve [n] := by
  simp [bareColumn, Scope.resolve]

/-- the re-parsing rebuild coincides with the code's rebuild exactly for names without a dot -/
theorem dotted_eq_bare_iff (t n : Name) : dottedColumn [t, n] = bareColumn [t, n] ↔ '.' ∉ n := by
  simp [dottedColumn, bareColumn, splitDots_eq_singleton_iff]

/-- with the code's rebuild the key columns of the plan are the key columns of the query -/
theorem planKeys_bare (q : QN) (n0 n1 : Name) (hl : q.onL = [q.l.alias, n0]) (hr : q.onR = [q.r.alias, n1]) :
    q.planKeys bareColumn = (q.toQ2).map fun q2 => (q2.c0, q2.c1) := by
  unfold QN.planKeys QN.toQ2
  rw [hl, hr, resolve_bare_qualified, resolve_bare_qualified]
  cases q.l.resolve [q.l.alias, n0] <;> cases q.r.resolve [q.r.alias, n1] <;> rfl

end MindsVerif.Sem
