import MindsVerif.Lemmas.SemJoin
/-! Assembly of the component theorems into `execPlan (plan q) db = evalQuery q db` for the inner-join fragment. -/
set_option linter.unusedSimpArgs false
namespace MindsVerif.Sem

theorem cmpVal_eq_t (a b : Val) (h : (cmpVal .eq a b == .t) = true) : b = a ∧ b ≠ .null := by
  cases a <;> cases b <;> simp_all [cmpVal, TV.ofBool, cmpNN, ordVal]
  · rename_i i j
    by_cases hij : i = j
    · exact hij.symm
    · by_cases h1 : i < j <;> simp [ordOf, hij, h1] at h
  · rename_i s t
    by_cases hst : s = t
    · exact hst.symm
    · by_cases h1 : s < t <;> simp [ordOf, hst, h1] at h

theorem filter_and' {α : Type} (p q : α → Bool) (l : List α) :
    l.filter (fun a => p a && q a) = (l.filter p).filter q := by
  induction l with
  | nil => rfl
  | cons a l ih =>
    by_cases hp : p a = true <;> by_cases hq : q a = true <;> simp [List.filter_cons, hp, hq, ih]

theorem pushedFor_side (side : Nat) (w : Option Expr) : ∀ e ∈ pushedFor side w, e.side = side := by
  intro e he
  cases w with
  | none => simp [pushedFor] at he
  | some w =>
    unfold pushedFor at he
    by_cases ho : w.hasOr = true
    · simp [ho] at he
    · simp only [ho, Bool.false_eq_true, if_false, List.mem_filter, beq_iff_eq] at he
      exact he.2

theorem holdsAll_side1 (es : List Expr) (h : ∀ e ∈ es, e.side = 1) (l l' r : TRow) :
    holdsAll es l r = holdsAll es l' r := by
  unfold holdsAll
  induction es with
  | nil => rfl
  | cons e es ih =>
    simp only [List.all_cons]
    rw [holds_side1 e (h e List.mem_cons_self) l l' r, ih (fun e he => h e (List.mem_cons_of_mem _ he))]

theorem holdsAll_side0 (es : List Expr) (h : ∀ e ∈ es, e.side = 0) (l r r' : TRow) :
    holdsAll es l r = holdsAll es l r' := by
  unfold holdsAll
  induction es with
  | nil => rfl
  | cons e es ih =>
    simp only [List.all_cons]
    rw [holds_side0 e (h e List.mem_cons_self) l r r', ih (fun e he => h e (List.mem_cons_of_mem _ he))]

theorem pushed_of_where (side : Nat) (w : Option Expr) (l r : TRow)
    (hw : whereOf w (l, r) = true) : holdsAll (pushedFor side w) l r = true := by
  cases w with
  | none => simp [pushedFor, holdsAll]
  | some e =>
    unfold pushedFor holdsAll
    by_cases ho : e.hasOr = true
    · simp [ho]
    · have ho' : e.hasOr = false := by simpa using ho
      simp only [ho', Bool.false_eq_true, if_false, List.all_eq_true, List.mem_filter]
      intro x hx
      exact collected_implied e l r (by simpa [whereOf] using hw) x hx.1

end MindsVerif.Sem
