import MindsVerif.Lemmas.SemPlan2
/-! Assembly for LEFT / RIGHT / FULL joins and for LIMIT: `execPlan (plan q) db = evalQuery q db` under `planSound q`. -/
set_option linter.unusedSimpArgs false
namespace MindsVerif.Sem

/-! ### generic facts about outer joins -/
section generic
variable {α β γ : Type}

theorem mem_leftJoin (on : α → β → Bool) (mk : α → β → γ) (nr : β) (L : List α) (R : List β) (x : γ)
    (hx : x ∈ leftJoin on mk nr L R) : ∃ l ∈ L, ∃ r, x = mk l r := by
  unfold leftJoin at hx
  rw [List.mem_flatMap] at hx
  obtain ⟨l, hl, hx⟩ := hx
  refine ⟨l, hl, ?_⟩
  unfold leftRows at hx
  split at hx
  · simp at hx; exact ⟨nr, hx⟩
  · rw [List.mem_map] at hx
    obtain ⟨r, _, hr⟩ := hx
    exact ⟨r, hr.symm⟩

theorem filter_eq_self_of {δ : Type} (p : δ → Bool) (l : List δ) (h : ∀ x ∈ l, p x = true) : l.filter p = l := by
  induction l with
  | nil => rfl
  | cons a l ih =>
    simp [List.filter_cons, h a List.mem_cons_self, ih (fun x hx => h x (List.mem_cons_of_mem _ hx))]

/-- unmatched right rows, right operand restricted by an implied filter -/
theorem unmatched_push_right (on : α → β → Bool) (mk : α → β → γ) (nl : α) (w : γ → Bool) (p : β → Bool)
    (h : ∀ l r, w (mk l r) = true → p r = true) (L : List α) (R : List β) :
    (unmatchedR on mk nl L (R.filter p)).filter w = (unmatchedR on mk nl L R).filter w := by
  unfold unmatchedR
  rw [filter_comm' _ p R]
  exact map_filter_implied mk w p nl (h nl) _

/-- if WHERE can never be TRUE on a row padded with the all-NULL left row, no unmatched right row survives it -/
theorem unmatched_none (on : α → β → Bool) (mk : α → β → γ) (nl : α) (w : γ → Bool)
    (h : ∀ r, w (mk nl r) = false) (L : List α) (R : List β) :
    (unmatchedR on mk nl L R).filter w = [] := by
  unfold unmatchedR
  exact filter_rows_none mk w nl _ h

theorem push_right_right (on : α → β → Bool) (mk : α → β → γ) (nl : α) (w : γ → Bool) (p : β → Bool)
    (h : ∀ l r, w (mk l r) = true → p r = true) (L : List α) (R : List β) :
    (rightJoin on mk nl L (R.filter p)).filter w = (rightJoin on mk nl L R).filter w := by
  unfold rightJoin
  rw [List.filter_append, List.filter_append, push_right_inner on mk w p h, unmatched_push_right on mk nl w p h]

/-- RIGHT join, filter pushed into the LEFT (null-supplying) operand: the filter must reject the all-NULL row -/
theorem push_left_right (on : α → β → Bool) (mk : α → β → γ) (nl : α) (w : γ → Bool) (p : α → Bool)
    (h : ∀ l r, w (mk l r) = true → p l = true) (hn : p nl = false) (L : List α) (R : List β) :
    (rightJoin on mk nl (L.filter p) R).filter w = (rightJoin on mk nl L R).filter w := by
  have hw : ∀ r, w (mk nl r) = false := by
    intro r
    cases hwr : w (mk nl r) with
    | false => rfl
    | true => rw [h nl r hwr] at hn; exact absurd hn (by simp)
  unfold rightJoin
  rw [List.filter_append, List.filter_append, push_left_inner on mk w p h,
    unmatched_none on mk nl w hw, unmatched_none on mk nl w hw]

theorem push_right_full (on : α → β → Bool) (mk : α → β → γ) (nl : α) (nr : β) (w : γ → Bool) (p : β → Bool)
    (h : ∀ l r, w (mk l r) = true → p r = true) (hn : p nr = false) (L : List α) (R : List β) :
    (fullJoin on mk nl nr L (R.filter p)).filter w = (fullJoin on mk nl nr L R).filter w := by
  unfold fullJoin
  rw [List.filter_append, List.filter_append, push_right_left on mk nr w p h hn, unmatched_push_right on mk nl w p h]

theorem push_left_full (on : α → β → Bool) (mk : α → β → γ) (nl : α) (nr : β) (w : γ → Bool) (p : α → Bool)
    (h : ∀ l r, w (mk l r) = true → p l = true) (hn : p nl = false) (L : List α) (R : List β) :
    (fullJoin on mk nl nr (L.filter p) R).filter w = (fullJoin on mk nl nr L R).filter w := by
  have hw : ∀ r, w (mk nl r) = false := by
    intro r
    cases hwr : w (mk nl r) with
    | false => rfl
    | true => rw [h nl r hwr] at hn; exact absurd hn (by simp)
  unfold fullJoin
  rw [List.filter_append, List.filter_append, push_left_left on mk nr w p h,
    unmatched_none on mk nl w hw, unmatched_none on mk nl w hw]

end generic

/-! ### NULL rows and NULL-rejecting pushed filters -/

theorem nullRow_col (n c : Nat) : (nullRow n).col c = .null := by
  unfold nullRow TRow.col
  by_cases h : c < n <;> simp [List.getD, List.getElem?_replicate, h]

theorem nullRejecting_false_right (e : Expr) (he : e.nullRejecting = true) (hs : e.side = 1) (l : TRow) (n : Nat) :
    e.holds l (nullRow n) = false := by
  cases e <;> simp_all [Expr.nullRejecting, Expr.side, Expr.holds, Expr.eval, colOf, nullRow_col, cmpVal]

theorem nullRejecting_false_left (e : Expr) (he : e.nullRejecting = true) (hs : e.side = 0) (r : TRow) (n : Nat) :
    e.holds (nullRow n) r = false := by
  cases e <;> simp_all [Expr.nullRejecting, Expr.side, Expr.holds, Expr.eval, colOf, nullRow_col, cmpVal]

/-- a list of NULL-rejecting filters on one side is either empty (the fetch filter is the identity) or false on the
all-NULL row -/
theorem list_right_null (es : List Expr) (hall : ∀ x ∈ es, x.nullRejecting = true) (hside : ∀ x ∈ es, x.side = 1)
    (n : Nat) : es = [] ∨ holdsAll es [] (nullRow n) = false := by
  cases es with
  | nil => exact Or.inl rfl
  | cons e es =>
    right
    simp [holdsAll, List.all_cons,
      nullRejecting_false_right e (hall e List.mem_cons_self) (hside e List.mem_cons_self) [] n]

theorem list_left_null (es : List Expr) (hall : ∀ x ∈ es, x.nullRejecting = true) (hside : ∀ x ∈ es, x.side = 0)
    (n : Nat) : es = [] ∨ holdsAll es (nullRow n) [] = false := by
  cases es with
  | nil => exact Or.inl rfl
  | cons e es =>
    right
    simp [holdsAll, List.all_cons,
      nullRejecting_false_left e (hall e List.mem_cons_self) (hside e List.mem_cons_self) [] n]

theorem pushedForK_side (k : JoinKind) (side : Nat) (w : Option Expr) : ∀ e ∈ pushedForK k side w, e.side = side :=
  fun e he => pushedFor_side side w e (List.mem_filter.mp he).1

theorem pushedForK_null (k : JoinKind) (side : Nat) (w : Option Expr) (hk : nullableSide k side = true) :
    ∀ e ∈ pushedForK k side w, e.nullRejecting = true := by
  intro e he
  have := (List.mem_filter.mp he).2
  simpa [hk] using this

theorem holdsAll_filter (es : List Expr) (p : Expr → Bool) (l r : TRow) (h : holdsAll es l r = true) :
    holdsAll (es.filter p) l r = true := by
  unfold holdsAll at *
  rw [List.all_eq_true] at *
  intro x hx
  exact h x (List.mem_filter.mp hx).1

theorem filter_true' {δ : Type} (l : List δ) : l.filter (fun _ => true) = l := by
  induction l with
  | nil => rfl
  | cons a l ih => simp [List.filter_cons, ih]

end MindsVerif.Sem

namespace MindsVerif.Sem

/-- the two fetch predicates of the model plan -/
def pL (q : Q2) (l : TRow) : Bool := holdsAll (pushedForK q.kind 0 q.w) l []
def pR (q : Q2) (r : TRow) : Bool := holdsAll (pushedForK q.kind 1 q.w) [] r

theorem where_pL (q : Q2) (l r : TRow) (hw : whereOf q.w (l, r) = true) : pL q l = true := by
  unfold pL
  rw [← holdsAll_side0 _ (pushedForK_side q.kind 0 q.w) l r []]
  exact holdsAll_filter _ _ l r (pushed_of_where 0 q.w l r hw)

theorem where_pR (q : Q2) (l r : TRow) (hw : whereOf q.w (l, r) = true) : pR q r = true := by
  unfold pR
  rw [← holdsAll_side1 _ (pushedForK_side q.kind 1 q.w) l [] r]
  exact holdsAll_filter _ _ l r (pushed_of_where 1 q.w l r hw)

theorem pR_id_or_null (q : Q2) (h : nullableSide q.kind 1 = true) (n : Nat) :
    (∀ R : List TRow, R.filter (pR q) = R) ∨ pR q (nullRow n) = false := by
  rcases list_right_null _ (pushedForK_null q.kind 1 q.w h) (pushedForK_side q.kind 1 q.w) n with h0 | h1
  · left
    intro R
    have : pR q = fun _ => true := by funext r; simp [pR, h0, holdsAll]
    rw [this, filter_true']
  · right; exact h1

theorem pL_id_or_null (q : Q2) (h : nullableSide q.kind 0 = true) (n : Nat) :
    (∀ L : List TRow, L.filter (pL q) = L) ∨ pL q (nullRow n) = false := by
  rcases list_left_null _ (pushedForK_null q.kind 0 q.w h) (pushedForK_side q.kind 0 q.w) n with h0 | h1
  · left
    intro L
    have : pL q = fun _ => true := by funext r; simp [pL, h0, holdsAll]
    rw [this, filter_true']
  · right; exact h1

theorem semi_ok (q : Q2) (F0 : List TRow) : ∀ l ∈ F0, ∀ r, eqOn q.c0 q.c1 l r = true →
    (sqlIn (r.col q.c1) (distinct (F0.map fun l => l.col q.c0)) == .t) = true := by
  intro l hl r hon
  have := cmpVal_eq_t _ _ hon
  have hin : sqlIn (r.col q.c1) (distinct (F0.map fun l => l.col q.c0)) = .t := by
    rw [sqlIn_true_iff]
    refine ⟨this.2, ?_⟩
    rw [mem_distinct, this.1]
    exact List.mem_map_of_mem (f := fun l => l.col q.c0) hl
  simp [hin]

/-- the fetch of the right table as the plan builds it, for an arbitrary left fetch `F0` -/
def fetch1 (q : Q2) (db : DB) (F0 : List TRow) : List TRow :=
  db.t1.filter fun r => pR q r &&
    (!semiAllowed q.kind || sqlIn (r.col q.c1) (distinct (F0.map fun l => l.col q.c0)) == .t)

/-- **core**: whatever sub-list `F0` of rows the left fetch returned, restricting the right fetch by the pushed WHERE
filters and the IN filter does not change join + WHERE (on a null-supplying side the plan keeps only NULL-rejecting filters) -/
theorem core_right (q : Q2) (db : DB) (F0 : List TRow) :
    (joinK q.kind (eqOn q.c0 q.c1) db F0 (fetch1 q db F0)).filter (whereOf q.w)
      = (joinK q.kind (eqOn q.c0 q.c1) db F0 db.t1).filter (whereOf q.w) := by
  unfold fetch1
  cases hk : q.kind with
  | inner =>
    simp only [joinK, semiAllowed, Bool.not_true, Bool.false_or]
    rw [filter_and' (pR q), innerJoin_restrict _ _ _ _ _ (semi_ok q F0)]
    exact push_right_inner _ _ _ _ (where_pR q) _ _
  | left =>
    have hs' : nullableSide q.kind 1 = true := by rw [hk]; rfl
    simp only [joinK, semiAllowed, Bool.not_true, Bool.false_or]
    rw [filter_and' (pR q), leftJoin_restrict _ _ _ _ _ _ (semi_ok q F0)]
    rcases pR_id_or_null q hs' db.n1 with h | h
    · rw [h]
    · exact push_right_left _ _ _ _ _ (where_pR q) h _ _
  | leftOuter =>
    have hs' : nullableSide q.kind 1 = true := by rw [hk]; rfl
    simp only [joinK, semiAllowed, Bool.not_true, Bool.false_or]
    rw [filter_and' (pR q), leftJoin_restrict _ _ _ _ _ _ (semi_ok q F0)]
    rcases pR_id_or_null q hs' db.n1 with h | h
    · rw [h]
    · exact push_right_left _ _ _ _ _ (where_pR q) h _ _
  | right =>
    simp only [joinK, semiAllowed, Bool.not_false, Bool.true_or, Bool.and_true]
    exact push_right_right _ _ _ _ _ (where_pR q) _ _
  | full =>
    have hs' : nullableSide q.kind 1 = true := by rw [hk]; rfl
    simp only [joinK, semiAllowed, Bool.not_false, Bool.true_or, Bool.and_true]
    rcases pR_id_or_null q hs' db.n1 with h | h
    · rw [h]
    · exact push_right_full _ _ _ _ _ _ (where_pR q) h _ _

/-- **core, left operand**: restricting the left fetch by the pushed WHERE filters -/
theorem core_left (q : Q2) (db : DB) (R : List TRow) :
    (joinK q.kind (eqOn q.c0 q.c1) db (db.t0.filter (pL q)) R).filter (whereOf q.w)
      = (joinK q.kind (eqOn q.c0 q.c1) db db.t0 R).filter (whereOf q.w) := by
  cases hk : q.kind with
  | inner => exact push_left_inner _ _ _ _ (where_pL q) _ _
  | left => exact push_left_left _ _ _ _ _ (where_pL q) _ _
  | leftOuter => exact push_left_left _ _ _ _ _ (where_pL q) _ _
  | right =>
    have hs' : nullableSide q.kind 0 = true := by rw [hk]; rfl
    simp only [joinK]
    rcases pL_id_or_null q hs' db.n0 with h | h
    · rw [h]
    · exact push_left_right _ _ _ _ _ (where_pL q) h _ _
  | full =>
    have hs' : nullableSide q.kind 0 = true := by rw [hk]; rfl
    simp only [joinK]
    rcases pL_id_or_null q hs' db.n0 with h | h
    · rw [h]
    · exact push_left_full _ _ _ _ _ _ (where_pL q) h _ _

end MindsVerif.Sem

namespace MindsVerif.Sem

/-! ### WHERE completely evaluated in the first fetch -/

theorem pure_facts (s : Nat) (e : Expr) (h : e.pureConj s = true) :
    e.hasOr = false ∧ (∀ x ∈ e.collected, x.side = s) ∧ ∀ l r, e.holds l r = holdsAll e.collected l r := by
  induction e with
  | cmpC op s' c k =>
    have : s' = s := by simpa [Expr.pureConj] using h
    refine ⟨rfl, ?_, ?_⟩
    · intro x hx; simp [Expr.collected] at hx; subst hx; simpa [Expr.side] using this
    · intro l r; simp [Expr.collected, holdsAll]
  | cmpCC op a b => simp [Expr.pureConj] at h
  | isNull s' c =>
    have : s' = s := by simpa [Expr.pureConj] using h
    refine ⟨rfl, ?_, ?_⟩
    · intro x hx; simp [Expr.collected] at hx; subst hx; simpa [Expr.side] using this
    · intro l r; simp [Expr.collected, holdsAll]
  | and a b iha ihb =>
    simp only [Expr.pureConj, Bool.and_eq_true] at h
    obtain ⟨ha1, ha2, ha3⟩ := iha h.1
    obtain ⟨hb1, hb2, hb3⟩ := ihb h.2
    refine ⟨by simp [Expr.hasOr, ha1, hb1], ?_, ?_⟩
    · intro x hx
      simp only [Expr.collected, List.mem_append] at hx
      rcases hx with hx | hx
      · exact ha2 x hx
      · exact hb2 x hx
    · intro l r
      have h1 := ha3 l r
      have h2 := hb3 l r
      simp only [Expr.holds] at h1 h2 ⊢
      simp only [Expr.collected, holdsAll, List.all_append, Expr.eval] at h1 h2 ⊢
      rw [← h1, ← h2]
      cases a.eval l r <;> cases b.eval l r <;> simp [TV.and]
  | or a b _ _ => simp [Expr.pureConj] at h
  | not a _ => simp [Expr.pureConj] at h

theorem holds_conjuncts (e : Expr) (l r : TRow) : e.holds l r = e.conjuncts.all fun c => c.holds l r := by
  induction e with
  | and a b iha ihb =>
    simp only [Expr.conjuncts, List.all_append, ← iha, ← ihb]
    simp only [Expr.holds, Expr.eval]
    cases a.eval l r <;> cases b.eval l r <;> simp [TV.and]
  | cmpC _ _ _ _ => simp [Expr.conjuncts]
  | cmpCC _ _ _ => simp [Expr.conjuncts]
  | isNull _ _ => simp [Expr.conjuncts]
  | or _ _ _ _ => simp [Expr.conjuncts]
  | not _ _ => simp [Expr.conjuncts]

/-- when the planner's test `whereApplied` holds, WHERE on a joined row is exactly the filter of the first fetch -/
theorem where_eq_pL (q : Q2) (h : whereApplied q.kind q.w = true) (l r : TRow) : whereOf q.w (l, r) = pL q l := by
  cases hpl : pL q l with
  | true =>
    cases hw : q.w with
    | none => simp [whereOf]
    | some e =>
      have hall : ∀ c ∈ e.conjuncts, c ∈ pushedForK q.kind 0 q.w := by
        have := h
        rw [hw] at this
        simpa [whereApplied, List.all_eq_true, hw] using this
      simp only [whereOf]
      rw [holds_conjuncts, List.all_eq_true]
      intro c hc
      have hmem := hall c hc
      have hside := pushedForK_side q.kind 0 q.w c hmem
      have hP : holdsAll (pushedForK q.kind 0 q.w) l [] = true := hpl
      unfold holdsAll at hP
      rw [List.all_eq_true] at hP
      rw [holds_side0 c hside l r []]
      exact hP c hmem
  | false =>
    cases hwr : whereOf q.w (l, r) with
    | false => rfl
    | true => rw [where_pL q l r hwr] at hpl; exact absurd hpl (by simp)

/-- **the fragment theorem, all join kinds, with LIMIT** -/
theorem plan2_sound (q : Q2) (db : DB) (h : planSound q = true) : execPlan (plan q) db = evalQuery q db := by
  have hls : limitSound q = true := h
  have hexec : ∀ F0 : List TRow, (joinK q.kind (eqOn q.c0 q.c1) db F0
      (db.t1.filter fun r => holdsAll (plan q).push1 [] r &&
        (!(plan q).semi1 || sqlIn (r.col q.c1) (distinct (F0.map fun l => l.col q.c0)) == .t))).filter (whereOf q.w)
      = (joinK q.kind (eqOn q.c0 q.c1) db F0 db.t1).filter (whereOf q.w) := fun F0 => core_right q db F0
  cases hl0 : (plan q).limit0 with
  | none =>
    show limitOf q.limit _ = limitOf q.limit _
    congr 1
    have := hexec (limitOf (plan q).limit0 (db.t0.filter fun l => holdsAll (plan q).push0 l []))
    rw [hl0] at this
    show (joinK q.kind (eqOn q.c0 q.c1) db _ _).filter (whereOf q.w) = _
    unfold execPlan at *
    simp only [hl0, limitOf] at this ⊢
    exact this.trans (core_left q db db.t1)
  | some n =>
    -- LIMIT pushed: LEFT join and WHERE evaluated completely in the first fetch
    have hleft : q.kind.isLeft = true := by
      have : ((plan q).limit0.isNone || q.kind.isLeft) = true := hls
      simpa [hl0] using this
    have hwl : whereApplied q.kind q.w = true := by
      have h0 : (plan q).limit0 = some n := hl0
      unfold plan at h0
      simp only at h0
      split at h0
      · rename_i hc
        exact (Bool.and_eq_true _ _ ▸ hc).2
      · cases h0
    have hlim : q.limit = some n := by
      have : (plan q).limit0 = some n := hl0
      unfold plan at this
      simp only at this
      split at this
      · exact this
      · cases this
    have hjoin : ∀ L R, joinK q.kind (eqOn q.c0 q.c1) db L R
        = leftJoin (eqOn q.c0 q.c1) Prod.mk (nullRow db.n1) L R := by
      intro L R
      cases hk : q.kind <;> simp_all [JoinKind.isLeft, joinK]
    -- every row of a join over rows passing pL passes WHERE
    have hid : ∀ (L : List TRow) (R : List TRow), (∀ l ∈ L, pL q l = true) →
        (leftJoin (eqOn q.c0 q.c1) Prod.mk (nullRow db.n1) L R).filter (whereOf q.w)
          = leftJoin (eqOn q.c0 q.c1) Prod.mk (nullRow db.n1) L R := by
      intro L R hL
      apply filter_eq_self_of
      intro x hx
      obtain ⟨l, hl, r, rfl⟩ := mem_leftJoin _ _ _ _ _ x hx
      rw [where_eq_pL q hwl l r]
      exact hL l hl
    have hF : ∀ l ∈ db.t0.filter (pL q), pL q l = true := fun l hl => (List.mem_filter.mp hl).2
    have hFt : ∀ l ∈ (db.t0.filter (pL q)).take n, pL q l = true :=
      fun l hl => hF l (List.mem_of_mem_take hl)
    have e1 := hexec ((db.t0.filter (pL q)).take n)
    rw [hjoin, hjoin] at e1
    have e2 := hid ((db.t0.filter (pL q)).take n) db.t1 hFt
    have e3 := core_left q db db.t1
    rw [hjoin, hjoin] at e3
    have e4 := hid (db.t0.filter (pL q)) db.t1 hF
    have hpl : (plan q).limit = some n := hlim
    unfold execPlan evalQuery
    simp only [hl0, hlim, hpl, limitOf]
    show List.take n ((joinK q.kind (eqOn q.c0 q.c1) db ((db.t0.filter (pL q)).take n) _).filter (whereOf q.w)) = _
    rw [hjoin, hjoin]
    exact (congrArg (List.take n) (e1.trans e2)).trans
      ((limit_left_join _ _ _ n _ _).trans (congrArg (List.take n) (e4.symm.trans e3)))

end MindsVerif.Sem
