import MindsVerif.Model.SemScope
namespace MindsVerif.Sem

/-- rebinding the name in every scope = lexical scoping of sibling scopes, whatever was bound before -/
theorem execScopes_rebind (ss : List ScopeQ) (cur : Option Rows) : execScopes false ss cur = evalScopes ss := by
  induction ss generalizing cur with
  | nil => rfl
  | cons s rest ih =>
    cases cur <;> simp [execScopes, evalScopes, ih] <;> rfl

end MindsVerif.Sem
