import MindsVerif.Model.SemSeq
import MindsVerif.Lemmas.SemPlan3
/-! `mark_nullable_tables` over a chain: closed form, agreement with the two-table model, and the three-table pushdown. -/
set_option linter.unusedSimpArgs false
namespace MindsVerif.Sem

theorem markNullableLoop_spec (ks : List JoinKind) : ∀ seen : List Bool,
    markNullableLoop ks seen = seen.map (fun b => b || ks.any JoinKind.padsLeft) ++ nullableTail ks := by
  induction ks with
  | nil => intro seen; simp [markNullableLoop, nullableTail]
  | cons k ks ih =>
    intro seen
    simp only [markNullableLoop, ih, nullableTail, List.any_cons, List.map_append, List.map_cons, List.map_nil,
      List.append_assoc, List.singleton_append]
    congr 1
    by_cases hk : k.padsLeft = true
    · simp [hk]
    · simp [hk]

/-- **closed form of `mark_nullable_tables`**: the first table is padded iff some join of the chain is RIGHT / FULL; table
i ≥ 1 iff its own join is LEFT / FULL or a LATER join is RIGHT / FULL -/
theorem markNullable_spec (ks : List JoinKind) :
    markNullable ks = ks.any JoinKind.padsLeft :: nullableTail ks := by
  simp [markNullable, markNullableLoop_spec]

/-- the two-table model (`nullableSide`) is the chain model for one join -/
theorem nullableSide_eq_chain (k : JoinKind) : markNullable [k] = [nullableSide k 0, nullableSide k 1] := by
  cases k <;> rfl

section generic
variable {α β γ δ ε : Type}

theorem innerJoin_filter_left (on : α → β → Bool) (mk : α → β → γ) (p : α → Bool) (p' : γ → Bool)
    (hp : ∀ l r, p' (mk l r) = p l) (L : List α) (R : List β) :
    innerJoin on mk (L.filter p) R = (innerJoin on mk L R).filter p' := by
  unfold innerJoin
  induction L with
  | nil => rfl
  | cons l L ih =>
    have hrows : ∀ M : List β, (M.map (mk l)).filter p' = if p l then M.map (mk l) else [] := by
      intro M
      induction M with
      | nil => simp
      | cons r M ihM => by_cases h : p l = true <;> simp_all [List.filter_cons, hp]
    by_cases h : p l = true
    · simp only [List.filter_cons, h, if_true, List.flatMap_cons, List.filter_append, hrows, ih]
    · simp only [List.filter_cons, h, List.flatMap_cons, List.filter_append, hrows]
      simpa using ih

theorem leftJoin_filter_left (on : α → β → Bool) (mk : α → β → γ) (nr : β) (p : α → Bool) (p' : γ → Bool)
    (hp : ∀ l r, p' (mk l r) = p l) (L : List α) (R : List β) :
    leftJoin on mk nr (L.filter p) R = (leftJoin on mk nr L R).filter p' := by
  unfold leftJoin
  induction L with
  | nil => rfl
  | cons l L ih =>
    have hrows : (leftRows on mk nr R l).filter p' = if p l then leftRows on mk nr R l else [] := by
      apply (show ∀ M : List γ, (∀ x ∈ M, ∃ r, x = mk l r) → M.filter p' = if p l then M else [] from ?_)
      · intro x hx
        unfold leftRows at hx
        split at hx
        · simp at hx; exact ⟨nr, hx⟩
        · rw [List.mem_map] at hx
          obtain ⟨r, _, hr⟩ := hx
          exact ⟨r, hr.symm⟩
      · intro M
        induction M with
        | nil => intro _; simp
        | cons x M ihM =>
          intro hM
          obtain ⟨r, rfl⟩ := hM x List.mem_cons_self
          have := ihM (fun y hy => hM y (List.mem_cons_of_mem _ hy))
          by_cases h : p l = true <;> simp_all [List.filter_cons, hp]
    by_cases h : p l = true
    · simp only [List.filter_cons, h, if_true, List.flatMap_cons, List.filter_append, hrows, ih]
    · simp only [List.filter_cons, h, List.flatMap_cons, List.filter_append, hrows]
      simpa using ih

/-- pushing an implied filter into the LEFT operand of a join of any kind; if the join pads its left operand
(RIGHT / FULL) the filter must reject the padded row -/
theorem push_left_G (k : JoinKind) (on : α → β → Bool) (mk : α → β → γ) (nl : α) (nr : β) (w : γ → Bool) (p : α → Bool)
    (h : ∀ l r, w (mk l r) = true → p l = true) (hn : k.padsLeft = true → p nl = false) (L : List α) (R : List β) :
    (joinG k on mk nl nr (L.filter p) R).filter w = (joinG k on mk nl nr L R).filter w := by
  cases k with
  | inner => exact push_left_inner on mk w p h L R
  | left => exact push_left_left on mk nr w p h L R
  | leftOuter => exact push_left_left on mk nr w p h L R
  | right => exact push_left_right on mk nl w p h (hn rfl) L R
  | full => exact push_left_full on mk nl nr w p h (hn rfl) L R

/-- **three tables, filter pushed into the fetch of the FIRST table** of `(L k1 R1) k2 R2` with `k1` inner / LEFT:
sound if the outer WHERE implies it and — when the LATER join `k2` is RIGHT / FULL, i.e. exactly when
`mark_nullable_tables` flags the first table — the filter rejects the padded row. -/
theorem chain3_push_first (k1 k2 : JoinKind) (hk1 : k1.padsLeft = false)
    (on1 : α → β → Bool) (mk1 : α → β → γ) (nl1 : α) (nr1 : β)
    (on2 : γ → δ → Bool) (mk2 : γ → δ → ε) (nl2 : γ) (nr2 : δ)
    (w : ε → Bool) (p : α → Bool) (p' : γ → Bool) (hp : ∀ l r, p' (mk1 l r) = p l)
    (hw : ∀ x r2, w (mk2 x r2) = true → p' x = true) (hn : k2.padsLeft = true → p' nl2 = false)
    (L : List α) (R1 : List β) (R2 : List δ) :
    (joinG k2 on2 mk2 nl2 nr2 (joinG k1 on1 mk1 nl1 nr1 (L.filter p) R1) R2).filter w
      = (joinG k2 on2 mk2 nl2 nr2 (joinG k1 on1 mk1 nl1 nr1 L R1) R2).filter w := by
  have h1 : joinG k1 on1 mk1 nl1 nr1 (L.filter p) R1 = (joinG k1 on1 mk1 nl1 nr1 L R1).filter p' := by
    cases k1 with
    | inner => exact innerJoin_filter_left on1 mk1 p p' hp L R1
    | left => exact leftJoin_filter_left on1 mk1 nr1 p p' hp L R1
    | leftOuter => exact leftJoin_filter_left on1 mk1 nr1 p p' hp L R1
    | right => simp [JoinKind.padsLeft] at hk1
    | full => simp [JoinKind.padsLeft] at hk1
  rw [h1]
  exact push_left_G k2 on2 mk2 nl2 nr2 w p' hw hn _ R2

end generic
end MindsVerif.Sem
