import MindsVerif.Model.SemSet
/-! Set operations across integrations: the step list built by `plan_union` returns the rows of the query for every tree of
set operations and every operand shape (DISTINCT / GROUP BY / ORDER BY / LIMIT / OFFSET); adding DISTINCT to an operand of a
non-ALL operation is sound exactly when the operand has no row window. -/
set_option linter.unusedSimpArgs false
namespace MindsVerif.Sem

/-! ### execution of step lists -/

theorem execSteps_append (db : DBn) (a b : List SStep) (res : List (List TRow)) :
    execSteps db (a ++ b) res = execSteps db b (execSteps db a res) := by
  induction a generalizing res with
  | nil => rfl
  | cons s a ih => cases s <;> simp [execSteps, ih]

theorem getD_append_lt {α : Type} (l l' : List α) (n : Nat) (d : α) (h : n < l.length) :
    (l ++ l').getD n d = l.getD n d := by
  simp [List.getD_eq_getElem?_getD, List.getElem?_append_left h]

theorem getD_append_len {α : Type} (l : List α) (x : α) (d : α) : (l ++ [x]).getD l.length d = x := by
  simp [List.getD_eq_getElem?_getD]

/-- invariant of `plan_select` / `plan_union`: steps are only appended, results are only appended, the returned step number
is a step of the plan and holds the rows of the (sub-)query -/
theorem planSet_spec (db : DBn) : ∀ (q : SetQ) (acc : List SStep) (res : List (List TRow)), res.length = acc.length →
    ∃ new out, (planSet q acc).1 = acc ++ new ∧ execSteps db new res = res ++ out ∧ out.length = new.length ∧
      (planSet q acc).2 < acc.length + new.length ∧ (res ++ out).getD (planSet q acc).2 [] = q.eval db := by
  intro q
  induction q with
  | sel o =>
    intro acc res hlen
    refine ⟨[.fetch o], [o.eval db], rfl, rfl, rfl, by simp [planSet], ?_⟩
    show (res ++ [o.eval db]).getD acc.length [] = o.eval db
    rw [← hlen]
    exact getD_append_len _ _ _
  | op k l r ihl ihr =>
    intro acc res hlen
    obtain ⟨new1, out1, h1p, h1e, h1l, h1n, h1v⟩ := ihl acc res hlen
    have hlen1 : (res ++ out1).length = (acc ++ new1).length := by simp [hlen, h1l]
    obtain ⟨new2, out2, h2p, h2e, h2l, h2n, h2v⟩ := ihr (acc ++ new1) (res ++ out1) hlen1
    rw [← h1p] at h2p h2n h2v
    have hp2len : (planSet r (planSet l acc).1).1.length = acc.length + new1.length + new2.length := by
      rw [h2p, h1p]; simp only [List.length_append]
    have hRlen : (res ++ out1 ++ out2).length = acc.length + new1.length + new2.length := by
      simp only [List.length_append, hlen, h1l, h2l]
    refine ⟨new1 ++ new2 ++ [.setop k (planSet l acc).2 (planSet r (planSet l acc).1).2],
      out1 ++ out2 ++ [k.apply (l.eval db) (r.eval db)], ?_, ?_, ?_, ?_, ?_⟩
    · show (planSet r (planSet l acc).1).1 ++ _ = _
      rw [h2p, h1p]; simp
    · rw [execSteps_append, execSteps_append, h1e, h2e]
      show (res ++ out1 ++ out2) ++ [k.apply ((res ++ out1 ++ out2).getD (planSet l acc).2 [])
        ((res ++ out1 ++ out2).getD (planSet r (planSet l acc).1).2 [])] = _
      have hl' : (res ++ out1 ++ out2).getD (planSet l acc).2 [] = l.eval db := by
        rw [getD_append_lt _ _ _ _ (by simp [hlen, h1l]; omega)]
        exact h1v
      rw [hl', h2v]
      simp
    · simp [h1l, h2l]
    · show (planSet r (planSet l acc).1).1.length < _
      rw [hp2len]; simp; omega
    · show ((res ++ (out1 ++ out2 ++ [k.apply (l.eval db) (r.eval db)]))).getD (planSet r (planSet l acc).1).1.length [] = _
      rw [hp2len, ← hRlen]
      have : res ++ (out1 ++ out2 ++ [k.apply (l.eval db) (r.eval db)])
          = (res ++ out1 ++ out2) ++ [k.apply (l.eval db) (r.eval db)] := by simp
      rw [this, getD_append_len]
      rfl

/-- **set operations: plan = query**, for every tree of UNION [ALL] / INTERSECT / EXCEPT, every operand shape and all contents -/
theorem planSet_sound (q : SetQ) (db : DBn) : execSetPlan (planSet q []) db = q.eval db := by
  obtain ⟨new, out, hp, he, _, _, hv⟩ := planSet_spec db q [] [] rfl
  unfold execSetPlan
  rw [hp]
  simp only [List.nil_append] at he hv ⊢
  rw [he]
  exact hv

/-! ### de-duplication, sorting: membership -/

theorem mem_dedupRows (v : TRow) (xs : List TRow) : v ∈ dedupRows xs ↔ v ∈ xs := by
  induction xs with
  | nil => simp [dedupRows]
  | cons x xs ih =>
    simp only [dedupRows, List.mem_cons, List.mem_filter, ih]
    constructor
    · rintro (h | ⟨h, _⟩)
      · exact Or.inl h
      · exact Or.inr h
    · intro h
      by_cases hx : v = x
      · exact Or.inl hx
      · rcases h with h | h
        · exact Or.inl h
        · exact Or.inr ⟨h, by simp [hx]⟩

theorem nodup_dedupRows (xs : List TRow) : (dedupRows xs).Nodup := by
  induction xs with
  | nil => simp [dedupRows]
  | cons x xs ih =>
    simp only [dedupRows, List.nodup_cons, List.mem_filter]
    refine ⟨?_, List.Nodup.sublist List.filter_sublist ih⟩
    rintro ⟨_, h⟩
    simp at h

theorem mem_insertRow (ks : List (Nat × Bool)) (r v : TRow) (xs : List TRow) :
    v ∈ insertRow ks r xs ↔ v = r ∨ v ∈ xs := by
  induction xs with
  | nil => simp [insertRow]
  | cons x xs ih =>
    unfold insertRow
    split
    · simp only [List.mem_cons, ih]
      constructor
      · rintro (h | h | h)
        · exact Or.inr (Or.inl h)
        · exact Or.inl h
        · exact Or.inr (Or.inr h)
      · rintro (h | h | h)
        · exact Or.inr (Or.inl h)
        · exact Or.inl h
        · exact Or.inr (Or.inr h)
    · simp

theorem mem_sortRows (ks : List (Nat × Bool)) (v : TRow) (xs : List TRow) : v ∈ sortRows ks xs ↔ v ∈ xs := by
  induction xs with
  | nil => simp [sortRows]
  | cons x xs ih => simp [sortRows, mem_insertRow, ih]

/-! ### UnionStep depends on the operands' row SETS when `unique` -/

theorem mem_apply (k : SetOpK) (A B : List TRow) (x : TRow) :
    x ∈ k.apply A B ↔ match k with
      | .union => x ∈ A ∨ x ∈ B
      | .unionAll => x ∈ A ∨ x ∈ B
      | .intersect => x ∈ A ∧ x ∈ B
      | .except => x ∈ A ∧ ¬ x ∈ B := by
  cases k <;> simp [SetOpK.apply, mem_dedupRows]

theorem nodup_apply (k : SetOpK) (hk : k.unique = true) (A B : List TRow) : (k.apply A B).Nodup := by
  cases k <;> simp [SetOpK.unique] at hk <;> exact nodup_dedupRows _

/-- a non-ALL set operation returns the same rows (up to order) for operands with the same row sets -/
theorem apply_perm_of_mem_iff (k : SetOpK) (hk : k.unique = true) (A A' B B' : List TRow)
    (hA : ∀ x, x ∈ A ↔ x ∈ A') (hB : ∀ x, x ∈ B ↔ x ∈ B') : (k.apply A B).Perm (k.apply A' B') := by
  apply (List.perm_ext_iff_of_nodup (nodup_apply k hk _ _) (nodup_apply k hk _ _)).mpr
  intro x
  rw [mem_apply, mem_apply]
  cases k <;> simp [hA x, hB x]

/-! ### DISTINCT inside an operand -/

theorem limitOffset_none_zero {α : Type} (rows : List α) : limitOffset none 0 rows = rows := by
  simp [limitOffset]

/-- an operand WITHOUT a row window returns the same row set with or without the extra DISTINCT -/
theorem mem_optDistinct_eval (o : Opnd) (h : o.noWindow = true) (db : DBn) (x : TRow) :
    x ∈ o.optDistinct.eval db ↔ x ∈ o.eval db := by
  simp only [Opnd.noWindow, Bool.and_eq_true, Option.isNone_iff_eq_none, beq_iff_eq] at h
  obtain ⟨hl, ho⟩ := h
  unfold Opnd.optDistinct
  split
  · simp only [Opnd.eval, hl, ho, limitOffset_none_zero]
    cases o.distinct <;> cases hoe : o.order.isEmpty <;> simp [mem_sortRows, mem_dedupRows]
  · rfl

/-- adding DISTINCT to window-free operands of a non-ALL set operation does not change the result (up to order) -/
theorem optDistinct_sound_if_no_window (k : SetOpK) (hk : k.unique = true) (ol or : Opnd)
    (hl : ol.noWindow = true) (hr : or.noWindow = true) (db : DBn) :
    (k.apply (ol.optDistinct.eval db) (or.optDistinct.eval db)).Perm (k.apply (ol.eval db) (or.eval db)) :=
  apply_perm_of_mem_iff k hk _ _ _ _ (mem_optDistinct_eval ol hl db) (mem_optDistinct_eval or hr db)

/-- `planSetOpt` on a two-operand query is `planSet` on the query with the rewritten operands -/
theorem planSetOpt_two (k : SetOpK) (ol or : Opnd) :
    planSetOpt (.op k (.sel ol) (.sel or)) false []
      = planSet (.op k (.sel (if k.unique then ol.optDistinct else ol)) (.sel (if k.unique then or.optDistinct else or))) [] := by
  rfl

end MindsVerif.Sem
