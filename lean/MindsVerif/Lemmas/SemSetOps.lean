import MindsVerif.Model.Sem
/-! UNION / UNION ALL / CTE substitution: the planner plans the operands independently and combines the results
(`plan_union`: steps(left) ++ steps(right) ++ [UnionStep]); `plan_cte` stores the result of the CTE body under its name.
These small theorems say that this is compositional: if each operand plan returns its operand's rows up to order, the
combined step returns the rows of the set operation up to order. -/
set_option linter.unusedSimpArgs false
namespace MindsVerif.Sem

/-- rows "up to order": same multiplicity of every row -/
def MEq {α : Type} [BEq α] (A B : List α) : Prop := ∀ x, A.count x = B.count x

/-- first occurrences (UnionStep with unique = True, SELECT DISTINCT) -/
def dedupL {α : Type} [DecidableEq α] : List α → List α
  | [] => []
  | x :: xs => x :: (dedupL xs).filter (fun y => !(y == x))

theorem mem_dedupL {α : Type} [DecidableEq α] (v : α) (xs : List α) : v ∈ dedupL xs ↔ v ∈ xs := by
  induction xs with
  | nil => simp [dedupL]
  | cons x xs ih =>
    simp only [dedupL, List.mem_cons, List.mem_filter, ih]
    constructor
    · rintro (h | ⟨h, _⟩)
      · exact Or.inl h
      · exact Or.inr h
    · intro h
      by_cases hx : v = x
      · exact Or.inl hx
      · rcases h with h | h
        · exact Or.inl h
        · exact Or.inr ⟨h, by simp [hx]⟩

theorem nodup_dedupL {α : Type} [DecidableEq α] (xs : List α) : (dedupL xs).Nodup := by
  induction xs with
  | nil => simp [dedupL]
  | cons x xs ih =>
    simp only [dedupL, List.nodup_cons, List.mem_filter]
    refine ⟨?_, List.Nodup.sublist List.filter_sublist ih⟩
    rintro ⟨_, h⟩
    simp at h

/-- UNION ALL is compositional up to order -/
theorem unionAll_compositional {α : Type} [BEq α] (A A' B B' : List α) (hA : MEq A A') (hB : MEq B B') :
    MEq (A ++ B) (A' ++ B') := by
  intro x
  simp only [List.count_append, hA x, hB x]

/-- UNION (distinct) is compositional up to order: same rows in the operands ⇒ the two results are permutations -/
theorem unionDistinct_compositional {α : Type} [DecidableEq α] (A A' B B' : List α)
    (hA : ∀ x, x ∈ A ↔ x ∈ A') (hB : ∀ x, x ∈ B ↔ x ∈ B') :
    (dedupL (A ++ B)).Perm (dedupL (A' ++ B')) := by
  apply (List.perm_ext_iff_of_nodup (nodup_dedupL _) (nodup_dedupL _)).mpr
  intro x
  simp only [mem_dedupL, List.mem_append, hA x, hB x]

/-! ### CTE: the result is stored once and substituted by name -/

/-- a result store as the planner keeps it (`cte_results[name] = step.result`) -/
abbrev Store := List (String × Table)

def Store.get (s : Store) (n : String) : Table := (s.lookup n).getD []

/-- a query that reads named relations through a lookup function -/
abbrev NamedQuery := (String → Table) → Table

/-- `WITH n AS body main` on one engine: `main` sees `n` bound to the rows of `body` -/
def evalWith (n : String) (body main : NamedQuery) (env : String → Table) : Table :=
  main fun m => if m = n then body env else env m

/-- the plan: run the steps of `body`, store the result under `n`, run `main` against the store first -/
def execWith (n : String) (bodyPlan : (String → Table) → Table) (main : NamedQuery) (env : String → Table) : Table :=
  let store : Store := [(n, bodyPlan env)]
  main fun m => if (store.lookup m).isSome then store.get m else env m

/-- CTE planning is compositional: if the body's plan returns the body's rows, the whole plan returns the query's rows -/
theorem cte_compositional (n : String) (body main : NamedQuery) (bodyPlan : (String → Table) → Table)
    (env : String → Table) (h : bodyPlan env = body env) :
    execWith n bodyPlan main env = evalWith n body main env := by
  show main _ = main _
  congr 1
  funext m
  by_cases hm : m = n
  · subst hm; simp [Store.get, List.lookup, h]
  · have : (m == n) = false := by simpa using hm
    simp [Store.get, List.lookup, hm, this]

end MindsVerif.Sem
