import MindsVerif.Model.SelectSkel
/-! Set operations with stored parentheses (since /repo bce2da8): every token list the stack machine accepts —
any nesting of parenthesised operands on either side — prints to a token list that is parsed back to the same tree. -/
namespace MindsVerif.SelectSkel

theorem runQ_append : ∀ (a b : List QTok) (st : List Frame),
    runQ st (a ++ b) = match runQ st a with | some st' => runQ st' b | none => none
  | [], b, st => rfl
  | t :: a, b, st => by
    simp only [List.cons_append, runQ]
    cases stepQ st t with
    | none => rfl
    | some st' => exact runQ_append a b st'

def unflag : Q → Q
  | .sel n => .sel n
  | .comb o u _ l r => .comb o u false l r

theorem printBody_comb (o : SetOp) (u p : Bool) (l r : Q) :
    printBody (.comb o u p l r) = printQ l ++ (.op o u :: printQ r) := by
  cases l with
  | sel n => cases r with
    | sel m => rfl
    | comb o2 u2 p2 l2 r2 => cases p2 <;> rfl
  | comb o1 u1 p1 l1 r1 =>
    cases p1 <;> cases r with
    | sel m => rfl
    | comb o2 u2 p2 l2 r2 => cases p2 <;> rfl

/-- the body of `q` read in a fresh frame leaves the un-flagged node there -/
def BodyOK (q : Q) : Prop :=
  ∀ st, runQ (Frame.empty :: st) (printBody q) = some (⟨some (unflag q), none⟩ :: st)

/-- an operand (`select`): read in any frame it is fed to that frame -/
theorem operand_of_body (q : Q) (hP : BodyOK q) (hop : isOperand q = true) :
    ∀ f st, runQ (f :: st) (printQ q) = (feed f q).map (· :: st) := by
  intro f st
  cases q with
  | sel n =>
    simp only [printQ, runQ, stepQ]
    cases feed f (.sel n) <;> rfl
  | comb o u p l r =>
    cases p with
    | false => simp [isOperand] at hop
    | true =>
      have h1 : printQ (.comb o u true l r) = .lp :: (printBody (.comb o u true l r) ++ [.rp]) := rfl
      rw [h1]
      simp only [runQ, stepQ]
      rw [runQ_append, hP (f :: st)]
      simp only [runQ, stepQ, unflag, markParen]
      cases feed f (.comb o u true l r) <;> rfl

/-- a left operand (`select` or an un-parenthesised `union`): read in a fresh frame it is the frame's value -/
theorem left_of_body (q : Q) (hP : BodyOK q) :
    ∀ st, runQ (Frame.empty :: st) (printQ q) = some (⟨some q, none⟩ :: st) := by
  intro st
  cases hop : isOperand q with
  | true =>
    rw [operand_of_body q hP hop]
    rfl
  | false =>
    cases q with
    | sel n => simp [isOperand] at hop
    | comb o u p l r =>
      cases p with
      | true => simp [isOperand] at hop
      | false => exact hP st

theorem body_ok : ∀ q : Q, wfQ q = true → BodyOK q := by
  intro q
  induction q with
  | sel n => intro _ st; rfl
  | comb o u p l r ihl ihr =>
    intro h st
    simp only [wfQ, Bool.and_eq_true] at h
    obtain ⟨⟨hl, hr⟩, hop⟩ := h
    rw [printBody_comb, runQ_append, left_of_body l (ihl hl) st]
    simp only [runQ, stepQ]
    rw [operand_of_body r (ihr hr) hop]
    rfl

/-- every well-formed tree round-trips -/
theorem setop_roundtrip_wf (q : Q) (h : wfQ q = true) : parseQ (printQ q) = some q := by
  unfold parseQ
  rw [left_of_body q (body_ok q h) []]
  rfl

/-! ### everything the machine builds is well formed -/

def frameWF (f : Frame) : Bool := match f.acc with | some a => wfQ a | none => true

theorem wf_markParen (q : Q) : wfQ (markParen q) = wfQ q := by cases q <;> rfl
theorem operand_markParen (q : Q) : isOperand (markParen q) = true := by cases q <;> rfl

theorem feed_wf (f f' : Frame) (v : Q) (hf : frameWF f = true) (hv : wfQ v = true) (hop : isOperand v = true)
    (h : feed f v = some f') : frameWF f' = true := by
  unfold feed at h
  cases ha : f.acc with
  | none =>
    cases hp : f.pend with
    | none => simp [ha, hp] at h; subst h; simpa [frameWF] using hv
    | some x => simp [ha, hp] at h
  | some a =>
    cases hp : f.pend with
    | none => simp [ha, hp] at h
    | some x =>
      obtain ⟨o, u⟩ := x
      simp [ha, hp] at h
      subst h
      have : wfQ a = true := by simpa [frameWF, ha] using hf
      simp [frameWF, wfQ, this, hv, hop]

theorem step_wf (st st' : List Frame) (t : QTok) (hst : ∀ f ∈ st, frameWF f = true)
    (h : stepQ st t = some st') : ∀ f ∈ st', frameWF f = true := by
  cases t with
  | sel n =>
    cases st with
    | nil => simp [stepQ] at h
    | cons f rest =>
      simp only [stepQ] at h
      cases hf : feed f (.sel n) with
      | none => simp [hf] at h
      | some f' =>
        simp [hf] at h; subst h
        intro g hg
        simp only [List.mem_cons] at hg
        rcases hg with rfl | hg
        · exact feed_wf f _ _ (hst f (by simp)) rfl rfl hf
        · exact hst g (by simp [hg])
  | lp =>
    simp only [stepQ] at h
    cases h
    intro g hg
    simp only [List.mem_cons] at hg
    rcases hg with rfl | hg
    · rfl
    · exact hst g hg
  | op o u =>
    match st, h with
    | ⟨some a, none⟩ :: rest, h =>
      simp only [stepQ] at h
      cases h
      intro g hg
      simp only [List.mem_cons] at hg
      rcases hg with rfl | hg
      · have := hst ⟨some a, none⟩ (by simp)
        simpa [frameWF] using this
      · exact hst g (by simp [hg])
    | [], h => simp [stepQ] at h
    | ⟨none, _⟩ :: _, h => simp [stepQ] at h
    | ⟨some _, some _⟩ :: _, h => simp [stepQ] at h
  | rp =>
    match st, h with
    | ⟨some q, none⟩ :: f :: rest, h =>
      simp only [stepQ] at h
      cases hf : feed f (markParen q) with
      | none => simp [hf] at h
      | some f' =>
        simp [hf] at h; subst h
        have hq : wfQ q = true := by
          have := hst ⟨some q, none⟩ (by simp)
          simpa [frameWF] using this
        intro g hg
        simp only [List.mem_cons] at hg
        rcases hg with rfl | hg
        · exact feed_wf f _ _ (hst f (by simp)) (by rw [wf_markParen]; exact hq) (operand_markParen q) hf
        · exact hst g (by simp [hg])
    | [], h => simp [stepQ] at h
    | [_], h => simp [stepQ] at h
    | ⟨none, _⟩ :: _ :: _, h => simp [stepQ] at h
    | ⟨some _, some _⟩ :: _ :: _, h => simp [stepQ] at h

theorem run_wf : ∀ (toks : List QTok) (st st' : List Frame), (∀ f ∈ st, frameWF f = true) →
    runQ st toks = some st' → ∀ f ∈ st', frameWF f = true
  | [], st, st', hst, h => by simp only [runQ, Option.some.injEq] at h; subst h; exact hst
  | t :: ts, st, st', hst, h => by
    simp only [runQ] at h
    cases hs : stepQ st t with
    | none => simp [hs] at h
    | some s1 =>
      rw [hs] at h
      exact run_wf ts s1 st' (step_wf st s1 t hst hs) h

theorem parse_wf (toks : List QTok) (q : Q) (h : parseQ toks = some q) : wfQ q = true := by
  unfold parseQ at h
  cases hr : runQ [Frame.empty] toks with
  | none => simp [hr] at h
  | some st =>
    rw [hr] at h
    have hw := run_wf toks [Frame.empty] st (by intro f hf; simp at hf; subst hf; rfl) hr
    match st, h with
    | [⟨some q', none⟩], h =>
      simp only [finishQ, Option.some.injEq] at h
      subst h
      have := hw ⟨some q', none⟩ (by simp)
      simpa [frameWF] using this
    | [], h => simp [finishQ] at h
    | [⟨none, _⟩], h => simp [finishQ] at h
    | [⟨some _, some _⟩], h => simp [finishQ] at h
    | _ :: _ :: _, h => simp [finishQ] at h

/-- **the repaired round trip at full strength**: for EVERY token list the set-operation rules accept (operands
parenthesised or not, on either side, nested to any depth, redundant parentheses) the printed tree is parsed back
to exactly the same tree, parentheses flags included -/
theorem setop_roundtrip (toks : List QTok) (q : Q) (h : parseQ toks = some q) : parseQ (printQ q) = some q :=
  setop_roundtrip_wf q (parse_wf toks q h)

end MindsVerif.SelectSkel
