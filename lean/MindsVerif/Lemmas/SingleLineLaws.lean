import MindsVerif.Model.SingleLine
/-! The repaired `to_single_line` refines the pinned one: collapsing the repaired form gives the pinned form,
so texts with equal repaired forms have equal pinned forms (the repair can only make `==` stricter). -/
namespace MindsVerif.SingleLine

theorem collapse_fixed : ∀ (x : List Char),
    (∀ st po pf, collapseGo st po (fixedGo none false st pf x) = collapseGo st (po || pf) x) ∧
    (∀ qc e po, collapseGo true po (fixedGo (some qc) e true false x) = collapseGo true po x) := by
  intro x
  induction x with
  | nil => exact ⟨fun _ _ _ => rfl, fun _ _ _ => rfl⟩
  | cons c r ih =>
    obtain ⟨ihA, ihB⟩ := ih
    have contN : ∀ po, collapseGo true po (fixedGo none false true false r) = collapseGo true po r := by
      intro po; simpa using ihA true po false
    constructor
    · intro st po pf
      by_cases hsp : isSp c = true
      · simp only [fixedGo, collapseGo, hsp, if_true]
        simpa using ihA st po true
      · have hsp' : isSp c = false := by simpa using hsp
        simp only [fixedGo, hsp', Bool.false_eq_true, if_false]
        have hq : ∀ po', collapseGo true po' (fixedGo (if isQuote c then some c else none) false true false r)
            = collapseGo true po' r := by
          intro po'
          split
          · exact ihB c false po'
          · exact contN po'
        have hspace : isSp ' ' = true := by decide
        cases pf <;> cases st <;> cases po <;>
          simp [collapseGo, hsp', hq, hspace]
    · intro qc e po
      have hB := ihB qc
      by_cases hsp : isSp c = true
      · simp only [fixedGo]
        split
        · simp only [collapseGo, hsp, if_true]; exact hB false true
        · split
          · simp only [collapseGo, hsp, if_true]; exact hB true true
          · split
            · simp only [collapseGo, hsp, if_true]; exact contN true
            · simp only [collapseGo, hsp, if_true]; exact hB false true
      · have hsp' : isSp c = false := by simpa using hsp
        simp only [fixedGo]
        split
        · simp [collapseGo, hsp', hB false false]
        · split
          · simp [collapseGo, hsp', hB true false]
          · split
            · simp [collapseGo, hsp', contN false]
            · simp [collapseGo, hsp', hB false false]

/-- collapsing the repaired normal form gives the pinned normal form -/
theorem pinned_of_fixed (x : List Char) :
    collapseGo false false (fixedGo none false false false x) = collapseGo false false x := by
  simpa using (collapse_fixed x).1 false false false

/-- equal repaired forms ⇒ equal pinned forms -/
theorem fixed_refines_pinned (a b : String) (h : singleLineFixed a = singleLineFixed b) :
    singleLinePinned a = singleLinePinned b := by
  unfold singleLineFixed at h
  unfold singleLinePinned
  have h' : fixedGo none false false false a.toList = fixedGo none false false false b.toList := by
    have := congrArg String.toList h
    simpa using this
  rw [← pinned_of_fixed a.toList, ← pinned_of_fixed b.toList, h']

end MindsVerif.SingleLine
