import MindsVerif.Model.SlyLex
import MindsVerif.Lemmas.ReMono
/-!
Facts about the tokenize loop `lexLoop` / `lex` for EVERY configuration and EVERY text:
the pieces of a finished run tile the text (`lex_ok_tiles`), an error is reported exactly where no rule
matches (`lex_err_spec`), token pieces are never empty (`lex_ok_tokNonempty`); and under `allNonNull` the run
ends in `ok` or `err` (`lex_total`: no hang, fuel never runs out).
-/
namespace MindsVerif.SlyLex
open MindsVerif.Re

def flat (segs : List Seg) : List Nat := segs.flatMap Seg.text

@[simp] theorem flat_nil : flat [] = [] := rfl
@[simp] theorem flat_append (a b : List Seg) : flat (a ++ b) = flat a ++ flat b := by simp [flat]
@[simp] theorem flat_skip (c : Nat) : flat [Seg.skip c] = [c] := by simp [flat, Seg.text]
@[simp] theorem flat_tok (n : String) (ig : Bool) (t : List Nat) : flat [Seg.tok n ig t] = t := by simp [flat, Seg.text]

theorem firstMatch_spec {w : CSet} : ∀ {rules : List Rule} {p : Pos} {r : Rule} {q : Pos},
    firstMatch w rules p = some (r, q) → r ∈ rules ∧ matchAt w r.re p = some q := by
  intro rules
  induction rules with
  | nil => intro p r q h; simp [firstMatch] at h
  | cons r0 rs ih =>
    intro p r q h
    unfold firstMatch at h
    cases hm : matchAt w r0.re p with
    | some q0 =>
      rw [hm] at h
      simp only [Option.some.injEq, Prod.mk.injEq] at h
      obtain ⟨h1, h2⟩ := h
      subst h1; subst h2
      exact ⟨List.mem_cons_self, hm⟩
    | none =>
      rw [hm] at h
      obtain ⟨h1, h2⟩ := ih h
      exact ⟨List.mem_cons_of_mem _ h1, h2⟩

theorem between_of_le {p q : Pos} (h : p.le q) :
    between p q ++ q.suf = p.suf ∧ q.pre = (between p q).reverse ++ p.pre := by
  obtain ⟨l, a, b⟩ := h
  have : between p q = l := by
    unfold between
    rw [b]
    simp
  rw [this]
  exact ⟨b.symm, a⟩

/-- a piece as the loop makes it: a token piece is non-empty and carries the name / ignore flag of a rule -/
def SegOK (c : Cfg) : Seg → Prop
  | .skip _ => True
  | .tok n ig t => t ≠ [] ∧ ∃ r ∈ c.rules, r.name = n ∧ r.ignored = ig

def AllOK (c : Cfg) (segs : List Seg) : Prop := ∀ s ∈ segs, SegOK c s

/-- token pieces are non-empty -/
def TokNonempty (segs : List Seg) : Prop := ∀ s ∈ segs, ∀ n ig t, s = Seg.tok n ig t → t ≠ []

theorem AllOK.tokNonempty {c : Cfg} {segs : List Seg} (h : AllOK c segs) : TokNonempty segs := by
  intro s hs n ig t he
  have := h s hs
  subst he
  exact this.1

theorem between_ne_nil {p q : Pos} (h : q.suf.length < p.suf.length) : between p q ≠ [] := by
  unfold between
  intro h0
  have := congrArg List.length h0
  simp at this
  omega

theorem lexLoop_ok (c : Cfg) : ∀ (n : Nat) (p : Pos) (acc segs : List Seg),
    lexLoop c n p acc = .ok segs → flat segs = flat acc.reverse ++ p.suf ∧ (AllOK c acc → AllOK c segs) := by
  intro n
  induction n with
  | zero => intro p acc segs h; simp [lexLoop] at h
  | succ n ih =>
    intro p acc segs h
    obtain ⟨pre, suf⟩ := p
    cases suf with
    | nil =>
      simp only [lexLoop, Out.ok.injEq] at h
      subst h
      refine ⟨by simp, ?_⟩
      intro ha s hs
      exact ha s (List.mem_reverse.mp hs)
    | cons ch t =>
      simp only [lexLoop] at h
      by_cases hi : c.ignore.mem ch = true
      · simp only [hi, if_true] at h
        obtain ⟨h1, h2⟩ := ih _ _ _ h
        refine ⟨by simpa using h1, ?_⟩
        intro ha
        apply h2
        intro s hs
        rcases List.mem_cons.mp hs with h0 | h0
        · subst h0; trivial
        · exact ha s h0
      · simp only [hi, Bool.false_eq_true, if_false] at h
        cases hf : firstMatch c.word c.rules ⟨pre, ch :: t⟩ with
        | none => rw [hf] at h; simp at h
        | some rq =>
          obtain ⟨r, q⟩ := rq
          rw [hf] at h
          simp only at h
          by_cases hl : q.suf.length < t.length + 1
          · rw [if_pos (by simpa using hl)] at h
            obtain ⟨h1, h2⟩ := ih _ _ _ h
            have hle := matchAt_le (firstMatch_spec hf).2
            obtain ⟨hb, _⟩ := between_of_le hle
            refine ⟨?_, ?_⟩
            · rw [h1]
              simp only [List.reverse_cons, flat_append, flat_tok, List.append_assoc]
              rw [hb]
            · intro ha
              apply h2
              intro s hs
              rcases List.mem_cons.mp hs with h0 | h0
              · subst h0
                exact ⟨between_ne_nil (by simpa using hl), r, (firstMatch_spec hf).1, rfl, rfl⟩
              · exact ha s h0
          · rw [if_neg (by simpa using hl)] at h; cases h

theorem lexLoop_err (c : Cfg) : ∀ (n : Nat) (p : Pos) (acc : List Seg) (i : Nat) (segs : List Seg),
    p.pre.reverse = flat acc.reverse → lexLoop c n p acc = .err i segs →
    ∃ ch t, flat segs ++ ch :: t = p.pre.reverse ++ p.suf ∧ i = (flat segs).length ∧ c.ignore.mem ch = false ∧
      firstMatch c.word c.rules ⟨(flat segs).reverse, ch :: t⟩ = none := by
  intro n
  induction n with
  | zero => intro p acc i segs _ h; simp [lexLoop] at h
  | succ n ih =>
    intro p acc i segs hinv h
    obtain ⟨pre, suf⟩ := p
    cases suf with
    | nil => simp [lexLoop] at h
    | cons ch t =>
      simp only [lexLoop] at h
      by_cases hi : c.ignore.mem ch = true
      · simp only [hi, if_true] at h
        have hinv' : (Pos.mk (ch :: pre) t).pre.reverse = flat (Seg.skip ch :: acc).reverse := by
          simp only [List.reverse_cons, flat_append, flat_skip]
          simp only at hinv
          rw [hinv]
        obtain ⟨ch', t', e1, e2, e3, e4⟩ := ih _ _ _ _ hinv' h
        refine ⟨ch', t', ?_, e2, e3, e4⟩
        simpa using e1
      · simp only [hi, Bool.false_eq_true, if_false] at h
        cases hf : firstMatch c.word c.rules ⟨pre, ch :: t⟩ with
        | none =>
          rw [hf] at h
          simp only [Out.err.injEq] at h
          obtain ⟨h1, h2⟩ := h
          subst h2
          simp only at hinv
          refine ⟨ch, t, by rw [← hinv], ?_, by simpa using hi, ?_⟩
          · rw [← h1, ← hinv]; simp [Pos.index]
          · rw [← hinv]; simpa using hf
        | some rq =>
          obtain ⟨r, q⟩ := rq
          rw [hf] at h
          simp only at h
          by_cases hl : q.suf.length < t.length + 1
          · rw [if_pos (by simpa using hl)] at h
            have hle := matchAt_le (firstMatch_spec hf).2
            obtain ⟨hb, hp⟩ := between_of_le hle
            have hinv' : q.pre.reverse = flat (Seg.tok r.name r.ignored (between ⟨pre, ch :: t⟩ q) :: acc).reverse := by
              simp only [List.reverse_cons, flat_append, flat_tok]
              rw [hp]
              simp only at hinv
              simp [hinv]
            obtain ⟨ch', t', e1, e2, e3, e4⟩ := ih _ _ _ _ hinv' h
            refine ⟨ch', t', ?_, e2, e3, e4⟩
            rw [e1, hp]
            simp only [List.reverse_append, List.reverse_reverse, List.append_assoc]
            rw [hb]
          · rw [if_neg (by simpa using hl)] at h; cases h

theorem lexLoop_total (c : Cfg) (hn : c.allNonNull = true) : ∀ (n : Nat) (p : Pos) (acc : List Seg),
    p.suf.length < n → (∃ segs, lexLoop c n p acc = .ok segs) ∨ (∃ i segs, lexLoop c n p acc = .err i segs) := by
  intro n
  induction n with
  | zero => intro p acc h; omega
  | succ n ih =>
    intro p acc hlen
    obtain ⟨pre, suf⟩ := p
    cases suf with
    | nil => left; exact ⟨acc.reverse, by simp [lexLoop]⟩
    | cons ch t =>
      simp only [lexLoop]
      by_cases hi : c.ignore.mem ch = true
      · simp only [hi, if_true]
        apply ih
        simp only [List.length_cons] at hlen
        simp only
        omega
      · simp only [hi, Bool.false_eq_true, if_false]
        cases hf : firstMatch c.word c.rules ⟨pre, ch :: t⟩ with
        | none => right; exact ⟨_, _, rfl⟩
        | some rq =>
          obtain ⟨r, q⟩ := rq
          simp only
          obtain ⟨hmem, hm⟩ := firstMatch_spec hf
          have hnn : nonNull r.re = true := by
            unfold Cfg.allNonNull at hn
            exact (List.all_eq_true.mp hn) r hmem
          have hlt := Pos.lt_suf_length (matchAt_lt hnn hm)
          simp only at hlt
          simp only [hlt, if_true]
          apply ih
          simp only [List.length_cons] at hlen hlt
          omega

theorem lexLoop_err_allOK (c : Cfg) : ∀ (n : Nat) (p : Pos) (acc : List Seg) (i : Nat) (segs : List Seg),
    AllOK c acc → lexLoop c n p acc = .err i segs → AllOK c segs := by
  intro n
  induction n with
  | zero => intro p acc i segs _ h; simp [lexLoop] at h
  | succ n ih =>
    intro p acc i segs ha h
    obtain ⟨pre, suf⟩ := p
    cases suf with
    | nil => simp [lexLoop] at h
    | cons ch t =>
      simp only [lexLoop] at h
      by_cases hi : c.ignore.mem ch = true
      · simp only [hi, if_true] at h
        apply ih _ _ _ _ _ h
        intro s hs
        rcases List.mem_cons.mp hs with h0 | h0
        · subst h0; trivial
        · exact ha s h0
      · simp only [hi, Bool.false_eq_true, if_false] at h
        cases hf : firstMatch c.word c.rules ⟨pre, ch :: t⟩ with
        | none =>
          rw [hf] at h
          simp only [Out.err.injEq] at h
          obtain ⟨_, h2⟩ := h
          subst h2
          intro s hs
          exact ha s (List.mem_reverse.mp hs)
        | some rq =>
          obtain ⟨r, q⟩ := rq
          rw [hf] at h
          simp only at h
          by_cases hl : q.suf.length < t.length + 1
          · rw [if_pos (by simpa using hl)] at h
            apply ih _ _ _ _ _ h
            intro s hs
            rcases List.mem_cons.mp hs with h0 | h0
            · subst h0
              exact ⟨between_ne_nil (by simpa using hl), r, (firstMatch_spec hf).1, rfl, rfl⟩
            · exact ha s h0
          · rw [if_neg (by simpa using hl)] at h; cases h

/-! ### the statements about `lex` -/

theorem lex_ok_tiles (c : Cfg) (s : List Nat) (segs : List Seg) (h : lex c s = .ok segs) : flat segs = s := by
  have := (lexLoop_ok c _ _ _ _ h).1
  simpa using this

theorem lex_ok_allOK (c : Cfg) (s : List Nat) (segs : List Seg) (h : lex c s = .ok segs) : AllOK c segs := by
  apply (lexLoop_ok c _ _ _ _ h).2
  intro s hs
  cases hs

theorem lex_ok_tokNonempty (c : Cfg) (s : List Nat) (segs : List Seg) (h : lex c s = .ok segs) : TokNonempty segs :=
  (lex_ok_allOK c s segs h).tokNonempty

theorem lex_err_spec (c : Cfg) (s : List Nat) (i : Nat) (segs : List Seg) (h : lex c s = .err i segs) :
    ∃ ch t, flat segs ++ ch :: t = s ∧ i = (flat segs).length ∧ c.ignore.mem ch = false ∧
      firstMatch c.word c.rules ⟨(flat segs).reverse, ch :: t⟩ = none := by
  have := lexLoop_err c _ ⟨[], s⟩ [] i segs (by simp) h
  simpa using this

theorem lex_err_allOK (c : Cfg) (s : List Nat) (i : Nat) (segs : List Seg) (h : lex c s = .err i segs) : AllOK c segs := by
  apply lexLoop_err_allOK c _ _ _ _ _ _ h
  intro s hs
  cases hs

theorem lex_total (c : Cfg) (hn : c.allNonNull = true) (s : List Nat) :
    (∃ segs, lex c s = .ok segs) ∨ (∃ i segs, lex c s = .err i segs) :=
  lexLoop_total c hn _ _ _ (by simp)

/-! ### positions of the yielded tokens -/

/-- tokens in text order: no overlap, none empty, none beyond the end of the text -/
def Chain (len : Nat) : Nat → List (String × Nat × Nat) → Prop
  | _, [] => True
  | e, (_, a, b) :: r => e ≤ a ∧ a < b ∧ b ≤ len ∧ Chain len b r

theorem Chain.weaken {len : Nat} : ∀ {toks : List (String × Nat × Nat)} {e e' : Nat}, e' ≤ e → Chain len e toks → Chain len e' toks := by
  intro toks
  cases toks with
  | nil => intro _ _ _ _; trivial
  | cons x r =>
    obtain ⟨n, a, b⟩ := x
    intro e e' hle h
    obtain ⟨h1, h2⟩ := h
    exact ⟨Nat.le_trans hle h1, h2⟩

theorem tokensFrom_chain : ∀ (segs : List Seg) (i : Nat), TokNonempty segs →
    Chain (i + (flat segs).length) i (tokensFrom i segs) := by
  intro segs
  induction segs with
  | nil => intro i _; simp [tokensFrom, Chain]
  | cons s r ih =>
    intro i hne
    have hr : TokNonempty r := fun x hx => hne x (List.mem_cons_of_mem _ hx)
    cases s with
    | skip c =>
      simp only [tokensFrom]
      have := ih (i + 1) hr
      have e : i + (flat (Seg.skip c :: r)).length = i + 1 + (flat r).length := by
        have : flat (Seg.skip c :: r) = c :: flat r := by simp [flat, Seg.text]
        rw [this]; simp; omega
      rw [e]
      exact Chain.weaken (by omega) this
    | tok n ig t =>
      have hpos : 0 < t.length := List.length_pos_iff.mpr (hne _ List.mem_cons_self n ig t rfl)
      have e : i + (flat (Seg.tok n ig t :: r)).length = i + t.length + (flat r).length := by
        have : flat (Seg.tok n ig t :: r) = t ++ flat r := by simp [flat, Seg.text]
        rw [this]; simp; omega
      have := ih (i + t.length) hr
      rw [e]
      simp only [tokensFrom]
      cases ig with
      | true => exact Chain.weaken (by omega) this
      | false =>
        simp only [Bool.false_eq_true, if_false]
        exact ⟨Nat.le_refl _, by omega, by omega, this⟩

end MindsVerif.SlyLex
