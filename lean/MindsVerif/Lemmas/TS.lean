import MindsVerif.Model.TSSpec
/-! Lemmas for C15 (core Lean only). -/
namespace MindsVerif.TS

set_option linter.unusedSectionVars false
variable {α : Type} [DecidableEq α] [VOrd α]

/-! ### three-valued AND, selection -/

theorem and3_true (x y : Option Bool) : (and3 x y == some true) = ((x == some true) && (y == some true)) := by
  cases x with
  | none => cases y with
    | none => rfl
    | some b => cases b <;> rfl
  | some a => cases a <;> cases y with
    | none => rfl
    | some b => cases b <;> rfl

theorem sel_and (e : Env α) (a b : W α) (r : Row α) :
    sel e (.bin .and a b) r = (sel e a r && sel e b r) := by
  simp only [sel, ev]; exact and3_true _ _

theorem sel_notNull (e : Env α) (r : Row α) : sel e notNull r = r.t.isSome := by
  simp [sel, notNull, ev, val]

theorem sel_addNotNull_some (e : Env α) (c : W α) (r : Row α) :
    sel e (addNotNull (some c)) r = (sel e c r && r.t.isSome) := by
  simp only [addNotNull, sel_and, sel_notNull]

theorem sel_time_cmp (e : Env α) (r : Row α) (c : α) :
    sel e (.bin .gt (.ident .time) (.const c)) r = onTime (fun v => vgt v c) r ∧
    sel e (.bin .ge (.ident .time) (.const c)) r = onTime (fun v => vge v c) r ∧
    sel e (.bin .lt (.ident .time) (.const c)) r = onTime (fun v => vlt v c) r ∧
    sel e (.bin .le (.ident .time) (.const c)) r = onTime (fun v => vle v c) r := by
  cases h : r.t <;> simp [sel, ev, val, cmp2, onTime, h]

theorem sel_time_btw (e : Env α) (r : Row α) (a b : α) :
    sel e (.btw (.ident .time) (.const a) (.const b)) r = onTime (fun v => vge v a && vle v b) r := by
  cases h : r.t <;> simp [sel, ev, val, cmp2, onTime, h, and3]
  rename_i v
  cases vge v a <;> cases vle v b <;> simp

theorem varEq_aux (ns : Bool) (x q : Option α) (h : ns = true ∨ q.isSome = true) :
    ((if ns = true then some (decide (x = q)) else cmp2 veq x q) == some true) = decide (x = q) := by
  cases ns with
  | true => by_cases hx : x = q <;> simp [hx]
  | false =>
    cases q with
    | none => simp at h
    | some b =>
      cases x with
      | none => simp [cmp2]
      | some a => by_cases hab : a = b <;> simp [cmp2, veq, hab]

/-- the `$var` conjunct selects the partition when the executor is null-safe or the record value is not NULL -/
theorem sel_inPartAt (e : Env α) (r : Row α) (i : Nat)
    (h : e.ns = true ∨ ((e.p[i]?).join).isSome = true) :
    sel e (.bin .eq (.ident (.grp i)) (.var i)) r = inPartAt e r i := by
  simp only [sel, ev, val, inPartAt]
  exact varEq_aux _ _ _ h

theorem sel_injectVars (e : Env α) (r : Row α) : ∀ (n i : Nat) (c : W α),
    (e.ns = true ∨ nonNullFrom e n i = true) →
    sel e (injectVars n i c) r = (sel e c r && inPartFrom e r n i)
  | 0, _, _, _ => by simp [injectVars, inPartFrom]
  | n + 1, i, c, h => by
    have h1 : e.ns = true ∨ ((e.p[i]?).join).isSome = true := by
      rcases h with h | h
      · exact Or.inl h
      · simp only [nonNullFrom, Bool.and_eq_true] at h; exact Or.inr h.1
    have h2 : e.ns = true ∨ nonNullFrom e n (i + 1) = true := by
      rcases h with h | h
      · exact Or.inl h
      · simp only [nonNullFrom, Bool.and_eq_true] at h; exact Or.inr h.2
    rw [injectVars, sel_injectVars e r n (i + 1) _ h2, sel_and, sel_inPartAt e r i h1, inPartFrom,
      Bool.and_assoc]

/-- with plain SQL equality and a NULL in the partition record nothing is selected -/
theorem sel_injectVars_null (e : Env α) (r : Row α) (hns : e.ns = false) : ∀ (n i : Nat) (c : W α),
    nonNullFrom e n i = false → sel e (injectVars n i c) r = false
  | 0, _, _, h => by simp [nonNullFrom] at h
  | n + 1, i, c, h => by
    rw [injectVars]
    by_cases hi : ((e.p[i]?).join).isSome = true
    · have : nonNullFrom e n (i + 1) = false := by
        simp only [nonNullFrom, hi, Bool.true_and] at h; exact h
      exact sel_injectVars_null e r hns n (i + 1) _ this
    · have hnone : (e.p[i]?).join = none := by
        cases hq : (e.p[i]?).join <;> simp_all
      -- the conjunct `g_i = $var` is never TRUE, and it survives the remaining injections
      have hc : sel e (.bin .and c (.bin .eq (.ident (.grp i)) (.var i))) r = false := by
        rw [sel_and]
        have : sel e (.bin .eq (.ident (.grp i)) (.var i)) r = false := by
          simp [sel, ev, val, hns, hnone, cmp2]
        simp [this]
      exact sel_inject_false e r n (i + 1) _ hc
where
  sel_inject_false (e : Env α) (r : Row α) : ∀ (n i : Nat) (c : W α), sel e c r = false →
      sel e (injectVars n i c) r = false
    | 0, _, _, h => by simpa [injectVars] using h
    | n + 1, i, c, h => by
      rw [injectVars]
      exact sel_inject_false e r n (i + 1) _ (by rw [sel_and, h, Bool.false_and])


/-! ### ORDER BY t DESC LIMIT n -/

theorem tge_trans (a b c : Row α) : tge a b = true → tge b c = true → tge a c = true := by
  unfold tge
  cases a.t <;> cases b.t <;> cases c.t <;> simp
  exact fun h1 h2 => VOrd.le_trans _ _ _ h2 h1

theorem tge_total (a b : Row α) : (tge a b || tge b a) = true := by
  unfold tge
  cases a.t <;> cases b.t <;> simp
  rename_i x y
  exact (VOrd.le_total x y |> fun h => by simpa [Bool.or_eq_true, Or.comm] using h)

theorem isLastW_take_sort (n : Nat) (xs : List (Row α)) : IsLastW n xs ((xs.mergeSort tge).take n) := by
  refine ⟨(xs.mergeSort tge).drop n, ?_, ?_, ?_⟩
  · rw [List.take_append_drop]; exact List.mergeSort_perm xs tge
  · rw [List.length_take, (List.mergeSort_perm xs tge).length_eq]
  · have hs := List.pairwise_mergeSort tge_trans tge_total xs
    rw [← List.take_append_drop n (xs.mergeSort tge), List.pairwise_append] at hs
    exact hs.2.2

theorem evalSel_unlimited (e : Env α) (T : List (Row α)) (c : W α) (f : Row α → Bool)
    (hf : ∀ r, sel e c r = f r) : (evalSel e T ⟨c, none⟩).Perm (T.filter f) := by
  have : sel e c = f := funext hf
  simp only [evalSel, limitTake, this]
  exact List.mergeSort_perm _ _

theorem evalSel_limited (e : Env α) (T : List (Row α)) (c : W α) (n : Nat) (f : Row α → Bool)
    (hf : ∀ r, sel e c r = f r) : IsLastW n (T.filter f) (evalSel e T ⟨c, some n⟩) := by
  have : sel e c = f := funext hf
  simp only [evalSel, limitTake, this]
  exact isLastW_take_sort _ _


/-! ### partition-filter leaves and AND-trees -/

/-- the four shapes of a partition filter -/
inductive PFShape (nG : Nat) : W α → Prop
  | cmp (op : Op) (i : Nat) (c : α) (hi : i < nG) (hop : isCmp op = true) :
      PFShape nG (.bin op (.ident (.grp i)) (.const c))
  | inn (i : Nat) (vs : List α) (hi : i < nG) : PFShape nG (.bin .inn (.ident (.grp i)) (.tuple vs))
  | sub (i k : Nat) (w : W α) (hi : i < nG) : PFShape nG (.bin .inn (.ident (.grp i)) (.sub k w))
  | btw (i : Nat) (a b : α) (hi : i < nG) : PFShape nG (.btw (.ident (.grp i)) (.const a) (.const b))

theorem isPF_shape {nG : Nat} {w : W α} (h : isPF nG w = true) : PFShape nG w := by
  unfold isPF at h
  split at h
  · simp at h; exact .cmp _ _ _ h.1 h.2
  · simp at h; exact .inn _ _ h
  · simp at h; exact .sub _ _ _ h
  · simp at h; exact .btw _ _ _ h
  · simp at h

theorem PFShape.not_and {nG : Nat} {w : W α} (h : PFShape nG w) : ∀ l r, w ≠ .bin .and l r := by
  intro l r
  cases h with
  | cmp op i c hi hop => intro e; injection e with e1; subst e1; simp [isCmp] at hop
  | inn i vs hi => intro e; injection e with e1; cases e1
  | sub i k w hi => intro e; injection e with e1; cases e1
  | btw i a b hi => intro e; cases e

theorem pfTree_leaf {nG : Nat} {w : W α} (hna : ∀ l r, w ≠ .bin .and l r) : pfTree nG w = isPF nG w := by
  unfold pfTree
  split
  · exact absurd rfl (hna _ _)
  · rfl

theorem TC.toW_not_and (tc : TC α) : ∀ l r, tc.toW ≠ .bin .and l r := by
  intro l r; cases tc <;> simp [TC.toW]

theorem TC.not_pf (nG : Nat) (tc : TC α) : isPF nG tc.toW = false := by
  cases tc <;> rfl

theorem TC.not_pfTree (nG : Nat) (tc : TC α) : pfTree nG tc.toW = false := by
  rw [pfTree_leaf (tc.toW_not_and)]; exact tc.not_pf nG

/-- induction principle for AND-trees of partition filters -/
theorem pfTree_induction {nG : Nat} {P : W α → Prop}
    (hleaf : ∀ w, PFShape nG w → P w)
    (hand : ∀ l r, pfTree nG l = true → pfTree nG r = true → P l → P r → P (.bin .and l r)) :
    ∀ w, pfTree nG w = true → P w := by
  intro w
  induction w with
  | bin op l r ihl ihr =>
    intro h
    by_cases hop : op = .and
    · subst hop
      simp only [pfTree, Bool.and_eq_true] at h
      exact hand l r h.1 h.2 (ihl h.1) (ihr h.2)
    · have : pfTree nG (.bin op l r) = isPF nG (.bin op l r) :=
        pfTree_leaf (by intro l' r' e; injection e with e1; exact hop e1)
      rw [this] at h; exact hleaf _ (isPF_shape h)
  | _ =>
    intro h
    first
      | exact hleaf _ (isPF_shape (by simpa [pfTree] using h))
      | (simp [pfTree, isPF] at h)

/-- induction principle for AND-trees with exactly one time leaf -/
theorem tcTree_induction {nG : Nat} {tf : W α} {P : W α → Prop}
    (hleaf : P tf)
    (handL : ∀ l r, tcTree nG tf l = true → pfTree nG r = true → P l → P (.bin .and l r))
    (handR : ∀ l r, pfTree nG l = true → tcTree nG tf r = true → P r → P (.bin .and l r)) :
    ∀ w, tcTree nG tf w = true → P w := by
  intro w
  induction w with
  | bin op l r ihl ihr =>
    intro h
    by_cases hop : op = .and
    · subst hop
      simp only [tcTree, Bool.or_eq_true, Bool.and_eq_true] at h
      rcases h with ⟨h1, h2⟩ | ⟨h1, h2⟩
      · exact handL l r h1 h2 (ihl h1)
      · exact handR l r h1 h2 (ihr h2)
    · unfold tcTree at h
      split at h
      · rename_i e; injection e with e1; exact absurd e1 hop
      · simp at h; rw [h]; exact hleaf
  | _ =>
    intro h
    simp [tcTree] at h
    rw [h]; exact hleaf


/-! ### the ts_utils functions on the domain -/

section pf
variable {nG : Nat} (tc : TC α)

theorem PFShape.ne_tc {w : W α} (h : PFShape nG w) : w ≠ tc.toW := by
  intro e
  have h1 := tc.not_pf nG
  rw [← e] at h1
  cases h <;> simp_all [isPF, isCmp]

theorem pf_findTF : ∀ w : W α, pfTree nG w = true → findTF w = .none := by
  apply pfTree_induction
  · intro w h
    cases h with
    | cmp op i c hi hop => cases op <;> simp_all [findTF, isTimeIdent, isCmp]
    | inn i vs hi => simp [findTF, isTimeIdent]
    | sub i k w hi => simp [findTF, isTimeIdent]
    | btw i a b hi => simp [findTF, isTimeIdent]
  · intro l r _ _ hl hr; simp [findTF, hl, hr, FT.merge]

theorem pf_identOk {w : W α} (h : pfTree nG w = true) : identOk nG w = true := by
  cases w <;> simp_all [identOk, pfTree, isPF]

theorem pf_isOp {w : W α} (h : pfTree nG w = true) : w.isOperation = true := by
  cases w <;> simp_all [W.isOperation, pfTree, isPF]

theorem pf_validate : ∀ w : W α, pfTree nG w = true → validate nG w = true := by
  apply pfTree_induction
  · intro w h
    cases h with
    | cmp op i c hi hop => cases op <;> simp_all [validate, allowedOp, identOk, allowedCol, isCmp]
    | inn i vs hi => simp [validate, allowedOp, identOk, allowedCol, hi]
    | sub i k w hi => simp [validate, allowedOp, identOk, allowedCol, hi]
    | btw i a b hi => simp [validate, identOk, allowedCol, hi]
  · intro l r h1 h2 hl hr; simp [validate, allowedOp, pf_identOk h1, pf_identOk h2, pf_isOp h1, pf_isOp h2, hl, hr]

theorem pf_validateDeep : ∀ w : W α, pfTree nG w = true → validateDeep nG w = true := by
  apply pfTree_induction
  · intro w h
    cases h with
    | cmp op i c hi hop => cases op <;> simp_all [validateDeep, allowedOp, identOk, allowedCol, isCmp]
    | inn i vs hi => simp [validateDeep, allowedOp, identOk, allowedCol, hi]
    | sub i k w hi => simp [validateDeep, allowedOp, identOk, allowedCol, hi]
    | btw i a b hi => simp [validateDeep, identOk, allowedCol, hi]
  · intro l r h1 h2 hl hr
    simp [validateDeep, allowedOp, pf_identOk h1, pf_identOk h2, pf_isOp h1, pf_isOp h2, hl, hr]

theorem pf_validO (cfg : Cfg) (w : W α) (h : pfTree nG w = true) : validO cfg nG (some w) = true := by
  simp only [validO]; split
  · exact pf_validateDeep w h
  · exact pf_validate w h

theorem pf_replaceTF (new : W α) : ∀ w : W α, pfTree nG w = true → replaceTF tc.toW new w = w := by
  apply pfTree_induction
  · intro w h
    have hne := h.ne_tc tc
    cases h with
    | cmp op i c hi hop =>
      cases tc <;> simp_all [replaceTF, TC.toW]
    | inn i vs hi => cases tc <;> simp_all [replaceTF, TC.toW]
    | sub i k w hi => cases tc <;> simp_all [replaceTF, TC.toW]
    | btw i a b hi => simp_all [replaceTF]
  · intro l r _ _ hl hr
    have := (tc.toW_not_and l r).symm
    simp [replaceTF, this, hl, hr]

theorem pf_removeTF : ∀ w : W α, pfTree nG w = true → removeTF (some tc.toW) w = some w := by
  apply pfTree_induction
  · intro w h
    have hne := h.ne_tc tc
    cases h with
    | cmp op i c hi hop => cases op <;> simp_all [removeTF, isCmp]
    | inn i vs hi => simp_all [removeTF]
    | sub i k w hi => simp_all [removeTF]
    | btw i a b hi => simp_all [removeTF]
  · intro l r _ _ hl hr
    have := (tc.toW_not_and l r).symm
    simp [removeTF, this, hl, hr]

theorem pf_removeTF_none : ∀ w : W α, pfTree nG w = true → removeTF none w = some w := by
  apply pfTree_induction
  · intro w h
    cases h with
    | cmp op i c hi hop => cases op <;> simp_all [removeTF, isCmp]
    | inn i vs hi => simp_all [removeTF]
    | sub i k w hi => simp_all [removeTF]
    | btw i a b hi => simp_all [removeTF]
  · intro l r _ _ hl hr
    simp [removeTF, hl, hr]

theorem pf_restSel (e : Env α) (tf : W α) (htf : pfTree nG tf = false) (r : Row α) :
    ∀ w, pfTree nG w = true → restSel e tf w r = sel e w r := by
  apply pfTree_induction
  · intro w h
    have hne : w ≠ tf := by
      intro e; subst e
      have := pfTree_leaf (nG := nG) h.not_and
      cases h <;> simp_all [isPF]
    have hna := h.not_and
    unfold restSel
    split
    · rename_i e; exact absurd rfl (hna _ _)
    · simp [hne]
  · intro l r' _ _ hl hr
    simp [restSel, sel_and, hl, hr]

end pf


section tcs
variable {nG : Nat} (tc : TC α)

theorem tc_findTF_leaf : findTF tc.toW = .one tc.toW := by
  cases tc <;> simp [findTF, TC.toW, isTimeIdent]

theorem tc_findTF : ∀ w : W α, tcTree nG tc.toW w = true → findTF w = .one tc.toW := by
  apply tcTree_induction
  · exact tc_findTF_leaf tc
  · intro l r _ h2 hl; simp [findTF, hl, pf_findTF r h2, FT.merge]
  · intro l r h1 _ hr; simp [findTF, hr, pf_findTF l h1, FT.merge]

theorem tc_identOk {w : W α} (h : tcTree nG tc.toW w = true) : identOk nG w = true := by
  cases w <;> first | rfl | (cases tc <;> simp_all [tcTree, TC.toW])

theorem tc_isOp {w : W α} (h : tcTree nG tc.toW w = true) : w.isOperation = true := by
  cases w <;> first | rfl | (cases tc <;> simp_all [tcTree, TC.toW])

theorem tc_validate : ∀ w : W α, tcTree nG tc.toW w = true → validate nG w = true := by
  apply tcTree_induction
  · cases tc <;> simp [validate, TC.toW, allowedOp, identOk, allowedCol]
  · intro l r h1 h2 hl
    simp [validate, allowedOp, tc_identOk tc h1, pf_identOk h2, tc_isOp tc h1, pf_isOp h2, hl, pf_validate r h2]
  · intro l r h1 h2 hr
    simp [validate, allowedOp, tc_identOk tc h2, pf_identOk h1, tc_isOp tc h2, pf_isOp h1, hr, pf_validate l h1]

theorem tc_validateDeep : ∀ w : W α, tcTree nG tc.toW w = true → validateDeep nG w = true := by
  apply tcTree_induction
  · cases tc <;> simp [validateDeep, TC.toW, allowedOp, identOk, allowedCol]
  · intro l r h1 h2 hl
    simp [validateDeep, allowedOp, tc_identOk tc h1, pf_identOk h2, tc_isOp tc h1, pf_isOp h2, hl,
      pf_validateDeep r h2]
  · intro l r h1 h2 hr
    simp [validateDeep, allowedOp, tc_identOk tc h2, pf_identOk h1, tc_isOp tc h2, pf_isOp h1, hr,
      pf_validateDeep l h1]

theorem tc_validO (cfg : Cfg) (w : W α) (h : tcTree nG tc.toW w = true) : validO cfg nG (some w) = true := by
  simp only [validO]; split
  · exact tc_validateDeep tc w h
  · exact tc_validate tc w h

theorem restSel_leaf (e : Env α) (r : Row α) : restSel e tc.toW tc.toW r = true := by
  unfold restSel
  split
  · rename_i e; exact absurd e (tc.toW_not_and _ _)
  · simp

theorem tc_sel (e : Env α) (r : Row α) : ∀ w : W α, tcTree nG tc.toW w = true →
    sel e w r = (sel e tc.toW r && restSel e tc.toW w r) := by
  apply tcTree_induction
  · simp [restSel_leaf]
  · intro l x _ h2 hl
    rw [sel_and, hl]
    simp only [restSel]
    rw [pf_restSel e tc.toW (tc.not_pfTree nG) r x h2, Bool.and_assoc]
  · intro l x h1 _ hr
    rw [sel_and, hr]
    simp only [restSel]
    rw [pf_restSel e tc.toW (tc.not_pfTree nG) r l h1]
    cases sel e l r <;> cases sel e tc.toW r <;> simp

theorem replaceTF_leaf (new : W α) : replaceTF tc.toW new tc.toW = new := by
  cases tc <;> simp [replaceTF, TC.toW]

theorem tc_sel_replace (e : Env α) (r : Row α) (new : W α) : ∀ w : W α, tcTree nG tc.toW w = true →
    sel e (replaceTF tc.toW new w) r = (sel e new r && restSel e tc.toW w r) := by
  apply tcTree_induction
  · simp [restSel_leaf, replaceTF_leaf]
  · intro l x _ h2 hl
    have := (tc.toW_not_and l x).symm
    simp only [replaceTF, this, if_false, sel_and, hl, pf_replaceTF tc new x h2, restSel]
    rw [pf_restSel e tc.toW (tc.not_pfTree nG) r x h2, Bool.and_assoc]
  · intro l x h1 _ hr
    have := (tc.toW_not_and l x).symm
    simp only [replaceTF, this, if_false, sel_and, hr, pf_replaceTF tc new l h1, restSel]
    rw [pf_restSel e tc.toW (tc.not_pfTree nG) r l h1]
    cases sel e l r <;> cases sel e new r <;> simp

/-- selection predicate of an optional WHERE -/
def selO (e : Env α) (w : Option (W α)) (r : Row α) : Bool :=
  match w with
  | none => true
  | some w => sel e w r

theorem removeTF_leaf : removeTF (some tc.toW) tc.toW = none := by
  cases tc <;> simp [removeTF, TC.toW]

theorem tc_remove (e : Env α) (r : Row α) : ∀ w : W α, tcTree nG tc.toW w = true →
    selO e (removeTF (some tc.toW) w) r = restSel e tc.toW w r := by
  apply tcTree_induction
  · simp [removeTF_leaf, selO, restSel_leaf]
  · intro l x _ h2 hl
    have := (tc.toW_not_and l x).symm
    simp only [removeTF, restSel, pf_removeTF tc x h2]
    rw [pf_restSel e tc.toW (tc.not_pfTree nG) r x h2, ← hl]
    cases removeTF (some tc.toW) l <;> simp [selO, sel_and, this]
  · intro l x h1 _ hr
    have := (tc.toW_not_and l x).symm
    simp only [removeTF, restSel, pf_removeTF tc l h1]
    rw [pf_restSel e tc.toW (tc.not_pfTree nG) r l h1, ← hr]
    cases removeTF (some tc.toW) x <;> simp [selO, sel_and, this]

end tcs


/-! ### planTS on accepted queries -/

theorem map_inject_zero (nG : Nat) (sels : List (Sel α)) :
    (if nG = 0 then sels else sels.map (injectSel nG)) = sels.map (injectSel nG) := by
  by_cases h : nG = 0
  · subst h
    have : (injectSel 0 : Sel α → Sel α) = id := by funext s; simp [injectSel, injectVars]
    simp [this]
  · simp [h]

theorem planOk_eq (m : Meta) (pw : Option (W α)) (lim : Option Nat) (tf : Option (W α)) :
    planOk m pw lim tf =
      ⟨if m.nG = 0 then none else some (removeO tf pw),
       (branches m.window pw tf).1.map (injectSel m.nG), (branches m.window pw tf).2, limitOf lim⟩ := by
  simp [planOk, map_inject_zero]

/-- what `planTS` returns when nothing is rejected and `find_time_filter` finds `t` -/
theorem planTS_eq_some (cfg : Cfg) (m : Meta) (q : Query α) (ho : q.orderBy = false) (hg : q.groupBy = false)
    (hh : q.having = false) (hf : q.offset = false) (hv : validO cfg m.nG q.whereC = true)
    (t : W α) (hft : ftOf q.whereC = FT.one t) :
    planTS cfg m q = .ok (planOk m (normStep cfg q.whereC t).1 q.limit (some (normStep cfg q.whereC t).2)) := by
  unfold planTS
  rw [hft]
  simp [ho, hg, hh, hf, hv]

theorem planTS_eq_none (cfg : Cfg) (m : Meta) (q : Query α) (ho : q.orderBy = false) (hg : q.groupBy = false)
    (hh : q.having = false) (hf : q.offset = false) (hv : validO cfg m.nG q.whereC = true)
    (hft : ftOf q.whereC = FT.none) :
    planTS cfg m q = .ok (planOk m q.whereC q.limit none) := by
  unfold planTS
  rw [hft]
  simp [ho, hg, hh, hf, hv]

theorem replaceTF_self (tf : W α) : ∀ w : W α, replaceTF tf tf w = w := by
  intro w
  induction w with
  | bin op l r ihl ihr =>
    simp only [replaceTF, ihl, ihr]
    split
    · rename_i h; exact h.symm
    · rfl
  | _ =>
    simp only [replaceTF]
    split
    · rename_i h; exact h.symm
    · rfl

theorem normTF_tc (tc : TC α) : normTF tc.toW = tc.toW := by
  cases tc <;> rfl

/-- on the domain of the row theorem the order column is already on the left: the normalisation of
fixes/C15_4.diff does nothing -/
theorem normStep_tc (cfg : Cfg) (pw : Option (W α)) (tc : TC α) : normStep cfg pw tc.toW = (pw, tc.toW) := by
  unfold normStep
  split
  · rw [normTF_tc]
    cases pw with
    | none => rfl
    | some w => simp [replaceTF_self]
  · rfl

/-! ### assembling the fetched rows -/

theorem fetched_two (e : Env α) (T : List (Row α)) (n : Nat) (cA cB : W α) (fA fB : Row α → Bool)
    (hA : ∀ r, sel e cA r = fA r) (hB : ∀ r, sel e cB r = fB r) :
    ∃ L, IsLastW n (T.filter fA) L ∧ (fetched e T [⟨cA, some n⟩, ⟨cB, none⟩]).Perm (T.filter fB ++ L) := by
  refine ⟨evalSel e T ⟨cA, some n⟩, evalSel_limited e T cA n fA hA, ?_⟩
  simp only [fetched, List.map, List.flatten_cons, List.flatten_nil, List.append_nil]
  exact List.perm_append_comm.trans ((evalSel_unlimited e T cB fB hB).append_right _)

theorem fetched_window (e : Env α) (T : List (Row α)) (n : Nat) (cA : W α) (fA : Row α → Bool)
    (hA : ∀ r, sel e cA r = fA r) :
    ∃ L, IsLastW n (T.filter fA) L ∧ (fetched e T [⟨cA, some n⟩]).Perm ([] ++ L) := by
  refine ⟨evalSel e T ⟨cA, some n⟩, evalSel_limited e T cA n fA hA, ?_⟩
  simp [fetched]

theorem fetched_all (e : Env α) (T : List (Row α)) (cB : W α) (fB : Row α → Bool)
    (hB : ∀ r, sel e cB r = fB r) :
    (fetched e T [⟨cB, none⟩]).Perm (T.filter fB ++ []) := by
  simp only [fetched, List.map, List.flatten_cons, List.flatten_nil, List.append_nil]
  exact evalSel_unlimited e T cB fB hB

theorem onTime_true (r : Row α) : onTime (fun _ => true) r = r.t.isSome := by
  cases h : r.t <;> simp [onTime, h]

theorem onTime_false (r : Row α) : onTime (fun _ => false) r = false := by
  cases h : r.t <;> simp [onTime, h]

theorem removeTF_notNull (tc : TC α) : removeTF (some tc.toW) notNull = some notNull := by
  cases tc <;> simp [removeTF, notNull, TC.toW]

/-- selection predicate of the `> LATEST` / `= LATEST` select -/
theorem sel_latest_shape {nG : Nat} (tc : TC α) (e : Env α) (r : Row α) (w : W α)
    (hw : tcTree nG tc.toW w = true) :
    sel e ((removeTF (some tc.toW) (addNotNull (some w))).getD .null) r
      = (restSel e tc.toW w r && r.t.isSome) := by
  have hne : (W.bin .and w notNull) ≠ tc.toW := (tc.toW_not_and _ _).symm
  have h := tc_remove tc e r w hw
  simp only [addNotNull, removeTF, removeTF_notNull]
  cases hr : removeTF (some tc.toW) w with
  | none => simp [hr, selO] at h; simp [hne, sel_notNull, ← h]
  | some w' => simp [hr, selO] at h; simp [hne, sel_and, sel_notNull, h]


/-! ### the branch table on the domain, and the selection predicate of each generated select -/

/-- the rewritten time filter of the window select -/
def lowW : TC α → W α
  | .gt c => .bin .le (.ident .time) (.const c)
  | .ge c => .bin .lt (.ident .time) (.const c)
  | .eq c => .bin .le (.ident .time) (.const c)
  | .btw a _ => .bin .lt (.ident .time) (.const a)
  | _ => .null

def selWin (n : Nat) (tc : TC α) (w : W α) : Sel α := ⟨addNotNull (some (replaceTF tc.toW (lowW tc) w)), some n⟩
def selAll (w : W α) : Sel α := ⟨addNotNull (some w), none⟩
def selLatest (n : Nat) (tc : TC α) (w : W α) : Sel α :=
  ⟨(removeTF (some tc.toW) (addNotNull (some w))).getD .null, some n⟩

def branchesSpec (n : Nat) (tc : TC α) (w : W α) : List (Sel α) × Option (W α) :=
  match tc with
  | .gt _ | .ge _ | .btw _ _ => ([selWin n tc w, selAll w], some tc.toW)
  | .eq c => ([selWin n tc w], some (TC.gt c).toW)
  | .lt _ | .le _ => ([selAll w], some tc.toW)
  | .gtLatest | .eqLatest => ([selLatest n tc w], some tc.toW)

theorem branches_dom (n : Nat) (tc : TC α) (w : W α) :
    branches n (some w) (some tc.toW) = branchesSpec n tc w := by
  cases tc <;> rfl

theorem bool_perm (a b c d : Bool) : (((a && b) && c) && d) = (((c && b) && d) && a) := by
  cases a <;> cases b <;> cases c <;> cases d <;> rfl

theorem base_some {nG : Nat} (tc : TC α) (e : Env α) (w : W α) (r : Row α) :
    base e nG (some tc) (some w) r = ((r.t.isSome && restSel e tc.toW w r) && inPart e nG r) := by
  simp [base, restSelO]

theorem selWin_pred {nG : Nat} (tc : TC α) (e : Env α) (r : Row α) (w : W α) (n : Nat) (f : α → Bool)
    (hd : tcTree nG tc.toW w = true) (hnew : sel e (lowW tc) r = onTime f r)
    (hok : e.ns = true ∨ nonNullFrom e nG 0 = true) :
    sel e (injectSel nG (selWin n tc w)).whereC r = (base e nG (some tc) (some w) r && onTime f r) := by
  simp only [injectSel, selWin]
  rw [sel_injectVars _ _ _ _ _ hok, sel_addNotNull_some, tc_sel_replace tc e r _ w hd, hnew, base_some]
  exact bool_perm _ _ _ _

theorem selAll_pred {nG : Nat} (tc : TC α) (e : Env α) (r : Row α) (w : W α) (f : α → Bool)
    (hd : tcTree nG tc.toW w = true) (htc : sel e tc.toW r = onTime f r)
    (hok : e.ns = true ∨ nonNullFrom e nG 0 = true) :
    sel e (injectSel nG (selAll w)).whereC r = (base e nG (some tc) (some w) r && onTime f r) := by
  simp only [injectSel, selAll]
  rw [sel_injectVars _ _ _ _ _ hok, sel_addNotNull_some, tc_sel tc e r w hd, htc, base_some]
  exact bool_perm _ _ _ _

theorem selLatest_pred {nG : Nat} (tc : TC α) (e : Env α) (r : Row α) (w : W α) (n : Nat)
    (hd : tcTree nG tc.toW w = true) (hok : e.ns = true ∨ nonNullFrom e nG 0 = true) :
    sel e (injectSel nG (selLatest n tc w)).whereC r
      = (base e nG (some tc) (some w) r && onTime (fun _ => true) r) := by
  simp only [injectSel, selLatest]
  rw [sel_injectVars _ _ _ _ _ hok, sel_latest_shape tc e r w hd, base_some, onTime_true]
  simp only [inPart]
  cases restSel e tc.toW w r <;> cases r.t.isSome <;> cases inPartFrom e r nG 0 <;> rfl

theorem sel_tc_cond (tc : TC α) (e : Env α) (r : Row α)
    (h : tc ≠ .gtLatest ∧ tc ≠ .eqLatest ∧ ∀ c, tc ≠ .eq c) : sel e tc.toW r = onTime tc.cond r := by
  cases tc with
  | gt c => exact (sel_time_cmp e r c).1
  | ge c => exact (sel_time_cmp e r c).2.1
  | lt c => exact (sel_time_cmp e r c).2.2.1
  | le c => exact (sel_time_cmp e r c).2.2.2
  | btw a b => exact sel_time_btw e r a b
  | eq c => exact absurd rfl (h.2.2 c)
  | gtLatest => exact absurd rfl h.1
  | eqLatest => exact absurd rfl h.2.1

theorem filter_cond_false (f : Row α → Bool) (T : List (Row α)) :
    T.filter (fun r => f r && onTime (fun _ => false) r) = [] := by
  have : (fun r => f r && onTime (fun _ => false) r) = fun _ => false := by
    funext r; simp [onTime_false]
  rw [this]; simp

/-- no time condition -/
theorem sel_none_pred {nG : Nat} (e : Env α) (r : Row α) (hok : e.ns = true ∨ nonNullFrom e nG 0 = true) :
    sel e (injectSel nG ⟨addNotNull none, none⟩).whereC r = (base e nG none none r && true) := by
  simp only [injectSel, addNotNull]
  rw [sel_injectVars _ _ _ _ _ hok, sel_notNull]
  simp [base, restSelO, inPart]

theorem sel_pf_pred {nG : Nat} (e : Env α) (r : Row α) (w : W α) (hd : pfTree nG w = true)
    (hok : e.ns = true ∨ nonNullFrom e nG 0 = true) :
    sel e (injectSel nG ⟨addNotNull (some w), none⟩).whereC r = (base e nG none (some w) r && true) := by
  simp only [injectSel]
  rw [sel_injectVars _ _ _ _ _ hok, sel_addNotNull_some]
  have : restSel e W.null w r = sel e w r := pf_restSel e W.null (by rfl) r w hd
  simp only [base, restSelO, Option.map, Option.getD, this, inPart, Bool.and_true]
  cases sel e w r <;> cases r.t.isSome <;> simp


/-! ### T15.3: validate against the independent reading; no crash -/

theorem validate_nonop (nG : Nat) {w : W α} (h : w.isOperation = false) : validate nG w = true := by
  cases w <;> simp_all [W.isOperation, validate]

theorem identOk_bin (nG : Nat) (op : Op) (l r : W α) : identOk nG (.bin op l r) = true := rfl
theorem identOk_btw (nG : Nat) (x a b : W α) : identOk nG (.btw x a b) = true := rfl

theorem andOk_nonop {w : W α} (h : w.isOperation = false) : andOk w = true := by
  cases w <;> simp_all [W.isOperation, andOk]

theorem validate_spec (nG : Nat) : ∀ w : W α, visible w = true →
    (validate nG w && identOk nG w) = (opsOk w && colsOk nG w && andOk w) := by
  intro w
  induction w with
  | bin op l r ihl ihr =>
    intro hv
    simp only [visible, Bool.and_eq_true] at hv
    have e1 := ihl hv.1
    have e2 := ihr hv.2
    simp only [validate, identOk_bin, opsOk, colsOk, andOk, Bool.and_true]
    generalize (op != Op.and || (l.isOperation && r.isOperation)) = k
    have : (allowedOp op && opsOk l && opsOk r && (colsOk nG l && colsOk nG r) && (k && andOk l && andOk r))
        = (allowedOp op && k && ((opsOk l && colsOk nG l && andOk l) && (opsOk r && colsOk nG r && andOk r))) := by
      ac_rfl
    rw [this, ← e1, ← e2]; ac_rfl
  | btw x a b ihx iha ihb =>
    intro hv
    simp only [visible, Bool.and_eq_true, Bool.not_eq_true'] at hv
    have e1 := ihx hv.1.1.1
    have e2 := iha hv.1.1.2
    have e3 := ihb hv.1.2
    rw [validate_nonop nG hv.2, Bool.true_and] at e3
    simp only [validate, identOk_btw, opsOk, colsOk, andOk, Bool.and_true]
    have : (opsOk x && opsOk a && opsOk b && (colsOk nG x && colsOk nG a && colsOk nG b) && (andOk x && andOk a && andOk b))
        = ((opsOk x && colsOk nG x && andOk x) && (opsOk a && colsOk nG a && andOk a)
            && (opsOk b && colsOk nG b && andOk b)) := by ac_rfl
    rw [this, ← e1, ← e2, ← e3]; ac_rfl
  | un x _ => intro _; simp [validate, opsOk]
  | «opaque» f => intro hv; simp_all [visible, validate, identOk, opsOk, colsOk, andOk]
  | cont f k x rest _ _ => intro hv; simp_all [visible, validate, identOk, opsOk, colsOk, andOk]
  | _ => intro _; simp [validate, identOk, opsOk, colsOk, andOk]

/-- the repaired validation is exactly the independent reading, on every tree -/
theorem validateDeep_spec (nG : Nat) : ∀ w : W α,
    (validateDeep nG w && identOk nG w) = (opsOk w && colsOk nG w && andOk w) := by
  intro w
  induction w with
  | bin op l r ihl ihr =>
    simp only [validateDeep, identOk_bin, opsOk, colsOk, andOk, Bool.and_true]
    generalize (op != Op.and || (l.isOperation && r.isOperation)) = k
    have : (allowedOp op && opsOk l && opsOk r && (colsOk nG l && colsOk nG r) && (k && andOk l && andOk r))
        = (allowedOp op && k && ((opsOk l && colsOk nG l && andOk l) && (opsOk r && colsOk nG r && andOk r))) := by
      ac_rfl
    rw [this, ← ihl, ← ihr]; ac_rfl
  | btw x a b ihx iha ihb =>
    simp only [validateDeep, identOk_btw, opsOk, colsOk, andOk, Bool.and_true]
    have : (opsOk x && opsOk a && opsOk b && (colsOk nG x && colsOk nG a && colsOk nG b) && (andOk x && andOk a && andOk b))
        = ((opsOk x && colsOk nG x && andOk x) && (opsOk a && colsOk nG a && andOk a)
            && (opsOk b && colsOk nG b && andOk b)) := by ac_rfl
    rw [this, ← ihx, ← iha, ← ihb]; ac_rfl
  | un x _ => simp [validateDeep, opsOk]
  | «opaque» f => simp [validateDeep, identOk, opsOk, colsOk, andOk]
  | _ => simp [validateDeep, identOk, opsOk, colsOk, andOk]

theorem validateDeep_le (nG : Nat) : ∀ w : W α, validateDeep nG w = true → validate nG w = true := by
  intro w
  induction w with
  | bin op l r ihl ihr =>
    simp only [validateDeep, validate, Bool.and_eq_true]
    intro h; exact ⟨⟨h.1.1, ihl h.1.2⟩, ihr h.2⟩
  | btw x a b ihx iha _ =>
    simp only [validateDeep, validate, Bool.and_eq_true]
    intro h; exact ⟨⟨h.1.1.1, ihx h.1.1.2⟩, iha h.1.2⟩
  | un x _ => simp [validateDeep]
  | _ => simp [validate]

theorem identOk_op (nG : Nat) {w : W α} (h : w.isOperation = true) : identOk nG w = true := by
  cases w <;> simp_all [W.isOperation, identOk]

theorem findTF_no_crash (nG : Nat) : ∀ w : W α, w.isOperation = true → validate nG w = true →
    findTF w ≠ .crash := by
  intro w
  induction w with
  | bin op l r ihl ihr =>
    intro _ hv
    by_cases hop : op = .and
    · subst hop
      simp only [validate, Bool.and_eq_true, Bool.or_eq_true, bne_self_eq_false, Bool.false_eq_true, false_or] at hv
      have h1 := ihl hv.1.1.1.1.2.1 hv.1.2
      have h2 := ihr hv.1.1.1.1.2.2 hv.2
      simp only [findTF]
      cases hl : findTF l <;> cases hr : findTF r <;> simp_all [FT.merge]
    · have : findTF (.bin op l r) = if isTimeIdent l || isTimeIdent r then .one (.bin op l r) else .none := by
        cases op <;> first | rfl | exact absurd rfl hop
      rw [this]; split <;> simp
  | btw x a b _ _ _ => intro _ _; simp only [findTF]; split <;> simp
  | un x _ => intro _ hv; simp [validate] at hv
  | _ => intro h; simp [W.isOperation] at h


/-! ### order column on the right (`c < t`): what fixes/C15_4.diff (`Cfg.normalizeTF`) does -/

section rcs
variable {nG : Nat} (rc : RC α)

theorem RC.toW_not_and : ∀ l r : W α, rc.toW ≠ .bin .and l r := by
  intro l r; cases rc <;> simp [RC.toW]

theorem RC.not_pf (nG : Nat) : isPF nG rc.toW = false := by
  cases rc <;> rfl

theorem normTF_rc : normTF rc.toW = rc.mirror.toW := by
  cases rc <;> rfl

theorem PFShape.ne_rc {w : W α} (h : PFShape nG w) : w ≠ rc.toW := by
  intro e
  have h1 := rc.not_pf nG
  rw [← e] at h1
  cases h <;> simp_all [isPF, isCmp]

theorem pf_replaceTF_rc (new : W α) : ∀ w : W α, pfTree nG w = true → replaceTF rc.toW new w = w := by
  apply pfTree_induction
  · intro w h
    have hne := h.ne_rc rc
    cases h with
    | cmp op i c hi hop => cases rc <;> simp_all [replaceTF, RC.toW]
    | inn i vs hi => cases rc <;> simp_all [replaceTF, RC.toW]
    | sub i k w hi => cases rc <;> simp_all [replaceTF, RC.toW]
    | btw i a b hi => simp_all [replaceTF]
  · intro l r _ _ hl hr
    have := (rc.toW_not_and l r).symm
    simp [replaceTF, this, hl, hr]

theorem rc_findTF : ∀ w : W α, tcTree nG rc.toW w = true → findTF w = .one rc.toW := by
  apply tcTree_induction
  · cases rc <;> simp [findTF, RC.toW, isTimeIdent]
  · intro l r _ h2 hl; simp [findTF, hl, pf_findTF r h2, FT.merge]
  · intro l r h1 _ hr; simp [findTF, hr, pf_findTF l h1, FT.merge]

theorem rc_identOk {w : W α} (h : tcTree nG rc.toW w = true) : identOk nG w = true := by
  cases w <;> first | rfl | (cases rc <;> simp_all [tcTree, RC.toW])

theorem rc_isOp {w : W α} (h : tcTree nG rc.toW w = true) : w.isOperation = true := by
  cases w <;> first | rfl | (cases rc <;> simp_all [tcTree, RC.toW])

theorem rc_validate : ∀ w : W α, tcTree nG rc.toW w = true → validate nG w = true := by
  apply tcTree_induction
  · cases rc <;> simp [validate, RC.toW, allowedOp, identOk, allowedCol]
  · intro l r h1 h2 hl
    simp [validate, allowedOp, rc_identOk rc h1, pf_identOk h2, rc_isOp rc h1, pf_isOp h2, hl, pf_validate r h2]
  · intro l r h1 h2 hr
    simp [validate, allowedOp, rc_identOk rc h2, pf_identOk h1, rc_isOp rc h2, pf_isOp h1, hr, pf_validate l h1]

theorem rc_validateDeep : ∀ w : W α, tcTree nG rc.toW w = true → validateDeep nG w = true := by
  apply tcTree_induction
  · cases rc <;> simp [validateDeep, RC.toW, allowedOp, identOk, allowedCol]
  · intro l r h1 h2 hl
    simp [validateDeep, allowedOp, rc_identOk rc h1, pf_identOk h2, rc_isOp rc h1, pf_isOp h2, hl,
      pf_validateDeep r h2]
  · intro l r h1 h2 hr
    simp [validateDeep, allowedOp, rc_identOk rc h2, pf_identOk h1, rc_isOp rc h2, pf_isOp h1, hr,
      pf_validateDeep l h1]

theorem rc_validO (cfg : Cfg) (w : W α) (h : tcTree nG rc.toW w = true) : validO cfg nG (some w) = true := by
  simp only [validO]; split
  · exact rc_validateDeep rc w h
  · exact rc_validate rc w h

theorem tcTree_self (tc : TC α) : tcTree nG tc.toW tc.toW = true := by
  cases tc <;> simp [tcTree, TC.toW]

theorem replaceTF_leaf_rc (new : W α) : replaceTF rc.toW new rc.toW = new := by
  cases rc <;> simp [replaceTF, RC.toW]

/-- the normalised WHERE is in the domain of the row theorem, with the mirrored class -/
theorem rc_replace_tcTree : ∀ w : W α, tcTree nG rc.toW w = true →
    tcTree nG rc.mirror.toW (replaceTF rc.toW rc.mirror.toW w) = true := by
  apply tcTree_induction
  · rw [replaceTF_leaf_rc]; exact tcTree_self _
  · intro l r _ h2 hl
    have := (rc.toW_not_and l r).symm
    simp [replaceTF, this, tcTree, hl, pf_replaceTF_rc rc _ r h2, h2]
  · intro l r h1 _ hr
    have := (rc.toW_not_and l r).symm
    simp [replaceTF, this, tcTree, hr, pf_replaceTF_rc rc _ l h1, h1]

theorem sel_rc_mirror (e : Env α) (r : Row α) : sel e rc.mirror.toW r = sel e rc.toW r := by
  cases rc <;> cases h : r.t <;>
    simp [sel, ev, val, cmp2, RC.toW, RC.mirror, TC.toW, h, vgt, vge, vlt, vle, veq, eq_comm]

/-- and it means the same as the user's WHERE -/
theorem rc_replace_sel (e : Env α) (r : Row α) : ∀ w : W α, tcTree nG rc.toW w = true →
    sel e (replaceTF rc.toW rc.mirror.toW w) r = sel e w r := by
  apply tcTree_induction
  · rw [replaceTF_leaf_rc]; exact sel_rc_mirror rc e r
  · intro l x _ h2 hl
    have := (rc.toW_not_and l x).symm
    simp only [replaceTF, this, if_false, sel_and, hl, pf_replaceTF_rc rc _ x h2]
  · intro l x h1 _ hr
    have := (rc.toW_not_and l x).symm
    simp only [replaceTF, this, if_false, sel_and, hr, pf_replaceTF_rc rc _ l h1]

theorem RC.not_pfTree (nG : Nat) : pfTree nG rc.toW = false := by
  rw [pfTree_leaf (rc.toW_not_and)]; exact rc.not_pf nG

theorem restSel_leaf_rc (e : Env α) (r : Row α) : restSel e rc.toW rc.toW r = true := by
  unfold restSel
  split
  · rename_i h; exact absurd h (rc.toW_not_and _ _)
  · simp

/-- the conjuncts other than the time leaf are the same before and after the normalisation -/
theorem rc_restSel (e : Env α) (r : Row α) : ∀ w : W α, tcTree nG rc.toW w = true →
    restSel e rc.mirror.toW (replaceTF rc.toW rc.mirror.toW w) r = restSel e rc.toW w r := by
  apply tcTree_induction
  · rw [replaceTF_leaf_rc, restSel_leaf, restSel_leaf_rc]
  · intro l x _ h2 hl
    have := (rc.toW_not_and l x).symm
    simp only [replaceTF, this, if_false, restSel, hl, pf_replaceTF_rc rc _ x h2]
    rw [pf_restSel e rc.mirror.toW (rc.mirror.not_pfTree nG) r x h2, pf_restSel e rc.toW (rc.not_pfTree nG) r x h2]
  · intro l x h1 _ hr
    have := (rc.toW_not_and l x).symm
    simp only [replaceTF, this, if_false, restSel, hr, pf_replaceTF_rc rc _ l h1]
    rw [pf_restSel e rc.mirror.toW (rc.mirror.not_pfTree nG) r l h1, pf_restSel e rc.toW (rc.not_pfTree nG) r l h1]

end rcs

end MindsVerif.TS
