import MindsVerif.Model.TSSpec
/-! Lemmas for C15 (core Lean only). -/
namespace MindsVerif.TS

/-! ### three-valued AND, selection -/

theorem and3_true (x y : Option Bool) : (and3 x y == some true) = ((x == some true) && (y == some true)) := by
  cases x with
  | none => cases y with
    | none => rfl
    | some b => cases b <;> rfl
  | some a => cases a <;> cases y with
    | none => rfl
    | some b => cases b <;> rfl

theorem sel_and (p : List Int) (a b : W) (r : Row) :
    sel p (.bin .and a b) r = (sel p a r && sel p b r) := by
  simp only [sel, ev]; exact and3_true _ _

theorem sel_notNull (p : List Int) (r : Row) : sel p notNull r = r.t.isSome := by
  simp [sel, notNull, ev, val]

theorem sel_addNotNull_some (p : List Int) (c : W) (r : Row) :
    sel p (addNotNull (some c)) r = (sel p c r && r.t.isSome) := by
  simp only [addNotNull, sel_and, sel_notNull]

theorem sel_time_cmp (p : List Int) (r : Row) (c : Int) :
    sel p (.bin .gt (.ident .time) (.const c)) r = onTime (fun v => decide (v > c)) r ∧
    sel p (.bin .ge (.ident .time) (.const c)) r = onTime (fun v => decide (v ≥ c)) r ∧
    sel p (.bin .lt (.ident .time) (.const c)) r = onTime (fun v => decide (v < c)) r ∧
    sel p (.bin .le (.ident .time) (.const c)) r = onTime (fun v => decide (v ≤ c)) r := by
  cases h : r.t <;> simp [sel, ev, val, cmp2, onTime, h]

theorem sel_time_btw (p : List Int) (r : Row) (a b : Int) :
    sel p (.btw (.ident .time) (.const a) (.const b)) r = onTime (fun v => decide (a ≤ v) && decide (v ≤ b)) r := by
  cases h : r.t <;> simp [sel, ev, val, cmp2, onTime, h, and3]
  rename_i v
  by_cases h1 : a ≤ v <;> by_cases h2 : v ≤ b <;> simp [h1, h2]

theorem sel_inPartAt (p : List Int) (r : Row) (i : Nat) :
    sel p (.bin .eq (.ident (.grp i)) (.var i)) r = inPartAt p r i := by
  simp only [sel, ev, val, inPartAt]
  cases (r.g[i]?).join <;> cases p[i]? <;> simp [cmp2]

theorem sel_injectVars (p : List Int) (r : Row) : ∀ (n i : Nat) (c : W),
    sel p (injectVars n i c) r = (sel p c r && inPartFrom p r n i)
  | 0, _, _ => by simp [injectVars, inPartFrom]
  | n + 1, i, c => by
    rw [injectVars, sel_injectVars p r n (i + 1), sel_and, sel_inPartAt, inPartFrom, Bool.and_assoc]


/-! ### ORDER BY t DESC LIMIT n -/

theorem tge_trans (a b c : Row) : tge a b = true → tge b c = true → tge a c = true := by
  unfold tge
  cases a.t <;> cases b.t <;> cases c.t <;> simp
  omega

theorem tge_total (a b : Row) : (tge a b || tge b a) = true := by
  unfold tge
  cases a.t <;> cases b.t <;> simp
  omega

theorem isLastW_take_sort (n : Nat) (xs : List Row) : IsLastW n xs ((xs.mergeSort tge).take n) := by
  refine ⟨(xs.mergeSort tge).drop n, ?_, ?_, ?_⟩
  · rw [List.take_append_drop]; exact List.mergeSort_perm xs tge
  · rw [List.length_take, (List.mergeSort_perm xs tge).length_eq]
  · have hs := List.pairwise_mergeSort tge_trans tge_total xs
    rw [← List.take_append_drop n (xs.mergeSort tge), List.pairwise_append] at hs
    exact hs.2.2

theorem evalSel_unlimited (p : List Int) (T : List Row) (c : W) (f : Row → Bool)
    (hf : ∀ r, sel p c r = f r) : (evalSel p T ⟨c, none⟩).Perm (T.filter f) := by
  have : sel p c = f := funext hf
  simp only [evalSel, limitTake, this]
  exact List.mergeSort_perm _ _

theorem evalSel_limited (p : List Int) (T : List Row) (c : W) (n : Nat) (f : Row → Bool)
    (hf : ∀ r, sel p c r = f r) : IsLastW n (T.filter f) (evalSel p T ⟨c, some n⟩) := by
  have : sel p c = f := funext hf
  simp only [evalSel, limitTake, this]
  exact isLastW_take_sort _ _


/-! ### partition-filter leaves and AND-trees -/

/-- the three shapes of a partition filter -/
inductive PFShape (nG : Nat) : W → Prop
  | cmp (op : Op) (i : Nat) (c : Int) (hi : i < nG) (hop : isCmp op = true) :
      PFShape nG (.bin op (.ident (.grp i)) (.const c))
  | inn (i : Nat) (vs : List Int) (hi : i < nG) : PFShape nG (.bin .inn (.ident (.grp i)) (.tuple vs))
  | btw (i : Nat) (a b : Int) (hi : i < nG) : PFShape nG (.btw (.ident (.grp i)) (.const a) (.const b))

theorem isPF_shape {nG : Nat} {w : W} (h : isPF nG w = true) : PFShape nG w := by
  unfold isPF at h
  split at h
  · simp at h; exact .cmp _ _ _ h.1 h.2
  · simp at h; exact .inn _ _ h
  · simp at h; exact .btw _ _ _ h
  · simp at h

theorem PFShape.not_and {nG : Nat} {w : W} (h : PFShape nG w) : ∀ l r, w ≠ .bin .and l r := by
  intro l r
  cases h with
  | cmp op i c hi hop => intro e; injection e with e1; subst e1; simp [isCmp] at hop
  | inn i vs hi => intro e; injection e with e1; cases e1
  | btw i a b hi => intro e; cases e

theorem pfTree_leaf {nG : Nat} {w : W} (hna : ∀ l r, w ≠ .bin .and l r) : pfTree nG w = isPF nG w := by
  unfold pfTree
  split
  · exact absurd rfl (hna _ _)
  · rfl

theorem TC.toW_not_and (tc : TC) : ∀ l r, tc.toW ≠ .bin .and l r := by
  intro l r; cases tc <;> simp [TC.toW]

theorem TC.not_pf (nG : Nat) (tc : TC) : isPF nG tc.toW = false := by
  cases tc <;> rfl

theorem TC.not_pfTree (nG : Nat) (tc : TC) : pfTree nG tc.toW = false := by
  rw [pfTree_leaf (tc.toW_not_and)]; exact tc.not_pf nG

/-- induction principle for AND-trees of partition filters -/
theorem pfTree_induction {nG : Nat} {P : W → Prop}
    (hleaf : ∀ w, PFShape nG w → P w)
    (hand : ∀ l r, pfTree nG l = true → pfTree nG r = true → P l → P r → P (.bin .and l r)) :
    ∀ w, pfTree nG w = true → P w := by
  intro w
  induction w with
  | bin op l r ihl ihr =>
    intro h
    by_cases hop : op = .and
    · subst hop
      simp only [pfTree, Bool.and_eq_true] at h
      exact hand l r h.1 h.2 (ihl h.1) (ihr h.2)
    · have : pfTree nG (.bin op l r) = isPF nG (.bin op l r) :=
        pfTree_leaf (by intro l' r' e; injection e with e1; exact hop e1)
      rw [this] at h; exact hleaf _ (isPF_shape h)
  | _ =>
    intro h
    first
      | exact hleaf _ (isPF_shape (by simpa [pfTree] using h))
      | (simp [pfTree, isPF] at h)

/-- induction principle for AND-trees with exactly one time leaf -/
theorem tcTree_induction {nG : Nat} {tf : W} {P : W → Prop}
    (hleaf : P tf)
    (handL : ∀ l r, tcTree nG tf l = true → pfTree nG r = true → P l → P (.bin .and l r))
    (handR : ∀ l r, pfTree nG l = true → tcTree nG tf r = true → P r → P (.bin .and l r)) :
    ∀ w, tcTree nG tf w = true → P w := by
  intro w
  induction w with
  | bin op l r ihl ihr =>
    intro h
    by_cases hop : op = .and
    · subst hop
      simp only [tcTree, Bool.or_eq_true, Bool.and_eq_true] at h
      rcases h with ⟨h1, h2⟩ | ⟨h1, h2⟩
      · exact handL l r h1 h2 (ihl h1)
      · exact handR l r h1 h2 (ihr h2)
    · unfold tcTree at h
      split at h
      · rename_i e; injection e with e1; exact absurd e1 hop
      · simp at h; rw [h]; exact hleaf
  | _ =>
    intro h
    simp [tcTree] at h
    rw [h]; exact hleaf


/-! ### the ts_utils functions on the domain -/

section pf
variable {nG : Nat} (tc : TC)

theorem PFShape.ne_tc {w : W} (h : PFShape nG w) : w ≠ tc.toW := by
  intro e
  have h1 := tc.not_pf nG
  rw [← e] at h1
  cases h <;> simp_all [isPF, isCmp]

theorem pf_findTF : ∀ w, pfTree nG w = true → findTF w = .none := by
  apply pfTree_induction
  · intro w h
    cases h with
    | cmp op i c hi hop => cases op <;> simp_all [findTF, isTimeIdent, isCmp]
    | inn i vs hi => simp [findTF, isTimeIdent]
    | btw i a b hi => simp [findTF, isTimeIdent]
  · intro l r _ _ hl hr; simp [findTF, hl, hr, FT.merge]

theorem pf_identOk {w : W} (h : pfTree nG w = true) : identOk nG w = true := by
  cases w <;> simp_all [identOk, pfTree, isPF]

theorem pf_isOp {w : W} (h : pfTree nG w = true) : w.isOperation = true := by
  cases w <;> simp_all [W.isOperation, pfTree, isPF]

theorem pf_validate : ∀ w, pfTree nG w = true → validate nG w = true := by
  apply pfTree_induction
  · intro w h
    cases h with
    | cmp op i c hi hop => cases op <;> simp_all [validate, allowedOp, identOk, allowedCol, isCmp]
    | inn i vs hi => simp [validate, allowedOp, identOk, allowedCol, hi]
    | btw i a b hi => simp [validate, identOk, allowedCol, hi]
  · intro l r h1 h2 hl hr; simp [validate, allowedOp, pf_identOk h1, pf_identOk h2, pf_isOp h1, pf_isOp h2, hl, hr]

theorem pf_replaceTF (new : W) : ∀ w, pfTree nG w = true → replaceTF tc.toW new w = w := by
  apply pfTree_induction
  · intro w h
    have hne := h.ne_tc tc
    cases h with
    | cmp op i c hi hop =>
      cases tc <;> simp_all [replaceTF, TC.toW]
    | inn i vs hi => cases tc <;> simp_all [replaceTF, TC.toW]
    | btw i a b hi => simp_all [replaceTF]
  · intro l r _ _ hl hr
    have := (tc.toW_not_and l r).symm
    simp [replaceTF, this, hl, hr]

theorem pf_removeTF : ∀ w, pfTree nG w = true → removeTF (some tc.toW) w = some w := by
  apply pfTree_induction
  · intro w h
    have hne := h.ne_tc tc
    cases h with
    | cmp op i c hi hop => cases op <;> simp_all [removeTF, isCmp]
    | inn i vs hi => simp_all [removeTF]
    | btw i a b hi => simp_all [removeTF]
  · intro l r _ _ hl hr
    have := (tc.toW_not_and l r).symm
    simp [removeTF, this, hl, hr]

theorem pf_removeTF_none : ∀ w, pfTree nG w = true → removeTF none w = some w := by
  apply pfTree_induction
  · intro w h
    cases h with
    | cmp op i c hi hop => cases op <;> simp_all [removeTF, isCmp]
    | inn i vs hi => simp_all [removeTF]
    | btw i a b hi => simp_all [removeTF]
  · intro l r _ _ hl hr
    simp [removeTF, hl, hr]

theorem pf_restSel (p : List Int) (tf : W) (htf : pfTree nG tf = false) (r : Row) :
    ∀ w, pfTree nG w = true → restSel p tf w r = sel p w r := by
  apply pfTree_induction
  · intro w h
    have hne : w ≠ tf := by
      intro e; subst e
      have := pfTree_leaf (nG := nG) h.not_and
      cases h <;> simp_all [isPF]
    have hna := h.not_and
    unfold restSel
    split
    · rename_i e; exact absurd rfl (hna _ _)
    · simp [hne]
  · intro l r' _ _ hl hr
    simp [restSel, sel_and, hl, hr]

end pf


section tcs
variable {nG : Nat} (tc : TC)

theorem tc_findTF_leaf : findTF tc.toW = .one tc.toW := by
  cases tc <;> simp [findTF, TC.toW, isTimeIdent]

theorem tc_findTF : ∀ w, tcTree nG tc.toW w = true → findTF w = .one tc.toW := by
  apply tcTree_induction
  · exact tc_findTF_leaf tc
  · intro l r _ h2 hl; simp [findTF, hl, pf_findTF r h2, FT.merge]
  · intro l r h1 _ hr; simp [findTF, hr, pf_findTF l h1, FT.merge]

theorem tc_identOk {w : W} (h : tcTree nG tc.toW w = true) : identOk nG w = true := by
  cases w <;> first | rfl | (cases tc <;> simp_all [tcTree, TC.toW])

theorem tc_isOp {w : W} (h : tcTree nG tc.toW w = true) : w.isOperation = true := by
  cases w <;> first | rfl | (cases tc <;> simp_all [tcTree, TC.toW])

theorem tc_validate : ∀ w, tcTree nG tc.toW w = true → validate nG w = true := by
  apply tcTree_induction
  · cases tc <;> simp [validate, TC.toW, allowedOp, identOk, allowedCol]
  · intro l r h1 h2 hl
    simp [validate, allowedOp, tc_identOk tc h1, pf_identOk h2, tc_isOp tc h1, pf_isOp h2, hl, pf_validate r h2]
  · intro l r h1 h2 hr
    simp [validate, allowedOp, tc_identOk tc h2, pf_identOk h1, tc_isOp tc h2, pf_isOp h1, hr, pf_validate l h1]

theorem restSel_leaf (p : List Int) (r : Row) : restSel p tc.toW tc.toW r = true := by
  unfold restSel
  split
  · rename_i e; exact absurd e (tc.toW_not_and _ _)
  · simp

theorem tc_sel (p : List Int) (r : Row) : ∀ w, tcTree nG tc.toW w = true →
    sel p w r = (sel p tc.toW r && restSel p tc.toW w r) := by
  apply tcTree_induction
  · simp [restSel_leaf]
  · intro l x _ h2 hl
    rw [sel_and, hl]
    simp only [restSel]
    rw [pf_restSel p tc.toW (tc.not_pfTree nG) r x h2, Bool.and_assoc]
  · intro l x h1 _ hr
    rw [sel_and, hr]
    simp only [restSel]
    rw [pf_restSel p tc.toW (tc.not_pfTree nG) r l h1]
    cases sel p l r <;> cases sel p tc.toW r <;> simp

theorem replaceTF_leaf (new : W) : replaceTF tc.toW new tc.toW = new := by
  cases tc <;> simp [replaceTF, TC.toW]

theorem tc_sel_replace (p : List Int) (r : Row) (new : W) : ∀ w, tcTree nG tc.toW w = true →
    sel p (replaceTF tc.toW new w) r = (sel p new r && restSel p tc.toW w r) := by
  apply tcTree_induction
  · simp [restSel_leaf, replaceTF_leaf]
  · intro l x _ h2 hl
    have := (tc.toW_not_and l x).symm
    simp only [replaceTF, this, if_false, sel_and, hl, pf_replaceTF tc new x h2, restSel]
    rw [pf_restSel p tc.toW (tc.not_pfTree nG) r x h2, Bool.and_assoc]
  · intro l x h1 _ hr
    have := (tc.toW_not_and l x).symm
    simp only [replaceTF, this, if_false, sel_and, hr, pf_replaceTF tc new l h1, restSel]
    rw [pf_restSel p tc.toW (tc.not_pfTree nG) r l h1]
    cases sel p l r <;> cases sel p new r <;> simp

/-- selection predicate of an optional WHERE -/
def selO (p : List Int) (w : Option W) (r : Row) : Bool :=
  match w with
  | none => true
  | some w => sel p w r

theorem removeTF_leaf : removeTF (some tc.toW) tc.toW = none := by
  cases tc <;> simp [removeTF, TC.toW]

theorem tc_remove (p : List Int) (r : Row) : ∀ w, tcTree nG tc.toW w = true →
    selO p (removeTF (some tc.toW) w) r = restSel p tc.toW w r := by
  apply tcTree_induction
  · simp [removeTF_leaf, selO, restSel_leaf]
  · intro l x _ h2 hl
    have := (tc.toW_not_and l x).symm
    simp only [removeTF, restSel, pf_removeTF tc x h2]
    rw [pf_restSel p tc.toW (tc.not_pfTree nG) r x h2, ← hl]
    cases removeTF (some tc.toW) l <;> simp [selO, sel_and, this]
  · intro l x h1 _ hr
    have := (tc.toW_not_and l x).symm
    simp only [removeTF, restSel, pf_removeTF tc l h1]
    rw [pf_restSel p tc.toW (tc.not_pfTree nG) r l h1, ← hr]
    cases removeTF (some tc.toW) x <;> simp [selO, sel_and, this]

end tcs


/-! ### planTS on accepted queries -/

theorem map_inject_zero (nG : Nat) (sels : List Sel) :
    (if nG = 0 then sels else sels.map (injectSel nG)) = sels.map (injectSel nG) := by
  by_cases h : nG = 0
  · subst h
    have : injectSel 0 = id := by funext s; simp [injectSel, injectVars]
    simp [this]
  · simp [h]

/-- what `planTS` returns when nothing is rejected and `find_time_filter` finds `tf` -/
theorem planTS_eq (m : Meta) (q : Query) (ho : q.orderBy = false) (hg : q.groupBy = false)
    (hh : q.having = false) (hf : q.offset = false) (hv : validO m.nG q.whereC = true) (tf : Option W)
    (hft : ftOf q.whereC = (match tf with | some w => FT.one w | none => FT.none)) :
    planTS m q = .ok
      ⟨if m.nG = 0 then none else some (removeO tf q.whereC),
       (branches m.window q.whereC tf).1.map (injectSel m.nG),
       (branches m.window q.whereC tf).2, limitOf q.limit⟩ := by
  unfold planTS
  rw [hft]
  cases tf with
  | none => simp [ho, hg, hh, hf, hv, planOk, map_inject_zero]
  | some t => simp [ho, hg, hh, hf, hv, planOk, map_inject_zero]

/-! ### assembling the fetched rows -/

theorem fetched_two (p : List Int) (T : List Row) (n : Nat) (cA cB : W) (fA fB : Row → Bool)
    (hA : ∀ r, sel p cA r = fA r) (hB : ∀ r, sel p cB r = fB r) :
    ∃ L, IsLastW n (T.filter fA) L ∧ (fetched p T [⟨cA, some n⟩, ⟨cB, none⟩]).Perm (T.filter fB ++ L) := by
  refine ⟨evalSel p T ⟨cA, some n⟩, evalSel_limited p T cA n fA hA, ?_⟩
  simp only [fetched, List.map, List.flatten_cons, List.flatten_nil, List.append_nil]
  exact List.perm_append_comm.trans ((evalSel_unlimited p T cB fB hB).append_right _)

theorem fetched_window (p : List Int) (T : List Row) (n : Nat) (cA : W) (fA : Row → Bool)
    (hA : ∀ r, sel p cA r = fA r) :
    ∃ L, IsLastW n (T.filter fA) L ∧ (fetched p T [⟨cA, some n⟩]).Perm ([] ++ L) := by
  refine ⟨evalSel p T ⟨cA, some n⟩, evalSel_limited p T cA n fA hA, ?_⟩
  simp [fetched]

theorem fetched_all (p : List Int) (T : List Row) (cB : W) (fB : Row → Bool)
    (hB : ∀ r, sel p cB r = fB r) :
    (fetched p T [⟨cB, none⟩]).Perm (T.filter fB ++ []) := by
  simp only [fetched, List.map, List.flatten_cons, List.flatten_nil, List.append_nil]
  exact evalSel_unlimited p T cB fB hB

theorem onTime_true (r : Row) : onTime (fun _ => true) r = r.t.isSome := by
  cases h : r.t <;> simp [onTime, h]

theorem onTime_false (r : Row) : onTime (fun _ => false) r = false := by
  cases h : r.t <;> simp [onTime, h]

theorem removeTF_notNull (tc : TC) : removeTF (some tc.toW) notNull = some notNull := by
  cases tc <;> simp [removeTF, notNull, TC.toW]

/-- selection predicate of the `> LATEST` / `= LATEST` select -/
theorem sel_latest_shape {nG : Nat} (tc : TC) (p : List Int) (r : Row) (w : W)
    (hw : tcTree nG tc.toW w = true) :
    sel p ((removeTF (some tc.toW) (addNotNull (some w))).getD .null) r
      = (restSel p tc.toW w r && r.t.isSome) := by
  have hne : (W.bin .and w notNull) ≠ tc.toW := (tc.toW_not_and _ _).symm
  have h := tc_remove tc p r w hw
  simp only [addNotNull, removeTF, removeTF_notNull]
  cases hr : removeTF (some tc.toW) w with
  | none => simp [hr, selO] at h; simp [hne, sel_notNull, ← h]
  | some w' => simp [hr, selO] at h; simp [hne, sel_and, sel_notNull, h]


/-! ### the branch table on the domain, and the selection predicate of each generated select -/

/-- the rewritten time filter of the window select -/
def lowW : TC → W
  | .gt c => .bin .le (.ident .time) (.const c)
  | .ge c => .bin .lt (.ident .time) (.const c)
  | .eq c => .bin .le (.ident .time) (.const c)
  | .btw a _ => .bin .lt (.ident .time) (.const a)
  | _ => .null

def selWin (n : Nat) (tc : TC) (w : W) : Sel := ⟨addNotNull (some (replaceTF tc.toW (lowW tc) w)), some n⟩
def selAll (w : W) : Sel := ⟨addNotNull (some w), none⟩
def selLatest (n : Nat) (tc : TC) (w : W) : Sel :=
  ⟨(removeTF (some tc.toW) (addNotNull (some w))).getD .null, some n⟩

def branchesSpec (n : Nat) (tc : TC) (w : W) : List Sel × Option W :=
  match tc with
  | .gt _ | .ge _ | .btw _ _ => ([selWin n tc w, selAll w], some tc.toW)
  | .eq c => ([selWin n tc w], some (TC.gt c).toW)
  | .lt _ | .le _ => ([selAll w], some tc.toW)
  | .gtLatest | .eqLatest => ([selLatest n tc w], some tc.toW)

theorem branches_dom (n : Nat) (tc : TC) (w : W) :
    branches n (some w) (some tc.toW) = branchesSpec n tc w := by
  cases tc <;> rfl

theorem bool_perm (a b c d : Bool) : (((a && b) && c) && d) = (((c && b) && d) && a) := by
  cases a <;> cases b <;> cases c <;> cases d <;> rfl

theorem base_some {nG : Nat} (tc : TC) (p : List Int) (w : W) (r : Row) :
    base p nG (some tc) (some w) r = ((r.t.isSome && restSel p tc.toW w r) && inPart p nG r) := by
  simp [base, restSelO]

theorem selWin_pred {nG : Nat} (tc : TC) (p : List Int) (r : Row) (w : W) (n : Nat) (f : Int → Bool)
    (hd : tcTree nG tc.toW w = true) (hnew : sel p (lowW tc) r = onTime f r) :
    sel p (injectSel nG (selWin n tc w)).whereC r = (base p nG (some tc) (some w) r && onTime f r) := by
  simp only [injectSel, selWin]
  rw [sel_injectVars, sel_addNotNull_some, tc_sel_replace tc p r _ w hd, hnew, base_some]
  exact bool_perm _ _ _ _

theorem selAll_pred {nG : Nat} (tc : TC) (p : List Int) (r : Row) (w : W) (f : Int → Bool)
    (hd : tcTree nG tc.toW w = true) (htc : sel p tc.toW r = onTime f r) :
    sel p (injectSel nG (selAll w)).whereC r = (base p nG (some tc) (some w) r && onTime f r) := by
  simp only [injectSel, selAll]
  rw [sel_injectVars, sel_addNotNull_some, tc_sel tc p r w hd, htc, base_some]
  exact bool_perm _ _ _ _

theorem selLatest_pred {nG : Nat} (tc : TC) (p : List Int) (r : Row) (w : W) (n : Nat)
    (hd : tcTree nG tc.toW w = true) :
    sel p (injectSel nG (selLatest n tc w)).whereC r
      = (base p nG (some tc) (some w) r && onTime (fun _ => true) r) := by
  simp only [injectSel, selLatest]
  rw [sel_injectVars, sel_latest_shape tc p r w hd, base_some, onTime_true]
  simp only [inPart]
  cases restSel p tc.toW w r <;> cases r.t.isSome <;> cases inPartFrom p r nG 0 <;> rfl

theorem sel_tc_cond (tc : TC) (p : List Int) (r : Row)
    (h : tc ≠ .gtLatest ∧ tc ≠ .eqLatest ∧ ∀ c, tc ≠ .eq c) : sel p tc.toW r = onTime tc.cond r := by
  cases tc with
  | gt c => exact (sel_time_cmp p r c).1
  | ge c => exact (sel_time_cmp p r c).2.1
  | lt c => exact (sel_time_cmp p r c).2.2.1
  | le c => exact (sel_time_cmp p r c).2.2.2
  | btw a b => exact sel_time_btw p r a b
  | eq c => exact absurd rfl (h.2.2 c)
  | gtLatest => exact absurd rfl h.1
  | eqLatest => exact absurd rfl h.2.1

theorem filter_cond_false (f : Row → Bool) (T : List Row) :
    T.filter (fun r => f r && onTime (fun _ => false) r) = [] := by
  have : (fun r => f r && onTime (fun _ => false) r) = fun _ => false := by
    funext r; simp [onTime_false]
  rw [this]; simp

/-- no time condition -/
theorem sel_none_pred {nG : Nat} (p : List Int) (r : Row) :
    sel p (injectSel nG ⟨addNotNull none, none⟩).whereC r = (base p nG none none r && true) := by
  simp only [injectSel, addNotNull]
  rw [sel_injectVars, sel_notNull]
  simp [base, restSelO, inPart]

theorem sel_pf_pred {nG : Nat} (p : List Int) (r : Row) (w : W) (hd : pfTree nG w = true) :
    sel p (injectSel nG ⟨addNotNull (some w), none⟩).whereC r = (base p nG none (some w) r && true) := by
  simp only [injectSel]
  rw [sel_injectVars, sel_addNotNull_some]
  have : restSel p W.null w r = sel p w r := pf_restSel p W.null (by rfl) r w hd
  simp only [base, restSelO, Option.map, Option.getD, this, inPart, Bool.and_true]
  cases sel p w r <;> cases r.t.isSome <;> simp


/-! ### T15.3: validate against the independent reading; no crash -/

theorem validate_nonop (nG : Nat) {w : W} (h : w.isOperation = false) : validate nG w = true := by
  cases w <;> simp_all [W.isOperation, validate]

theorem identOk_bin (nG : Nat) (op : Op) (l r : W) : identOk nG (.bin op l r) = true := rfl
theorem identOk_btw (nG : Nat) (x a b : W) : identOk nG (.btw x a b) = true := rfl

theorem andOk_nonop {w : W} (h : w.isOperation = false) : andOk w = true := by
  cases w <;> simp_all [W.isOperation, andOk]

theorem validate_spec (nG : Nat) : ∀ w, visible w = true →
    (validate nG w && identOk nG w) = (opsOk w && colsOk nG w && andOk w) := by
  intro w
  induction w with
  | bin op l r ihl ihr =>
    intro hv
    simp only [visible, Bool.and_eq_true] at hv
    have e1 := ihl hv.1
    have e2 := ihr hv.2
    simp only [validate, identOk_bin, opsOk, colsOk, andOk, Bool.and_true]
    generalize (op != Op.and || (l.isOperation && r.isOperation)) = k
    have : (allowedOp op && opsOk l && opsOk r && (colsOk nG l && colsOk nG r) && (k && andOk l && andOk r))
        = (allowedOp op && k && ((opsOk l && colsOk nG l && andOk l) && (opsOk r && colsOk nG r && andOk r))) := by
      ac_rfl
    rw [this, ← e1, ← e2]; ac_rfl
  | btw x a b ihx iha ihb =>
    intro hv
    simp only [visible, Bool.and_eq_true, Bool.not_eq_true'] at hv
    have e1 := ihx hv.1.1.1
    have e2 := iha hv.1.1.2
    have e3 := ihb hv.1.2
    rw [validate_nonop nG hv.2, Bool.true_and] at e3
    simp only [validate, identOk_btw, opsOk, colsOk, andOk, Bool.and_true]
    have : (opsOk x && opsOk a && opsOk b && (colsOk nG x && colsOk nG a && colsOk nG b) && (andOk x && andOk a && andOk b))
        = ((opsOk x && colsOk nG x && andOk x) && (opsOk a && colsOk nG a && andOk a)
            && (opsOk b && colsOk nG b && andOk b)) := by ac_rfl
    rw [this, ← e1, ← e2, ← e3]; ac_rfl
  | un x _ => intro _; simp [validate, opsOk]
  | «opaque» f => intro hv; simp_all [visible, validate, identOk, opsOk, colsOk, andOk]
  | _ => intro _; simp [validate, identOk, opsOk, colsOk, andOk]

theorem identOk_op (nG : Nat) {w : W} (h : w.isOperation = true) : identOk nG w = true := by
  cases w <;> simp_all [W.isOperation, identOk]

theorem findTF_no_crash (nG : Nat) : ∀ w, w.isOperation = true → validate nG w = true →
    findTF w ≠ .crash := by
  intro w
  induction w with
  | bin op l r ihl ihr =>
    intro _ hv
    by_cases hop : op = .and
    · subst hop
      simp only [validate, Bool.and_eq_true, Bool.or_eq_true, bne_self_eq_false, Bool.false_eq_true, false_or] at hv
      have h1 := ihl hv.1.1.1.1.2.1 hv.1.2
      have h2 := ihr hv.1.1.1.1.2.2 hv.2
      simp only [findTF]
      cases hl : findTF l <;> cases hr : findTF r <;> simp_all [FT.merge]
    · have : findTF (.bin op l r) = if isTimeIdent l || isTimeIdent r then .one (.bin op l r) else .none := by
        cases op <;> first | rfl | exact absurd rfl hop
      rw [this]; split <;> simp
  | btw x a b _ _ _ => intro _ _; simp only [findTF]; split <;> simp
  | un x _ => intro _ hv; simp [validate] at hv
  | _ => intro h; simp [W.isOperation] at h

end MindsVerif.TS
