import MindsVerif.Lemmas.TS
/-! Lemmas for C15: sub-queries and other closed nodes are out of reach of `replace_time_filter` /
`find_and_remove_time_filter` and of everything `plan_timeseries_predictor` builds from them (core Lean only). -/
namespace MindsVerif.TS

set_option linter.unusedSectionVars false
variable {α : Type} [DecidableEq α] [VOrd α]

/-! ### closedNodes under the ts_utils functions -/

theorem closedNodes_replaceTF (tf new : W α) (htf : closedNodes tf = []) (hnew : closedNodes new = []) :
    ∀ w : W α, closedNodes (replaceTF tf new w) = closedNodes w := by
  intro w
  induction w with
  | bin op l r ihl ihr =>
    simp only [replaceTF]
    split
    · rename_i h; rw [h, htf, hnew]
    · simp only [closedNodes, ihl, ihr]
  | _ =>
    simp only [replaceTF]
    split
    · rename_i h; rw [h, htf, hnew]
    · rfl

theorem closedNodes_removeTF (tf : Option (W α)) (htf : ∀ t, tf = some t → closedNodes t = []) :
    ∀ w : W α, closedNodes ((removeTF tf w).getD .null) = closedNodes w := by
  intro w
  induction w with
  | bin op l r ihl ihr =>
    simp only [removeTF]
    split
    · rename_i h; simp only [Option.getD_none, closedNodes]; exact (htf _ h.symm).symm
    · split
      · rename_i hop; subst hop
        simp only [closedNodes]
        cases hl : removeTF tf l with
        | none =>
          rw [hl] at ihl; simp only [Option.getD_none, closedNodes] at ihl
          simp only [← ihl, List.nil_append]; exact ihr
        | some l' =>
          rw [hl] at ihl; simp only [Option.getD_some] at ihl
          cases hr : removeTF tf r with
          | none =>
            rw [hr] at ihr; simp only [Option.getD_none, closedNodes] at ihr
            simp only [Option.getD_some, ← ihr, List.append_nil]; exact ihl
          | some r' =>
            rw [hr] at ihr; simp only [Option.getD_some] at ihr
            simp only [Option.getD_some, closedNodes, ihl, ihr]
      · rfl
  | btw x a b _ _ _ =>
    simp only [removeTF]
    split
    · rename_i h; simp only [Option.getD_none, closedNodes]; exact (htf _ h.symm).symm
    · rfl
  | _ => rfl

theorem closedNodes_addNotNull (c : W α) : closedNodes (addNotNull (some c)) = closedNodes c := by
  simp [addNotNull, notNull, closedNodes]

theorem closedNodes_injectVars : ∀ (n i : Nat) (c : W α), closedNodes (injectVars n i c) = closedNodes c
  | 0, _, _ => rfl
  | n + 1, i, c => by rw [injectVars, closedNodes_injectVars n (i + 1)]; simp [closedNodes]

theorem closedNodes_normTF (t : W α) (h : closedNodes t = []) : closedNodes (normTF t) = [] := by
  cases t with
  | bin op l r =>
    simp only [closedNodes, List.append_eq_nil_iff] at h
    simp only [normTF]
    split
    · split <;> simp [closedNodes, h.1, h.2]
    · simp [closedNodes, h.1, h.2]
  | _ => simpa [normTF] using h

/-- every select `branches` builds carries exactly the closed nodes of the WHERE it was given -/
theorem closedNodes_branches (window : Nat) (pw : W α) (tf : Option (W α))
    (htf : ∀ t, tf = some t → closedNodes t = []) :
    ∀ s ∈ (branches window (some pw) tf).1, closedNodes s.whereC = closedNodes pw := by
  have hnn : closedNodes (addNotNull (some pw)) = closedNodes pw := closedNodes_addNotNull pw
  have hrm : closedNodes ((removeTF tf (addNotNull (some pw))).getD .null) = closedNodes pw := by
    rw [closedNodes_removeTF tf htf, hnn]
  have hrp : ∀ t new, tf = some t → closedNodes new = [] →
      closedNodes (addNotNull (some (replaceTF t new pw))) = closedNodes pw := by
    intro t new ht hnew
    rw [closedNodes_addNotNull, closedNodes_replaceTF t new (htf t ht) hnew]
  unfold branches
  split
  · rename_i x a b
    have h := htf _ rfl
    simp only [closedNodes, List.append_eq_nil_iff] at h
    intro s hs
    simp only [List.mem_cons, List.not_mem_nil, or_false, Option.map_some, Option.getD_some] at hs
    rcases hs with rfl | rfl
    · exact hrp _ _ rfl (by simp [closedNodes, h.1.2])
    · exact hnn
  · intro s hs
    simp only [List.mem_cons, List.not_mem_nil, or_false] at hs
    subst hs; exact hrm
  · intro s hs
    simp only [List.mem_cons, List.not_mem_nil, or_false] at hs
    subst hs; exact hrm
  · rename_i l r _
    have h := htf _ rfl
    simp only [closedNodes, List.append_eq_nil_iff] at h
    intro s hs
    simp only [List.mem_cons, List.not_mem_nil, or_false, Option.map_some, Option.getD_some] at hs
    subst hs
    exact hrp _ _ rfl (by simp [closedNodes, h.2])
  · rename_i l r _
    have h := htf _ rfl
    simp only [closedNodes, List.append_eq_nil_iff] at h
    intro s hs
    simp only [List.mem_cons, List.not_mem_nil, or_false, Option.map_some, Option.getD_some] at hs
    rcases hs with rfl | rfl
    · exact hrp _ _ rfl (by simp [closedNodes, h.2])
    · exact hnn
  · rename_i l r
    have h := htf _ rfl
    simp only [closedNodes, List.append_eq_nil_iff] at h
    intro s hs
    simp only [List.mem_cons, List.not_mem_nil, or_false, Option.map_some, Option.getD_some] at hs
    rcases hs with rfl | rfl
    · exact hrp _ _ rfl (by simp [closedNodes, h.2])
    · exact hnn
  · intro s hs
    simp only [List.mem_cons, List.not_mem_nil, or_false] at hs
    subst hs; exact hnn

/-! ### replaceTF on flat trees: only whole conjuncts -/

theorem mapConj_leaf (f : W α → W α) {w : W α} (hna : ∀ l r, w ≠ .bin .and l r) : mapConj f w = f w := by
  unfold mapConj
  split
  · exact absurd rfl (hna _ _)
  · rfl

theorem flatTree_leaf {w : W α} (hna : ∀ l r, w ≠ .bin .and l r) : flatTree w = flatCond w := by
  unfold flatTree
  split
  · exact absurd rfl (hna _ _)
  · rfl

theorem replaceTF_nonop (tf new : W α) (htf : tf.isOperation = true) {w : W α} (hw : w.isOperation = false) :
    replaceTF tf new w = w := by
  have hne : w ≠ tf := by intro e; rw [e, htf] at hw; cases hw
  cases w <;> first | (simp [W.isOperation] at hw; done) | simp [replaceTF, hne]

theorem replaceTF_flat (tf new : W α) (htf : tf.isOperation = true) (hna : ∀ l r, tf ≠ .bin .and l r) :
    ∀ w : W α, flatTree w = true → replaceTF tf new w = mapConj (fun c => if c = tf then new else c) w := by
  intro w
  induction w with
  | bin op l r ihl ihr =>
    intro h
    by_cases hop : op = .and
    · subst hop
      simp only [flatTree, Bool.and_eq_true] at h
      have := (hna l r).symm
      simp only [replaceTF, this, if_false, mapConj, ihl h.1, ihr h.2]
    · have hleaf : ∀ l' r', W.bin op l r ≠ .bin .and l' r' := by
        intro l' r' e; injection e with e1; exact hop e1
      rw [flatTree_leaf hleaf] at h
      simp only [flatCond, Bool.and_eq_true, Bool.not_eq_true'] at h
      rw [mapConj_leaf _ hleaf]
      simp only [replaceTF, replaceTF_nonop tf new htf h.1, replaceTF_nonop tf new htf h.2]
  | _ =>
    intro _
    simp [replaceTF, mapConj]

end MindsVerif.TS
