import MindsVerif.Model.TokStr
/-! Lemmas about `tokens_to_string`: loop invariant, closed form, blank-separated form. -/
namespace MindsVerif.TokStr

def isBlank (c : Char) : Prop := c = ' ' ∨ c = '\n'

/-- `s` is the texts `vals`, in order, each preceded by a string of blanks / newlines -/
inductive BlankSep : List Str → Str → Prop where
  | nil : BlankSep [] []
  | cons (sp v : Str) (rest : List Str) (s : Str) :
      (∀ c ∈ sp, isBlank c) → BlankSep rest s → BlankSep (v :: rest) (sp ++ v ++ s)

theorem replicate_blank (n : Nat) : ∀ c ∈ List.replicate n ' ', isBlank c := by
  intro c hc
  rw [List.mem_replicate] at hc
  exact Or.inl hc.2

/-- one loop iteration appends blanks and the token's value to what has been produced so far -/
theorem step_out (st : St) (t : Tok) :
    ∃ sp : Str, (∀ c ∈ sp, isBlank c) ∧ (step st t).out = st.out ++ sp ++ t.value := by
  unfold step St.out
  by_cases h : t.lineno ≠ st.lineNum
  · refine ⟨'\n' :: List.replicate (t.index - (st.lastPos + 1) - 0) ' ', ?_, ?_⟩
    · intro c hc
      rcases List.mem_cons.1 hc with rfl | hc
      · exact Or.inr rfl
      · exact replicate_blank _ c hc
    · simp [h]
  · refine ⟨List.replicate (t.index - st.shift - st.line.length) ' ', replicate_blank _, ?_⟩
    simp [h]

theorem foldl_blankSep (ts : List Tok) : ∀ st : St,
    ∃ X, (ts.foldl step st).out = st.out ++ X ∧ BlankSep (ts.map (·.value)) X := by
  induction ts with
  | nil => intro st; exact ⟨[], by simp, .nil⟩
  | cons t r ih =>
    intro st
    obtain ⟨sp, hsp, hout⟩ := step_out st t
    obtain ⟨X, hX, hB⟩ := ih (step st t)
    refine ⟨sp ++ t.value ++ X, ?_, .cons sp t.value _ X hsp hB⟩
    simp only [List.foldl_cons, hX, hout, List.append_assoc]

/-- the first token is put at column 0 without padding -/
theorem step_init (t : Tok) : (step (init t) t).out = t.value := by
  simp [step, init, St.out]

/-- **blank-separated form, all token lists**: the output is the first value followed by the other
values in order, each preceded only by blanks / newlines. -/
theorem tokensToString_blankSep (t : Tok) (ts : List Tok) :
    ∃ X, tokensToString (t :: ts) = t.value ++ X ∧ BlankSep (ts.map (·.value)) X := by
  obtain ⟨X, hX, hB⟩ := foldl_blankSep ts (step (init t) t)
  exact ⟨X, by simp [tokensToString, List.foldl_cons, hX, step_init], hB⟩

/-! ### closed form under the position invariant -/

/-- loop invariant after token `a` has been processed -/
structure Inv (st : St) (a : Tok) : Prop where
  ln : st.lineNum = a.lineno + nl a.value
  lp : st.lastPos = a.index + a.value.length
  sh : st.shift + st.line.length = st.lastPos

theorem inv_init (t : Tok) : Inv (step (init t) t) t := by
  constructor <;> simp [step, init]

theorem step_inv (st : St) (a b : Tok) (hi : Inv st a)
    (hw : a.index + a.value.length + (if b.lineno ≠ a.lineno + nl a.value then 1 else 0) ≤ b.index) :
    Inv (step st b) b ∧ (step st b).out = st.out ++ sepBy (·.value) a b ++ b.value := by
  obtain ⟨h1, h2, h3⟩ := hi
  by_cases h : b.lineno ≠ a.lineno + nl a.value
  · have h' : b.lineno ≠ st.lineNum := by rw [h1]; exact h
    rw [if_pos h] at hw
    refine ⟨⟨?_, ?_, ?_⟩, ?_⟩
    · simp [step, h']
    · simp [step, h']
    · simp [step, h']; omega
    · have : b.index - (st.lastPos + 1) = b.index - (a.index + a.value.length) - 1 := by omega
      simp [step, St.out, sepBy, h', h, this]
  · have h' : ¬ b.lineno ≠ st.lineNum := by rw [h1]; exact h
    rw [if_neg h, Nat.add_zero] at hw
    refine ⟨⟨?_, ?_, ?_⟩, ?_⟩
    · simp [step, h']; simp at h; omega
    · simp [step, h']
    · simp [step, h']; omega
    · have : b.index - st.shift - st.line.length = b.index - (a.index + a.value.length) := by omega
      simp [step, St.out, sepBy, h', h, this]

theorem foldl_closed (r : List Tok) : ∀ (st : St) (a : Tok), Inv st a → wfBy (·.value) a r = true →
    (r.foldl step st).out = st.out ++ tailBy (·.value) a r := by
  induction r with
  | nil => intro st a _ _; simp [tailBy]
  | cons b r ih =>
    intro st a hi hw
    simp only [wfBy, Bool.and_eq_true, decide_eq_true_eq] at hw
    obtain ⟨hi', ho⟩ := step_inv st a b hi hw.1
    rw [List.foldl_cons, ih (step st b) b hi' hw.2, ho]
    simp [tailBy, List.append_assoc]

/-- **closed form**: on every token list that satisfies the lexer's position invariant the code
computes `render`: the values in order; between two tokens of one line exactly as many blanks as
there were characters between them; at a line change one `\n` and one blank fewer. -/
theorem tokensToString_eq_render (toks : List Tok) (hw : WfBy (·.value) toks = true) :
    tokensToString toks = render toks := by
  cases toks with
  | nil => rfl
  | cons t ts =>
    simp only [tokensToString, List.foldl_cons, render, layoutBy]
    rw [foldl_closed ts _ t (inv_init t) hw, step_init]

/-! ### congruence of the closed form in the text accessor -/

theorem tailBy_congr (f g : Tok → Str) : ∀ (r : List Tok) (a : Tok),
    f a = g a → (∀ t ∈ r, f t = g t) → tailBy f a r = tailBy g a r := by
  intro r
  induction r with
  | nil => intros; rfl
  | cons b r ih =>
    intro a ha h
    have hb : f b = g b := h b (List.mem_cons_self ..)
    simp only [tailBy, sepBy, ha, hb]
    rw [ih b hb (fun t ht => h t (List.mem_cons_of_mem _ ht))]

theorem layoutBy_congr (f g : Tok → Str) (toks : List Tok) (h : ∀ t ∈ toks, f t = g t) :
    layoutBy f toks = layoutBy g toks := by
  cases toks with
  | nil => rfl
  | cons a r =>
    have ha := h a (List.mem_cons_self ..)
    simp only [layoutBy, ha]
    rw [tailBy_congr f g r a ha (fun t ht => h t (List.mem_cons_of_mem _ ht))]

theorem wfBy_congr (f g : Tok → Str) : ∀ (r : List Tok) (a : Tok),
    f a = g a → (∀ t ∈ r, f t = g t) → wfBy f a r = wfBy g a r := by
  intro r
  induction r with
  | nil => intros; rfl
  | cons b r ih =>
    intro a ha h
    have hb : f b = g b := h b (List.mem_cons_self ..)
    simp only [wfBy, ha]
    rw [ih b hb (fun t ht => h t (List.mem_cons_of_mem _ ht))]

theorem WfBy_congr (f g : Tok → Str) (toks : List Tok) (h : ∀ t ∈ toks, f t = g t) :
    WfBy f toks = WfBy g toks := by
  cases toks with
  | nil => rfl
  | cons a r =>
    exact wfBy_congr f g r a (h a (List.mem_cons_self ..)) (fun t ht => h t (List.mem_cons_of_mem _ ht))

/-! ### blank-separated shape of the closed form -/

theorem sepBy_blank (f : Tok → Str) (a b : Tok) : ∀ c ∈ sepBy f a b, isBlank c := by
  intro c hc
  unfold sepBy at hc
  simp only at hc
  split at hc
  · rcases List.mem_cons.1 hc with rfl | hc
    · exact Or.inr rfl
    · exact replicate_blank _ c hc
  · exact replicate_blank _ c hc

theorem tailBy_blankSep (f : Tok → Str) : ∀ (r : List Tok) (a : Tok),
    BlankSep (r.map f) (tailBy f a r) := by
  intro r
  induction r with
  | nil => intro a; exact .nil
  | cons b r ih => intro a; exact .cons _ _ _ _ (sepBy_blank f a b) (ih b)

/-! ### source layouts -/

theorem place_tail (c : ActCfg) (segs : List Seg) : ∀ (idx line : Nat) (a : Tok),
    a.index + a.src.length = idx → a.lineno + nl a.src = line →
    (∀ s ∈ segs, s.dl ≠ 0 → s.gap ≠ []) →
    tailBy (·.src) a (place c idx line segs) = storedTail segs ∧
    wfBy (·.src) a (place c idx line segs) = true := by
  induction segs with
  | nil => intros; exact ⟨rfl, rfl⟩
  | cons s r ih =>
    intro idx line a ha hl hg
    have hs := hg s (List.mem_cons_self ..)
    have ih' := ih (idx + s.gap.length + s.src.length) (line + s.dl + nl s.src)
      (lexTok c s.type s.src (line + s.dl) (idx + s.gap.length)) (by simp [lexTok]) (by simp [lexTok])
      (fun t ht => hg t (List.mem_cons_of_mem _ ht))
    have hgap : idx + s.gap.length - (a.index + a.src.length) = s.gap.length := by omega
    constructor
    · simp only [place, tailBy, storedTail, ih'.1]
      congr 1
      simp only [sepBy, lexTok, hl, hgap, blank]
      by_cases hd : s.dl = 0
      · simp [hd]
      · simp [hd]
    · simp only [place, wfBy, Bool.and_eq_true, decide_eq_true_eq]
      refine ⟨?_, ih'.2⟩
      simp only [lexTok, hl]
      by_cases hd : s.dl = 0
      · simp [hd]; omega
      · have : line + s.dl ≠ line := by omega
        have hne := hs hd
        have : 1 ≤ s.gap.length := by
          cases hgp : s.gap with
          | nil => exact absurd hgp hne
          | cons _ _ => simp
        simp only [ne_eq, *, not_false_eq_true, if_true]
        omega

theorem blank_length (s : Seg) (h : s.dl ≠ 0 → s.gap ≠ []) : (blank s).length = s.gap.length := by
  unfold blank
  by_cases hd : s.dl = 0
  · simp [hd]
  · have hne := h hd
    cases hgp : s.gap with
    | nil => exact absurd hgp hne
    | cons _ _ => simp [hd]

theorem blank_blank (s : Seg) : ∀ c ∈ blank s, isBlank c := by
  intro c hc
  unfold blank at hc
  split at hc
  · rcases List.mem_cons.1 hc with rfl | hc
    · exact Or.inr rfl
    · exact replicate_blank _ c hc
  · exact replicate_blank _ c hc

/-! ### columns -/

theorem sepBy_length (f : Tok → Str) (a b : Tok)
    (hw : a.index + (f a).length + (if b.lineno ≠ a.lineno + nl (f a) then 1 else 0) ≤ b.index) :
    (sepBy f a b).length + (a.index + (f a).length) = b.index := by
  by_cases h : b.lineno ≠ a.lineno + nl (f a)
  · rw [if_pos h] at hw
    have : sepBy f a b = '\n' :: List.replicate (b.index - (a.index + (f a).length) - 1) ' ' := by
      simp [sepBy, h]
    rw [this]; simp only [List.length_cons, List.length_replicate]; omega
  · rw [if_neg h, Nat.add_zero] at hw
    have : sepBy f a b = List.replicate (b.index - (a.index + (f a).length)) ' ' := by
      simp [sepBy, h]
    rw [this]; simp only [List.length_replicate]; omega

/-- **columns are preserved**: in the closed form the text of every token `t` starts at offset
`t.index - a.index`, `a` the first token. -/
theorem layout_offset (f : Tok → Str) (pre : List Tok) : ∀ (a t : Tok) (post : List Tok),
    wfBy f a (pre ++ t :: post) = true →
    ∃ X Y, layoutBy f (a :: (pre ++ t :: post)) = X ++ f t ++ Y ∧ X.length + a.index = t.index := by
  induction pre with
  | nil =>
    intro a t post hw
    simp only [List.nil_append, wfBy, Bool.and_eq_true, decide_eq_true_eq] at hw
    refine ⟨f a ++ sepBy f a t, tailBy f t post, ?_, ?_⟩
    · simp [layoutBy, tailBy, List.append_assoc]
    · have := sepBy_length f a t hw.1
      simp only [List.length_append]; omega
  | cons b pre ih =>
    intro a t post hw
    simp only [List.cons_append, wfBy, Bool.and_eq_true, decide_eq_true_eq] at hw
    obtain ⟨X, Y, hXY, hlen⟩ := ih b t post hw.2
    refine ⟨f a ++ sepBy f a b ++ X, Y, ?_, ?_⟩
    · have : layoutBy f (a :: (b :: pre ++ t :: post)) = f a ++ sepBy f a b ++ layoutBy f (b :: (pre ++ t :: post)) := by
        simp [layoutBy, tailBy, List.append_assoc]
      rw [List.cons_append] at this ⊢
      rw [this, hXY]; simp [List.append_assoc]
    · have := sepBy_length f a b hw.1
      simp only [List.length_append]; omega

/-! ### values of unrewritten tokens -/

theorem value_eq_src_of (c : ActCfg) (toks : List Tok)
    (hl : ∀ t ∈ toks, t.value = action c t.type t.src)
    (hu : ∀ t ∈ toks, rewriting t.type = true → action c t.type t.src = t.src) :
    ∀ t ∈ toks, t.value = t.src := by
  intro t ht
  rw [hl t ht]
  cases hty : t.type with
  | other n => rfl
  | quote => have := hu t ht (by rw [hty]; rfl); rwa [hty] at this
  | dquote => have := hu t ht (by rw [hty]; rfl); rwa [hty] at this
  | var => have := hu t ht (by rw [hty]; rfl); rwa [hty] at this
  | sysvar => have := hu t ht (by rw [hty]; rfl); rwa [hty] at this

theorem place_value (c : ActCfg) (segs : List Seg) : ∀ (idx line : Nat),
    (∀ s ∈ segs, action c s.type s.src = s.src) → ∀ t ∈ place c idx line segs, t.value = t.src := by
  induction segs with
  | nil => intro _ _ _ t ht; simp [place] at ht
  | cons s r ih =>
    intro idx line h t ht
    simp only [place, List.mem_cons] at ht
    rcases ht with rfl | ht
    · simp [lexTok, h s (List.mem_cons_self ..)]
    · exact ih _ _ (fun x hx => h x (List.mem_cons_of_mem _ hx)) t ht

/-! ### raw_query -/

theorem RQ.value_eq_yield (q : RQ) : q.value = q.yield := by
  induction q with
  | tok t => rfl
  | paren l q r ih => simp [RQ.value, RQ.yield, ih]
  | call q l r ih => simp [RQ.value, RQ.yield, ih]
  | cat a b iha ihb => simp [RQ.value, RQ.yield, iha, ihb]

theorem RQ.value_ne_nil (q : RQ) : q.value ≠ [] := by
  induction q with
  | tok t => simp [RQ.value]
  | paren l q r _ => simp [RQ.value]
  | call q l r _ => simp [RQ.value]
  | cat a b iha _ => simp [RQ.value, iha]

end MindsVerif.TokStr
