import MindsVerif.Model.TokStr
/-!
C16, round 6: `tokens_to_string` treats characters as opaque.

The only characters the function looks at are `'\n'` (counted in a token's value) and `' '` (what it pads with).  For every
renaming `ρ` of characters that keeps exactly the newline a newline and the blank a blank, the function commutes with `ρ`:
renaming the characters of all tokens renames the characters of the output, nothing else.  So is `verbatim`, the closed forms,
and the stored-text specification of the source-layout model.

Use: (1) the statement itself — whatever code point stands inside a literal or quoted name (lone surrogate, NUL, U+2028, astral,
combining, bidi control …) comes out as that code point; (2) Lean's `Char` has no surrogates (U+D800–DFFF) while a Python `str`
may hold them: the correspondence harness renames the surrogates of a case injectively to characters that do not occur in
it, runs the model, and renames back — sound by these lemmas (an injective renaming restricted to the characters of the case
extends to a `ρ` with the two side conditions, as the harness never maps to or from `'\n'` / `' '`).
-/
namespace MindsVerif.TokStr

/-- keeps exactly the newline a newline, and the blank a blank -/
structure Opaque (ρ : Char → Char) : Prop where
  nl_iff : ∀ c, ρ c = '\n' ↔ c = '\n'
  blank : ρ ' ' = ' '

def Tok.rename (ρ : Char → Char) (t : Tok) : Tok := ⟨t.type, t.value.map ρ, t.src.map ρ, t.lineno, t.index⟩

def St.rename (ρ : Char → Char) (st : St) : St := { st with content := st.content.map ρ, line := st.line.map ρ }

def Seg.rename (ρ : Char → Char) (s : Seg) : Seg := ⟨s.gap.map ρ, s.dl, s.type, s.src.map ρ⟩

variable {ρ : Char → Char}

theorem nl_rename (h : Opaque ρ) (s : Str) : nl (s.map ρ) = nl s := by
  unfold nl
  induction s with
  | nil => rfl
  | cons c r ih =>
    simp only [List.map_cons, List.count_cons, ih]
    have : (ρ c == '\n') = (c == '\n') := by
      by_cases hc : c = '\n'
      · subst hc
        rw [(h.nl_iff '\n').2 rfl]
      · have h2 : ρ c ≠ '\n' := fun e => hc ((h.nl_iff c).1 e)
        rw [beq_false_of_ne h2, beq_false_of_ne hc]
    rw [this]

theorem replicate_rename (h : Opaque ρ) (n : Nat) : (List.replicate n ' ').map ρ = List.replicate n ' ' := by
  simp [List.map_replicate, h.blank]

theorem nl_char_rename (h : Opaque ρ) : ρ '\n' = '\n' := (h.nl_iff '\n').2 rfl

theorem step_rename (h : Opaque ρ) (st : St) (t : Tok) :
    step (st.rename ρ) (t.rename ρ) = (step st t).rename ρ := by
  unfold step St.rename Tok.rename
  by_cases hl : t.lineno ≠ st.lineNum
  · simp [hl, nl_rename h, replicate_rename h, nl_char_rename h, List.map_append, List.length_map]
  · simp [hl, nl_rename h, replicate_rename h, List.map_append, List.length_map]

theorem foldl_step_rename (h : Opaque ρ) (ts : List Tok) : ∀ st : St,
    (ts.map (Tok.rename ρ)).foldl step (st.rename ρ) = (ts.foldl step st).rename ρ := by
  induction ts with
  | nil => intro st; rfl
  | cons t r ih =>
    intro st
    simp only [List.map_cons, List.foldl_cons]
    rw [step_rename h, ih]

/-- **`tokens_to_string` commutes with every opaque renaming of characters** (all token lists, no hypothesis on positions) -/
theorem tokensToString_rename (h : Opaque ρ) (toks : List Tok) :
    tokensToString (toks.map (Tok.rename ρ)) = (tokensToString toks).map ρ := by
  cases toks with
  | nil => rfl
  | cons t r =>
    have key := foldl_step_rename h (t :: r) (init t)
    have hi : init (t.rename ρ) = (init t).rename ρ := rfl
    show (((t :: r).map (Tok.rename ρ)).foldl step (init (t.rename ρ))).out = ((t :: r).foldl step (init t)).out.map ρ
    rw [hi, key]
    simp [St.out, St.rename, List.map_append]

theorem sepBy_rename (h : Opaque ρ) (f : Tok → Str) (hf : ∀ t, f (t.rename ρ) = (f t).map ρ) (a b : Tok) :
    sepBy f (a.rename ρ) (b.rename ρ) = (sepBy f a b).map ρ := by
  unfold sepBy
  have ha : (a.rename ρ).index = a.index ∧ (a.rename ρ).lineno = a.lineno ∧ (b.rename ρ).index = b.index ∧
      (b.rename ρ).lineno = b.lineno := ⟨rfl, rfl, rfl, rfl⟩
  simp only [hf, ha.1, ha.2.1, ha.2.2.1, ha.2.2.2, List.length_map, nl_rename h]
  by_cases hl : b.lineno ≠ a.lineno + nl (f a)
  · simp [hl, replicate_rename h, nl_char_rename h]
  · simp [hl, replicate_rename h]

theorem tailBy_rename (h : Opaque ρ) (f : Tok → Str) (hf : ∀ t, f (t.rename ρ) = (f t).map ρ) (r : List Tok) :
    ∀ a : Tok, tailBy f (a.rename ρ) (r.map (Tok.rename ρ)) = (tailBy f a r).map ρ := by
  induction r with
  | nil => intro a; rfl
  | cons b r ih =>
    intro a
    simp only [List.map_cons, tailBy, List.map_append]
    rw [sepBy_rename h f hf, hf, ih]

theorem layoutBy_rename (h : Opaque ρ) (f : Tok → Str) (hf : ∀ t, f (t.rename ρ) = (f t).map ρ) (toks : List Tok) :
    layoutBy f (toks.map (Tok.rename ρ)) = (layoutBy f toks).map ρ := by
  cases toks with
  | nil => rfl
  | cons a r =>
    simp only [List.map_cons, layoutBy, List.map_append]
    rw [hf, tailBy_rename h f hf]

/-- what C16 asks for is opaque in the characters as well -/
theorem verbatim_rename (h : Opaque ρ) (toks : List Tok) :
    verbatim (toks.map (Tok.rename ρ)) = (verbatim toks).map ρ :=
  layoutBy_rename h (·.src) (fun _ => rfl) toks

theorem render_rename (h : Opaque ρ) (toks : List Tok) :
    render (toks.map (Tok.rename ρ)) = (render toks).map ρ :=
  layoutBy_rename h (·.value) (fun _ => rfl) toks

/-! the source-layout model -/

theorem blank_rename (h : Opaque ρ) (s : Seg) : blank (s.rename ρ) = (blank s).map ρ := by
  unfold blank Seg.rename
  by_cases hd : s.dl ≠ 0
  · simp [hd, replicate_rename h, nl_char_rename h]
  · simp [hd, replicate_rename h]

theorem storedTail_rename (h : Opaque ρ) (r : List Seg) :
    storedTail (r.map (Seg.rename ρ)) = (storedTail r).map ρ := by
  induction r with
  | nil => rfl
  | cons s r ih =>
    simp only [List.map_cons, storedTail, List.map_append, blank_rename h, ih]
    rfl

theorem storedSpec_rename (h : Opaque ρ) (r : List Seg) :
    storedSpec (r.map (Seg.rename ρ)) = (storedSpec r).map ρ := by
  cases r with
  | nil => rfl
  | cons s r =>
    simp only [List.map_cons, storedSpec, List.map_append, storedTail_rename h]
    rfl

theorem sourceText_rename (r : List Seg) :
    sourceText (r.map (Seg.rename ρ)) = (sourceText r).map ρ := by
  induction r with
  | nil => rfl
  | cons s r ih =>
    simp only [List.map_cons, sourceText, List.map_append, ih]
    rfl

/-- the lexer model under the live configuration (no action rewrites): renaming the lexemes renames the tokens -/
theorem place_rename (h : Opaque ρ) (r : List Seg) : ∀ idx line : Nat,
    place fixedCfg idx line (r.map (Seg.rename ρ)) = (place fixedCfg idx line r).map (Tok.rename ρ) := by
  induction r with
  | nil => intro _ _; rfl
  | cons s r ih =>
    intro idx line
    simp only [List.map_cons, place]
    have h1 : (s.rename ρ).gap.length = s.gap.length := by simp [Seg.rename]
    have h2 : (s.rename ρ).src.length = s.src.length := by simp [Seg.rename]
    have h3 : nl (s.rename ρ).src = nl s.src := nl_rename h s.src
    have h4 : (s.rename ρ).dl = s.dl := rfl
    rw [h1, h2, h3, h4, ih]
    congr 1
    cases hs : s.type <;> simp [lexTok, Tok.rename, Seg.rename, action, fixedCfg, hs]

end MindsVerif.TokStr
