import MindsVerif.Lemmas.Ident
/-! variable name codec: `Variable.get_string` is read back by the VARIABLE / SYSTEM_VARIABLE rules + decoding -/
namespace MindsVerif.VarCodec
open MindsVerif.Py MindsVerif.Lex MindsVerif.Literal MindsVerif.Ident

/-- the names that some source text denotes (= what the lexers can produce): first character in `[a-zA-Z_.$]`
(as the lexers read the class, under IGNORECASE), and either bare-printable or free of one of the three quotes -/
def VarOK (v : List Char) : Bool :=
  (match v with | [] => false | c :: _ => isVarChar c) &&
    (varPlain v || !v.contains '`' || !v.contains '"' || !v.contains '\'')

theorem varA_var {c : Char} (h : isVarCharA c = true) : isVarChar c = true := by
  simp only [isVarCharA, Bool.or_eq_true, decide_eq_true_eq] at h
  simp only [isVarChar, Bool.or_eq_true, decide_eq_true_eq]
  rcases h with ((h | h) | h) | h
  · exact Or.inl (Or.inl (Or.inl (Or.inl h)))
  · exact Or.inl (Or.inl (Or.inl (Or.inr h)))
  · exact Or.inl (Or.inl (Or.inr h))
  · exact Or.inl (Or.inr h)

theorem varChar_ne {c x : Char} (h : isVarChar c = true) (hx : isVarChar x = false) : c ≠ x := by
  intro e; subst e; rw [h] at hx; cases hx

theorem varQuote_cases (v : List Char) : varQuote v = '`' ∨ varQuote v = '"' ∨ varQuote v = '\'' := by
  unfold varQuote; split
  · exact Or.inl rfl
  · split
    · exact Or.inr (Or.inl rfl)
    · exact Or.inr (Or.inr rfl)

/-- the chosen quote does not occur in the name when one of the three is free -/
theorem varQuote_free (v : List Char) (h : (!v.contains '`' || !v.contains '"' || !v.contains '\'') = true) :
    ∀ c ∈ v, c ≠ varQuote v := by
  intro c hc e
  have hor : '`' ∉ v ∨ '"' ∉ v ∨ '\'' ∉ v := by
    simp only [Bool.or_eq_true, Bool.not_eq_true', List.contains_eq_mem, decide_eq_false_iff_not] at h
    rcases h with (h | h) | h
    · exact Or.inl h
    · exact Or.inr (Or.inl h)
    · exact Or.inr (Or.inr h)
  unfold varQuote at e
  by_cases h1 : '`' ∈ v
  · by_cases h2 : '"' ∈ v
    · have h3 : '\'' ∉ v := by rcases hor with h | h | h <;> first | exact absurd h1 h | exact absurd h2 h | exact h
      simp [h1, h2] at e
      subst e; exact h3 hc
    · simp [h1, h2] at e
      subst e; exact h2 hc
  · simp [h1] at e
    subst e; exact h1 hc

theorem body_roundtrip (v rest : List Char) (hv : VarOK v = true)
    (hr : ∀ y t, rest = y :: t → isVarChar y = false) :
    lexVarBody ((if varPlain v then v else varQuote v :: v ++ [varQuote v]) ++ rest) = some (v, rest) ∧
    (∀ t, (if varPlain v then v else varQuote v :: v ++ [varQuote v]) ++ rest ≠ '@' :: t) := by
  cases v with
  | nil => simp [VarOK] at hv
  | cons c t =>
    simp only [VarOK, Bool.and_eq_true] at hv
    obtain ⟨hc, hq⟩ := hv
    by_cases hp : varPlain (c :: t) = true
    · rw [if_pos hp]
      simp only [varPlain, Bool.and_eq_true, List.all_eq_true] at hp
      have hall : ∀ x ∈ c :: t, isVarChar x = true := fun x hx => varA_var (hp.2 x hx)
      have tk := takeWhile_all isVarChar (c :: t) rest hall hr
      have h1 : c ≠ '\'' := varChar_ne hc (by decide)
      have h2 : c ≠ '`' := varChar_ne hc (by decide)
      have h3 : c ≠ '"' := varChar_ne hc (by decide)
      have h4 : c ≠ '@' := varChar_ne hc (by decide)
      have e : (c :: t) ++ rest = c :: (t ++ rest) := rfl
      rw [e] at tk ⊢
      refine ⟨?_, ?_⟩
      · simp only [lexVarBody, h1, h2, h3, decide_false, Bool.or_false, Bool.false_eq_true, if_false, tk.1, tk.2]
        simp
      · intro t' e'; injection e' with e1 _; exact h4 e1
    · rw [if_neg hp]
      have hfree : (!(c :: t).contains '`' || !(c :: t).contains '"' || !(c :: t).contains '\'') = true := by
        simpa [hp] using hq
      have hno := varQuote_free (c :: t) hfree
      have hm := mSimple_body (varQuote (c :: t)) rest (c :: t) hno
      have hs : strip [varQuote (c :: t)] (varQuote (c :: t) :: (c :: t) ++ [varQuote (c :: t)]) = c :: t :=
        strip_delims _ _ (by intro a b e; exact hno a (by simp [e])) (by intro a b e; exact hno a (by simp [e]))
      have hqc := varQuote_cases (c :: t)
      refine ⟨?_, ?_⟩
      · have e : (varQuote (c :: t) :: (c :: t) ++ [varQuote (c :: t)]) ++ rest =
            varQuote (c :: t) :: (c :: (t ++ varQuote (c :: t) :: rest)) := by simp
        have hm' : mSimple (varQuote (c :: t)) (c :: (t ++ varQuote (c :: t) :: rest)) = some (c :: t, rest) := by
          simpa using hm
        have hs' : strip [varQuote (c :: t)] (varQuote (c :: t) :: (c :: t ++ [varQuote (c :: t)])) = c :: t := by
          simpa using hs
        rw [e]
        have hq3 : (varQuote (c :: t) = '\'' || varQuote (c :: t) = '`' || varQuote (c :: t) = '"') = true := by
          rcases hqc with h | h | h <;> simp [h]
        simp only [lexVarBody, hq3, if_true, hc, hm', Option.map_some]
        have hs'' : strip [varQuote (c :: t)] (varQuote (c :: t) :: c :: (t ++ [varQuote (c :: t)])) = c :: t := by
          simpa using hs
        simp [hs'']
      · intro t' e'
        have : varQuote (c :: t) = '@' := by
          have := congrArg List.head? e'; simpa using this
        rcases hqc with h | h | h <;> rw [h] at this <;> exact absurd this (by decide)

/-- **variable name codec**: print, then lex + decode, gives the name and the system flag back -/
theorem roundtrip (sys : Bool) (v rest : List Char) (hv : VarOK v = true)
    (hr : ∀ y t, rest = y :: t → isVarChar y = false) :
    lexVariable (variableToString sys v ++ rest) = some (sys, v, rest) := by
  obtain ⟨hb, hat⟩ := body_roundtrip v rest hv hr
  unfold variableToString
  rw [List.append_assoc]
  generalize (if varPlain v then v else varQuote v :: v ++ [varQuote v]) ++ rest = B at hb hat
  cases sys with
  | true => simp [lexVariable, hb]
  | false =>
    cases B with
    | nil => simp [lexVarBody] at hb
    | cons b bs =>
      have hne : b ≠ '@' := fun e => hat bs (by rw [e])
      simp [lexVariable, hne, hb]

end MindsVerif.VarCodec
