import MindsVerif.Model.WalkHist
import MindsVerif.Lemmas.WalkInd
import MindsVerif.Lemmas.WalkPerm
/-!
Depth and history lemmas for the walker.

* `trCut_eq`: a walker with a depth budget is the walker itself on every tree that fits the budget (and only there:
  with no budget left nothing is called) — so "the walk does not depend on the nesting depth" is exactly "there is no
  budget", which the depth stream tests on the code.
* `tower`: trees of arbitrary height built by nesting one class in one of its slots; `okTree_tower` — the hypothesis of
  the lifting theorem holds at every height once it holds for one level.
* `abortLog_prefix`, `modelProc_historyFree`, `ctrProc_fresh`.
-/
namespace MindsVerif.Walk
open MindsVerif.Params
variable {S : Type}

/-! ### the calls of an aborted walk -/

theorem abortLog_prefix (x : Nat) : ∀ l : List Visit, abortLog x l <+: l
  | [] => by simp [abortLog]
  | v :: vs => by
    simp only [abortLog]
    split
    · exact ⟨vs, rfl⟩
    · exact List.prefix_cons_inj v |>.mpr (abortLog_prefix x vs)

/-- a visitor that does not raise (the node is never called) sees the whole walk -/
theorem abortLog_none (x : Nat) : ∀ l : List Visit, aborts x l = false → abortLog x l = l
  | [], _ => by simp [abortLog]
  | v :: vs, h => by
    simp only [aborts, List.any_cons, Bool.or_eq_false_iff] at h
    have hv : ¬ v.tag = some x := by
      intro e; rw [e] at h; simp at h
    simp only [abortLog, hv, if_false]
    rw [abortLog_none x vs (by simpa [aborts] using h.2)]

/-- … one that raises is called on `x` last, and on `x` only then -/
theorem abortLog_last (x : Nat) : ∀ l : List Visit, aborts x l = true →
    ∃ pre v, abortLog x l = pre ++ [v] ∧ v.tag = some x ∧ ∀ w ∈ pre, w.tag ≠ some x
  | [], h => by simp [aborts] at h
  | v :: vs, h => by
    by_cases hv : v.tag = some x
    · exact ⟨[], v, by simp [abortLog, hv], hv, by simp⟩
    · have h' : aborts x vs = true := by
        simp only [aborts, List.any_cons, Bool.or_eq_true] at h
        rcases h with h | h
        · exact absurd (by simpa using h) hv
        · exact h
      obtain ⟨pre, w, e, hw, hp⟩ := abortLog_last x vs h'
      refine ⟨v :: pre, w, by simp [abortLog, hv, e], hw, ?_⟩
      intro u hu
      rcases List.mem_cons.mp hu with rfl | hu
      · exact hv
      · exact hp u hu

/-! ### depth budget -/

theorem height_mk (c s t : Nat) (ks : List Node) : height (.mk c s t ks) = heightL ks + 1 := by rw [height]
theorem heightL_nil : heightL [] = 0 := by rw [heightL]
theorem heightL_cons (k : Node) (ks : List Node) : heightL (k :: ks) = max (height k) (heightL ks) := by rw [heightL]

theorem height_pos : ∀ t : Node, 0 < height t
  | .mk c s t ks => by rw [height_mk]; omega

theorem heightL_append : ∀ a b : List Node, heightL (a ++ b) = max (heightL a) (heightL b)
  | [], b => by simp [heightL_nil]
  | k :: a, b => by
    rw [List.cons_append, heightL_cons, heightL_cons, heightL_append a b]; omega

theorem height_le_heightL {k : Node} {ks : List Node} (h : k ∈ ks) : height k ≤ heightL ks := by
  induction ks with
  | nil => cases h
  | cons a as ih =>
    rw [heightL_cons]
    rcases List.mem_cons.mp h with rfl | h
    · omega
    · have := ih h; omega

theorem trCut_zero (σ : Schema) (cb : Cb S) (n : Node) :
    trCut σ cb 0 n = fun _ _ _ st => ⟨none, n, st, [], true⟩ := by
  cases n; rw [trCut]
theorem trCut_succ (σ : Schema) (cb : Cb S) (f c s t : Nat) (ks : List Node) :
    trCut σ cb (f + 1) (.mk c s t ks) = step σ cb c s t ks (itemsCut σ cb f ks) := by rw [trCut]
theorem trViaCut_mk (σ : Schema) (cb : Cb S) (f c s t : Nat) (ks : List Node) :
    trViaCut σ cb f (.mk c s t ks) = viaStep c s t ks (itemsCut σ cb f ks) := by rw [trViaCut]
theorem itemsCut_nil (σ : Schema) (cb : Cb S) (f : Nat) : itemsCut σ cb f [] = [] := by rw [itemsCut]
theorem itemsCut_cons (σ : Schema) (cb : Cb S) (f : Nat) (k : Node) (ks : List Node) :
    itemsCut σ cb f (k :: ks) = ⟨k, trCut σ cb f k, trViaCut σ cb f k⟩ :: itemsCut σ cb f ks := by rw [itemsCut]

mutual
/-- the budgeted walker is the walker on every tree that fits the budget -/
theorem trCut_eq (σ : Schema) (cb : Cb S) : ∀ (t : Node) (f : Nat), height t ≤ f → trCut σ cb f t = tr σ cb t
  | .mk c s t ks, 0, h => by rw [height_mk] at h; omega
  | .mk c s t ks, f + 1, h => by
    rw [height_mk] at h
    rw [trCut_succ, tr_mk, itemsCut_eq σ cb ks f (by omega)]
theorem trViaCut_eq (σ : Schema) (cb : Cb S) : ∀ (t : Node) (f : Nat), height t ≤ f + 1 → trViaCut σ cb f t = trVia σ cb t
  | .mk c s t ks, f, h => by
    rw [height_mk] at h
    rw [trViaCut_mk, trVia_mk, itemsCut_eq σ cb ks f (by omega)]
theorem itemsCut_eq (σ : Schema) (cb : Cb S) : ∀ (ks : List Node) (f : Nat), heightL ks ≤ f → itemsCut σ cb f ks = items σ cb ks
  | [], f, _ => by rw [itemsCut_nil, items_nil]
  | k :: ks, f, h => by
    rw [heightL_cons] at h
    rw [itemsCut_cons, items_cons, trCut_eq σ cb k f (by omega), trViaCut_eq σ cb k f (by omega),
      itemsCut_eq σ cb ks f (by omega)]
end

theorem walkCut_eq (σ : Schema) (cb : Cb S) (t : Node) (f : Nat) (h : height t ≤ f) (st : S) :
    walkCut σ cb f t st = walk σ cb t st := by
  simp only [walkCut, walk, trCut_eq σ cb t f h]

/-- with no budget left the visitor is not called at all -/
theorem walkCut_zero (σ : Schema) (cb : Cb S) (t : Node) (st : S) : (walkCut σ cb 0 t st).log = [] := by
  simp only [walkCut, trCut_zero]

/-! ### trees of arbitrary height -/

/-- `n` levels of class `c`, each holding the next level in slot `s` between the children `pre` and `post`, on top of `base` -/
def tower (c s : Nat) (pre post : List Node) (base : Node) : Nat → Node
  | 0 => base
  | n + 1 => .mk c s 0 (pre ++ tower c s pre post base n :: post)

theorem tower_slot (c s : Nat) (pre post : List Node) (base : Node) (hb : base.slot = s) :
    ∀ n, (tower c s pre post base n).slot = s
  | 0 => hb
  | _ + 1 => rfl

theorem height_tower (c s : Nat) (pre post : List Node) (base : Node) :
    ∀ n, n < height (tower c s pre post base n)
  | 0 => height_pos _
  | n + 1 => by
    have ih := height_tower c s pre post base n
    simp only [tower]
    rw [height_mk, heightL_append, heightL_cons]
    omega

theorem slotsOf_append : ∀ a b : List Node, slotsOf (a ++ b) = slotsOf a ++ slotsOf b
  | [], b => by simp [slotsOf]
  | k :: a, b => by simp [slotsOf, slotsOf_append a b]

theorem okKids_cons_req (σ : Schema) (row : ClassRow) (k : Node) (ks : List Node)
    (hk : (row.kind k.slot).required = true) : okKids σ row (k :: ks) = (okTree σ k && okKids σ row ks) := by
  cases k with
  | mk c s t gs =>
    simp only [Node.slot] at hk
    simp only [okKids, hk, if_true]

theorem okKids_append (σ : Schema) (row : ClassRow) : ∀ a b : List Node,
    okKids σ row (a ++ b) = (okKids σ row a && okKids σ row b)
  | [], b => by simp [okKids]
  | .mk c s t gs :: a, b => by
    simp only [List.cons_append, okKids, okKids_append σ row a b, Bool.and_assoc]

/-- the hypothesis of the lifting theorem at every height: if one level is in a right configuration (`nodeOK` for the
slots `pre`, `s`, `post`; the side children are fine) and the nested slot is a required one, every tower is an `okTree` -/
theorem okTree_tower (σ : Schema) (c s : Nat) (pre post : List Node) (base : Node) (hb : base.slot = s)
    (hbase : okTree σ base = true)
    (hnode : nodeOK (σ.row c) (slotsOf pre ++ s :: slotsOf post) = true)
    (hpre : okKids σ (σ.row c) pre = true) (hpost : okKids σ (σ.row c) post = true)
    (hreq : ((σ.row c).kind s).required = true) :
    ∀ n, okTree σ (tower c s pre post base n) = true
  | 0 => hbase
  | n + 1 => by
    have ih := okTree_tower σ c s pre post base hb hbase hnode hpre hpost hreq n
    have hs := tower_slot c s pre post base hb n
    simp only [tower, okTree, Bool.and_eq_true]
    refine ⟨?_, ?_⟩
    · rw [slotsOf_append]
      simp only [slotsOf, hs]
      exact hnode
    · rw [okKids_append, okKids_cons_req σ _ _ _ (by rw [hs]; exact hreq)]
      simp [hpre, hpost, ih]

/-- number of nodes that have to be visited in a tower: grows by a fixed amount per level -/
theorem reqTags_tower_length (σ : Schema) (c s : Nat) (pre post : List Node) (base : Node) (hb : base.slot = s)
    (hreq : ((σ.row c).kind s).required = true) :
    ∀ n, (reqTags σ (tower c s pre post base n)).length
      = n * (1 + (reqKids σ (σ.row c) pre).length + (reqKids σ (σ.row c) post).length) + (reqTags σ base).length
  | 0 => by simp [tower]
  | n + 1 => by
    have ih := reqTags_tower_length σ c s pre post base hb hreq n
    have hs := tower_slot c s pre post base hb n
    simp only [tower, reqTags]
    rw [reqKids_eq, List.flatMap_append, List.flatMap_cons, ← reqKids_eq, ← reqKids_eq]
    have : reqKid σ (σ.row c) (tower c s pre post base n) = reqTags σ (tower c s pre post base n) := by
      simp only [reqKid, hs, hreq, if_true]
    rw [this]
    simp only [List.length_cons, List.length_append, ih]
    rw [Nat.add_mul]
    omega

/-! ### process history -/

theorem stateAfter_model (σ : Schema) (h : Unit) (pre : List Job) : stateAfter (modelProc σ) h pre = () := rfl

/-- the model walker cannot tell what was walked before: whatever calls were made earlier (looking, aborted at any node of
any tree), a call gives what the specification says about that call alone -/
theorem modelProc_seen (σ : Schema) (h : Unit) (pre : List Job) (j : Job) :
    seenAfter (modelProc σ) h pre j = specSeen σ j := rfl

theorem modelProc_historyFree (σ : Schema) : HistoryFree (modelProc σ) := fun _ _ _ => rfl

/-- a walker with a depth counter in the process state behaves like the specification in a fresh process on every tree
that fits its limit — which is why a test-suite of shallow statements and visitors that never raise cannot tell -/
theorem ctrProc_fresh (σ : Schema) (lim : Nat) (t : Node) (h : height t ≤ lim) :
    (ctrProc σ lim 0 (.look t)).1 = specSeen σ (.look t) := by
  simp only [ctrProc, specSeen, Nat.sub_zero, walkCut_eq σ cbLog t lim h]

theorem ctrProc_fresh_abort (σ : Schema) (lim : Nat) (x : Nat) (t : Node) (h : height t ≤ lim) :
    (ctrProc σ lim 0 (.abortAt x t)).1 = specSeen σ (.abortAt x t) := by
  simp only [ctrProc, specSeen, Nat.sub_zero, walkCut_eq σ cbLog t lim h]

end MindsVerif.Walk
