import MindsVerif.Model.Walk
/-! Induction principles for the walker: a property of `tr σ cb t` follows from a step lemma about
`step` / `viaStep` over an abstract list of child traversals that satisfy the property pointwise. -/
namespace MindsVerif.Walk
set_option linter.unusedSectionVars false
variable {S S' : Type}

/-- pointwise relation between two lists of equal length -/
inductive All2 {α β : Type} (R : α → β → Prop) : List α → List β → Prop
  | nil : All2 R [] []
  | cons {a b as bs} : R a b → All2 R as bs → All2 R (a :: as) (b :: bs)

theorem tr_mk (σ : Schema) (cb : Cb S) (c s t : Nat) (ks : List Node) :
    tr σ cb (.mk c s t ks) = step σ cb c s t ks (items σ cb ks) := by rw [tr]
theorem trVia_mk (σ : Schema) (cb : Cb S) (c s t : Nat) (ks : List Node) :
    trVia σ cb (.mk c s t ks) = viaStep c s t ks (items σ cb ks) := by rw [trVia]
theorem items_nil (σ : Schema) (cb : Cb S) : items σ cb [] = [] := by rw [items]
theorem items_cons (σ : Schema) (cb : Cb S) (k : Node) (ks : List Node) :
    items σ cb (k :: ks) = ⟨k, tr σ cb k, trVia σ cb k⟩ :: items σ cb ks := by rw [items]

section unary
variable (σ : Schema) (cb : Cb S) (M : Node → Tr S → Prop) (V : Node → (Nat → Tr S) → Prop)
variable (hstep : ∀ c s t ks (its : List (Item S)),
    All2 (fun it k => it.node = k ∧ M k it.tr ∧ V k it.via) its ks →
      M (.mk c s t ks) (step σ cb c s t ks its) ∧ V (.mk c s t ks) (viaStep c s t ks its))
include hstep

mutual
theorem tr_ind : ∀ t : Node, M t (tr σ cb t) ∧ V t (trVia σ cb t)
  | .mk c s t ks => by
    rw [tr_mk, trVia_mk]
    exact hstep c s t ks _ (items_ind ks)
theorem items_ind : ∀ ks : List Node,
    All2 (fun it k => it.node = k ∧ M k it.tr ∧ V k it.via) (items σ cb ks) ks
  | [] => by rw [items_nil]; exact .nil
  | k :: ks => by
    rw [items_cons]
    exact .cons ⟨rfl, (tr_ind k).1, (tr_ind k).2⟩ (items_ind ks)
end
end unary

section binary
variable (σ : Schema) (cb : Cb S) (cb' : Cb S')
variable (M : Node → Tr S → Tr S' → Prop) (V : Node → (Nat → Tr S) → (Nat → Tr S') → Prop)
variable (hstep : ∀ c s t ks (its : List (Item S)) (its' : List (Item S')),
    All2 (fun (it : Item S) (it' : Item S') => it.node = it'.node ∧ M it.node it.tr it'.tr ∧ V it.node it.via it'.via)
      its its' →
      M (.mk c s t ks) (step σ cb c s t ks its) (step σ cb' c s t ks its')
      ∧ V (.mk c s t ks) (viaStep c s t ks its) (viaStep c s t ks its'))
include hstep

mutual
theorem tr_ind2 : ∀ t : Node, M t (tr σ cb t) (tr σ cb' t) ∧ V t (trVia σ cb t) (trVia σ cb' t)
  | .mk c s t ks => by
    rw [tr_mk, trVia_mk, tr_mk, trVia_mk]
    exact hstep c s t ks _ _ (items_ind2 ks)
theorem items_ind2 : ∀ ks : List Node,
    All2 (fun (it : Item S) (it' : Item S') => it.node = it'.node ∧ M it.node it.tr it'.tr ∧ V it.node it.via it'.via)
      (items σ cb ks) (items σ cb' ks)
  | [] => by rw [items_nil, items_nil]; exact .nil
  | k :: ks => by
    rw [items_cons, items_cons]
    exact .cons ⟨rfl, (tr_ind2 k).1, (tr_ind2 k).2⟩ (items_ind2 ks)
end
end binary

end MindsVerif.Walk
