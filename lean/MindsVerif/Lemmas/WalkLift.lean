import MindsVerif.Lemmas.WalkInd
/-! Shared lemmas for T13.1 (lifting): list facts about `expectedL` / `combineP`, what `okKids` gives for
the child met by a walk entry, the key step "walk-row order = print order", and `unchanged_all`: a visitor
that never replaces leaves every tree unchanged (no hypothesis on the schema). -/
namespace MindsVerif.Walk
variable {S : Type}

theorem flatMap_filter_nil {α β : Type} (p : α → Bool) (g : α → List β) (l : List α)
    (h : ∀ x ∈ l, p x = false → g x = []) : (l.filter p).flatMap g = l.flatMap g := by
  induction l with
  | nil => rfl
  | cons x xs ih =>
    have ih' := ih (fun y hy => h y (List.mem_cons_of_mem _ hy))
    cases hp : p x with
    | true => simp [hp, ih']
    | false => simp [hp, ih', h x (List.mem_cons_self ..) hp]

theorem expectedL_slots (σ : Schema) : ∀ ks, (expectedL σ ks).map (·.1) = slotsOf ks
  | [] => by simp [expectedL, slotsOf]
  | k :: ks => by simp [expectedL, slotsOf, expectedL_slots σ ks]

theorem filter_absent (σ : Schema) (p : Nat) : ∀ ks, (slotsOf ks).contains p = false →
    (expectedL σ ks).filter (fun f => f.1 = p) = []
  | [], _ => by simp [expectedL]
  | k :: ks, h => by
    simp only [slotsOf, List.contains_cons, Bool.or_eq_false_iff] at h
    have h1 : k.slot ≠ p := by
      intro e; have := h.1; simp [e] at this
    simp [expectedL, h1, filter_absent σ p ks h.2]

theorem mem_slotsOf : ∀ {ks : List Node} {k : Node}, k ∈ ks → k.slot ∈ slotsOf ks
  | _ :: ks, k, h => by
    cases h with
    | head => simp [slotsOf]
    | tail _ hm => simp [slotsOf, mem_slotsOf hm]

theorem hasSlot_eq (its : List (Item S)) (ks : List Node) (R : Item S → Node → Prop)
    (hR : ∀ it k, R it k → it.node = k) (h : All2 R its ks) (s : Nat) :
    hasSlot its s = (slotsOf ks).contains s := by
  induction h with
  | nil => simp [hasSlot, slotsOf]
  | @cons it k its ks hk _ ih =>
    have := hR it k hk
    simp only [hasSlot, List.any_cons, slotsOf, List.contains_cons] at ih ⊢
    rw [ih, this]
    cases (slotsOf ks).contains s <;> simp [BEq.comm (a := s)]

/-- the children of a node in print order, one term per (slot, self?, flags) -/
def Hx (σ : Schema) (ks : List Node) (q : Nat × Bool × Bool × Bool) : List (Option Nat × Bool × Bool) :=
  ((expectedL σ ks).filter (fun f => f.1 = q.1)).flatMap (fun f => f.2 q.2.1 q.2.2.1 q.2.2.2)

theorem Hx_absent (σ : Schema) (ks : List Node) (q : Nat × Bool × Bool × Bool)
    (h : (slotsOf ks).contains q.1 = false) : Hx σ ks q = [] := by
  simp [Hx, filter_absent σ q.1 ks h]

/-- `combineP` only depends on the occupied printed relevant slots -/
theorem combineP_present (σ : Schema) (r : ClassRow) (ks : List Node) :
    combineP r (expectedL σ ks)
      = (r.print.filter (fun p => (r.kind p).relevant && (slotsOf ks).contains p)).flatMap
          (fun p => Hx σ ks (p, (r.kind p).required, r.kind p == .table, r.kind p == .target)) := by
  have e1 : r.print.filter (fun p => (r.kind p).relevant && (slotsOf ks).contains p)
      = (r.print.filter (fun p => (r.kind p).relevant)).filter (fun p => (slotsOf ks).contains p) := by
    rw [List.filter_filter]; apply List.filter_congr; intro p _; exact Bool.and_comm _ _
  rw [e1, flatMap_filter_nil]
  · rfl
  · intro p _ hp; exact Hx_absent σ ks _ hp

/-- the key step: the walk-row order of the occupied slots is the print order of the occupied relevant slots -/
theorem row_eq_print (σ : Schema) (r : ClassRow) (ks : List Node) (h : nodeOK r (slotsOf ks) = true) :
    r.walk.flatMap (fun e => Hx σ ks (e.slot, e.via.isNone, e.isTable, e.isTarget))
      = combineP r (expectedL σ ks) := by
  simp only [nodeOK, Bool.and_eq_true] at h
  obtain ⟨⟨⟨_, heq⟩, _⟩, _⟩ := h
  have heq' := eq_of_beq heq
  rw [combineP_present]
  calc r.walk.flatMap (fun e => Hx σ ks (e.slot, e.via.isNone, e.isTable, e.isTarget))
      = (r.walk.filter (fun e => (slotsOf ks).contains e.slot)).flatMap
          (fun e => Hx σ ks (e.slot, e.via.isNone, e.isTable, e.isTarget)) := by
        rw [flatMap_filter_nil]; intro e _ he; exact Hx_absent σ ks _ he
    _ = ((r.walk.filter (fun e => (slotsOf ks).contains e.slot)).map
          (fun e => (e.slot, e.via.isNone, e.isTable, e.isTarget))).flatMap (Hx σ ks) := by
        rw [List.flatMap_map]
    _ = ((r.print.filter (fun p => (r.kind p).relevant && (slotsOf ks).contains p)).map
          (fun p => (p, (r.kind p).required, r.kind p == .table, r.kind p == .target))).flatMap (Hx σ ks) := by
        rw [heq']
    _ = _ := by rw [List.flatMap_map]

/-! ### what `okTree` gives for the child met by an entry -/

/-- the condition on a child `k` in the slot of the entry `e` -/
def KidQ (σ : Schema) (e : Entry) (k : Node) : Prop :=
  match e.via with
  | none => okTree σ k = true
  | some _ => contCond (σ.row k.cls) e (slotsOf k.kids) = true ∧ okKids σ (σ.row k.cls) k.kids = true

theorem okKids_mem (σ : Schema) (row : ClassRow) : ∀ (ks : List Node), okKids σ row ks = true → ∀ k ∈ ks,
    ((row.kind k.slot).required = true → okTree σ k = true) ∧
    ((row.kind k.slot).required = false → row.kind k.slot = .container →
      (∀ e ∈ row.walk, e.slot = k.slot → contCond (σ.row k.cls) e (slotsOf k.kids) = true)
      ∧ okKids σ (σ.row k.cls) k.kids = true)
  | [], _, k, hk => by cases hk
  | .mk c s t gs :: ks, h, k, hk => by
    simp only [okKids, Bool.and_eq_true] at h
    cases hk with
    | head =>
      simp only [Node.slot, Node.cls, Node.kids]
      refine ⟨?_, ?_⟩
      · intro hr; have := h.1; rw [if_pos hr] at this; exact this
      · intro hr hc
        have := h.1
        rw [if_neg (by simp [hr]), if_pos (by simp [hc])] at this
        simp only [Bool.and_eq_true] at this
        refine ⟨?_, this.2⟩
        intro e he hs
        have := (List.all_eq_true.mp this.1) e he
        simpa [hs] using this
    | tail _ hm => exact okKids_mem σ row ks h.2 k hm

theorem kidQ_of_ok (σ : Schema) (row : ClassRow) (ks : List Node) (hn : nodeOK row (slotsOf ks) = true)
    (hk : okKids σ row ks = true) (e : Entry) (he : e ∈ row.walk) :
    ∀ k ∈ ks, k.slot = e.slot → KidQ σ e k := by
  intro k hkm hs
  simp only [nodeOK, Bool.and_eq_true] at hn
  obtain ⟨⟨⟨_, heq⟩, _⟩, _⟩ := hn
  have heq' := eq_of_beq heq
  have hpres : (slotsOf ks).contains e.slot = true := by
    have := mem_slotsOf hkm; rw [hs] at this; simpa using this
  have hmem : (e.slot, e.via.isNone, e.isTable, e.isTarget) ∈
      (row.walk.filter (fun e => (slotsOf ks).contains e.slot)).map (fun e => (e.slot, e.via.isNone, e.isTable, e.isTarget)) :=
    List.mem_map.mpr ⟨e, List.mem_filter.mpr ⟨he, hpres⟩, rfl⟩
  rw [heq'] at hmem
  obtain ⟨p, hp, hpe⟩ := List.mem_map.mp hmem
  have hp2 := (List.mem_filter.mp hp).2
  simp only [Bool.and_eq_true] at hp2
  have hps : p = e.slot := by injection hpe
  have hreq : (row.kind e.slot).required = e.via.isNone := by
    injection hpe with _ h2; injection h2 with h2 _; rw [← hps]; exact h2
  have hrel : (row.kind e.slot).relevant = true := by rw [← hps]; exact hp2.1
  have km := okKids_mem σ row ks hk k hkm
  rw [hs] at km
  unfold KidQ
  cases hv : e.via with
  | none =>
    simp only
    exact km.1 (by rw [hreq, hv]; rfl)
  | some q =>
    simp only
    have hr : (row.kind e.slot).required = false := by rw [hreq, hv]; rfl
    have hc : row.kind e.slot = .container := by
      simp only [Kind.relevant, hr, Bool.false_or] at hrel
      exact eq_of_beq hrel
    have := km.2 hr hc
    exact ⟨this.1 e he rfl, this.2⟩

theorem KidQ.tail {σ : Schema} {e : Entry} {k : Node} {ks : List Node}
    (h : ∀ k' ∈ k :: ks, k'.slot = e.slot → KidQ σ e k') : ∀ k' ∈ ks, k'.slot = e.slot → KidQ σ e k' :=
  fun k' hk' => h k' (List.mem_cons_of_mem _ hk')

/-- the entries of a row never pass `None` for an empty slot -/
def cleanFor (present : List Nat) (e : Entry) : Bool := !e.noneVisit || present.contains e.slot

theorem nodeOK_clean (r : ClassRow) (present : List Nat) (h : nodeOK r present = true) :
    r.walk.all (cleanFor present) = true := by
  simp only [nodeOK, Bool.and_eq_true] at h
  obtain ⟨⟨⟨h1, _⟩, _⟩, _⟩ := h
  rw [List.all_eq_true] at h1 ⊢
  intro e he
  have := h1 e he
  simp only [Bool.and_eq_true] at this
  exact this.1

theorem noNone_cond (its : List (Item S)) (ks : List Node) (R : Item S → Node → Prop)
    (hR : ∀ it k, R it k → it.node = k) (h : All2 R its ks) (e : Entry) (hc : cleanFor (slotsOf ks) e = true) :
    (e.noneVisit && !hasSlot its e.slot) = false := by
  rw [hasSlot_eq its ks R hR h]
  simp only [cleanFor] at hc
  cases hnv : e.noneVisit <;> simp [hnv] at hc ⊢
  exact hc

/-! ### a visitor that never replaces leaves the tree unchanged -/

def Unch (k : Node) (f : Tr S) : Prop := ∀ a b pq st, (f a b pq st).repl = none ∧ (f a b pq st).self = k
def UnchVia (k : Node) (g : Nat → Tr S) : Prop := ∀ q a b pq st, (g q a b pq st).repl = none ∧ (g q a b pq st).self = k

theorem runEntry_unch (e : Entry) (pq' : Nat) :
    ∀ (its : List (Item S)) ks, All2 (fun it k => it.node = k ∧ Unch k it.tr ∧ UnchVia k it.via) its ks → ∀ st,
      (runEntry e pq' its ks st).1 = ks := by
  intro its ks h
  induction h with
  | nil => intro st; simp [runEntry]
  | @cons it k its ks hk _ ih =>
    intro st
    obtain ⟨hn, ht, hv⟩ := hk
    simp only [runEntry]
    split
    · cases hvia : e.via with
      | none =>
        have g := ht e.isTable e.isTarget pq' st
        simp [applyRepl, g.1, g.2, ih]
      | some q =>
        have g := hv q e.isTable e.isTarget pq' st
        simp [applyRepl, g.1, g.2, ih]
    · simp [ih]

theorem viaRun_unch (q : Nat) (a b : Bool) (pq : Nat) :
    ∀ (its : List (Item S)) gs, All2 (fun it k => it.node = k ∧ Unch k it.tr ∧ UnchVia k it.via) its gs → ∀ st,
      (viaRun q a b pq its gs st).1 = none ∧ (viaRun q a b pq its gs st).2.1 = gs := by
  intro its gs h
  induction h with
  | nil => intro st; simp [viaRun]
  | @cons it k its gs hk _ ih =>
    intro st
    obtain ⟨hn, ht, _⟩ := hk
    simp only [viaRun]
    split
    · have g := ht a b pq st
      simp [g.1, g.2]
    · simp [(ih st).1, (ih st).2]

theorem runRow_unch (cb : Cb S) (hcb : ∀ st n a b pq, (cb st n a b pq).1 = none) (c pq : Nat)
    (its : List (Item S)) (ks : List Node)
    (h : All2 (fun it k => it.node = k ∧ Unch k it.tr ∧ UnchVia k it.via) its ks) :
    ∀ (es : List Entry) st, (runRow cb c pq es its ks st).1 = ks := by
  intro es
  induction es with
  | nil => intro st; simp [runRow]
  | cons e es ih =>
    intro st
    simp only [runRow]
    split
    · have := hcb st none e.isTable e.isTarget (e.pqFor c pq)
      cases hr : cb st none e.isTable e.isTarget (e.pqFor c pq) with
      | mk r st' =>
        rw [hr] at this
        simp only at this
        subst this
        exact ih _
    · rw [runEntry_unch e _ its ks h st]; exact ih _

/-- for every schema and tree: a visitor that never replaces gets `None` back and leaves the tree as it is -/
theorem unchanged_all (σ : Schema) (cb : Cb S) (hcb : ∀ st n a b pq, (cb st n a b pq).1 = none) :
    ∀ t, Unch t (tr σ cb t) := by
  intro t
  refine (tr_ind σ cb (fun k f => Unch k f) (fun k g => UnchVia k g) ?_ t).1
  intro c s t ks its h
  refine ⟨?_, ?_⟩
  · intro a b pq st
    simp only [step, hcb]
    exact ⟨trivial, by rw [runRow_unch cb hcb c pq its ks h]⟩
  · intro q a b pq st
    simp only [viaStep]
    have := viaRun_unch q a b pq its ks h st
    exact ⟨this.1, by rw [this.2]⟩

end MindsVerif.Walk
