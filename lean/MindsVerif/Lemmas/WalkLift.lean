import MindsVerif.Lemmas.WalkInd
/-! T13.1 (lifting): for a visitor that never replaces, on every tree whose nodes are in a class /
slot configuration with a right branch (`okTree`), the calls of the visitor are exactly the textual
preorder of the required nodes, flagged by the slot kinds, and the tree is unchanged. -/
namespace MindsVerif.Walk
variable {S : Type}

theorem flatMap_filter_nil {α β : Type} (p : α → Bool) (g : α → List β) (l : List α)
    (h : ∀ x ∈ l, p x = false → g x = []) : (l.filter p).flatMap g = l.flatMap g := by
  induction l with
  | nil => rfl
  | cons x xs ih =>
    have ih' := ih (fun y hy => h y (List.mem_cons_of_mem _ hy))
    cases hp : p x with
    | true => simp [hp, ih']
    | false => simp [hp, ih', h x (List.mem_cons_self ..) hp]

theorem expectedL_slots (σ : Schema) : ∀ ks, (expectedL σ ks).map (·.1) = slotsOf ks
  | [] => by simp [expectedL, slotsOf]
  | k :: ks => by simp [expectedL, slotsOf, expectedL_slots σ ks]

theorem filter_absent (σ : Schema) (p : Nat) : ∀ ks, (slotsOf ks).contains p = false →
    (expectedL σ ks).filter (fun f => f.1 = p) = []
  | [], _ => by simp [expectedL]
  | k :: ks, h => by
    simp only [slotsOf, List.contains_cons, Bool.or_eq_false_iff] at h
    have h1 : k.slot ≠ p := by
      intro e; have := h.1; simp [e] at this
    simp [expectedL, h1, filter_absent σ p ks h.2]

/-- what T13.1 says about one traversal -/
def Good (σ : Schema) (k : Node) (f : Tr S) : Prop :=
  okTree σ k = true → ∀ a b pq st, (f a b pq st).repl = none ∧ (f a b pq st).self = k
    ∧ (f a b pq st).log.map Visit.key = expected σ k a b

theorem runEntry_good (σ : Schema) (e : Entry) (pq' : Nat) :
    ∀ (its : List (Item S)) ks, All2 (fun it k => it.node = k ∧ Good σ k it.tr ∧ True) its ks →
      okTreeL σ ks = true → (e.via = none ∨ ∀ k ∈ ks, k.slot ≠ e.slot) → ∀ st,
      (runEntry e pq' its ks st).1 = ks ∧
      (runEntry e pq' its ks st).2.2.map Visit.key
        = ((expectedL σ ks).filter (fun f => f.1 = e.slot)).flatMap (fun f => f.2 e.isTable e.isTarget) := by
  intro its ks h
  induction h with
  | nil => intro _ _ st; simp [runEntry, expectedL]
  | @cons it k its ks hk _ ih =>
    intro hok hvia st
    simp only [okTreeL, Bool.and_eq_true] at hok
    obtain ⟨hn, hg, _⟩ := hk
    have hvia' : e.via = none ∨ ∀ k' ∈ ks, k'.slot ≠ e.slot := by
      cases hvia with
      | inl h => exact .inl h
      | inr h => exact .inr (fun k' hk' => h k' (List.mem_cons_of_mem _ hk'))
    by_cases hs : it.node.slot = e.slot
    · have hs' : k.slot = e.slot := hn ▸ hs
      have he : e.via = none := by
        cases hvia with
        | inl h => exact h
        | inr h => exact absurd hs' (h k (List.mem_cons_self ..))
      have g := hg hok.1 e.isTable e.isTarget pq' st
      have r := ih hok.2 hvia' (it.tr e.isTable e.isTarget pq' st).st
      simp only [runEntry, hs, if_true, he]
      refine ⟨?_, ?_⟩
      · simp [applyRepl, g.1, g.2.1, r.1]
      · simp [expectedL, hs', g.2.2, r.2]
    · have r := ih hok.2 hvia' st
      have hs' : k.slot ≠ e.slot := hn ▸ hs
      simp only [runEntry, hs, if_false]
      refine ⟨?_, ?_⟩
      · simp [r.1]
      · simp [expectedL, hs', r.2]

theorem hasSlot_eq (its : List (Item S)) (ks : List Node) (R : Item S → Node → Prop)
    (hR : ∀ it k, R it k → it.node = k) (h : All2 R its ks) (s : Nat) :
    hasSlot its s = (slotsOf ks).contains s := by
  induction h with
  | nil => simp [hasSlot, slotsOf]
  | @cons it k its ks hk _ ih =>
    have := hR it k hk
    simp only [hasSlot, List.any_cons, slotsOf, List.contains_cons] at ih ⊢
    rw [ih, this]
    cases (slotsOf ks).contains s <;> simp [BEq.comm (a := s)]

/-- the entries of a row are plain traversals and never pass `None` for an empty slot -/
def cleanFor (present : List Nat) (e : Entry) : Bool :=
  (!present.contains e.slot || e.via.isNone) && (!e.noneVisit || present.contains e.slot)

theorem mem_slotsOf : ∀ {ks : List Node} {k : Node}, k ∈ ks → k.slot ∈ slotsOf ks
  | _ :: ks, k, h => by
    cases h with
    | head => simp [slotsOf]
    | tail _ hm => simp [slotsOf, mem_slotsOf hm]

theorem via_of_clean (ks : List Node) (e : Entry) (hv : (!(slotsOf ks).contains e.slot || e.via.isNone) = true) :
    e.via = none ∨ ∀ k ∈ ks, k.slot ≠ e.slot := by
  cases hc : (slotsOf ks).contains e.slot with
  | true =>
    left
    rw [hc] at hv
    cases hvia : e.via <;> simp [hvia] at hv ⊢
  | false =>
    right
    intro k hk hs
    have := mem_slotsOf hk
    rw [hs] at this
    have : (slotsOf ks).contains e.slot = true := by simpa using this
    rw [hc] at this; cases this

theorem runRow_good (σ : Schema) (cb : Cb S) (c pq : Nat)
    (its : List (Item S)) (ks : List Node)
    (h : All2 (fun it k => it.node = k ∧ Good σ k it.tr ∧ True) its ks) (hok : okTreeL σ ks = true) :
    ∀ (es : List Entry), es.all (cleanFor (slotsOf ks)) = true → ∀ st,
      (runRow cb c pq es its ks st).1 = ks ∧
      (runRow cb c pq es its ks st).2.2.map Visit.key
        = es.flatMap (fun e => ((expectedL σ ks).filter (fun f => f.1 = e.slot)).flatMap
            (fun f => f.2 e.isTable e.isTarget)) := by
  intro es
  induction es with
  | nil => intro _ st; simp [runRow]
  | cons e es ih =>
    intro hc st
    simp only [List.all_cons, Bool.and_eq_true, cleanFor] at hc
    obtain ⟨⟨hv, hn⟩, hrest⟩ := hc
    have he := via_of_clean ks e hv
    have hcond : (e.noneVisit && !hasSlot its e.slot) = false := by
      rw [hasSlot_eq its ks _ (fun _ _ hh => hh.1) h]
      cases hnv : e.noneVisit <;> simp [hnv] at hn ⊢
      exact hn
    simp only [runRow, hcond]
    have r1 := runEntry_good σ e (e.pqFor c pq) its ks h hok he st
    simp only [Bool.false_eq_true, if_false]
    rw [r1.1]
    have r2 := ih hrest (runEntry e (e.pqFor c pq) its ks st).2.1
    refine ⟨r2.1, ?_⟩
    simp [r1.2, r2.2]

theorem nodeOK_clean (r : ClassRow) (present : List Nat) (h : nodeOK r present = true) :
    r.walk.all (cleanFor present) = true := by
  simp only [nodeOK, Bool.and_eq_true] at h
  obtain ⟨⟨⟨h1, _⟩, _⟩, _⟩ := h
  rw [List.all_eq_true] at h1 ⊢
  intro e he
  have := h1 e he
  simp only [Bool.and_eq_true, Bool.or_eq_true, Bool.not_eq_true'] at this
  simp only [cleanFor, Bool.and_eq_true, Bool.or_eq_true, Bool.not_eq_true']
  refine ⟨?_, this.1⟩
  cases this.2 with
  | inl h => exact .inl h
  | inr h => exact .inr h.1

/-- the key step: the walk-row order of the occupied slots is the print order of the occupied required slots -/
theorem row_eq_print (σ : Schema) (r : ClassRow) (ks : List Node) (h : nodeOK r (slotsOf ks) = true) :
    r.walk.flatMap (fun e => ((expectedL σ ks).filter (fun f => f.1 = e.slot)).flatMap
        (fun f => f.2 e.isTable e.isTarget))
      = combineP r (expectedL σ ks) := by
  let H : Nat × Bool × Bool → List (Option Nat × Bool × Bool) := fun q =>
    ((expectedL σ ks).filter (fun f => f.1 = q.1)).flatMap (fun f => f.2 q.2.1 q.2.2)
  have hH : ∀ q, (slotsOf ks).contains q.1 = false → H q = [] := by
    intro q hq; simp [H, filter_absent σ q.1 ks hq]
  simp only [nodeOK, Bool.and_eq_true] at h
  obtain ⟨⟨⟨_, heq⟩, _⟩, _⟩ := h
  have heq' := eq_of_beq heq
  calc r.walk.flatMap (fun e => H (e.slot, e.isTable, e.isTarget))
      = (r.walk.filter (fun e => (slotsOf ks).contains e.slot)).flatMap (fun e => H (e.slot, e.isTable, e.isTarget)) := by
        rw [flatMap_filter_nil]; intro e _ he; exact hH _ he
    _ = ((r.walk.filter (fun e => (slotsOf ks).contains e.slot)).map (fun e => (e.slot, e.isTable, e.isTarget))).flatMap H := by
        rw [List.flatMap_map]
    _ = ((r.print.filter (fun p => (r.kind p).required && (slotsOf ks).contains p)).map
          (fun p => (p, r.kind p == .table, r.kind p == .target))).flatMap H := by rw [heq']
    _ = (r.print.filter (fun p => (r.kind p).required && (slotsOf ks).contains p)).flatMap
          (fun p => H (p, r.kind p == .table, r.kind p == .target)) := by rw [List.flatMap_map]
    _ = ((r.print.filter (fun p => (r.kind p).required)).filter (fun p => (slotsOf ks).contains p)).flatMap
          (fun p => H (p, r.kind p == .table, r.kind p == .target)) := by rw [List.filter_filter]; simp [Bool.and_comm]
    _ = (r.print.filter (fun p => (r.kind p).required)).flatMap
          (fun p => H (p, r.kind p == .table, r.kind p == .target)) := by
        rw [flatMap_filter_nil]; intro p _ hp; exact hH _ hp
    _ = combineP r (expectedL σ ks) := rfl

/-- T13.1 for every traversal -/
theorem good_all (σ : Schema) (cb : Cb S) (hcb : ∀ st n a b pq, (cb st n a b pq).1 = none) :
    ∀ t, Good σ t (tr σ cb t) := by
  intro t
  refine (tr_ind σ cb (Good σ) (fun _ _ => True) ?_ t).1
  intro c s t ks its h
  refine ⟨?_, trivial⟩
  intro hok a b pq st
  simp only [okTree, Bool.and_eq_true] at hok
  have hrow := runRow_good σ cb c pq its ks h hok.2 (σ.row c).walk (nodeOK_clean _ _ hok.1)
      (cb st (some (.mk c s t ks)) a b pq).2
  simp only [step, hcb]
  refine ⟨trivial, ?_, ?_⟩
  · simp [hrow.1]
  · simp only [List.map_cons, hrow.2, row_eq_print σ _ ks hok.1, expected, Visit.key, Visit.tag, Option.map, Node.tag]

end MindsVerif.Walk
