import MindsVerif.Lemmas.WalkLift
import MindsVerif.Lemmas.WalkSame
/-! T13.1 (order, coverage, flags) for visitors that replace only *walk leaves* (nodes of a class whose
branch traverses nothing, e.g. `Parameter`; in particular for visitors that never replace): on an `okTree`
the calls are the textual preorder of the required nodes, looking through container slots. -/
namespace MindsVerif.Walk
variable {S : Type}

def GoodLog (σ : Schema) (k : Node) (f : Tr S) : Prop :=
  okTree σ k = true → ∀ a b pq st, (f a b pq st).log.map Visit.key = expectedX σ k true a b

/-- a container occupant looked through by an entry `e` -/
def GoodVia (σ : Schema) (k : Node) (g : Nat → Tr S) : Prop :=
  ∀ (e : Entry) q, e.via = some q → contCond (σ.row k.cls) e (slotsOf k.kids) = true →
    okKids σ (σ.row k.cls) k.kids = true →
    ∀ pq st, (g q e.isTable e.isTarget pq st).log.map Visit.key = expectedX σ k false e.isTable e.isTarget

abbrev GL (σ : Schema) (it : Item S) (k : Node) : Prop := it.node = k ∧ GoodLog σ k it.tr ∧ GoodVia σ k it.via

theorem runEntry_goodlog (σ : Schema) (e : Entry) (pq' : Nat) :
    ∀ (its : List (Item S)) ks, All2 (GL σ) its ks →
      (∀ k ∈ ks, k.slot = e.slot → KidQ σ e k) → ∀ cur st, cur.length = ks.length →
      (runEntry e pq' its cur st).2.2.map Visit.key = Hx σ ks (e.slot, e.via.isNone, e.isTable, e.isTarget) := by
  intro its ks h
  induction h with
  | nil => intro _ cur st _; cases cur <;> simp [runEntry, Hx, expectedL]
  | @cons it k its ks hk _ ih =>
    intro hQ cur st hl
    cases cur with
    | nil => simp at hl
    | cons c cs =>
      have hl' : cs.length = ks.length := by simpa using hl
      obtain ⟨hn, hg, hv⟩ := hk
      by_cases hs : it.node.slot = e.slot
      · have hs' : k.slot = e.slot := hn ▸ hs
        have hq := hQ k (List.mem_cons_self ..) hs'
        unfold KidQ at hq
        cases hvia : e.via with
        | none =>
          rw [hvia] at hq
          have g := hg hq e.isTable e.isTarget pq' st
          have r := ih (KidQ.tail hQ) cs (it.tr e.isTable e.isTarget pq' st).st hl'
          simp only [runEntry, hs, if_true, hvia]
          simp only [Hx, hvia] at r ⊢
          simp [expectedL, hs', g, r]
        | some q =>
          rw [hvia] at hq
          have g := hv e q hvia hq.1 hq.2 pq' st
          have r := ih (KidQ.tail hQ) cs (it.via q e.isTable e.isTarget pq' st).st hl'
          simp only [runEntry, hs, if_true, hvia]
          simp only [Hx, hvia] at r ⊢
          simp [expectedL, hs', g, r]
      · have r := ih (KidQ.tail hQ) cs st hl'
        have hs' : k.slot ≠ e.slot := hn ▸ hs
        simp only [runEntry, hs, if_false]
        simp only [Hx] at r ⊢
        simp [expectedL, hs', r]

theorem runRow_goodlog (σ : Schema) (cb : Cb S) (c pq : Nat)
    (its : List (Item S)) (ks : List Node) (h : All2 (GL σ) its ks) :
    ∀ (es : List Entry), es.all (cleanFor (slotsOf ks)) = true →
      (∀ e ∈ es, ∀ k ∈ ks, k.slot = e.slot → KidQ σ e k) → ∀ cur st, cur.length = ks.length →
      (runRow cb c pq es its cur st).2.2.map Visit.key
        = es.flatMap (fun e => Hx σ ks (e.slot, e.via.isNone, e.isTable, e.isTarget)) := by
  intro es
  induction es with
  | nil => intro _ _ cur st _; simp [runRow]
  | cons e es ih =>
    intro hc hQ cur st hl
    simp only [List.all_cons, Bool.and_eq_true] at hc
    have hcond := noNone_cond its ks _ (fun _ _ hh => hh.1) h e hc.1
    simp only [runRow, hcond]
    have r1 := runEntry_goodlog σ e (e.pqFor c pq) its ks h (hQ e (List.mem_cons_self ..)) cur st hl
    simp only [Bool.false_eq_true, if_false]
    have r2 := ih hc.2 (fun e' he' => hQ e' (List.mem_cons_of_mem _ he'))
      (runEntry e (e.pqFor c pq) its cur st).1 (runEntry e (e.pqFor c pq) its cur st).2.1
      (by rw [runEntry_length, hl])
    simp [r1, r2]

theorem filter_eq_nil_absent (l : List Nat) (q : Nat) (h : l.filter (· == q) = []) : l.contains q = false := by
  induction l with
  | nil => rfl
  | cons x xs ih =>
    simp only [List.filter_cons] at h
    by_cases hx : (x == q) = true
    · simp [hx] at h
    · simp only [hx] at h
      have hx' : (x == q) = false := by simpa using hx
      have := ih h
      simp only [List.contains_cons, this, Bool.or_false]
      rw [BEq.comm]; exact hx'

/-- looking through a container: the log is that of the only child in slot `q` -/
theorem viaRun_goodlog (σ : Schema) (q : Nat) (a b : Bool) (pq : Nat) :
    ∀ (its : List (Item S)) gs, All2 (GL σ) its gs → (slotsOf gs).filter (· == q) = [q] →
      (∀ g ∈ gs, g.slot = q → okTree σ g = true) → ∀ st,
      (viaRun q a b pq its gs st).2.2.2.map Visit.key = Hx σ gs (q, true, a, b) := by
  intro its gs h
  induction h with
  | nil => intro hc; simp [slotsOf] at hc
  | @cons it k its gs hk _ ih =>
    intro hc hok st
    obtain ⟨hn, hg, _⟩ := hk
    simp only [slotsOf, List.filter_cons] at hc
    by_cases hs : it.node.slot = q
    · have hs' : k.slot = q := hn ▸ hs
      have hrest : (slotsOf gs).filter (· == q) = [] := by simpa [hs'] using hc
      have habs := filter_absent σ q gs (filter_eq_nil_absent _ _ hrest)
      have g := hg (hok k (List.mem_cons_self ..) hs') a b pq st
      simp only [viaRun, hs, if_true]
      simp [Hx, expectedL, hs', g, habs]
    · have hs' : k.slot ≠ q := hn ▸ hs
      have hc' : (slotsOf gs).filter (· == q) = [q] := by simpa [hs'] using hc
      have r := ih hc' (fun g hg' => hok g (List.mem_cons_of_mem _ hg')) st
      simp only [viaRun, hs, if_false]
      simp only [Hx] at r ⊢
      simp [expectedL, hs', r]

/-- the visitor replaces only nodes whose class has an empty branch -/
def LeafOnly (σ : Schema) (cb : Cb S) : Prop :=
  ∀ st n a b pq x, (cb st n a b pq).1 = some x → ∃ m, n = some m ∧ (σ.row m.cls).walk = []

theorem goodlog_all (σ : Schema) (cb : Cb S) (hcb : LeafOnly σ cb) : ∀ t, GoodLog σ t (tr σ cb t) := by
  intro t
  refine (tr_ind σ cb (GoodLog σ) (GoodVia σ) ?_ t).1
  intro c s t ks its h
  refine ⟨?_, ?_⟩
  · intro hok a b pq st
    simp only [okTree, Bool.and_eq_true] at hok
    simp only [step]
    cases hr : (cb st (some (.mk c s t ks)) a b pq).1 with
    | some x =>
      obtain ⟨m, hm, hw⟩ := hcb _ _ _ _ _ _ hr
      have hm' : m = .mk c s t ks := by injection hm with hm; exact hm.symm
      subst hm'
      have hp := row_eq_print σ (σ.row c) ks hok.1
      simp only [Node.cls] at hw
      rw [hw] at hp
      simp only [List.flatMap_nil] at hp
      simp [expectedX, ← hp, Visit.key, Visit.tag, Node.tag]
    | none =>
      have hrow := runRow_goodlog σ cb c pq its ks h (σ.row c).walk (nodeOK_clean _ _ hok.1)
        (fun e he => kidQ_of_ok σ (σ.row c) ks hok.1 hok.2 e he) ks
        (cb st (some (.mk c s t ks)) a b pq).2 rfl
      simp [expectedX, hrow, row_eq_print σ _ ks hok.1, Visit.key, Visit.tag, Node.tag]
  · intro e q hvia hcc hkk pq st
    simp only [Node.cls, Node.kids] at hcc hkk
    simp only [contCond, hvia, Bool.and_eq_true] at hcc
    obtain ⟨⟨⟨⟨⟨c1, c2⟩, c3⟩, c4⟩, c5⟩, c6⟩ := hcc
    have hq : (slotsOf ks).filter (· == q) = [q] := eq_of_beq c5
    have hokq : ∀ g ∈ ks, g.slot = q → okTree σ g = true := by
      intro g hg hs
      exact (okKids_mem σ (σ.row c) ks hkk g hg).1 (by rw [hs]; exact c2)
    have hv := viaRun_goodlog σ q e.isTable e.isTarget pq its ks h hq hokq st
    simp only [viaStep, hv, expectedX, Bool.false_eq_true, if_false, List.nil_append]
    rw [combineP_present, eq_of_beq c1]
    simp only [List.flatMap_cons, List.flatMap_nil, List.append_nil]
    rw [c2, eq_of_beq c3, eq_of_beq c4]

end MindsVerif.Walk
