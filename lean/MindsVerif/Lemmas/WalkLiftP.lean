import MindsVerif.Lemmas.WalkLift
import MindsVerif.Lemmas.WalkSame
/-! T13.1 for visitors that replace only *walk leaves* (nodes of a class whose branch traverses
nothing, e.g. `Parameter`): the calls are still the textual preorder (used by C12). -/
namespace MindsVerif.Walk
variable {S : Type}

def GoodLog (σ : Schema) (k : Node) (f : Tr S) : Prop :=
  okTree σ k = true → ∀ a b pq st, (f a b pq st).log.map Visit.key = expected σ k a b

theorem runEntry_goodlog (σ : Schema) (e : Entry) (pq' : Nat) :
    ∀ (its : List (Item S)) ks, All2 (fun it k => it.node = k ∧ GoodLog σ k it.tr ∧ True) its ks →
      okTreeL σ ks = true → (e.via = none ∨ ∀ k ∈ ks, k.slot ≠ e.slot) → ∀ cur st, cur.length = ks.length →
      (runEntry e pq' its cur st).2.2.map Visit.key
        = ((expectedL σ ks).filter (fun f => f.1 = e.slot)).flatMap (fun f => f.2 e.isTable e.isTarget) := by
  intro its ks h
  induction h with
  | nil => intro _ _ cur st _; cases cur <;> simp [runEntry, expectedL]
  | @cons it k its ks hk _ ih =>
    intro hok hvia cur st hl
    have hvia' : e.via = none ∨ ∀ k' ∈ ks, k'.slot ≠ e.slot := by
      cases hvia with
      | inl h => exact .inl h
      | inr h => exact .inr (fun k' hk' => h k' (List.mem_cons_of_mem _ hk'))
    cases cur with
    | nil => simp at hl
    | cons c cs =>
      have hl' : cs.length = ks.length := by simpa using hl
      simp only [okTreeL, Bool.and_eq_true] at hok
      obtain ⟨hn, hg, _⟩ := hk
      by_cases hs : it.node.slot = e.slot
      · have hs' : k.slot = e.slot := hn ▸ hs
        have he : e.via = none := by
          cases hvia with
          | inl h => exact h
          | inr h => exact absurd hs' (h k (List.mem_cons_self ..))
        have g := hg hok.1 e.isTable e.isTarget pq' st
        have r := ih hok.2 hvia' cs (it.tr e.isTable e.isTarget pq' st).st hl'
        simp only [runEntry, hs, if_true, he]
        simp [expectedL, hs', g, r]
      · have r := ih hok.2 hvia' cs st hl'
        have hs' : k.slot ≠ e.slot := hn ▸ hs
        simp only [runEntry, hs, if_false]
        simp [expectedL, hs', r]

theorem runRow_goodlog (σ : Schema) (cb : Cb S) (c pq : Nat)
    (its : List (Item S)) (ks : List Node)
    (h : All2 (fun it k => it.node = k ∧ GoodLog σ k it.tr ∧ True) its ks) (hok : okTreeL σ ks = true) :
    ∀ (es : List Entry), es.all (cleanFor (slotsOf ks)) = true → ∀ cur st, cur.length = ks.length →
      (runRow cb c pq es its cur st).2.2.map Visit.key
        = es.flatMap (fun e => ((expectedL σ ks).filter (fun f => f.1 = e.slot)).flatMap
            (fun f => f.2 e.isTable e.isTarget)) := by
  intro es
  induction es with
  | nil => intro _ cur st _; simp [runRow]
  | cons e es ih =>
    intro hc cur st hl
    simp only [List.all_cons, Bool.and_eq_true, cleanFor] at hc
    obtain ⟨⟨hv, hn⟩, hrest⟩ := hc
    have he := via_of_clean ks e hv
    have hcond : (e.noneVisit && !hasSlot its e.slot) = false := by
      rw [hasSlot_eq its ks _ (fun _ _ hh => hh.1) h]
      cases hnv : e.noneVisit <;> simp [hnv] at hn ⊢
      exact hn
    simp only [runRow, hcond]
    have r1 := runEntry_goodlog σ e (e.pqFor c pq) its ks h hok he cur st hl
    simp only [Bool.false_eq_true, if_false]
    have r2 := ih hrest (runEntry e (e.pqFor c pq) its cur st).1 (runEntry e (e.pqFor c pq) its cur st).2.1
      (by rw [runEntry_length, hl])
    simp [r1, r2]

/-- the visitor replaces only nodes whose class has an empty branch -/
def LeafOnly (σ : Schema) (cb : Cb S) : Prop :=
  ∀ st n a b pq x, (cb st n a b pq).1 = some x → ∃ m, n = some m ∧ (σ.row m.cls).walk = []

theorem goodlog_all (σ : Schema) (cb : Cb S) (hcb : LeafOnly σ cb) : ∀ t, GoodLog σ t (tr σ cb t) := by
  intro t
  refine (tr_ind σ cb (GoodLog σ) (fun _ _ => True) ?_ t).1
  intro c s t ks its h
  refine ⟨?_, trivial⟩
  intro hok a b pq st
  simp only [okTree, Bool.and_eq_true] at hok
  simp only [step]
  cases hr : (cb st (some (.mk c s t ks)) a b pq).1 with
  | some x =>
    obtain ⟨m, hm, hw⟩ := hcb _ _ _ _ _ _ hr
    have hm' : m = .mk c s t ks := by injection hm with hm; exact hm.symm
    subst hm'
    have hp := row_eq_print σ (σ.row c) ks hok.1
    simp only [Node.cls] at hw
    rw [hw] at hp
    simp only [List.map_cons, List.map_nil, expected, Visit.key, Visit.tag, Option.map, Node.tag]
    simp only [List.flatMap_nil] at hp
    rw [← hp]
  | none =>
    have hrow := runRow_goodlog σ cb c pq its ks h hok.2 (σ.row c).walk (nodeOK_clean _ _ hok.1) ks
      (cb st (some (.mk c s t ks)) a b pq).2 rfl
    simp only [List.map_cons, hrow, row_eq_print σ _ ks hok.1, expected, Visit.key, Visit.tag, Option.map, Node.tag]

end MindsVerif.Walk
