import MindsVerif.Lemmas.WalkTrace
/-! If no row of the schema traverses an attribute without a `None` test, the visitor is never called
with `None` — for every tree and every visitor. -/
namespace MindsVerif.Walk
variable {S : Type}

def NoNone (f : Tr S) : Prop := ∀ a b pq st, ∀ v ∈ (f a b pq st).log, v.node.isSome = true

/-- no branch traverses an attribute without a `None` test -/
def noNoneSchema (σ : Schema) : Bool := σ.all (fun r => r.walk.all (fun e => !e.noneVisit))

theorem noNone_row (σ : Schema) (h : noNoneSchema σ = true) (c : Nat) :
    ∀ e ∈ (σ.row c).walk, e.noneVisit = false := by
  intro e he
  simp only [Schema.row] at he
  by_cases hc : c < σ.length
  · rw [List.getD_eq_getElem?_getD, List.getElem?_eq_getElem hc] at he
    have := (List.all_eq_true.mp ((List.all_eq_true.mp h) _ (List.getElem_mem hc))) e he
    simpa using this
  · rw [List.getD_eq_getElem?_getD, List.getElem?_eq_none (Nat.le_of_not_lt hc)] at he
    simp at he

theorem runEntry_nn (e : Entry) (pq' : Nat) :
    ∀ (its : List (Item S)), (∀ it ∈ its, NoNone it.tr ∧ ∀ q, NoNone (it.via q)) → ∀ cur st,
      ∀ v ∈ (runEntry e pq' its cur st).2.2, v.node.isSome = true
  | [], _, cur, st => by cases cur <;> simp [runEntry]
  | it :: its, h, [], st => by simp [runEntry]
  | it :: its, h, c :: cs, st => by
    have hit := h it (List.mem_cons_self ..)
    have ih := runEntry_nn e pq' its (fun x hx => h x (List.mem_cons_of_mem _ hx)) cs
    simp only [runEntry]
    split
    · intro v hv
      rcases List.mem_append.mp hv with h1 | h2
      · cases hvia : e.via with
        | none => rw [hvia] at h1; exact hit.1 _ _ _ _ v h1
        | some q => rw [hvia] at h1; exact hit.2 q _ _ _ _ v h1
      · exact ih _ v h2
    · exact ih _

theorem viaRun_nn (q : Nat) (a b : Bool) (pq : Nat) :
    ∀ (its : List (Item S)), (∀ it ∈ its, NoNone it.tr ∧ ∀ q, NoNone (it.via q)) → ∀ gs st,
      ∀ v ∈ (viaRun q a b pq its gs st).2.2.2, v.node.isSome = true
  | [], _, gs, st => by cases gs <;> simp [viaRun]
  | it :: its, h, [], st => by simp [viaRun]
  | it :: its, h, g :: gs, st => by
    have hit := h it (List.mem_cons_self ..)
    have ih := viaRun_nn q a b pq its (fun x hx => h x (List.mem_cons_of_mem _ hx)) gs
    simp only [viaRun]
    split
    · exact hit.1 _ _ _ _
    · exact ih _

theorem runRow_nn (cb : Cb S) (c pq : Nat) (its : List (Item S))
    (h : ∀ it ∈ its, NoNone it.tr ∧ ∀ q, NoNone (it.via q)) :
    ∀ (es : List Entry), (∀ e ∈ es, e.noneVisit = false) → ∀ cur st,
      ∀ v ∈ (runRow cb c pq es its cur st).2.2, v.node.isSome = true
  | [], _, cur, st => by simp [runRow]
  | e :: es, hes, cur, st => by
    have he := hes e (List.mem_cons_self ..)
    have ih := runRow_nn cb c pq its h es (fun x hx => hes x (List.mem_cons_of_mem _ hx))
    simp only [runRow, he, Bool.false_and, Bool.false_eq_true, if_false]
    intro v hv
    rcases List.mem_append.mp hv with h1 | h2
    · exact runEntry_nn e _ its h _ _ v h1
    · exact ih _ _ v h2

/-- the visitor is never called with `None` -/
theorem no_none_all (σ : Schema) (hσ : noNoneSchema σ = true) (cb : Cb S) : ∀ t, NoNone (tr σ cb t) := by
  intro t
  refine (tr_ind σ cb (fun _ f => NoNone f) (fun _ g => ∀ q, NoNone (g q)) ?_ t).1
  intro c s t ks its h
  have hm : ∀ it ∈ its, NoNone it.tr ∧ ∀ q, NoNone (it.via q) :=
    h.forall_mem (fun _ _ hh => ⟨hh.2.1, hh.2.2⟩)
  refine ⟨?_, ?_⟩
  · intro a b pq st v hv
    simp only [step] at hv
    split at hv
    · simp at hv; rw [hv]; rfl
    · rcases List.mem_cons.mp hv with h1 | h2
      · rw [h1]; rfl
      · exact runRow_nn cb c pq its hm _ (noNone_row σ hσ c) _ _ v h2
  · intro q a b pq st v hv
    simp only [viaStep] at hv
    exact viaRun_nn q a b pq its hm ks st v hv

end MindsVerif.Walk
