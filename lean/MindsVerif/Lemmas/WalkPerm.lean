import MindsVerif.Lemmas.WalkLift
/-! "Every required node exactly once": on an `okTree` the textual preorder `expected` is a permutation of
the nodes that have to be visited (`reqTags`: the node, the subtrees of its children in required slots,
and — looking through them — the required children of its container children), each listed once. -/
namespace MindsVerif.Walk

mutual
/-- identities of the nodes of the subtree that the property requires to be visited, in storage order -/
def reqTags (σ : Schema) : Node → List Nat
  | .mk c _ t ks => t :: reqKids σ (σ.row c) ks
def reqKids (σ : Schema) (row : ClassRow) : List Node → List Nat
  | [] => []
  | .mk c s t gs :: ks =>
    (if (row.kind s).required then reqTags σ (.mk c s t gs)
     else if row.kind s == .container then reqKids σ (σ.row c) gs else []) ++ reqKids σ row ks
end

/-- the contribution of one child -/
def reqKid (σ : Schema) (row : ClassRow) (k : Node) : List Nat :=
  if (row.kind k.slot).required then reqTags σ k
  else if row.kind k.slot == .container then reqKids σ (σ.row k.cls) k.kids else []

theorem reqKids_eq (σ : Schema) (row : ClassRow) : ∀ ks, reqKids σ row ks = ks.flatMap (reqKid σ row)
  | [] => by simp [reqKids]
  | .mk c s t gs :: ks => by
    rw [reqKids, List.flatMap_cons, reqKids_eq σ row ks]; rfl

/-! ### list lemmas -/

theorem perm_flatMap_pointwise {α β : Type} (l : List α) (f g : α → List β) (h : ∀ x ∈ l, (f x).Perm (g x)) :
    (l.flatMap f).Perm (l.flatMap g) := by
  induction l with
  | nil => exact .refl _
  | cons x xs ih =>
    simp only [List.flatMap_cons]
    exact (h x (List.mem_cons_self ..)).append (ih (fun y hy => h y (List.mem_cons_of_mem _ hy)))

theorem flatMap_congr' {α β : Type} (l : List α) (f g : α → List β) (h : ∀ x ∈ l, f x = g x) :
    l.flatMap f = l.flatMap g := by
  induction l with
  | nil => rfl
  | cons x xs ih =>
    simp only [List.flatMap_cons, h x (List.mem_cons_self ..), ih (fun y hy => h y (List.mem_cons_of_mem _ hy))]

theorem perm_filter_union {α β : Type} (A B : α → Bool) (G : α → List β) :
    ∀ l : List α, (∀ x ∈ l, ¬(A x = true ∧ B x = true)) →
      ((l.filter A).flatMap G ++ (l.filter B).flatMap G).Perm ((l.filter (fun x => A x || B x)).flatMap G)
  | [], _ => .refl _
  | x :: l, h => by
    have ih := perm_filter_union A B G l (fun y hy => h y (List.mem_cons_of_mem _ hy))
    have hx := h x (List.mem_cons_self ..)
    cases hA : A x with
    | true =>
      have hB : B x = false := by cases hb : B x with | false => rfl | true => exact absurd ⟨hA, hb⟩ hx
      simp only [List.filter_cons, hA, hB, Bool.true_or, if_true, Bool.false_eq_true, if_false, List.flatMap_cons,
        List.append_assoc]
      exact ih.append_left _
    | false =>
      cases hB : B x with
      | false =>
        simp only [List.filter_cons, hA, hB, Bool.or_self, Bool.false_eq_true, if_false]
        exact ih
      | true =>
        simp only [List.filter_cons, hA, hB, Bool.false_or, if_true, Bool.false_eq_true, if_false, List.flatMap_cons]
        have : ((l.filter A).flatMap G ++ (G x ++ (l.filter B).flatMap G)).Perm
            (G x ++ ((l.filter A).flatMap G ++ (l.filter B).flatMap G)) := by
          rw [← List.append_assoc, ← List.append_assoc]
          exact List.perm_append_comm.append_right _
        exact this.trans (ih.append_left _)

/-- grouping by a duplicate-free list of keys is a permutation of selecting the elements with these keys -/
theorem perm_group {α β : Type} (key : α → Nat) (G : α → List β) (l : List α) :
    ∀ ps : List Nat, ps.Nodup →
      (ps.flatMap (fun p => (l.filter (fun x => key x == p)).flatMap G)).Perm
        ((l.filter (fun x => ps.contains (key x))).flatMap G)
  | [], _ => by simp
  | p :: ps, hnd => by
    have hp : p ∉ ps := (List.nodup_cons.mp hnd).1
    have ih := perm_group key G l ps (List.nodup_cons.mp hnd).2
    simp only [List.flatMap_cons]
    refine (ih.append_left _).trans ?_
    have hu := perm_filter_union (fun x => key x == p) (fun x => ps.contains (key x)) G l (by
      intro x _ hx
      have h1 : key x = p := by simpa using hx.1
      have h2 : key x ∈ ps := by simpa using hx.2
      exact hp (h1 ▸ h2))
    refine hu.trans (.of_eq ?_)
    congr 1

theorem expectedL_eq_map (σ : Schema) : ∀ ks, expectedL σ ks = ks.map (fun k => (k.slot, expectedX σ k))
  | [] => by simp [expectedL]
  | k :: ks => by simp [expectedL, expectedL_eq_map σ ks]

/-! ### the permutation theorem -/

abbrev tags (l : List (Option Nat × Bool × Bool)) : List (Option Nat) := l.map (·.1)

/-- the printed relevant occupied slots are complete and duplicate-free -/
def printOK (r : ClassRow) (present : List Nat) : Bool :=
  present.all (fun p => !(r.kind p).relevant || r.print.contains p)
  && (r.print.filter (fun p => (r.kind p).relevant && present.contains p)).Nodup

def NodePerm (σ : Schema) (k : Node) : Prop :=
  okTree σ k = true → ∀ a b, (tags (expectedX σ k true a b)).Perm ((reqTags σ k).map some)
def ContPerm (σ : Schema) (k : Node) : Prop :=
  ∀ e : Entry, e.via.isSome = true → contCond (σ.row k.cls) e (slotsOf k.kids) = true →
    okKids σ (σ.row k.cls) k.kids = true →
    ∀ a b, (tags (expectedX σ k false a b)).Perm ((reqKids σ (σ.row k.cls) k.kids).map some)

/-- children level: given the facts about every child -/
theorem perm_kids (σ : Schema) (row : ClassRow) (ks : List Node)
    (hk : ∀ k ∈ ks, NodePerm σ k ∧ ContPerm σ k)
    (hp : printOK row (slotsOf ks) = true) (hok : okKids σ row ks = true)
    (hent : ∀ k ∈ ks, (row.kind k.slot).required = false → row.kind k.slot = .container →
      ∃ e ∈ row.walk, e.slot = k.slot ∧ e.via.isSome = true) :
    (tags (combineP row (expectedL σ ks))).Perm ((reqKids σ row ks).map some) := by
  simp only [printOK, Bool.and_eq_true] at hp
  obtain ⟨hp1, hp2⟩ := hp
  have hp2' : (row.print.filter (fun p => (row.kind p).relevant && (slotsOf ks).contains p)).Nodup := by simpa using hp2
  let G : Node → List (Option Nat) := fun k =>
    tags (expectedX σ k (row.kind k.slot).required (row.kind k.slot == .table) (row.kind k.slot == .target))
  -- rewrite the left side as a grouping of the children by printed slot
  have e1 : tags (combineP row (expectedL σ ks))
      = (row.print.filter (fun p => (row.kind p).relevant && (slotsOf ks).contains p)).flatMap
          (fun p => (ks.filter (fun k => k.slot == p)).flatMap G) := by
    rw [combineP_present]
    simp only [tags, List.map_flatMap, Hx, expectedL_eq_map, List.filter_map, List.flatMap_map]
    apply flatMap_congr'
    intro p _
    have : ((fun (f : Nat × Exp) => decide (f.1 = p)) ∘ fun (k : Node) => (k.slot, expectedX σ k))
        = fun k => k.slot == p := by
      funext k; simp [BEq.beq]
    rw [this]
    apply flatMap_congr'
    intro k hk'
    have hs : k.slot = p := by simpa using (List.mem_filter.mp hk').2
    simp only [G, hs]
  rw [e1, reqKids_eq]
  refine (perm_group Node.slot G ks _ hp2').trans ?_
  -- the selected children are those in relevant slots
  have e2 : ks.filter (fun k => (row.print.filter (fun p => (row.kind p).relevant && (slotsOf ks).contains p)).contains k.slot)
      = ks.filter (fun k => (row.kind k.slot).relevant) := by
    apply List.filter_congr
    intro k hk'
    have hpres : k.slot ∈ slotsOf ks := mem_slotsOf hk'
    have hprinted := (List.all_eq_true.mp hp1) k.slot hpres
    rw [Bool.eq_iff_iff]
    constructor
    · intro h
      have : k.slot ∈ row.print.filter (fun p => (row.kind p).relevant && (slotsOf ks).contains p) := by simpa using h
      have := (List.mem_filter.mp this).2
      simp only [Bool.and_eq_true] at this
      exact this.1
    · intro h
      simp only [h, Bool.not_true, Bool.false_or] at hprinted
      have : k.slot ∈ row.print.filter (fun p => (row.kind p).relevant && (slotsOf ks).contains p) :=
        List.mem_filter.mpr ⟨by simpa using hprinted, by simp [h, hpres]⟩
      simpa using this
  rw [e2, List.map_flatMap]
  have e3 : ks.flatMap (fun k => (reqKid σ row k).map some)
      = (ks.filter (fun k => (row.kind k.slot).relevant)).flatMap (fun k => (reqKid σ row k).map some) := by
    rw [flatMap_filter_nil]
    intro k _ hrel
    simp only [Kind.relevant, Bool.or_eq_false_iff] at hrel
    simp [reqKid, hrel.1, hrel.2]
  rw [e3]
  apply perm_flatMap_pointwise
  intro k hk'
  have hkm := (List.mem_filter.mp hk').1
  have hrel := (List.mem_filter.mp hk').2
  have km := okKids_mem σ row ks hok k hkm
  cases hreq : (row.kind k.slot).required with
  | true =>
    simp only [G, reqKid, hreq, if_true]
    exact (hk k hkm).1 (km.1 hreq) _ _
  | false =>
    have hc : row.kind k.slot = .container := by
      simp only [Kind.relevant, hreq, Bool.false_or] at hrel
      exact eq_of_beq hrel
    obtain ⟨e, he, hes, hev⟩ := hent k hkm hreq hc
    have kc := km.2 hreq hc
    simp only [G, reqKid, hreq, hc, Bool.false_eq_true, if_false, beq_self_eq_true, if_true]
    exact (hk k hkm).2 e hev (kc.1 e he hes) kc.2 _ _

theorem nodeOK_printOK (r : ClassRow) (present : List Nat) (h : nodeOK r present = true) : printOK r present = true := by
  simp only [nodeOK, Bool.and_eq_true] at h
  simp only [printOK, Bool.and_eq_true]
  exact ⟨h.1.2, h.2⟩

theorem nodeOK_entry (r : ClassRow) (present : List Nat) (h : nodeOK r present = true) (p : Nat) (hp : p ∈ present)
    (hreq : (r.kind p).required = false) (hc : r.kind p = .container) :
    ∃ e ∈ r.walk, e.slot = p ∧ e.via.isSome = true := by
  simp only [nodeOK, Bool.and_eq_true] at h
  obtain ⟨⟨⟨_, heq⟩, hpr⟩, _⟩ := h
  have heq' := eq_of_beq heq
  have hrel : (r.kind p).relevant = true := by simp [Kind.relevant, hc]
  have hprinted := (List.all_eq_true.mp hpr) p hp
  simp only [hrel, Bool.not_true, Bool.false_or] at hprinted
  have hm : (p, (r.kind p).required, r.kind p == Kind.table, r.kind p == Kind.target) ∈
      (r.print.filter (fun p => (r.kind p).relevant && present.contains p)).map
        (fun p => (p, (r.kind p).required, r.kind p == .table, r.kind p == .target)) :=
    List.mem_map.mpr ⟨p, List.mem_filter.mpr ⟨by simpa using hprinted, by simp [hrel, hp]⟩, rfl⟩
  rw [← heq'] at hm
  obtain ⟨e, he, hee⟩ := List.mem_map.mp hm
  refine ⟨e, (List.mem_filter.mp he).1, ?_, ?_⟩
  · injection hee
  · injection hee with _ h2
    injection h2 with h2 _
    rw [hreq] at h2
    cases hv : e.via with
    | none => rw [hv] at h2; cases h2
    | some _ => rfl

mutual
theorem perm_node (σ : Schema) : ∀ t : Node, NodePerm σ t ∧ ContPerm σ t
  | .mk c s t ks => by
    have hk := perm_all σ ks
    refine ⟨?_, ?_⟩
    · intro hok a b
      simp only [okTree, Bool.and_eq_true] at hok
      have := perm_kids σ (σ.row c) ks hk (nodeOK_printOK _ _ hok.1) hok.2
        (fun k hkm hreq hc => nodeOK_entry _ _ hok.1 k.slot (mem_slotsOf hkm) hreq hc)
      simp only [expectedX, if_true, tags, List.map_append, List.map_cons, List.map_nil, reqTags, List.singleton_append]
      exact this.cons _
    · intro e hev hcc hkk a b
      simp only [Node.cls, Node.kids] at hcc hkk ⊢
      cases hvia : e.via with
      | none => rw [hvia] at hev; cases hev
      | some q =>
        simp only [contCond, hvia, Bool.and_eq_true] at hcc
        obtain ⟨⟨⟨⟨⟨c1, c2⟩, _⟩, _⟩, _⟩, c6⟩ := hcc
        have hpo : printOK (σ.row c) (slotsOf ks) = true := by
          simp only [printOK, Bool.and_eq_true]
          refine ⟨c6, ?_⟩
          rw [eq_of_beq c1]; simp
        have hent : ∀ k ∈ ks, ((σ.row c).kind k.slot).required = false → (σ.row c).kind k.slot = .container →
            ∃ e ∈ (σ.row c).walk, e.slot = k.slot ∧ e.via.isSome = true := by
          intro k hkm hreq hc
          exfalso
          have hrel : ((σ.row c).kind k.slot).relevant = true := by simp [Kind.relevant, hc]
          have hprinted := (List.all_eq_true.mp c6) k.slot (mem_slotsOf hkm)
          simp only [hrel, Bool.not_true, Bool.false_or] at hprinted
          have hp' : k.slot ∈ slotsOf ks := mem_slotsOf hkm
          have : k.slot ∈ (σ.row c).print.filter (fun p => ((σ.row c).kind p).relevant && (slotsOf ks).contains p) :=
            List.mem_filter.mpr ⟨by simpa using hprinted, by simp [hrel, hp']⟩
          rw [eq_of_beq c1] at this
          have hq : k.slot = q := by simpa using this
          rw [hq, c2] at hreq
          cases hreq
        have := perm_kids σ (σ.row c) ks hk hpo hkk hent
        simpa [expectedX, tags] using this
theorem perm_all (σ : Schema) : ∀ ks : List Node, ∀ k ∈ ks, NodePerm σ k ∧ ContPerm σ k
  | [], k, h => by cases h
  | k0 :: ks, k, h => by
    cases h with
    | head => exact perm_node σ k0
    | tail _ hm => exact perm_all σ ks k hm
end

/-- on an `okTree` the textual preorder lists exactly the nodes that have to be visited, each once -/
theorem expected_perm (σ : Schema) (t : Node) (h : okTree σ t = true) (a b : Bool) :
    ((expected σ t a b).map (·.1)).Perm ((reqTags σ t).map some) :=
  (perm_node σ t).1 h a b

end MindsVerif.Walk
