import MindsVerif.Lemmas.WalkLiftP
import MindsVerif.Lemmas.WalkSame
import MindsVerif.Model.Params
/-! T13.1 (replacement): on an `okTree`, a visitor that answers `r` exactly for the node(s) with identity
`x` yields the tree in which exactly that node — reached through required slots — is `r`, and nothing
else is changed. -/
namespace MindsVerif.Walk
open MindsVerif.Params

mutual
/-- specification: replace the node `x` (searched through the required slots, looking through containers) by `r` -/
def subst (σ : Schema) (x : Nat) (r : Node) : Node → Node
  | .mk c s t ks => if t = x then r.setSlot s else .mk c s t (substL σ x r (σ.row c) ks)
def substL (σ : Schema) (x : Nat) (r : Node) (row : ClassRow) : List Node → List Node
  | [] => []
  | .mk c s t gs :: ks =>
    (if (row.kind s).required then subst σ x r (.mk c s t gs)
     else if row.kind s == .container then .mk c s t (substL σ x r (σ.row c) gs)
     else .mk c s t gs) :: substL σ x r row ks
end

/-- what `substL` does to one child -/
def substKid (σ : Schema) (x : Nat) (r : Node) (row : ClassRow) (k : Node) : Node :=
  if (row.kind k.slot).required then subst σ x r k
  else if row.kind k.slot == .container then k.setKids (substL σ x r (σ.row k.cls) k.kids) else k

theorem substL_eq_map (σ : Schema) (x : Nat) (r : Node) (row : ClassRow) : ∀ ks,
    substL σ x r row ks = ks.map (substKid σ x r row)
  | [] => by simp [substL]
  | .mk c s t gs :: ks => by
    rw [substL, List.map_cons, substL_eq_map σ x r row ks]; rfl

def GoodRep (σ : Schema) (x : Nat) (r : Node) (k : Node) (f : Tr Unit) : Prop :=
  okTree σ k = true → ∀ a b pq st,
    (k.tag = x → (f a b pq st).repl = some r ∧ (f a b pq st).truthy = true) ∧
    (k.tag ≠ x → (f a b pq st).repl = none ∧ (f a b pq st).self = subst σ x r k)

def GoodRepVia (σ : Schema) (x : Nat) (r : Node) (k : Node) (g : Nat → Tr Unit) : Prop :=
  ∀ (e : Entry) q, e.via = some q → contCond (σ.row k.cls) e (slotsOf k.kids) = true →
    okKids σ (σ.row k.cls) k.kids = true →
    ∀ pq st, (g q e.isTable e.isTarget pq st).self = k.setKids (substL σ x r (σ.row k.cls) k.kids)
      ∧ (g q e.isTable e.isTarget pq st).truthy = true

abbrev GR (σ : Schema) (x : Nat) (r : Node) (it : Item Unit) (k : Node) : Prop :=
  it.node = k ∧ GoodRep σ x r k it.tr ∧ GoodRepVia σ x r k it.via

/-- one pass over the children: positions in slot `s` get `f`, the others keep what is there -/
def upd (s : Nat) (f : Node → Node) : List Node → List Node → List Node
  | k :: ks, c :: cs => (if k.slot = s then f k else c) :: upd s f ks cs
  | _, cs => cs

def updAll (ss : List Nat) (f : Node → Node) : List Node → List Node → List Node
  | k :: ks, c :: cs => (if ss.contains k.slot then f k else c) :: updAll ss f ks cs
  | _, cs => cs

theorem updAll_nil (f : Node → Node) : ∀ ks cur, updAll [] f ks cur = cur
  | [], cur => by cases cur <;> rfl
  | _ :: _, [] => rfl
  | k :: ks, c :: cs => by simp [updAll, updAll_nil f ks cs]

theorem updAll_upd (s : Nat) (ss : List Nat) (f : Node → Node) : ∀ ks cur,
    updAll ss f ks (upd s f ks cur) = updAll (s :: ss) f ks cur
  | [], cur => by cases cur <;> rfl
  | _ :: _, [] => rfl
  | k :: ks, c :: cs => by
    simp only [upd, updAll, updAll_upd s ss f ks cs, List.contains_cons]
    by_cases h : k.slot = s
    · simp [h]
    · have : (k.slot == s) = false := by simp [h]
      simp [h, this]

theorem updAll_self (ss : List Nat) (f : Node → Node) : ∀ ks,
    updAll ss f ks ks = ks.map (fun k => if ss.contains k.slot then f k else k)
  | [] => rfl
  | k :: ks => by simp [updAll, updAll_self ss f ks]

theorem tag_setSlot (r : Node) (s : Nat) : (r.setSlot s).tag = r.tag := by cases r; rfl

/-- the condition on a child `k` in the slot of the entry `e` of the row `row` -/
def KidR (σ : Schema) (row : ClassRow) (e : Entry) (k : Node) : Prop :=
  e.repl = .same ∧ (row.kind k.slot).required = e.via.isNone ∧ (row.kind k.slot).relevant = true ∧ KidQ σ e k

theorem KidR.tail {σ : Schema} {row : ClassRow} {e : Entry} {k : Node} {ks : List Node}
    (h : ∀ k' ∈ k :: ks, k'.slot = e.slot → KidR σ row e k') : ∀ k' ∈ ks, k'.slot = e.slot → KidR σ row e k' :=
  fun k' hk' => h k' (List.mem_cons_of_mem _ hk')

theorem runEntry_rep (σ : Schema) (x : Nat) (r : Node) (row : ClassRow) (e : Entry) (pq' : Nat) :
    ∀ (its : List (Item Unit)) ks, All2 (GR σ x r) its ks →
      (∀ k ∈ ks, k.slot = e.slot → KidR σ row e k) → ∀ cur st, cur.length = ks.length →
      (runEntry e pq' its cur st).1 = upd e.slot (substKid σ x r row) ks cur := by
  intro its ks h
  induction h with
  | nil => intro _ cur st _; cases cur <;> simp [runEntry, upd]
  | @cons it k its ks hk _ ih =>
    intro hK cur st hl
    cases cur with
    | nil => simp at hl
    | cons c cs =>
      have hl' : cs.length = ks.length := by simpa using hl
      obtain ⟨hn, hg, hv⟩ := hk
      by_cases hs : it.node.slot = e.slot
      · have hs' : k.slot = e.slot := hn ▸ hs
        obtain ⟨hsame, hreq, hrel, hq⟩ := hK k (List.mem_cons_self ..) hs'
        unfold KidQ at hq
        cases hvia : e.via with
        | none =>
          rw [hvia] at hq hreq
          have hreq' : (row.kind k.slot).required = true := hreq
          have g := hg hq e.isTable e.isTarget pq' st
          have rr := ih (KidR.tail hK) cs (it.tr e.isTable e.isTarget pq' st).st hl'
          simp only [runEntry, hs, if_true, hvia, upd, hs', rr]
          congr 1
          simp only [substKid, hreq', if_true]
          by_cases hx : k.tag = x
          · have g1 := g.1 hx
            rw [hn]
            cases k with
            | mk c0 s0 t0 ks0 =>
              simp only [Node.tag] at hx
              simp [applyRepl, g1.1, g1.2, hsame, hvia, subst, hx, Node.slot]
          · have g2 := g.2 hx
            simp [applyRepl, g2.1, g2.2]
        | some q =>
          rw [hvia] at hq hreq
          have hreq' : (row.kind k.slot).required = false := hreq
          have hc : (row.kind k.slot == Kind.container) = true := by
            simpa [Kind.relevant, hreq'] using hrel
          have g := hv e q hvia hq.1 hq.2 pq' st
          have rr := ih (KidR.tail hK) cs (it.via q e.isTable e.isTarget pq' st).st hl'
          simp only [runEntry, hs, if_true, hvia, upd, hs', rr]
          congr 1
          simp only [substKid, hreq', hc, Bool.false_eq_true, if_false, if_true]
          rw [← g.1, hn]
          cases ho : (it.via q e.isTable e.isTarget pq' st).repl <;> simp [applyRepl, ho, hsame, hvia, g.2]
      · have hs' : k.slot ≠ e.slot := hn ▸ hs
        have rr := ih (KidR.tail hK) cs st hl'
        simp only [runEntry, hs, if_false, upd, hs', rr]

theorem runRow_rep (σ : Schema) (x : Nat) (r : Node) (row : ClassRow) (c pq : Nat)
    (its : List (Item Unit)) (ks : List Node) (h : All2 (GR σ x r) its ks) :
    ∀ (es : List Entry), es.all (cleanFor (slotsOf ks)) = true →
      (∀ e ∈ es, ∀ k ∈ ks, k.slot = e.slot → KidR σ row e k) → ∀ cur st, cur.length = ks.length →
      (runRow (cbAt x r) c pq es its cur st).1 = updAll (es.map (·.slot)) (substKid σ x r row) ks cur := by
  intro es
  induction es with
  | nil => intro _ _ cur st _; simp [runRow, updAll_nil]
  | cons e es ih =>
    intro hc hK cur st hl
    simp only [List.all_cons, Bool.and_eq_true] at hc
    have hcond := noNone_cond its ks _ (fun _ _ hh => hh.1) h e hc.1
    have r1 := runEntry_rep σ x r row e (e.pqFor c pq) its ks h (hK e (List.mem_cons_self ..)) cur st hl
    have hlen : (runEntry e (e.pqFor c pq) its cur st).1.length = ks.length := by
      rw [runEntry_length, hl]
    have r2 := ih hc.2 (fun e' he' => hK e' (List.mem_cons_of_mem _ he'))
      (runEntry e (e.pqFor c pq) its cur st).1 (runEntry e (e.pqFor c pq) its cur st).2.1 hlen
    simp only [runRow, hcond, Bool.false_eq_true, if_false, List.map_cons]
    rw [r2, r1, updAll_upd]

/-- under `nodeOK`, for an entry whose slot is occupied: plain traversal iff the slot is required, and the slot is relevant -/
theorem entry_kind (r : ClassRow) (present : List Nat) (h : nodeOK r present = true) (e : Entry) (he : e ∈ r.walk)
    (hp : present.contains e.slot = true) :
    e.repl = .same ∧ (r.kind e.slot).required = e.via.isNone ∧ (r.kind e.slot).relevant = true := by
  simp only [nodeOK, Bool.and_eq_true] at h
  obtain ⟨⟨⟨hall, heq⟩, _⟩, _⟩ := h
  have heq' := eq_of_beq heq
  have hmem : (e.slot, e.via.isNone, e.isTable, e.isTarget) ∈
      (r.walk.filter (fun e => present.contains e.slot)).map (fun e => (e.slot, e.via.isNone, e.isTable, e.isTarget)) :=
    List.mem_map.mpr ⟨e, List.mem_filter.mpr ⟨he, hp⟩, rfl⟩
  rw [heq'] at hmem
  obtain ⟨p, hpm, hpe⟩ := List.mem_map.mp hmem
  have hp2 := (List.mem_filter.mp hpm).2
  simp only [Bool.and_eq_true] at hp2
  have hps : p = e.slot := by injection hpe
  have hreq : (r.kind e.slot).required = e.via.isNone := by
    injection hpe with _ h2; injection h2 with h2 _; rw [← hps]; exact h2
  have hsame : e.repl = .same := by
    have := (List.all_eq_true.mp hall) e he
    simp only [Bool.and_eq_true, Bool.or_eq_true, Bool.not_eq_true', hp] at this
    cases this.2 with
    | inl h => cases h
    | inr h => exact eq_of_beq h
  exact ⟨hsame, hreq, by rw [← hps]; exact hp2.1⟩

/-- under `nodeOK` an occupied slot is traversed iff its kind is relevant -/
theorem nodeOK_mem (r : ClassRow) (present : List Nat) (h : nodeOK r present = true) :
    ∀ p ∈ present, (r.walk.map (·.slot)).contains p = (r.kind p).relevant := by
  intro p hp
  have hfull := h
  simp only [nodeOK, Bool.and_eq_true] at h
  obtain ⟨⟨⟨_, heq⟩, hpr⟩, _⟩ := h
  have heq' := congrArg (List.map (·.1)) (eq_of_beq heq)
  simp only [List.map_map] at heq'
  have e1 : ((fun (q : Nat × Bool × Bool × Bool) => q.1) ∘ fun (e : Entry) => (e.slot, e.via.isNone, e.isTable, e.isTarget)) = (·.slot) := rfl
  have e2 : ((fun (q : Nat × Bool × Bool × Bool) => q.1) ∘ fun (p : Nat) => (p, (r.kind p).required, r.kind p == Kind.table, r.kind p == Kind.target)) = id := rfl
  rw [e1, e2, List.map_id] at heq'
  have hpc : present.contains p = true := by simpa using hp
  have hprp := (List.all_eq_true.mp hpr) p hp
  rw [Bool.eq_iff_iff]
  constructor
  · intro hw
    have hw' : p ∈ r.walk.map (·.slot) := by simpa using hw
    obtain ⟨e, he, hep⟩ := List.mem_map.mp hw'
    have := (entry_kind r present hfull e he (by rw [hep]; exact hpc)).2.2
    rw [hep] at this; exact this
  · intro hreq
    have hin : p ∈ r.print := by
      simp only [hreq, Bool.not_true, Bool.false_or] at hprp
      simpa using hprp
    have : p ∈ r.print.filter (fun p => (r.kind p).relevant && present.contains p) :=
      List.mem_filter.mpr ⟨hin, by simp [hreq, hp]⟩
    rw [← heq'] at this
    obtain ⟨e, he, hep⟩ := List.mem_map.mp this
    have : p ∈ r.walk.map (·.slot) := List.mem_map.mpr ⟨e, (List.mem_filter.mp he).1, hep⟩
    simpa using this

/-- looking through a container: exactly the child in slot `q` is rewritten -/
theorem viaRun_rep (σ : Schema) (x : Nat) (r : Node) (q : Nat) (a b : Bool) (pq : Nat) :
    ∀ (its : List (Item Unit)) gs, All2 (GR σ x r) its gs → (slotsOf gs).filter (· == q) = [q] →
      (∀ g ∈ gs, g.slot = q → okTree σ g = true) → ∀ st,
      (viaRun q a b pq its gs st).2.1 = gs.map (fun g => if g.slot = q then subst σ x r g else g) := by
  intro its gs h
  induction h with
  | nil => intro hc; simp [slotsOf] at hc
  | @cons it k its gs hk _ ih =>
    intro hc hok st
    obtain ⟨hn, hg, _⟩ := hk
    simp only [slotsOf, List.filter_cons] at hc
    by_cases hs : it.node.slot = q
    · have hs' : k.slot = q := hn ▸ hs
      have hrest : (slotsOf gs).filter (· == q) = [] := by simpa [hs'] using hc
      have habs : ∀ g ∈ gs, g.slot ≠ q := by
        intro g hg hgs
        have := mem_slotsOf hg
        rw [hgs] at this
        have hcq := filter_eq_nil_absent _ _ hrest
        have : (slotsOf gs).contains q = true := by simpa using this
        rw [hcq] at this; cases this
      have g := hg (hok k (List.mem_cons_self ..) hs') a b pq st
      simp only [viaRun, hs, if_true, List.map_cons, hs']
      congr 1
      · by_cases hx : k.tag = x
        · have g1 := g.1 hx
          cases k with
          | mk c0 s0 t0 ks0 =>
            simp only [Node.tag] at hx
            simp only [Node.slot] at hs'
            subst hs'
            simp [g1.1, subst, hx]
        · have g2 := g.2 hx
          simp [g2.1, g2.2]
      · symm
        rw [List.map_congr_left (g := id)]
        · simp
        · intro g' hg'; simp [habs g' hg']
    · have hs' : k.slot ≠ q := hn ▸ hs
      have hc' : (slotsOf gs).filter (· == q) = [q] := by simpa [hs'] using hc
      have rr := ih hc' (fun g hg' => hok g (List.mem_cons_of_mem _ hg')) st
      simp only [viaRun, hs, if_false, List.map_cons, hs', rr]

/-- T13.1 (replacement) for every traversal -/
theorem goodrep_all (σ : Schema) (x : Nat) (r : Node) (htr : truthyIn σ r = true) :
    ∀ t, GoodRep σ x r t (tr σ (cbAt x r) t) := by
  intro t
  refine (tr_ind σ (cbAt x r) (GoodRep σ x r) (GoodRepVia σ x r) ?_ t).1
  intro c s t ks its h
  refine ⟨?_, ?_⟩
  · intro hok a b pq st
    simp only [okTree, Bool.and_eq_true] at hok
    have hK : ∀ e ∈ (σ.row c).walk, ∀ k ∈ ks, k.slot = e.slot → KidR σ (σ.row c) e k := by
      intro e he k hk hs
      have hp : (slotsOf ks).contains e.slot = true := by
        have := mem_slotsOf hk; rw [hs] at this; simpa using this
      have ek := entry_kind _ _ hok.1 e he hp
      exact ⟨ek.1, by rw [hs]; exact ek.2.1, by rw [hs]; exact ek.2.2, kidQ_of_ok σ _ ks hok.1 hok.2 e he k hk hs⟩
    have hrow := runRow_rep σ x r (σ.row c) c pq its ks h (σ.row c).walk (nodeOK_clean _ _ hok.1) hK ks st rfl
    refine ⟨?_, ?_⟩
    · intro hx
      simp only [Node.tag] at hx
      simp [step, cbAt, Node.tag, hx, htr]
    · intro hx
      simp only [Node.tag] at hx
      simp only [step, cbAt, Node.tag, hx, if_false]
      refine ⟨trivial, ?_⟩
      rw [hrow, updAll_self]
      simp only [subst, hx, if_false, substL_eq_map]
      congr 1
      apply List.map_congr_left
      intro k hk
      rw [nodeOK_mem _ _ hok.1 k.slot (mem_slotsOf hk)]
      cases hrel : (σ.row c).kind k.slot |>.relevant with
      | true => simp
      | false =>
        have h1 : ((σ.row c).kind k.slot).required = false := by
          simp only [Kind.relevant, Bool.or_eq_false_iff] at hrel; exact hrel.1
        have h2 : ((σ.row c).kind k.slot == Kind.container) = false := by
          simp only [Kind.relevant, Bool.or_eq_false_iff] at hrel; exact hrel.2
        simp [substKid, h1, h2]
  · intro e q hvia hcc hkk pq st
    simp only [Node.cls, Node.kids] at hcc hkk
    simp only [contCond, hvia, Bool.and_eq_true] at hcc
    obtain ⟨⟨⟨⟨⟨c1, c2⟩, _⟩, _⟩, c5⟩, c6⟩ := hcc
    have hq : (slotsOf ks).filter (· == q) = [q] := eq_of_beq c5
    have hokq : ∀ g ∈ ks, g.slot = q → okTree σ g = true := by
      intro g hg hs
      exact (okKids_mem σ (σ.row c) ks hkk g hg).1 (by rw [hs]; exact c2)
    have hv := viaRun_rep σ x r q e.isTable e.isTarget pq its ks h hq hokq st
    simp only [viaStep, hv, Node.setKids, Node.cls, Node.kids, substL_eq_map, and_true]
    congr 1
    apply List.map_congr_left
    intro g hg
    by_cases hs : g.slot = q
    · simp [hs, substKid, c2]
    · have hnr : ((σ.row c).kind g.slot).relevant = false := by
        cases hrel : ((σ.row c).kind g.slot).relevant with
        | false => rfl
        | true =>
          exfalso
          have hpres : (slotsOf ks).contains g.slot = true := by simpa using mem_slotsOf hg
          have hprinted := (List.all_eq_true.mp c6) g.slot (mem_slotsOf hg)
          simp only [hrel, Bool.not_true, Bool.false_or] at hprinted
          have : g.slot ∈ (σ.row c).print.filter (fun p => ((σ.row c).kind p).relevant && (slotsOf ks).contains p) :=
            List.mem_filter.mpr ⟨by simpa using hprinted, by
              have hp' : g.slot ∈ slotsOf ks := mem_slotsOf hg
              simp [hrel, hp']⟩
          rw [eq_of_beq c1] at this
          simp at this
          exact hs this
      have h1 : ((σ.row c).kind g.slot).required = false := by
        simp only [Kind.relevant, Bool.or_eq_false_iff] at hnr; exact hnr.1
      have h2 : ((σ.row c).kind g.slot == Kind.container) = false := by
        simp only [Kind.relevant, Bool.or_eq_false_iff] at hnr; exact hnr.2
      simp [hs, substKid, h1, h2]

end MindsVerif.Walk

namespace MindsVerif.Walk
/-! ### falsy answers: `query_traversal(child, …) or child` -/
variable {S : Type}

/-- a plain entry written with the `or` idiom is Python's `or` on the (re-slotted) answer -/
theorem applyRepl_pyOr (e : Entry) (k : Node) (o : Out S) (hv : e.via = none) (hr : e.repl = .same)
    (ho : e.orStyle = true) :
    applyRepl e k o = pyOr (fun _ => o.truthy) (o.repl.map (·.setSlot k.slot))
      (match o.repl with | some _ => k | none => o.self) := by
  cases hrepl : o.repl with
  | none => simp [applyRepl, pyOr, hrepl]
  | some r => cases ht : o.truthy <;> simp [applyRepl, pyOr, hrepl, ht, ho, hr, hv]

/-- a falsy answer in an `or` position is dropped: the visited child stays -/
theorem applyRepl_falsy (e : Entry) (k r : Node) (o : Out S) (ho : e.orStyle = true) (hrepl : o.repl = some r)
    (ht : o.truthy = false) : applyRepl e k o = k := by
  simp [applyRepl, hrepl, ht, ho]

/-- for a plain entry the answer takes the child's place **iff** the position is not an `or` position, or the answer is
truthy (or it happens to equal the child) -/
theorem applyRepl_exact_iff (e : Entry) (k r : Node) (o : Out S) (hv : e.via = none) (hr : e.repl = .same)
    (hrepl : o.repl = some r) :
    applyRepl e k o = r.setSlot k.slot ↔ (e.orStyle = false ∨ o.truthy = true ∨ r.setSlot k.slot = k) := by
  cases ho : e.orStyle <;> cases ht : o.truthy <;> simp [applyRepl, hrepl, ho, ht, hr, hv, eq_comm]

/-- when no class is falsy-capable every node object is truthy -/
theorem truthy_all (σ : Schema) (h : σ.all (fun r => !r.falsy) = true) (n : Node) : truthyIn σ n = true := by
  have : (σ.row n.cls).falsy = false := by
    simp only [Schema.row]
    by_cases hc : n.cls < σ.length
    · rw [List.getD_eq_getElem?_getD, List.getElem?_eq_getElem hc]
      have := (List.all_eq_true.mp h) _ (List.getElem_mem hc)
      simpa using this
    · rw [List.getD_eq_getElem?_getD, List.getElem?_eq_none (Nat.le_of_not_lt hc)]
      rfl
  simp [truthyIn, this]

end MindsVerif.Walk
