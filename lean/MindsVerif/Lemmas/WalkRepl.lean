import MindsVerif.Lemmas.WalkLift
import MindsVerif.Lemmas.WalkSame
import MindsVerif.Model.Params
/-! T13.1 (replacement): on an `okTree`, a visitor that answers `r` exactly for the node(s) with identity
`x` yields the tree in which exactly that node — reached through required slots — is `r`, and nothing
else is changed. -/
namespace MindsVerif.Walk
open MindsVerif.Params

mutual
/-- specification: replace the node `x` (searched through the required slots only) by `r` -/
def subst (σ : Schema) (x : Nat) (r : Node) : Node → Node
  | .mk c s t ks => if t = x then r.setSlot s else .mk c s t (substL σ x r (σ.row c) ks)
def substL (σ : Schema) (x : Nat) (r : Node) (row : ClassRow) : List Node → List Node
  | [] => []
  | k :: ks => (if (row.kind k.slot).required then subst σ x r k else k) :: substL σ x r row ks
end

def GoodRep (σ : Schema) (x : Nat) (r : Node) (k : Node) (f : Tr Unit) : Prop :=
  okTree σ k = true → ∀ a b pq st,
    (k.tag = x → (f a b pq st).repl = some r) ∧
    (k.tag ≠ x → (f a b pq st).repl = none ∧ (f a b pq st).self = subst σ x r k)

/-- one pass over the children: positions in slot `s` get `f`, the others keep what is there -/
def upd (s : Nat) (f : Node → Node) : List Node → List Node → List Node
  | k :: ks, c :: cs => (if k.slot = s then f k else c) :: upd s f ks cs
  | _, cs => cs

def updAll (ss : List Nat) (f : Node → Node) : List Node → List Node → List Node
  | k :: ks, c :: cs => (if ss.contains k.slot then f k else c) :: updAll ss f ks cs
  | _, cs => cs

theorem updAll_nil (f : Node → Node) : ∀ ks cur, updAll [] f ks cur = cur
  | [], cur => by cases cur <;> rfl
  | _ :: _, [] => rfl
  | k :: ks, c :: cs => by simp [updAll, updAll_nil f ks cs]

theorem updAll_upd (s : Nat) (ss : List Nat) (f : Node → Node) : ∀ ks cur,
    updAll ss f ks (upd s f ks cur) = updAll (s :: ss) f ks cur
  | [], cur => by cases cur <;> rfl
  | _ :: _, [] => rfl
  | k :: ks, c :: cs => by
    simp only [upd, updAll, updAll_upd s ss f ks cs, List.contains_cons]
    by_cases h : k.slot = s
    · simp [h]
    · have : (k.slot == s) = false := by simp [h]
      simp [h, this]

theorem updAll_self (ss : List Nat) (f : Node → Node) : ∀ ks,
    updAll ss f ks ks = ks.map (fun k => if ss.contains k.slot then f k else k)
  | [] => rfl
  | k :: ks => by simp [updAll, updAll_self ss f ks]

theorem tag_setSlot (r : Node) (s : Nat) : (r.setSlot s).tag = r.tag := by cases r; rfl

theorem runEntry_rep (σ : Schema) (x : Nat) (r : Node) (e : Entry) (pq' : Nat) :
    ∀ (its : List (Item Unit)) ks, All2 (fun it k => it.node = k ∧ GoodRep σ x r k it.tr ∧ True) its ks →
      okTreeL σ ks = true → ((e.via = none ∧ e.repl = .same) ∨ ∀ k ∈ ks, k.slot ≠ e.slot) → ∀ cur st, cur.length = ks.length →
      (runEntry e pq' its cur st).1 = upd e.slot (subst σ x r) ks cur := by
  intro its ks h
  induction h with
  | nil => intro _ _ cur st _; cases cur <;> simp [runEntry, upd]
  | @cons it k its ks hk _ ih =>
    intro hok hrep cur st hl
    cases cur with
    | nil => simp at hl
    | cons c cs =>
      have hl' : cs.length = ks.length := by simpa using hl
      simp only [okTreeL, Bool.and_eq_true] at hok
      obtain ⟨hn, hg, _⟩ := hk
      have hrep' : (e.via = none ∧ e.repl = .same) ∨ ∀ k' ∈ ks, k'.slot ≠ e.slot := by
        cases hrep with
        | inl h => exact .inl h
        | inr h => exact .inr (fun k' hk' => h k' (List.mem_cons_of_mem _ hk'))
      by_cases hs : it.node.slot = e.slot
      · have hs' : k.slot = e.slot := hn ▸ hs
        have hboth : e.via = none ∧ e.repl = .same := by
          cases hrep with
          | inl h => exact h
          | inr h => exact absurd hs' (h k (List.mem_cons_self ..))
        have he := hboth.1
        have hsame := hboth.2
        have g := hg hok.1 e.isTable e.isTarget pq' st
        have rr := ih hok.2 hrep' cs (it.tr e.isTable e.isTarget pq' st).st hl'
        simp only [runEntry, hs, if_true, he, upd, hs', rr]
        congr 1
        by_cases hx : k.tag = x
        · have g1 := g.1 hx
          rw [hn]
          cases k with
          | mk c0 s0 t0 ks0 =>
            simp only [Node.tag] at hx
            simp [applyRepl, g1, hsame, he, subst, hx, Node.slot]
        · have g2 := g.2 hx
          simp [applyRepl, g2.1, g2.2]
      · have hs' : k.slot ≠ e.slot := hn ▸ hs
        have rr := ih hok.2 hrep' cs st hl'
        simp only [runEntry, hs, if_false, upd, hs', rr]

theorem runRow_rep (σ : Schema) (x : Nat) (r : Node) (c pq : Nat)
    (its : List (Item Unit)) (ks : List Node)
    (h : All2 (fun it k => it.node = k ∧ GoodRep σ x r k it.tr ∧ True) its ks) (hok : okTreeL σ ks = true) :
    ∀ (es : List Entry), es.all (cleanFor (slotsOf ks)) = true →
      (∀ e ∈ es, (e.via = none ∧ e.repl = .same) ∨ ∀ k ∈ ks, k.slot ≠ e.slot) → ∀ cur st, cur.length = ks.length →
      (runRow (cbAt x r) c pq es its cur st).1 = updAll (es.map (·.slot)) (subst σ x r) ks cur := by
  intro es
  induction es with
  | nil => intro _ _ cur st _; simp [runRow, updAll_nil]
  | cons e es ih =>
    intro hc hrep cur st hl
    simp only [List.all_cons, Bool.and_eq_true, cleanFor] at hc
    obtain ⟨⟨hv, hn⟩, hrest⟩ := hc
    have hcond : (e.noneVisit && !hasSlot its e.slot) = false := by
      rw [hasSlot_eq its ks _ (fun _ _ hh => hh.1) h]
      cases hnv : e.noneVisit <;> simp [hnv] at hn ⊢
      exact hn
    have r1 := runEntry_rep σ x r e (e.pqFor c pq) its ks h hok (hrep e (List.mem_cons_self ..)) cur st hl
    have hlen : (runEntry e (e.pqFor c pq) its cur st).1.length = ks.length := by
      rw [runEntry_length, hl]
    have r2 := ih hrest (fun e' he' => hrep e' (List.mem_cons_of_mem _ he'))
      (runEntry e (e.pqFor c pq) its cur st).1 (runEntry e (e.pqFor c pq) its cur st).2.1 hlen
    simp only [runRow, hcond, Bool.false_eq_true, if_false, List.map_cons]
    rw [r2, r1, updAll_upd]

theorem substL_eq_map (σ : Schema) (x : Nat) (r : Node) (row : ClassRow) : ∀ ks,
    substL σ x r row ks = ks.map (fun k => if (row.kind k.slot).required then subst σ x r k else k)
  | [] => by simp [substL]
  | k :: ks => by simp [substL, substL_eq_map σ x r row ks]

/-- under `nodeOK` an occupied slot is traversed iff its kind is required -/
theorem nodeOK_mem (r : ClassRow) (present : List Nat) (h : nodeOK r present = true) :
    ∀ p ∈ present, (r.walk.map (·.slot)).contains p = (r.kind p).required := by
  intro p hp
  simp only [nodeOK, Bool.and_eq_true] at h
  obtain ⟨⟨⟨_, heq⟩, hpr⟩, _⟩ := h
  have heq' := congrArg (List.map (·.1)) (eq_of_beq heq)
  simp only [List.map_map] at heq'
  have e1 : ((fun (q : Nat × Bool × Bool) => q.1) ∘ fun (e : Entry) => (e.slot, e.isTable, e.isTarget)) = (·.slot) := rfl
  have e2 : ((fun (q : Nat × Bool × Bool) => q.1) ∘ fun (p : Nat) => (p, r.kind p == Kind.table, r.kind p == Kind.target)) = id := rfl
  rw [e1, e2, List.map_id] at heq'
  have hpc : present.contains p = true := by simpa using hp
  have hprp := (List.all_eq_true.mp hpr) p hp
  rw [Bool.eq_iff_iff]
  constructor
  · intro hw
    have hw' : p ∈ r.walk.map (·.slot) := by simpa using hw
    obtain ⟨e, he, hep⟩ := List.mem_map.mp hw'
    have : p ∈ (r.walk.filter (fun e => present.contains e.slot)).map (·.slot) :=
      List.mem_map.mpr ⟨e, List.mem_filter.mpr ⟨he, by simpa [hep] using hpc⟩, hep⟩
    rw [heq'] at this
    have := (List.mem_filter.mp this).2
    simp only [Bool.and_eq_true] at this
    exact this.1
  · intro hreq
    have hin : p ∈ r.print := by
      simp only [hreq, Bool.not_true, Bool.false_or] at hprp
      simpa using hprp
    have : p ∈ r.print.filter (fun p => (r.kind p).required && present.contains p) :=
      List.mem_filter.mpr ⟨hin, by simp [hreq, hp]⟩
    rw [← heq'] at this
    obtain ⟨e, he, hep⟩ := List.mem_map.mp this
    have : p ∈ r.walk.map (·.slot) := List.mem_map.mpr ⟨e, (List.mem_filter.mp he).1, hep⟩
    simpa using this

/-- T13.1 (replacement) for every traversal -/
theorem goodrep_all (σ : Schema) (x : Nat) (r : Node) : ∀ t, GoodRep σ x r t (tr σ (cbAt x r) t) := by
  intro t
  refine (tr_ind σ (cbAt x r) (GoodRep σ x r) (fun _ _ => True) ?_ t).1
  intro c s t ks its h
  refine ⟨?_, trivial⟩
  intro hok a b pq st
  simp only [okTree, Bool.and_eq_true] at hok
  have hno := hok.1
  simp only [nodeOK, Bool.and_eq_true] at hno
  obtain ⟨⟨⟨hall, _⟩, _⟩, _⟩ := hno
  have hrep : ∀ e ∈ (σ.row c).walk, (e.via = none ∧ e.repl = .same) ∨ ∀ k ∈ ks, k.slot ≠ e.slot := by
    intro e he
    have := (List.all_eq_true.mp hall) e he
    simp only [Bool.and_eq_true, Bool.or_eq_true, Bool.not_eq_true'] at this
    cases this.2 with
    | inl hn =>
      right
      intro k hk hs
      have := mem_slotsOf hk
      rw [hs] at this
      have hc : (slotsOf ks).contains e.slot = true := by simpa using this
      rw [hc] at hn; cases hn
    | inr hs =>
      left
      refine ⟨?_, eq_of_beq hs.2⟩
      cases hvia : e.via <;> simp [hvia] at hs ⊢
  have hrow := runRow_rep σ x r c pq its ks h hok.2 (σ.row c).walk (nodeOK_clean _ _ hok.1) hrep ks st rfl
  refine ⟨?_, ?_⟩
  · intro hx
    simp only [Node.tag] at hx
    simp [step, cbAt, Node.tag, hx]
  · intro hx
    simp only [Node.tag] at hx
    simp only [step, cbAt, Node.tag, hx, if_false]
    refine ⟨trivial, ?_⟩
    rw [hrow, updAll_self]
    simp only [subst, hx, if_false, substL_eq_map]
    congr 1
    apply List.map_congr_left
    intro k hk
    rw [nodeOK_mem _ _ hok.1 k.slot (mem_slotsOf hk)]

end MindsVerif.Walk
