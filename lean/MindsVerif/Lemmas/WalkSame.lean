import MindsVerif.Lemmas.WalkInd
/-! `same_visits`: which nodes are visited, in which order and with which flags, depends on the visitor
only through *whether* it answers with a replacement (for every schema and every tree). -/
namespace MindsVerif.Walk
variable {S S' : Type}

/-- the call without the answer -/
def Visit.what (v : Visit) : Option Node × Bool × Bool × Nat := (v.node, v.isTable, v.isTarget, v.pq)

/-- two visitors replace at the same calls, whatever their states -/
def Agree (cb : Cb S) (cb' : Cb S') : Prop :=
  ∀ s s' n a b pq, (cb s n a b pq).1.isSome = (cb' s' n a b pq).1.isSome

def Tr2 (f : Tr S) (f' : Tr S') : Prop :=
  ∀ a b pq s s', (f a b pq s).log.map Visit.what = (f' a b pq s').log.map Visit.what
    ∧ (f a b pq s).repl.isSome = (f' a b pq s').repl.isSome
def Via2 (g : Nat → Tr S) (g' : Nat → Tr S') : Prop := ∀ q, Tr2 (g q) (g' q)

abbrev Rel (it : Item S) (it' : Item S') : Prop :=
  it.node = it'.node ∧ Tr2 it.tr it'.tr ∧ Via2 it.via it'.via

theorem runEntry_length (e : Entry) (pq' : Nat) : ∀ (its : List (Item S)) cur st,
    (runEntry e pq' its cur st).1.length = cur.length
  | [], cur, st => by cases cur <;> simp [runEntry]
  | it :: its, [], st => by simp [runEntry]
  | it :: its, c :: cs, st => by
    simp only [runEntry]
    split <;> simp [runEntry_length e pq' its cs]

theorem runEntry_same (e : Entry) (pq' : Nat) {its : List (Item S)} {its' : List (Item S')}
    (h : All2 Rel its its') : ∀ cur cur' st st', cur.length = cur'.length →
      (runEntry e pq' its cur st).2.2.map Visit.what = (runEntry e pq' its' cur' st').2.2.map Visit.what := by
  induction h with
  | nil => intro cur cur' st st' _; cases cur <;> cases cur' <;> simp [runEntry]
  | @cons it it' its its' hr _ ih =>
    intro cur cur' st st' hl
    cases cur with
    | nil => cases cur' with
      | nil => simp [runEntry]
      | cons _ _ => simp at hl
    | cons c cs => cases cur' with
      | nil => simp at hl
      | cons c' cs' =>
        have hl' : cs.length = cs'.length := by simpa using hl
        obtain ⟨hn, ht, hv⟩ := hr
        simp only [runEntry, ← hn]
        split
        · cases hvia : e.via with
          | none =>
            simp only [List.map_append, (ht _ _ _ st st').1]
            rw [ih cs cs' _ _ hl']
          | some q =>
            simp only [List.map_append, (hv q _ _ _ st st').1]
            rw [ih cs cs' _ _ hl']
        · exact ih cs cs' st st' hl'

theorem hasSlot_same {its : List (Item S)} {its' : List (Item S')} (h : All2 Rel its its') (s : Nat) :
    hasSlot its s = hasSlot its' s := by
  induction h with
  | nil => rfl
  | cons hr _ ih =>
    simp only [hasSlot, List.any_cons] at ih ⊢
    rw [ih, hr.1]

theorem runRow_same (cb : Cb S) (cb' : Cb S') (hag : Agree cb cb') (c pq : Nat)
    {its : List (Item S)} {its' : List (Item S')} (h : All2 Rel its its') :
    ∀ (es : List Entry) cur cur' st st', cur.length = cur'.length →
      (runRow cb c pq es its cur st).2.2.map Visit.what = (runRow cb' c pq es its' cur' st').2.2.map Visit.what
  | [], cur, cur', st, st', _ => by simp [runRow]
  | e :: es, cur, cur', st, st', hl => by
    simp only [runRow, hasSlot_same h]
    split
    · have ha := hag st st' none e.isTable e.isTarget (e.pqFor c pq)
      cases h1 : cb st none e.isTable e.isTarget (e.pqFor c pq) with
      | mk r s1 =>
        cases h2 : cb' st' none e.isTable e.isTarget (e.pqFor c pq) with
        | mk r' s1' =>
          rw [h1, h2] at ha
          cases r with
          | none => cases r' with
            | none =>
              simp only [List.map_append, List.map_cons, List.map_nil, Visit.what]
              rw [runRow_same cb cb' hag c pq h es cur cur' s1 s1' hl]
            | some _ => simp at ha
          | some x => cases r' with
            | none => simp at ha
            | some x' =>
              simp only [List.map_append, List.map_cons, List.map_nil, Visit.what]
              rw [runRow_same cb cb' hag c pq h es (cur ++ [x.setSlot e.slot]) (cur' ++ [x'.setSlot e.slot]) s1 s1' (by simp [hl])]
    · simp only [List.map_append]
      have e1 := runEntry_same e (e.pqFor c pq) h cur cur' st st' hl
      have e2 := runRow_same cb cb' hag c pq h es (runEntry e (e.pqFor c pq) its cur st).1
        (runEntry e (e.pqFor c pq) its' cur' st').1 (runEntry e (e.pqFor c pq) its cur st).2.1
        (runEntry e (e.pqFor c pq) its' cur' st').2.1 (by rw [runEntry_length, runEntry_length, hl])
      rw [e1, e2]

theorem viaRun_same (q : Nat) (a b : Bool) (pq : Nat) {its : List (Item S)} {its' : List (Item S')}
    (h : All2 Rel its its') : ∀ gs st st',
      (viaRun q a b pq its gs st).2.2.2.map Visit.what = (viaRun q a b pq its' gs st').2.2.2.map Visit.what
      ∧ (viaRun q a b pq its gs st).1.isSome = (viaRun q a b pq its' gs st').1.isSome := by
  induction h with
  | nil => intro gs st st'; cases gs <;> simp [viaRun]
  | @cons it it' its its' hr _ ih =>
    intro gs st st'
    cases gs with
    | nil => simp [viaRun]
    | cons g gs =>
      obtain ⟨hn, ht, _⟩ := hr
      simp only [viaRun, ← hn]
      split
      · exact ht _ _ _ st st'
      · exact ih gs st st'

/-- two visitors that replace at the same calls visit the same nodes, in the same order, with the same
flags — on every tree, for every schema -/
theorem same_visits (σ : Schema) (cb : Cb S) (cb' : Cb S') (hag : Agree cb cb') :
    ∀ t, Tr2 (tr σ cb t) (tr σ cb' t) := by
  intro t
  refine (tr_ind2 σ cb cb' (fun _ f f' => Tr2 f f') (fun _ g g' => Via2 g g') ?_ t).1
  intro c s t ks its its' h
  refine ⟨?_, ?_⟩
  · intro a b pq st st'
    have ha := hag st st' (some (.mk c s t ks)) a b pq
    simp only [step]
    cases h1 : cb st (some (.mk c s t ks)) a b pq with
    | mk r s1 =>
      cases h2 : cb' st' (some (.mk c s t ks)) a b pq with
      | mk r' s1' =>
        rw [h1, h2] at ha
        cases r with
        | none => cases r' with
          | none =>
            simp only [List.map_cons, Visit.what, Option.isSome, and_true]
            rw [runRow_same cb cb' hag c pq h _ ks ks s1 s1' rfl]
          | some _ => simp at ha
        | some x => cases r' with
          | none => simp at ha
          | some x' => simp [Visit.what]
  · intro q a b pq st st'
    simp only [viaStep]
    exact viaRun_same q a b pq h ks st st'

end MindsVerif.Walk
