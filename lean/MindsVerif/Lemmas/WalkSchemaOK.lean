import MindsVerif.Lemmas.WalkLift
/-! A schema all of whose rows are right (and which has no container slots) makes every tree `okTree`. -/
namespace MindsVerif.Walk

theorem rowOK_nodeOK (r : ClassRow) (present : List Nat) (h : rowOK r = true) : nodeOK r present = true := by
  simp only [rowOK, Bool.and_eq_true] at h
  obtain ⟨⟨⟨h1, h2⟩, h3⟩, h4⟩ := h
  have h2' := eq_of_beq h2
  simp only [nodeOK, Bool.and_eq_true]
  refine ⟨⟨⟨?_, ?_⟩, ?_⟩, ?_⟩
  · rw [List.all_eq_true] at h1 ⊢
    intro e he
    have := h1 e he
    simp only [Bool.and_eq_true, Bool.not_eq_true'] at this
    simp [this.1, this.2]
  · have := congrArg (List.filter (fun q : Nat × Bool × Bool × Bool => present.contains q.1)) h2'
    rw [List.filter_map, List.filter_map, List.filter_filter] at this
    simp only [Function.comp_def] at this
    rw [beq_iff_eq]
    rw [this]
    congr 1
    apply List.filter_congr
    intro p _
    exact Bool.and_comm _ _
  · rw [List.all_eq_true] at h3 ⊢
    intro p _
    by_cases hlt : p < r.kinds.length
    · exact h3 p (List.mem_range.mpr hlt)
    · have : r.kind p = .name := by
        simp [ClassRow.kind, List.getD_eq_getElem?_getD, List.getElem?_eq_none (Nat.le_of_not_lt hlt)]
      simp [this, Kind.relevant, Kind.required]
  · have h4' : (r.print.filter (fun p => (r.kind p).relevant)).Nodup := by simpa using h4
    have : r.print.filter (fun p => (r.kind p).relevant && present.contains p)
        = (r.print.filter (fun p => (r.kind p).relevant)).filter (fun p => present.contains p) := by
      rw [List.filter_filter]
      apply List.filter_congr
      intro p _
      exact Bool.and_comm _ _
    rw [this]
    simpa using h4'.sublist List.filter_sublist

/-- every row is right and no slot is a container -/
def schemaOK (σ : Schema) : Bool := σ.all (fun r => rowOK r && r.kinds.all (fun k => k != .container))

theorem schemaOK_row (σ : Schema) (h : schemaOK σ = true) (c : Nat) :
    rowOK (σ.row c) = true ∧ ∀ s, ((σ.row c).kind s == Kind.container) = false := by
  have key : ∀ r : ClassRow, (rowOK r && r.kinds.all (fun k => k != .container)) = true →
      rowOK r = true ∧ ∀ s, (r.kind s == Kind.container) = false := by
    intro r hr
    simp only [Bool.and_eq_true] at hr
    refine ⟨hr.1, fun s => ?_⟩
    simp only [ClassRow.kind, List.getD_eq_getElem?_getD]
    cases hs : r.kinds[s]? with
    | none => rfl
    | some k =>
      have hm : k ∈ r.kinds := List.mem_of_getElem? hs
      have := (List.all_eq_true.mp hr.2) k hm
      simpa using this
  simp only [Schema.row]
  by_cases hc : c < σ.length
  · rw [List.getD_eq_getElem?_getD, List.getElem?_eq_getElem hc]
    exact key _ ((List.all_eq_true.mp h) _ (List.getElem_mem hc))
  · rw [List.getD_eq_getElem?_getD, List.getElem?_eq_none (Nat.le_of_not_lt hc)]
    exact key _ (by decide)

mutual
theorem okTree_of_schemaOK (σ : Schema) (h : schemaOK σ = true) : ∀ t, okTree σ t = true
  | .mk c s t ks => by
    simp only [okTree, Bool.and_eq_true]
    exact ⟨rowOK_nodeOK _ _ (schemaOK_row σ h c).1, okKids_of_schemaOK σ h c ks⟩
theorem okKids_of_schemaOK (σ : Schema) (h : schemaOK σ = true) (c0 : Nat) : ∀ ks, okKids σ (σ.row c0) ks = true
  | [] => by simp [okKids]
  | .mk c s t gs :: ks => by
    simp only [okKids, Bool.and_eq_true, (schemaOK_row σ h c0).2 s, Bool.false_eq_true, if_false]
    refine ⟨?_, okKids_of_schemaOK σ h c0 ks⟩
    split
    · exact okTree_of_schemaOK σ h (.mk c s t gs)
    · rfl
end

end MindsVerif.Walk
