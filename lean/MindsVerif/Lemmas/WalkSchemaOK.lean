import MindsVerif.Lemmas.WalkLift
/-! A schema all of whose rows are right makes every tree `okTree`. -/
namespace MindsVerif.Walk

theorem rowOK_nodeOK (r : ClassRow) (present : List Nat) (h : rowOK r = true) : nodeOK r present = true := by
  simp only [rowOK, Bool.and_eq_true] at h
  obtain ⟨⟨⟨h1, h2⟩, h3⟩, h4⟩ := h
  have h2' := eq_of_beq h2
  simp only [nodeOK, Bool.and_eq_true]
  refine ⟨⟨⟨?_, ?_⟩, ?_⟩, ?_⟩
  · rw [List.all_eq_true] at h1 ⊢
    intro e he
    have := h1 e he
    simp only [Bool.and_eq_true, Bool.not_eq_true'] at this
    simp [this.1.1, this.1.2, this.2]
  · have := congrArg (List.filter (fun q : Nat × Bool × Bool => present.contains q.1)) h2'
    rw [List.filter_map, List.filter_map, List.filter_filter] at this
    simp only [Function.comp_def] at this
    rw [beq_iff_eq]
    rw [this]
    congr 1
    apply List.filter_congr
    intro p _
    exact Bool.and_comm _ _
  · rw [List.all_eq_true] at h3 ⊢
    intro p _
    by_cases hlt : p < r.kinds.length
    · exact h3 p (List.mem_range.mpr hlt)
    · have : r.kind p = .name := by
        simp [ClassRow.kind, List.getD_eq_getElem?_getD, List.getElem?_eq_none (Nat.le_of_not_lt hlt)]
      simp [this, Kind.required]
  · have h4' : (r.print.filter (fun p => (r.kind p).required)).Nodup := by simpa using h4
    have : r.print.filter (fun p => (r.kind p).required && present.contains p)
        = (r.print.filter (fun p => (r.kind p).required)).filter (fun p => present.contains p) := by
      rw [List.filter_filter]
      apply List.filter_congr
      intro p _
      exact Bool.and_comm _ _
    rw [this]
    simpa using h4'.sublist List.filter_sublist

def schemaOK (σ : Schema) : Bool := σ.all rowOK

theorem schemaOK_row (σ : Schema) (h : schemaOK σ = true) (c : Nat) : rowOK (σ.row c) = true := by
  simp only [Schema.row]
  by_cases hc : c < σ.length
  · rw [List.getD_eq_getElem?_getD, List.getElem?_eq_getElem hc]
    exact (List.all_eq_true.mp h) _ (List.getElem_mem hc)
  · rw [List.getD_eq_getElem?_getD, List.getElem?_eq_none (Nat.le_of_not_lt hc)]
    decide

mutual
theorem okTree_of_schemaOK (σ : Schema) (h : schemaOK σ = true) : ∀ t, okTree σ t = true
  | .mk c s t ks => by
    simp only [okTree, Bool.and_eq_true]
    exact ⟨rowOK_nodeOK _ _ (schemaOK_row σ h c), okTreeL_of_schemaOK σ h ks⟩
theorem okTreeL_of_schemaOK (σ : Schema) (h : schemaOK σ = true) : ∀ ks, okTreeL σ ks = true
  | [] => by simp [okTreeL]
  | k :: ks => by
    simp only [okTreeL, Bool.and_eq_true]
    exact ⟨okTree_of_schemaOK σ h k, okTreeL_of_schemaOK σ h ks⟩
end

end MindsVerif.Walk
