import MindsVerif.Lemmas.WalkInd
/-! Two generic facts about every walk (no hypothesis on the schema):
* `trace_all`: the log is a faithful trace — the visitor's answers and the final state are those of
  applying the visitor to the logged visits one after the other;
* `same_visits`: which nodes are visited (and with which flags) depends on the visitor only through
  *whether* it answers with a replacement. -/
namespace MindsVerif.Walk
variable {S S' : Type}

theorem All2.forall_mem {α β : Type} {R : α → β → Prop} {P : α → Prop} {as : List α} {bs : List β}
    (h : All2 R as bs) (hP : ∀ a b, R a b → P a) : ∀ a ∈ as, P a := by
  induction h with
  | nil => intro a ha; cases ha
  | cons hab _ ih =>
    intro a ha
    cases ha with
    | head => exact hP _ _ hab
    | tail _ hm => exact ih a hm

/-! ### faithful trace -/

inductive Trace (cb : Cb S) : S → List Visit → S → Prop
  | nil (s : S) : Trace cb s [] s
  | cons {s s1 s2 : S} {v : Visit} {l : List Visit} :
      cb s v.node v.isTable v.isTarget v.pq = (v.ans, s1) → Trace cb s1 l s2 → Trace cb s (v :: l) s2

theorem Trace.append {cb : Cb S} {s s1 s2 : S} {l1 l2 : List Visit}
    (h1 : Trace cb s l1 s1) (h2 : Trace cb s1 l2 s2) : Trace cb s (l1 ++ l2) s2 := by
  induction h1 with
  | nil => exact h2
  | cons hc _ ih => exact .cons hc (ih h2)

def TrOK (cb : Cb S) (f : Tr S) : Prop := ∀ a b pq st, Trace cb st (f a b pq st).log (f a b pq st).st
def ViaOK (cb : Cb S) (g : Nat → Tr S) : Prop := ∀ q, TrOK cb (g q)

theorem runEntry_trace (cb : Cb S) (e : Entry) (pq' : Nat) :
    ∀ (its : List (Item S)), (∀ it ∈ its, TrOK cb it.tr ∧ ViaOK cb it.via) → ∀ cur st,
      Trace cb st (runEntry e pq' its cur st).2.2 (runEntry e pq' its cur st).2.1
  | [], _, cur, st => by cases cur <;> simp [runEntry] <;> exact .nil _
  | it :: its, h, [], st => by simp [runEntry]; exact .nil _
  | it :: its, h, c :: cs, st => by
    have hit := h it (List.mem_cons_self ..)
    have ih := runEntry_trace cb e pq' its (fun x hx => h x (List.mem_cons_of_mem _ hx)) cs
    simp only [runEntry]
    split
    · cases hv : e.via with
      | none => exact (hit.1 _ _ _ _).append (ih _)
      | some q => exact (hit.2 q _ _ _ _).append (ih _)
    · exact ih _

theorem viaRun_trace (cb : Cb S) (q : Nat) (a b : Bool) (pq : Nat) :
    ∀ (its : List (Item S)), (∀ it ∈ its, TrOK cb it.tr ∧ ViaOK cb it.via) → ∀ gs st,
      Trace cb st (viaRun q a b pq its gs st).2.2.2 (viaRun q a b pq its gs st).2.2.1
  | [], _, gs, st => by cases gs <;> simp [viaRun] <;> exact .nil _
  | it :: its, h, [], st => by simp [viaRun]; exact .nil _
  | it :: its, h, g :: gs, st => by
    have hit := h it (List.mem_cons_self ..)
    have ih := viaRun_trace cb q a b pq its (fun x hx => h x (List.mem_cons_of_mem _ hx)) gs
    simp only [viaRun]
    split
    · exact hit.1 _ _ _ _
    · exact ih _

theorem runRow_trace (cb : Cb S) (c pq : Nat) (its : List (Item S))
    (h : ∀ it ∈ its, TrOK cb it.tr ∧ ViaOK cb it.via) :
    ∀ (es : List Entry) cur st,
      Trace cb st (runRow cb c pq es its cur st).2.2 (runRow cb c pq es its cur st).2.1
  | [], cur, st => by simp [runRow]; exact .nil _
  | e :: es, cur, st => by
    simp only [runRow]
    split
    · cases hcb : cb st none e.isTable e.isTarget (e.pqFor c pq) with
      | mk r st' =>
        cases r with
        | none => exact .append (.cons (v := ⟨none, _, _, _, none⟩) hcb (.nil _)) (runRow_trace cb c pq its h es _ _)
        | some r => exact .append (.cons (v := ⟨none, _, _, _, some r⟩) hcb (.nil _)) (runRow_trace cb c pq its h es _ _)
    · exact (runEntry_trace cb e _ its h _ _).append (runRow_trace cb c pq its h es _ _)

/-- the log of every traversal is a faithful trace of the visitor -/
theorem trace_all (σ : Schema) (cb : Cb S) : ∀ t, TrOK cb (tr σ cb t) := by
  intro t
  refine (tr_ind σ cb (fun _ f => TrOK cb f) (fun _ g => ViaOK cb g) ?_ t).1
  intro c s t ks its h
  have hm : ∀ it ∈ its, TrOK cb it.tr ∧ ViaOK cb it.via :=
    h.forall_mem (fun _ _ hh => ⟨hh.2.1, hh.2.2⟩)
  refine ⟨?_, ?_⟩
  · intro a b pq st
    simp only [step]
    cases hcb : cb st (some (.mk c s t ks)) a b pq with
    | mk r st' =>
      cases r with
      | some x => exact .cons (v := ⟨_, _, _, _, some x⟩) hcb (.nil _)
      | none => exact .cons (v := ⟨_, _, _, _, none⟩) hcb (runRow_trace cb c pq its hm _ _ _)
  · intro q a b pq st
    simp only [viaStep]
    exact viaRun_trace cb q a b pq its hm ks st

end MindsVerif.Walk
