import MindsVerif.Model.OPM
/-!
The VALUE the semantic actions of the operator rules build (hand model of the actions in the three grammars and of the
node constructors in `mindsdb_sql/parser/ast/select/operation.py`), and how the harness reads such a value back as an
operator tree.  Core Lean only.

* actions:  `expr : expr OP expr` ↦ `BinaryOperation(op=p[1], args=(p[0], p[2]))` (two-token spellings:
  `op = p[1] + ' ' + p[2]`), `expr : OP expr` ↦ `UnaryOperation(op=p[0], args=(p.expr,))`,
  `expr : expr BETWEEN expr AND expr` ↦ `BetweenOperation(args=(p[0], p[2], p[4]))`,
  `expr : LPAREN expr RPAREN` ↦ the SAME node with `parentheses = True` (so `((a))` carries one flag);
* constructors: `Ctors` — whatever `BinaryOperation(...)`, `UnaryOperation(...)`, `BetweenOperation(...)` return.
  `Faithful` = the node holds exactly the operator and the arguments it was given, in that order, not parenthesised.
  That is an ASSUMPTION about Python code; it is pinned by the probing translator `tools/extract/x_ctorpin.py`
  (`Gen/CtorPin.lean`: constructions of chains up to a depth beyond every size the checks parse, observed by object
  identity) and the kernel-decided obligation `ctor_pin` in `Props/C03.lean`.
-/
namespace MindsVerif.AstBuild
open MindsVerif.OPM

inductive Ast where
  | leaf (n : Nat) (paren : Bool)
  | bin (op : Nat) (l r : Ast) (paren : Bool)
  | un (op : Nat) (e : Ast) (paren : Bool)
  | btw (x y z : Ast) (paren : Bool)
  deriving DecidableEq, Repr

/-- the node constructors as the actions call them -/
structure Ctors where
  mkBin : Nat → Ast → Ast → Ast
  mkUn : Nat → Ast → Ast
  mkBtw : Ast → Ast → Ast → Ast

def Ctors.Faithful (K : Ctors) : Prop :=
  (∀ o l r, K.mkBin o l r = .bin o l r false) ∧ (∀ o e, K.mkUn o e = .un o e false) ∧
  (∀ x y z, K.mkBtw x y z = .btw x y z false)

def faithful : Ctors := ⟨fun o l r => .bin o l r false, fun o e => .un o e false, fun x y z => .btw x y z false⟩

theorem faithful_is : faithful.Faithful := ⟨fun _ _ _ => rfl, fun _ _ => rfl, fun _ _ _ => rfl⟩

/-- `p.expr.parentheses = True` -/
def setParen : Ast → Ast
  | .leaf n _ => .leaf n true
  | .bin o l r _ => .bin o l r true
  | .un o e _ => .un o e true
  | .btw x y z _ => .btw x y z true

/-- the value the actions compute for a parse with operator tree `e` (bottom-up, as the LR driver calls them) -/
def act (K : Ctors) : Expr → Ast
  | .atom n => .leaf n false
  | .bin o l r => K.mkBin o (act K l) (act K r)
  | .pre o e => K.mkUn o (act K e)
  | .btw x y z => K.mkBtw (act K x) (act K y) (act K z)
  | .paren e => setParen (act K e)

/-- reading a value as an operator tree (`from_ast` of the harness: `parentheses` ↦ a `paren` node) -/
def read : Ast → Expr
  | .leaf n p => wrapIf p (.atom n)
  | .bin o l r p => wrapIf p (.bin o (read l) (read r))
  | .un o e p => wrapIf p (.pre o (read e))
  | .btw x y z p => wrapIf p (.btw (read x) (read y) (read z))

/-- parentheses directly around parentheses collapse (one flag on the node) -/
def norm : Expr → Expr
  | .atom n => .atom n
  | .bin o l r => .bin o (norm l) (norm r)
  | .pre o e => .pre o (norm e)
  | .btw x y z => .btw (norm x) (norm y) (norm z)
  | .paren e =>
    match norm e with
    | .paren e' => .paren e'
    | e' => .paren e'

/-! ### an UNFAITHFUL constructor (the shape of a "re-balance deep AND / OR chains" change): when the left operand is
an un-parenthesised binary node whose left spine is at least `limit` deep, the chain is rotated, whatever the inner
operator is — `(x o' y) o r` becomes `x o (y o r)` -/

def spineDepth : Ast → Nat
  | .bin _ l _ false => spineDepth l + 1
  | _ => 0

def rotating (limit : Nat) : Ctors where
  mkBin := fun o l r =>
    match l with
    | .bin _ x y false => bif Nat.ble limit (spineDepth l) then .bin o x (.bin o y r false) false else .bin o l r false
    | _ => .bin o l r false
  mkUn := fun o e => .un o e false
  mkBtw := fun x y z => .btw x y z false

/-! ### the pin: observations of the live constructors (`Gen/CtorPin.lean`) -/

/-- one probe of a live constructor: a chain of `depth` nodes of class `cls` (0 `BinaryOperation`, 1 `UnaryOperation`,
2 `BetweenOperation`) with operator(s) `op` in shape `shape` was built one node at a time; `firstBad` is the first depth at
which the fresh node did not hold exactly the given operator / argument objects, was parenthesised or aliased, or a
child had changed (0 = never) -/
structure CtorObs where
  cls : Nat
  op : String
  shape : String
  depth : Nat
  firstBad : Nat
  deriving Repr

/-- no probe deviated, every probe went at least `minDepth` deep, and every `(class, operator)` of `need` was probed -/
def ctorPinOK (minDepth : Nat) (need : List (Nat × String)) (rows : List CtorObs) : Bool :=
  rows.all (fun r => r.firstBad == 0 && Nat.ble minDepth r.depth) &&
  need.all (fun c => rows.any (fun r => r.cls == c.1 && r.op == c.2))

end MindsVerif.AstBuild
