import MindsVerif.Model.LR
/-! `MindsDBParser._can_take` and the stored `expected_tokens` over the LR model.  Core Lean only. -/
namespace MindsVerif.LR

/-- `_can_take(token_name)`: replay the pending reductions for look-ahead `t` on a copy of the state
stack until a shift / accept (`True`) or a missing action (`False`).  The Python loop has no bound;
the model has fuel (`false` when it runs out).  The stack carries its trees only so that `doReduce`
can be reused — the Python code looks at the states alone. -/
def canTake (T : Tables) (t : Nat) : Nat → Stack → Bool
  | 0, _ => false
  | fuel + 1, st =>
    match T.rows.get? (topState st) with
    | none => false
    | some row =>
      match (match row.dflt with | some p => Act.reduce p | none => row.action t) with
      | .none => false
      | .shift _ => true
      | .accept => true
      | .reduce p =>
        match doReduce T { initCfg [] with st := st } p with
        | .inl c => canTake T t fuel c.st
        | .inr _ => false

/-- the stack at the moment the first syntax error is recorded -/
def errStack (T : Tables) : Nat → Cfg → Option Stack
  | 0, _ => none
  | fuel + 1, c =>
    match step T .drain false c with
    | .inl c' => if c.err.isNone && c'.err.isSome then some c.st else errStack T fuel c'
    | .inr (.none_ (some _) _) => if c.err.isNone then some c.st else none
    | .inr _ => none

/-- `expected_tokens` as stored by `MindsDBParser.error`: the keys of the action row of the error
state that `_can_take` keeps -/
def keptExpected (T : Tables) (nT : Nat) (toks : List Nat) : List Nat :=
  match errStack T (200 * (toks.length + 2) + 1000) (initCfg toks) with
  | none => []
  | some st =>
    match T.rows.get? (topState st) with
    | none => []
    | some row => (row.keys nT).filter (fun t => canTake T t 1000 st)

end MindsVerif.LR
