import MindsVerif.Model.PlanQ
/-
M8 (catalog part) — the planner's look-ups into the CALLER'S CATALOG, as total functions over every shape a catalog
record can have.

`plan_query(query, integrations=…, predictor_metadata=…)` receives dictionaries written by the caller.  The planner
reads a handful of their keys; each read is a place where a key that is absent, `None`, empty or of another type than
the happy path expects either is handled, or is refused with `PlanningException`, or surfaces as
`KeyError` / `AttributeError` / `TypeError` (an *internal* error, which C09 excludes).  This file transcribes those reads

* `QueryPlanner.__init__` (query_planner.py): registration of one `predictor_metadata` entry — list form, legacy dict
  with a plain name, legacy dict with a dotted name — and of one integration given as a dict (`integration['type']`);
* `QueryPlanner.get_predictor_namespace_and_name_from_identifier` (`info['integration_name']`) and the second look-up
  `get_predictor(<namespace>.<name>)` of the time-series planner;
* `PlanJoin.is_timeseries` (`.get('timeseries')` truthiness) — which planner a `table JOIN model` query goes to;
* `PlanJoinTSPredictorQuery.plan_timeseries_predictor`: `order_by_column`, `group_by_columns`, `window`,
  `allowed_columns`, `validate_ts_where_condition`, `find_time_filter`, one or two integration selects, grouped or not;
* `PlanJoinTablesQuery.process_predictor`: `.get('timeseries')`, `.get('to_predict')`;
* `plan_select_from_predictor` (namespace read; `disambiguate_predictor_column_identifier` on a `None` namespace),

over records whose values range over `Val` (None, booleans, numbers, strings, lists of strings, `{}`) or are absent, and
then hands over to the skeleton planners of `Model/PlanQ.lean` — i.e. here the catalog look-ups CHOOSE the constructor
of `Sel` that `PlanQ` leaves to the generator.

`CatFix` has one flag per repair of round 5 — e4d7787 (`ts`), 08911cf (`target`), d8a610a (`ns`), 88dbd1a (`itype`), formerly
proposed as `fixes/C09_r5_1…4.diff`.  `CatFix.live` (all flags `true`) is the code as it is; `CatFix.former` (all `false`) is
the code BEFORE those commits, kept for the regression theorems only.  Which variant the library follows is pinned on every
run by the correspondence stream `catalog` of `tools/props/c09.py` (obligation `pin:catalog-lookups-variant-live`).
Core Lean only; names are lists of character codes (as in `PlanQ`).
-/
namespace MindsVerif.Plan

/-- a value stored under a key of a catalog record (what JSON-like settings can hold) -/
inductive Val where
  | null
  | bool (b : Bool)
  | num (n : Nat)
  | str (s : Name)
  | strs (l : List Name)
  /-- the empty dict `{}` -/
  | dict
  deriving DecidableEq, Repr

/-- keys of a predictor-metadata record that the planner reads (`other` = any further key) -/
inductive Key where
  | integrationName | timeseries | orderBy | groupBy | window | toPredict
  | other (n : Nat)
  deriving DecidableEq, Repr

/-- a record: a Python dict; an absent key has no pair (the first pair of a key counts) -/
abbrev Rec := List (Key × Val)

def Rec.get : Rec → Key → Option Val
  | [], _ => none
  | (k', v) :: rest, k => if k' = k then some v else Rec.get rest k

/-- `dict(record, key=value)` -/
def Rec.set (r : Rec) (k : Key) (v : Val) : Rec := (k, v) :: r

/-- Python truthiness of `record.get(key)` -/
def truthy : Option Val → Bool
  | none => false
  | some .null => false
  | some (.bool b) => b
  | some (.num n) => n != 0
  | some (.str s) => !s.isEmpty
  | some (.strs l) => !l.isEmpty
  | some .dict => false

def keyError : Err := .internal "KeyError"
def attributeError : Err := .internal "AttributeError"
def typeError : Err := .internal "TypeError"

/-- which of the round-5 repairs are in the code (`true` = present, as in the library today; `false` = the former code) -/
structure CatFix where
  /-- e4d7787: the settings of a time-series model are validated (`PlanningException`) -/
  ts : Bool
  /-- 08911cf: `to_predict` that is not a column name (empty list, flag, number) means "no target" -/
  target : Bool
  /-- d8a610a: `integration_name: None` = key absent; a dotted legacy name supplies its project -/
  ns : Bool
  /-- 88dbd1a: an integration dict without `type` is a data integration -/
  itype : Bool
  deriving DecidableEq, Repr

/-- the code as it is -/
def CatFix.live : CatFix := ⟨true, true, true, true⟩
/-- the code before the round-5 repairs (history) -/
def CatFix.former : CatFix := ⟨false, false, false, false⟩

/-! ### `QueryPlanner.__init__` -/

/-- how `predictor_metadata` names the entry -/
inductive Form where
  /-- `[{'name': …, …}]` -/
  | list
  /-- `{'<name>': {…}}` -/
  | legacy
  /-- `{'<project>.<name>': {…}}` -/
  | dotted
  deriving DecidableEq, Repr

/-- registration of one entry: the record stored in `self.predictor_info` (under the key built from the project and
the name).  `proj` = the project part of a dotted name; `pns` = `self.predictor_namespace`.
```
if predictor.get('integration_name') is not None: integration_name = predictor['integration_name']
else: integration_name = self.predictor_namespace; predictor = dict(predictor, integration_name=integration_name)
…; _projects.add(integration_name.lower())
``` (list form, and legacy form when `'.' not in name`); a dotted legacy entry whose `integration_name` is absent / `None`
gets the project part of its name.  FORMER code (`fx.ns = false`): the test was `'integration_name' in predictor`, and a dotted
legacy entry was stored as it was. -/
def register (fx : CatFix) (form : Form) (proj pns : Name) (r : Rec) : Except Err Rec :=
  match form with
  | .dotted =>
    if fx.ns then
      match r.get .integrationName with
      | none | some .null => .ok (r.set .integrationName (.str proj))
      | some _ => .ok r
    else .ok r
  | _ =>
    match r.get .integrationName with
    | none => .ok (r.set .integrationName (.str pns))
    | some .null => if fx.ns then .ok (r.set .integrationName (.str pns)) else .error attributeError
    | some (.str _) => .ok r
    | some _ => .error attributeError

/-- keys of an integration dict -/
inductive IKey where
  | type | classType | other (n : Nat)
  deriving DecidableEq, Repr

abbrev IRec := List (IKey × Val)

def IRec.get : IRec → IKey → Option Val
  | [], _ => none
  | (k', v) :: rest, k => if k' = k then some v else IRec.get rest k

/-- `"data"` -/
def nameData : Name := [100, 97, 116, 97]

/-- `if integration.get('type', 'data') != 'data': _projects.add(name)` (FORMER code: `integration['type']`): is the
integration dict a project? -/
def integrationIsProject (fx : CatFix) (r : IRec) : Except Err Bool :=
  match r.get .type with
  | none => if fx.itype then .ok false else .error keyError
  | some (.str s) => .ok (s != nameData)
  | some _ => .ok true

/-! ### look-ups on a registered record (`info = get_predictor(identifier)`) -/

/-- `namespace = info['integration_name']` (get_predictor_namespace_and_name_from_identifier) -/
def nsOf (info : Rec) : Except Err Val :=
  match info.get .integrationName with
  | none => .error keyError
  | some v => .ok v

/-- the time-series planner looks the model up again under `<namespace>.<name>`: found iff the namespace is the
project the entry is registered under (compared in lower case) -/
def relookupOK (proj : Name) : Val → Bool
  | .str s => lowerName s == lowerName proj
  | _ => false

/-- the settings the time-series planner works with -/
structure TSSettings where
  order : Name
  groups : List Name
  deriving DecidableEq, Repr

/-- `[i.lower() for i in group_by]` when `group_by` is a string: its characters -/
def charsOf (s : Name) : List Name := s.map (fun c => [c])

/-- e4d7787: `group_by_columns` absent or `None` = ungrouped; a list of names; anything else is refused -/
def groupsRepaired : Option Val → Except Err (List Name)
  | none => .ok []
  | some .null => .ok []
  | some (.strs l) => .ok l
  | some _ => .error (.planning "group_by_columns must be a list of column names")

/-- the reads at the top of `plan_timeseries_predictor`.  The live code (`fx.ts = true`) reads with `.get` and validates;
the FORMER code (`fx.ts = false`) was:
```
order = md['order_by_column']; group = md['group_by_columns']; if group is None: group = []; window = md['window']
… allowed_columns = [order.lower()]; if len(group) > 0: allowed_columns += [i.lower() for i in group]
``` -/
def tsSettings (fx : CatFix) (info : Rec) : Except Err TSSettings :=
  if fx.ts then
    match info.get .orderBy with
    | some (.str o) =>
      match groupsRepaired (info.get .groupBy) with
      | .error e => .error e
      | .ok g =>
        match info.get .window with
        | none => .error (.planning "no window setting")
        | some _ => .ok ⟨o, g⟩
    | _ => .error (.planning "no usable order_by_column setting")
  else
    match info.get .orderBy, info.get .groupBy, info.get .window with
    | none, _, _ => .error keyError
    | some _, none, _ => .error keyError
    | some _, some _, none => .error keyError
    | some o, some g, some _ =>
      match o with
      | .str o =>
        match g with
        | .null => .ok ⟨o, []⟩
        | .strs l => .ok ⟨o, l⟩
        | .str s => .ok ⟨o, charsOf s⟩
        | .dict => .ok ⟨o, []⟩
        | .bool _ | .num _ => .error typeError            -- len(group)
      | _ => .error attributeError                          -- order.lower()

/-- `predict_target` of `process_predictor`.  Live (`fx.target = true`): an empty list or anything that is not a string means
"no known target".  FORMER code:
```
t = info.get('to_predict'); if isinstance(t, list) and len(t) > 0: t = t[0]
if t is not None: t = t.lower()
``` -/
def predictTarget (fx : CatFix) (info : Rec) : Except Err (Option Name) :=
  match info.get .toPredict with
  | none | some .null => .ok none
  | some (.str s) => .ok (some (lowerName s))
  | some (.strs (s :: _)) => .ok (some (lowerName s))
  | some _ => if fx.target then .ok none else .error attributeError

/-! ### the catalog-sensitive statements -/

/-- operator of the WHERE condition on the first column -/
inductive TF where
  | none | latest | gt | ge | eq | between | lt
  deriving DecidableEq, Repr

/-- `SELECT <* | tb.y, ta.x> FROM table ta JOIN model tb [WHERE ta.<col> <tf> … [AND ta.<gcol> = 1]] [LIMIT n]`
(or the model written first) -/
structure JoinQ where
  col : Name
  tf : TF
  gcol : Option Name
  limit : Bool
  star : Bool
  modelFirst : Bool
  deriving Repr

/-- columns of the WHERE conditions, in order -/
def JoinQ.cols (q : JoinQ) : List Name :=
  match q.tf with
  | .none => []
  | _ => q.col :: (match q.gcol with | some g => [g] | none => [])

/-- `MultipleSteps` of two integration selects? (`BETWEEN`, `>` / `>=` a date) -/
def twoSelects : TF → Bool
  | .between | .gt | .ge => true
  | _ => false

/-- `PlanJoinTSPredictorQuery.plan` for `q` with the registered record `info` -/
def planTSJoin (fx : CatFix) (proj : Name) (info : Rec) (q : JoinQ) : Planner :=
  match nsOf info with
  | .error e => pFail e
  | .ok ns =>
    -- plan_timeseries_predictor: `predictor_metadata = self.planner.get_predictor(predictor)`, then the reads
    if !relookupOK proj ns then pFail (if fx.ts then attributeError else typeError)
    else
      match tsSettings fx info with
      | .error e => pFail e
      | .ok s =>
        let allowed := lowerName s.order :: s.groups.map lowerName
        -- validate_ts_where_condition
        if !(q.cols.all (fun c => allowed.contains (lowerName c))) then pFail (.planning "column not allowed in WHERE")
        else
          -- find_time_filter
          let hits := q.cols.filter (fun c => lowerName c == lowerName s.order)
          if hits.length > 1 then pFail (.planning "only one filter by the order_by column")
          else
            -- the time filter is the first condition (operator `q.tf`) or the second conjunct (`= 1`: one select)
            let timed := match q.cols with | c :: _ => lowerName c == lowerName s.order | [] => false
            planTS (!s.groups.isEmpty) (timed && twoSelects q.tf) false q.limit q.star []

/-- the join tree `table JOIN model` / `model JOIN table` for the join planner -/
def joinSel (q : JoinQ) : Sel :=
  let t := Sel.jTable false [] []
  let m := Sel.jModel false false
  .joinTables (if q.modelFirst then .jJoin m t else .jJoin t m) (q.tf != .none || q.limit || !q.star) []

/-- `PlanJoin.plan` on `table JOIN model`: `is_timeseries` sends it to the time-series planner, otherwise
`PlanJoinTablesQuery` (whose `process_predictor` reads `to_predict`) -/
def planModelJoin (fx : CatFix) (proj : Name) (info : Rec) (q : JoinQ) : Planner :=
  if truthy (info.get .timeseries) then planTSJoin fx proj info q
  else
    match predictTarget fx info with
    | .error e => pFail e
    | .ok _ => (den true (joinSel q) []).1

/-- `table JOIN model JOIN table2 ON …`: the join planner; a time-series model is refused there -/
def planJoin3 (fx : CatFix) (info : Rec) : Planner :=
  let ts := truthy (info.get .timeseries)
  let sel := Sel.joinTables (.jJoin (.jJoin (.jTable false [] []) (.jModel ts false)) (.jTable false [0] [])) false []
  if ts then (den true sel []).1
  else
    match predictTarget fx info with
    | .error e => pFail e
    | .ok _ => (den true sel []).1

/-- `SELECT <* | y> FROM model WHERE <x = 1 | 1 = 0>` (`plan_select_from_predictor`) -/
def planModelSelect (info : Rec) (columnsOnly star : Bool) : Planner :=
  match nsOf info with
  | .error e => pFail e
  | .ok ns =>
    -- disambiguate_predictor_column_identifier(target, predictor) prints the predictor's parts
    if !columnsOnly && !star && ns == .null then pFail typeError
    else (den true (.predictor columnsOnly [] star []) []).1

/-- the statements whose plan depends on the shape of the model's catalog record -/
inductive CQ where
  | modelJoin (q : JoinQ)
  | join3
  | modelSelect (columnsOnly star : Bool)
  deriving Repr

def planCatInfo (fx : CatFix) (proj : Name) (info : Rec) : CQ → Planner
  | .modelJoin q => planModelJoin fx proj info q
  | .join3 => planJoin3 fx info
  | .modelSelect co star => planModelSelect info co star

/-- a statement planned against a catalog whose entry for the model is `r`, given in form `form`:
`QueryPlanner(…)` (registration) followed by `from_query` -/
def planCat (fx : CatFix) (form : Form) (proj pns : Name) (r : Rec) (q : CQ) : Planner :=
  match register fx form proj pns r with
  | .error e => pFail e
  | .ok info => planCatInfo fx proj info q

/-- `SELECT * FROM <integration>.<table>` against a catalog whose integration is the dict `r` (plus `name`):
the constructor reads `type`; the statement is then shipped whole to the integration -/
def planIntegration (fx : CatFix) (r : IRec) : Planner :=
  match integrationIsProject fx r with
  | .error e => pFail e
  | .ok _ => (den true .whole []).1

end MindsVerif.Plan
