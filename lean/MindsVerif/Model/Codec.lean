import MindsVerif.Model.Lex
/-!
# The literal codec of `docs/proposed_fixes/C04_2.diff` (all three dialects)

* `unescape q text` transcribes `mindsdb_sql.parser.utils.unescape_string(text, quote)`: one left-to-right scan over
  the text between the delimiters — backslash + (`\` | `'` | `"`) ↦ that character, `''` ↦ `'` in single-quoted
  literals, everything else (also a backslash before any other character, or at the end) is kept.
* all three lexers use `'(?:\\.|[^'])*(?:''(?:\\.|[^'])*)*'` and `"(?:\\.|[^"])*"` (`Lex.mQuote`, `Lex.mDQuote`);
  tokens keep their source text; `quote_string` / `dquote_string` return `unescape_string(p[0][1:-1], quote)`.
* `constantToString` transcribes the repaired `Constant.get_string`:
  `self.value.replace('\\', '\\\\').replace("'", "\\'")` between quotes.

The check compares these definitions with the live code whenever the live tree has `utils.unescape_string`
(i.e. once the fix has landed, or with `VERIF_REPO` pointing to a patched tree); until then they are the model of the
*proposed* code and the theorems about them say what the fix achieves.
-/
namespace MindsVerif.Codec
open MindsVerif.Py MindsVerif.Lex

def unescape (q : Char) : List Char → List Char
  | [] => []
  | [c] => [c]
  | c :: d :: t =>
    if c = '\\' ∧ (d = '\\' ∨ d = '\'' ∨ d = '"') then d :: unescape q t
    else if c = '\'' ∧ q = '\'' ∧ d = '\'' then '\'' :: unescape q t
    else c :: unescape q (d :: t)

/-- lexer + grammar action on a text that starts with a string literal (any dialect): value and rest -/
def readString (s : List Char) : Option (List Char × List Char) :=
  match s with
  | '\'' :: t => (mQuote t).map fun (b, r) => (unescape '\'' b, r)
  | '"' :: t => (mDQuote t).map fun (b, r) => (unescape '"' b, r)
  | _ => none

def constantToString (v : List Char) : List Char :=
  '\'' :: replace ['\''] ['\\', '\''] (replace ['\\'] ['\\', '\\'] v) ++ ['\'']

end MindsVerif.Codec
