import MindsVerif.Model.Codec
/-!
# The second string printer of the library: `json_to_sql` (mindsdb_sql/parser/utils.py)

Raw Python strings held in the `USING` / `PARAMETERS` / `SET` dictionaries of the MindsDB statements (and in lists /
dicts nested in them) are not `Constant` nodes; `params_to_string` / `json_to_sql` print them as a DOUBLE-quoted literal:

    '"' + value.replace('\\', '\\\\').replace('"', '\\"') + '"'

which the grammar reads back through `json_value : string`, `string : dquote_string` = `unescape_string(p[0][1:-1], '"')`
(`Codec.readString` on a text starting with `"`).
-/
namespace MindsVerif.Codec
open MindsVerif.Py MindsVerif.Lex

def jsonStrToSql (v : List Char) : List Char :=
  '"' :: replace ['"'] ['\\', '"'] (replace ['\\'] ['\\', '\\'] v) ++ ['"']

end MindsVerif.Codec
