import MindsVerif.Model.Heap
import MindsVerif.Model.PyEq
/-! Probed copy rows (Tie B): what `copy.deepcopy` did to each attribute of each class on the exemplars. -/
namespace MindsVerif.CopyRow

inductive St where
  /-- immutable value, same in the copy -/
  | atom
  /-- a distinct mutable object / container in the copy -/
  | fresh
  /-- the *same* mutable object (by identity) in original and copy -/
  | shared
  /-- the copy has no such attribute -/
  | dropped
  /-- different value, type or length in the copy -/
  | changed
  /-- the copy has an attribute the original lacks -/
  | added
  deriving DecidableEq, Repr

structure Row where
  cls : String
  attr : String
  seen : List St
  sharedTypes : List String
  deriving Repr

/-- the one listed finding: `Identifier.parts` elements that are `Star` objects are shared -/
def starException (r : Row) : Bool :=
  r.cls == "Identifier" && r.attr == "parts" && r.sharedTypes.all (· == "Star")

def rowOk (r : Row) : Bool :=
  r.seen.all (fun s => s == .atom || s == .fresh || (s == .shared && starException r))

/-- Φ18: no attribute of any probed class is shared, dropped, changed or added by a deep copy,
except the listed finding -/
def phi18 (rows : List Row) : Bool := rows.all rowOk

/-- the side condition `parenAtomic` of the custom hook on the exemplars: `Identifier.parentheses` only ever holds atoms -/
def parenRowOk (rows : List Row) : Bool :=
  rows.all (fun r => !(r.cls == "Identifier" && r.attr == "parentheses") || r.seen.all (· == .atom))

/-- the attributes `Identifier.__deepcopy__` carries over are all the attributes parser-built Identifiers have -/
def identAttrsOk (rows : List Row) : Bool :=
  rows.all (fun r => r.cls != "Identifier" || ["alias", "parentheses", "parts", "sub_select"].contains r.attr)

end MindsVerif.CopyRow
