/-!
# Specification: what a SQL string literal denotes (independent of the library code)

A literal delimited by `q` is the opening `q`, a sequence of *items*, and the closing `q`:

* `esc c` — a backslash followed by any character `c` (source `\c`),
* `qq`   — the doubled delimiter (source `qq`), only for single-quoted literals (`dbl = true`),
* `ch c` — any other single character (`c ≠ \`, `c ≠ q`).

It denotes the concatenation of the item values: `\'`→`'`, `\"`→`"`, `\\`→`\`, every other `\c` pair is
kept as the two characters `\c` (the library defines no further escapes, and this is the weakest reading
under which the printer clause of C04 is satisfiable), `qq`→`q`, `ch c`→`c`.
`scan` is the literal grammar as a deterministic left-to-right reader (maximal: a closing delimiter
followed by another delimiter is a doubled delimiter when `dbl`).

This file is part of the trusted base (DESIGN.md §8, "specification readings").
-/
namespace MindsVerif.Denote

inductive Item where
  | ch (c : Char)
  | esc (c : Char)
  | qq
  deriving DecidableEq, Repr

/-- source text of an item -/
def Item.src (q : Char) : Item → List Char
  | .ch c => [c]
  | .esc c => ['\\', c]
  | .qq => [q, q]

/-- denoted text of an item -/
def Item.val (q : Char) : Item → List Char
  | .ch c => [c]
  | .esc c => if c = '\'' ∨ c = '"' ∨ c = '\\' then [c] else ['\\', c]
  | .qq => [q]

def srcBody (q : Char) : List Item → List Char
  | [] => []
  | i :: r => i.src q ++ srcBody q r

def denote (q : Char) : List Item → List Char
  | [] => []
  | i :: r => i.val q ++ denote q r

/-- whole source text of the literal -/
def srcLit (q : Char) (items : List Item) : List Char := q :: srcBody q items ++ [q]

/-- well-formed item: a plain character is neither a backslash nor the delimiter; `qq` only if `dbl` -/
def Item.wf (q : Char) (dbl : Bool) : Item → Bool
  | .ch c => c != '\\' && c != q
  | .esc _ => true
  | .qq => dbl

inductive St where
  | normal | afterBs | afterQ
  deriving DecidableEq

/-- the literal reader, started behind the opening delimiter: `some (items, rest)` when the literal is
terminated, `none` when the text ends inside it -/
def scanGo (q : Char) (dbl : Bool) : St → List Char → Option (List Item × List Char)
  | .normal, [] => none
  | .normal, c :: t =>
    if c = '\\' then scanGo q dbl .afterBs t
    else if c = q then (if dbl then scanGo q dbl .afterQ t else some ([], t))
    else (scanGo q dbl .normal t).map fun (is, r) => (.ch c :: is, r)
  | .afterBs, [] => none
  | .afterBs, c :: t => (scanGo q dbl .normal t).map fun (is, r) => (.esc c :: is, r)
  | .afterQ, [] => some ([], [])
  | .afterQ, c :: t =>
    if c = q then (scanGo q dbl .normal t).map fun (is, r) => (.qq :: is, r)
    else some ([], c :: t)

/-- read one literal at the head of `s` (`s` must start with the delimiter) -/
def scan (q : Char) (dbl : Bool) : List Char → Option (List Item × List Char)
  | [] => none
  | c :: t => if c = q then scanGo q dbl .normal t else none

/-- the two known-finding classes of the MindsDB literal decoder, as predicates on the spec reading -/
def hasEscBackslash (items : List Item) : Bool := items.contains (.esc '\\')

/-- an item that denotes the delimiter -/
def Item.isQ (q : Char) : Item → Bool
  | .ch _ => false
  | .esc c => c == q
  | .qq => true

def headQ (q : Char) : List Item → Bool
  | [] => false
  | i :: _ => i.isQ q

def lastQ (q : Char) : List Item → Bool
  | [] => false
  | [i] => i.isQ q
  | _ :: j :: r => lastQ q (j :: r)

/-- the denoted value starts or ends with the delimiter -/
def edgeQuote (q : Char) (items : List Item) : Bool := headQ q items || lastQ q items

/-- a backslash-escaped delimiter directly followed by another escaped / doubled delimiter -/
def escQuoteRun (q : Char) : List Item → Bool
  | [] => false
  | [_] => false
  | i :: j :: r => (i == .esc q && j.isQ q) || escQuoteRun q (j :: r)

/-- the source uses an escape that the escape-less lexers (mysql, sqlite) do not decode -/
def usesEscape (items : List Item) : Bool :=
  items.any fun i => match i with
    | .ch _ => false
    | .esc c => c == '\'' || c == '"' || c == '\\'
    | .qq => true

/-- every backslash of a value is followed by a character other than `\\`, `'`, `"` (the values whose
printed form `Constant.get_string` denotes them) -/
def encOK : List Char → Bool
  | [] => true
  | c :: t =>
    if c = '\\' then
      match t with
      | d :: t' => d != '\\' && d != '\'' && d != '"' && encOK t'
      | [] => false
    else encOK t

/-- the spec reading of the printed form of a value (for `encOK` values) -/
def encItems : List Char → List Item
  | [] => []
  | c :: t =>
    if c = '\\' then
      match t with
      | d :: t' => .esc d :: encItems t'
      | [] => [.ch c]
    else if c = '\'' then .esc '\'' :: encItems t
    else .ch c :: encItems t

end MindsVerif.Denote
