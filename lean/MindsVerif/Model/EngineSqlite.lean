import MindsVerif.Model.OPM
/-!
Operator precedence of the target engine sqlite, from https://sqlite.org/lang_expr.html
("Operators, and Parse-Affecting Attributes", highest to lowest):

    ~ [expr]  + [expr]  - [expr]   >   COLLATE   >   || -> ->>   >   * / %   >   + -   >   & | << >>
    >   ESCAPE   >   < > <= >=   >   = == <> != IS [NOT] [DISTINCT FROM] BETWEEN IN MATCH LIKE REGEXP GLOB
    ISNULL NOTNULL NOT NULL   >   NOT [expr]   >   AND   >   OR

all binary operators left-associative (parse.y: `%left`), `expr BETWEEN expr AND expr` carries the
precedence of BETWEEN (`[BETWEEN]`).  **Trusted** (a reading of the documentation); validated by
executing original and rendered texts in sqlite3 in every run of the check.
Keyed by the operator *text* SQLAlchemy's sqlite compiler prints (generated into `Gen/SaPrec.lean`).
-/
namespace MindsVerif.EngineSqlite
open MindsVerif.OPM

def binLevel (t : String) : Nat :=
  if t = "OR" then 1 else if t = "AND" then 2
  else if t = "=" ∨ t = "==" ∨ t = "!=" ∨ t = "<>" ∨ t = "IS" ∨ t = "IS NOT" ∨ t = "IN" ∨ t = "NOT IN"
    ∨ t = "LIKE" ∨ t = "NOT LIKE" ∨ t = "BETWEEN" ∨ t = "NOT BETWEEN" then 4
  else if t = "<" ∨ t = "<=" ∨ t = ">" ∨ t = ">=" then 5
  else if t = "+" ∨ t = "-" then 8
  else if t = "*" ∨ t = "/" ∨ t = "%" then 9
  else if t = "||" then 10
  else 0

def preLevel (t : String) : Nat :=
  if t = "NOT" then 3 else if t = "-" ∨ t = "+" ∨ t = "~" then 12 else 0

/-- the engine's table over the operator numbering of the generated lists -/
def table (bins : List (Nat × String)) (pres : List (Nat × String)) (btwId andId : Nat) : Table where
  tokLevel o := if o = btwId then binLevel "BETWEEN" else
    match bins.lookup o with | some t => binLevel t | none => 0
  binProd o := match bins.lookup o with | some t => ⟨.left, binLevel t⟩ | none => ⟨.right, 0⟩
  preProd o := match pres.lookup o with | some t => ⟨.right, preLevel t⟩ | none => ⟨.right, 0⟩
  isPre o := (pres.lookup o).isSome
  btwTok := btwId
  andTok := andId
  btwProd := ⟨.left, binLevel "BETWEEN"⟩

end MindsVerif.EngineSqlite
