import MindsVerif.Model.LR
/-!
M10 — `ErrorHandling` (mindsdb_sql/__init__.py) and `MindsDBLexer.error`
(parser/dialects/mindsdb/lexer.py) as total functions.  Core Lean only.

Python `str` = `List Char` (`len` = number of code points = `List.length`).
A token record is what the code reads from a sly `Token`: `type`, `value` (the token's source text since repo 5f4cdd1), `lineno`
(the line on which the token starts, repo bd184d7), `index` (absolute offset in the text, NOT a column).
-/
namespace MindsVerif.Err

structure Tok where
  type : Nat
  value : List Char
  lineno : Nat
  index : Nat
  deriving Repr, DecidableEq

/-! ### error_location -/

/-- `defaultdict(str)` with int keys, in insertion order -/
abbrev Dict := List (Nat × List Char)

/-- `lines_idx[k]` (missing key reads as `''`) -/
def Dict.get : Dict → Nat → List Char
  | [], _ => []
  | (k', v) :: r, k => if k' = k then v else Dict.get r k

/-- `lines_idx[k] = v` (an existing key keeps its position) -/
def Dict.set : Dict → Nat → List Char → Dict
  | [], k, v => [(k, v)]
  | (k', v') :: r, k, v => if k' = k then (k, v) :: r else (k', v') :: Dict.set r k v

/-- `line[:index]` if `len(line) > index` else `line.ljust(index)`; then `line += value` -/
def place (line : List Char) (t : Tok) : List Char :=
  (if line.length > t.index then line.take t.index
   else line ++ List.replicate (t.index - line.length) ' ') ++ t.value

def addTok (d : Dict) (t : Tok) : Dict := d.set t.lineno (place (d.get t.lineno) t)

/-- the first loop of `error_location` -/
def build (toks : List Tok) : Dict := toks.foldl addTok []

/-- state of the line-shifting loop -/
structure Loc where
  lines : List (List Char)
  shift : Nat
  errLine : Nat
  errIdx : Int
  i : Nat
  deriving Repr, DecidableEq

/-- `for i, line_num in enumerate(lines_idx.keys()): …` -/
def shiftLoop (errLineNum : Nat) : Dict → Loc → Loc
  | [], s => s
  | (k, line) :: r, s =>
    let s1 : Loc := if k = errLineNum then { s with errIdx := s.errIdx - s.shift, errLine := s.i } else s
    shiftLoop errLineNum r
      { s1 with lines := s1.lines ++ [line.drop s1.shift], shift := line.length, i := s1.i + 1 }

def hdrUnknown : List Char := "Syntax error, unknown input:".toList
def hdrEof : List Char := "Syntax error, unexpected end of query:".toList

/-- `'-' * (error_index + 1) + '^' * error_len` (a negative count gives the empty string) -/
def caretLine (errIdx : Int) (errLen : Nat) : List Char :=
  List.replicate (errIdx + 1).toNat '-' ++ List.replicate errLen '^'

/-- last key of the dict (`list(lines_idx.keys())[-1]`; the dict is non-empty when this is reached) -/
def Dict.lastKey (d : Dict) : Nat := match d.getLast? with | some (k, _) => k | none => 0

/-- `ErrorHandling.error_location`; `bad = none` is `bad_token is None` -/
def errorLocation (toks : List Tok) (bad : Option Tok) : List (List Char) :=
  let d := build toks
  let hdr := match bad with | none => hdrEof | some _ => hdrUnknown
  let errLen := match bad with | none => 1 | some b => b.value.length
  let errLineNum := match bad with | none => d.lastKey | some b => b.lineno
  let errIdx : Int := match bad with | none => ((d.get d.lastKey).length : Nat) | some b => (b.index : Nat)
  let s := shiftLoop errLineNum d ⟨[], 0, 0, errIdx, 0⟩
  let first := if s.errLine > 1 then s.errLine - 2 else 0
  let shown := (s.lines.take (s.errLine + 1)).drop first
  hdr :: (shown.map (fun l => '>' :: l) ++ [caretLine s.errIdx errLen])

/-- `s.split('\n')` -/
def splitLines : List Char → List (List Char)
  | [] => [[]]
  | c :: r =>
    match splitLines r with
    | [] => [[]]   -- unreachable
    | l :: ls => if c = '\n' then [] :: l :: ls else (c :: l) :: ls

/-! #### variant of the first loop of the live code, repo 2c1674c (a value is placed part by part, one
`'\n'`-separated part per line); `split = false` is the code before that change (history).  The extractor
sets the flag from the behaviour of the live `error_location` (`Gen.ErrLex.splitValues`). -/

/-- `place` with the index and the text given explicitly -/
def placeAt (line : List Char) (index : Nat) (value : List Char) : List Char :=
  (if line.length > index then line.take index
   else line ++ List.replicate (index - line.length) ' ') ++ value

/-- `for n, part in enumerate(token.value.split('\n')): …; index += len(part) + 1` -/
def addParts : Dict → Nat → Nat → List (List Char) → Dict
  | d, _, _, [] => d
  | d, ln, ix, part :: r =>
    addParts (d.set ln (placeAt (d.get ln) ix part)) (ln + 1) (ix + part.length + 1) r

def addTokV (split : Bool) (d : Dict) (t : Tok) : Dict :=
  if split then addParts d t.lineno t.index (splitLines t.value) else addTok d t

def buildV (split : Bool) (toks : List Tok) : Dict := toks.foldl (addTokV split) []

/-- `error_len`: `len(value)`, resp. `len(value.split('\n')[0])` -/
def errLenV (split : Bool) (b : Tok) : Nat :=
  if split then ((splitLines b.value).headD []).length else b.value.length

/-- `error_location` in either variant -/
def errorLocationV (split : Bool) (toks : List Tok) (bad : Option Tok) : List (List Char) :=
  let d := buildV split toks
  let hdr := match bad with | none => hdrEof | some _ => hdrUnknown
  let errLen := match bad with | none => 1 | some b => errLenV split b
  let errLineNum := match bad with | none => d.lastKey | some b => b.lineno
  let errIdx : Int := match bad with | none => ((d.get d.lastKey).length : Nat) | some b => (b.index : Nat)
  let s := shiftLoop errLineNum d ⟨[], 0, 0, errIdx, 0⟩
  let first := if s.errLine > 1 then s.errLine - 2 else 0
  let shown := (s.lines.take (s.errLine + 1)).drop first
  hdr :: (shown.map (fun l => '>' :: l) ++ [caretLine s.errIdx errLen])

/-! ### make_suggestion -/

/-- terminal ids of the token names the code compares with literally -/
structure Names where
  id : Nat
  float : Nat
  integer : Nat
  dquote : Nat
  quote : Nat

/-- `s.replace('\\b', '')` -/
def dropBsB : List Char → List Char
  | '\\' :: 'b' :: r => dropBsB r
  | c :: r => c :: dropBsB r
  | [] => []

/-- `s.replace('\\', '')` -/
def dropBs (s : List Char) : List Char := s.filter (· != '\\')

/-- `'\\s' in s` -/
def hasBsS : List Char → Bool
  | '\\' :: 's' :: _ => true
  | _ :: r => hasBsS r
  | [] => false

/-- the `expected` dict: display value ↦ token name, insertion ordered -/
abbrev Expected := List (List Char × Nat)

def Expected.set : Expected → List Char → Nat → Expected
  | [], k, v => [(k, v)]
  | (k', v') :: r, k, v => if k' = k then (k, v) :: r else (k', v') :: Expected.set r k v

/-- the loop `for token_name in self.expected_tokens` (the `ID` case resets the dict and breaks) -/
def buildExpected (nm : Names) (attr : Nat → Option (List Char)) : List Nat → Expected → Expected
  | [], e => e
  | t :: ts, e =>
    if t = nm.id then [("[identifier]".toList, t)]
    else if t = nm.float ∨ t = nm.integer then buildExpected nm attr ts (e.set "[number]".toList t)
    else if t = nm.dquote ∨ t = nm.quote then buildExpected nm attr ts (e.set "[string]".toList t)
    else match attr t with
      | some v =>
        -- repo 3e4deea: the regexp test comes BEFORE the backslashes are stripped
        if !hasBsS v && !v.contains '|' then buildExpected nm attr ts (e.set (dropBs (dropBsB v)) t)
        else buildExpected nm attr ts e
      | none => buildExpected nm attr ts e

/-- Python `l[:i]` for a possibly negative `i` -/
def pyTake {α} (l : List α) (i : Int) : List α :=
  if 0 ≤ i then l.take i.toNat else l.take (l.length - (-i).toNat)

/-- `tokens[:error_index] + [token] + tokens[error_index:]` (token types only) -/
def insList (types : List Nat) (k : Nat) (ty : Nat) : List Nat := types.take k ++ [ty] ++ types.drop k
/-- `tokens[:error_index - 1] + [token] + tokens[error_index:]` — replaces the token BEFORE the bad one;
for `error_index = 0` the first slice is `tokens[:-1]` -/
def repList (types : List Nat) (k : Nat) (ty : Nat) : List Nat :=
  pyTake types ((k : Int) - 1) ++ [ty] ++ types.drop k

/-- the loop of the `1 < len(expected) < 20` branch; `valid` abstracts `query_is_valid` -/
def trySuggest (valid : List Nat → Bool) (types : List Nat) (k : Nat) : Expected → List (List Char)
  | [] => []
  | (v, ty) :: r =>
    if valid (insList types k ty) then v :: trySuggest valid types k r
    else if valid (repList types k ty) then v :: trySuggest valid types k r
    else trySuggest valid types k r

def insertNat (x : Nat) : List Nat → List Nat
  | [] => [x]
  | y :: r => if x ≤ y then x :: y :: r else y :: insertNat x r

/-- `sorted(self.expected_tokens)`: terminal ids are numbered in the order of the token names
(`$end` first), which `sortedNames` pins on the generated name table -/
def sortIds : List Nat → List Nat
  | [] => []
  | x :: r => insertNat x (sortIds r)

/-- the terminal name table is `$end`, `error`, then strictly increasing names all above `$end` -/
def sortedNames : List String → Bool
  | a :: _ :: r => a == "$end" && go a r
  | _ => false
where go : String → List String → Bool
  | _, [] => true
  | p, x :: r => decide (p < x) && go x r

/-- `ErrorHandling.make_suggestion`.  `types` = the token types of `self.tokens`, `badIdx` = index of
the bad token in it (`none` = end of input), `expected` = `expected_tokens` in the order received. -/
def makeSuggestion (valid : List Nat → Bool) (nm : Names) (attr : Nat → Option (List Char))
    (types : List Nat) (badIdx : Option Nat) (expected : List Nat) : List (List Char) :=
  if expected.length = 0 then []
  else
    let e := buildExpected nm attr (sortIds expected) []
    if e.length = 1 then e.map (·.1)
    else if 1 < e.length ∧ e.length < 20 then
      match badIdx with
      | none => e.map (·.1)
      | some k => trySuggest valid types k e
    else []

/-- acceptance of the LR model (mindsdb error mode) -/
def lrValid (T : LR.Tables) (types : List Nat) : Bool :=
  match LR.parse T .drain false types (200 * (types.length + 2) + 1000) with
  | .accept _ _ => true
  | _ => false

/-- `query_is_valid`: `try: ast = parser.parse(iter(tokens)) except Exception: return False;
return ast is not None`.  The semantic actions of the re-parse are not modelled: whether one of
them raises on the synthesised list is the abstract predicate `raises` (the driver receives the
lists on which the real actions raised). -/
def queryIsValid (T : LR.Tables) (raises : List Nat → Bool) (types : List Nat) : Bool :=
  lrValid T types && !raises types

def joinWith (sep : List Char) : List (List Char) → List Char
  | [] => []
  | [a] => a
  | a :: b :: r => a ++ sep ++ joinWith sep (b :: r)

/-- `ErrorHandling.process` -/
def process (split : Bool) (valid : List Nat → Bool) (nm : Names) (attr : Nat → Option (List Char))
    (toks : List Tok) (badIdx : Option Nat) (expected : List Nat) : List Char :=
  if toks.length = 0 then "Empty input".toList
  else
    let bad := match badIdx with | none => none | some k => toks[k]?
    let msgs := errorLocationV split toks bad
    let sugg := makeSuggestion valid nm attr (toks.map (·.type)) badIdx expected
    let msgs := if sugg.isEmpty then msgs
      else
        let pre := if sugg.length > 1 then "Possible inputs: ".toList else "Expected symbol: ".toList
        msgs ++ [pre ++ joinWith ", ".toList (sugg.map (fun s => '"' :: s ++ ['"']))]
    joinWith ['\n'] msgs

/-! ### MindsDBLexer.error -/

structure LexLoc where
  shift : Nat
  errLine : Nat
  errIdx : Nat
  i : Nat
  deriving Repr, DecidableEq

/-- `for i, line in enumerate(lines): if 0 <= t.index - shift < len(line): …; shift += len(line) + 1` -/
def lexLoop (index : Nat) : List (List Char) → LexLoc → LexLoc
  | [], s => s
  | line :: r, s =>
    let s1 : LexLoc := if s.shift ≤ index ∧ index - s.shift < line.length
      then { s with errLine := s.i, errIdx := index - s.shift } else s
    lexLoop index r { s1 with shift := s1.shift + line.length + 1, i := s1.i + 1 }

/-- the message lines after the header, given `self.text.split('\n')` -/
def lexErrorOn (lines : List (List Char)) (index : Nat) : List (List Char) :=
  let s := lexLoop index lines ⟨0, 0, 0, 0⟩
  -- repo 455dd18: `lines[max(error_line - 1, 0): error_line + 1]` (Nat subtraction is the `max`)
  ((lines.take (s.errLine + 1)).drop (s.errLine - 1)).map (fun l => '>' :: l)
    ++ [List.replicate (s.errIdx + 1) '-' ++ ['^']]

/-- the lines of the `LexError` message after the `Illegal character …:` header -/
def lexError (text : List Char) (index : Nat) : List (List Char) :=
  lexErrorOn (splitLines text) index

end MindsVerif.Err
