import MindsVerif.Model.LR
/-! Φ19 — classification of the keys of an action row (what `expected_tokens` can contain) into
shift keys and LALR reduce look-aheads, computed on the bit masks of the generated tables so that
the kernel can evaluate the totals.  Core Lean only. -/
namespace MindsVerif.LR

def Trie.sumIdx {α : Type} (f : α → Nat) : Trie α → Nat
  | .nil => 0
  | .node v l r => (match v with | none => 0 | some x => f x) + Trie.sumIdx f l + Trie.sumIdx f r

/-- bit mask of the terminals with a shift entry -/
def Row.shiftMask (r : Row) : Nat := r.shifts.foldl (fun acc e => acc ||| (1 <<< (e / 4096))) 0
/-- bit mask of the terminals that are a look-ahead of some reduce group -/
def Row.redMask (r : Row) : Nat := r.reds.foldl (fun acc e => acc ||| e.2) 0

/-- keys of the row on which the parser shifts -/
def Row.shiftKeys (r : Row) (nT : Nat) : List Nat :=
  (List.range nT).filter (fun t => r.shiftMask.testBit t)
/-- keys of the row that are only reduce look-aheads (a shift entry wins in `Row.action`) -/
def Row.redKeys (r : Row) (nT : Nat) : List Nat :=
  (List.range nT).filter (fun t => r.redMask.testBit t && !r.shiftMask.testBit t)

/-- a state can be the state of a syntax error only if it has no default reduction (T19.2a) -/
def Row.canErr (r : Row) : Bool := r.dflt.isNone

/-- per-state contribution to the totals over all possible error states, packed into one number:
`2^40` per state + `2^20` per shift key + `1` per reduce look-ahead key (each total is below `2^20`) -/
def Row.keyCount (nT : Nat) (r : Row) : Nat :=
  bif r.canErr then 2 ^ 40 + (r.shiftKeys nT).length * 2 ^ 20 + (r.redKeys nT).length else 0

/-- (possible error states, shift keys, reduce look-ahead keys) of a packed total -/
def unpackTotals (n : Nat) : Nat × Nat × Nat := (n / 2 ^ 40, n / 2 ^ 20 % 2 ^ 20, n % 2 ^ 20)

end MindsVerif.LR
