import MindsVerif.Model.Err
/-!
M10b — the complete illegal-character report of `MindsDBLexer.error`
(parser/dialects/mindsdb/lexer.py): header + echoed lines + caret line, as one message string; and, for
the regression theorems only, the same loop over `str.splitlines()` (round-5 class: line / column
computation under every line-separator convention).  Core Lean only.

```python
def error(self, t):
    lines, shift, error_line, error_index = [], 0, 0, 0
    for i, line in enumerate(self.text.split('\n')):
        if 0 <= t.index - shift < len(line):
            error_line = i; error_index = t.index - shift
        lines.append(line)
        shift += len(line) + 1
    msgs = [f'Illegal character {t.value[0]!r}:']
    for line in lines[max(error_line - 1, 0): error_line + 1]:
        msgs.append('>' + line)
    msgs.append('-' * (error_index + 1) + '^')
    raise LexError('\n'.join(msgs), t.value, self.index)
```
`t.index` is the offset at which no token rule and no `ignore` character matches, `t.value = text[t.index:]`
(sly/lex.py), so `t.value[0] = text[t.index]`.  Which offset that is belongs to the lexer model (not here): the
driver receives it from the real `LexError.error_index`.
-/
namespace MindsVerif.Err

def hexDigit (n : Nat) : Char := if n < 10 then Char.ofNat (48 + n) else Char.ofNat (87 + n)

/-- Python `repr` of a one-character `str`.  Exact for every code point below U+0100 and for U+2028 / U+2029
(the only code points of `str.splitlines` above U+00FF); any other code point is taken to be printable (true for
the letters / symbols the streams use; `str.isprintable` is a Unicode-database lookup that is not modelled). -/
def pyReprChar (c : Char) : List Char :=
  let n := c.toNat
  if c = '\'' then ['"', '\'', '"']
  else if c = '\\' then ['\'', '\\', '\\', '\'']
  else if c = '\n' then ['\'', '\\', 'n', '\'']
  else if c = '\r' then ['\'', '\\', 'r', '\'']
  else if c = '\t' then ['\'', '\\', 't', '\'']
  else if n < 32 ∨ n = 127 ∨ (128 ≤ n ∧ n ≤ 160) ∨ n = 173 then
    ['\'', '\\', 'x', hexDigit (n / 16), hexDigit (n % 16), '\'']
  else if n = 0x2028 then "'\\u2028'".toList
  else if n = 0x2029 then "'\\u2029'".toList
  else ['\'', c, '\'']

/-- `f'Illegal character {t.value[0]!r}:'` -/
def lexHeader (c : Char) : List Char := "Illegal character ".toList ++ pyReprChar c ++ [':']

/-- the whole `LexError` message for an illegal character at offset `index` of `text`
(`index ≥ len(text)` does not occur: sly calls `error` only at an offset inside the text) -/
def lexErrorMsg (text : List Char) (index : Nat) : List Char :=
  match text[index]? with
  | some c => joinWith ['\n'] (lexHeader c :: lexError text index)
  | none => []

/-! ### regression model: the loop over `str.splitlines()` (NOT the live code) -/

/-- the line boundaries of `str.splitlines` -/
def isLineBreak (c : Char) : Bool :=
  c == '\n' || c == '\r' || c.toNat == 0x0b || c.toNat == 0x0c || c.toNat == 0x1c || c.toNat == 0x1d ||
  c.toNat == 0x1e || c.toNat == 0x85 || c.toNat == 0x2028 || c.toNat == 0x2029

/-- `s.splitlines()`: `\r\n` is ONE boundary, a final boundary opens no empty last line, `''` has no line -/
def pySplitlines : List Char → List (List Char)
  | [] => []
  | '\r' :: '\n' :: r => [] :: pySplitlines r
  | c :: r =>
    if isLineBreak c then [] :: pySplitlines r
    else match pySplitlines r with
      | [] => [[c]]
      | l :: ls => (c :: l) :: ls

/-- the variant of a seeded change: lines from `splitlines()`, offset still advanced by `len(line) + 1` -/
def lexErrorSL (text : List Char) (index : Nat) : List (List Char) :=
  lexErrorOn (pySplitlines text) index

end MindsVerif.Err
