import MindsVerif.Model.ExprSim
/-!
Abstraction of a parse tree of the real grammar to an operator tree of the OPM, through the
production numbers named by the Level-B certificate.  Core Lean only, executable.
-/
namespace MindsVerif.ExprSim
open MindsVerif.LR MindsVerif.OPM

/-- which fragment production has a given number -/
inductive Shape where
  /-- the last production of the atom chain (`expr -> identifier`) -/
  | atom
  | bin (o : Nat) | pre (o : Nat) | btw | par
  deriving DecidableEq, Repr

def shapeOf (C : Cert) (F : Fragment) (p : Nat) : Option Shape :=
  bif (C.chain.getLast?.map (·.1)) == some p then some .atom
  else
    match F.bins.find? (fun o => C.binNo o == p) with
    | some o => some (.bin o)
    | none =>
      match F.pres.find? (fun o => C.preNo o == p) with
      | some o => some (.pre o)
      | none => bif p == C.btwNo then some .btw else bif p == C.parNo then some .par else none

/-- abstraction of one child -/
inductive AK where
  | tok (t : Nat) | ex (e : Expr) | bad
  deriving DecidableEq, Repr

/-- atoms lose their identity in the LR model (a leaf only knows its terminal) -/
def eraseAtoms : Expr → Expr
  | .atom _ => .atom 0
  | .paren e => .paren (eraseAtoms e)
  | .bin o l r => .bin o (eraseAtoms l) (eraseAtoms r)
  | .pre o e => .pre o (eraseAtoms e)
  | .btw x y z => .btw (eraseAtoms x) (eraseAtoms y) (eraseAtoms z)

def build (C : Cert) (P : Table) : Shape → List AK → AK
  | .atom, _ => .ex (.atom 0)
  | .bin o, ks =>
    (match C.opRest o, ks with
     | none, [.ex l, .tok t, .ex r] => bif t == C.opTerm o then .ex (.bin o l r) else .bad
     | some t2, [.ex l, .tok t, .tok t', .ex r] =>
       bif t == C.opTerm o && t' == t2 then .ex (.bin o l r) else .bad
     | _, _ => .bad)
  | .pre o, [.tok t, .ex e] => bif t == o then .ex (.pre o e) else .bad
  | .btw, [.ex x, .tok t, .ex y, .tok t', .ex z] =>
    bif t == P.btwTok && t' == P.andTok then .ex (.btw x y z) else .bad
  | .par, [.tok t, .ex e, .tok t'] => bif t == C.lpar && t' == C.rpar then .ex (.paren e) else .bad
  | _, _ => .bad

mutual
def absK (C : Cert) (P : Table) (F : Fragment) : PT → AK
  | .leaf t => .tok t
  | .node p _ kids =>
    match shapeOf C F p with
    | none => .bad
    | some sh => build C P sh (absL C P F kids)
def absL (C : Cert) (P : Table) (F : Fragment) : List PT → List AK
  | [] => []
  | k :: ks => absK C P F k :: absL C P F ks
end

/-- the operator tree a parse tree stands for (atoms become `atom 0`); `none` if the tree is not built
from the fragment's productions -/
def abs (C : Cert) (P : Table) (F : Fragment) (t : PT) : Option Expr :=
  match absK C P F t with
  | .ex e => some e
  | _ => none

end MindsVerif.ExprSim
