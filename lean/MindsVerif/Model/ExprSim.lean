import MindsVerif.Model.LR
import MindsVerif.Model.OPM
/-!
Level B of C03 — the *simulation certificate* that ties the operator-precedence machine (`OPM`) to
the real LALR tables (`LR.Tables`).  Core Lean only; everything here is executable and evaluated by
the kernel on translator-generated data (`Gen/ExprSim_<d>.lean`).

A certificate names

* the terminals / productions of the fragment: the atom token (`ID`), `LPAREN`, `RPAREN`, the
  production numbers of `expr -> expr o expr`, `expr -> o expr`, `expr -> expr BETWEEN expr AND expr`,
  `expr -> LPAREN expr RPAREN` and the chain of unit productions `ID ⇒ … ⇒ expr`;
  (operators are numbered as in `Gen/Prec_<d>.lean`; `opTerm o` is the terminal that announces the
  binary operator `o` as lookahead and `opRest o` its optional second token — `NOT IN` in the dialects
  that lex it as two tokens);
* the *expression-start states* `u` (states with a goto on `expr`), each with its ROLE
  (`Kind` = which OPM frame is pending directly below an expression started in `u`) and the mask `cl`
  of non-operator terminals ("closers") that may follow an expression started in `u`.

`certOK` checks, by looking at rows of the real table, every local fact the simulation theorem
(`Lemmas/ExprSim.lean`) needs.
-/
namespace MindsVerif.ExprSim
open MindsVerif.LR MindsVerif.OPM

/-- role of an expression-start state = the OPM frame pending below the expression -/
inductive Kind where
  /-- nothing pending: statement context or just after `LPAREN` -/
  | top
  /-- `l o .` -/
  | opr (o : Nat)
  /-- `o .` (prefix operator) -/
  | pre (o : Nat)
  /-- `x BETWEEN .` -/
  | btw
  /-- `x BETWEEN y AND .` -/
  | band
  deriving DecidableEq, Repr

structure Entry where
  kind : Kind
  /-- closing (non-operator) lookahead terminals, as a bit mask; bit 0 = end of input -/
  cl : Nat
  deriving Repr

structure Cert where
  /-- nonterminal index of `expr` -/
  exprNt : Nat
  /-- terminal ids -/
  atomTok : Nat
  lpar : Nat
  rpar : Nat
  /-- first (lookahead) terminal of binary operator `o` -/
  opTerm : Nat → Nat
  /-- second terminal of a two-token operator (`NOT IN`) -/
  opRest : Nat → Option Nat
  /-- production number of `expr -> expr o expr` -/
  binNo : Nat → Nat
  /-- production number of `expr -> o expr` -/
  preNo : Nat → Nat
  /-- `expr -> expr BETWEEN expr AND expr` -/
  btwNo : Nat
  /-- `expr -> LPAREN expr RPAREN` -/
  parNo : Nat
  /-- unit productions turning the atom token into an `expr`, innermost first: `(production, lhs)` -/
  chain : List (Nat × Nat)
  /-- mask of the fragment's operator lookahead terminals (binary operators and BETWEEN) -/
  opsMask : Nat
  /-- `(role, prefix operator)` pairs for which the start state of that role does NOT open the prefix
  production (e.g. mindsdb: `NOT` directly after `expr IS` belongs to the two-token `IS NOT`) -/
  preBan : List (Kind × Nat)
  /-- expression-start states -/
  starts : Trie Entry

/-- may prefix operator `o` open the operand of a start state of role `k`? -/
def preAllowed (C : Cert) (k : Kind) (o : Nat) : Bool :=
  !(C.preBan.any fun b => b.1 == k && b.2 == o)

/-- every prefix operator of the tree stands where the start state of that role opens it -/
def preOK (C : Cert) : Kind → Expr → Bool
  | _, .atom _ => true
  | _, .paren e => preOK C .top e
  | k, .pre o e => preAllowed C k o && preOK C (.pre o) e
  | k, .bin o l r => preOK C k l && preOK C (.opr o) r
  | k, .btw x y z => preOK C k x && preOK C .btw y && preOK C .band z

/-- least stratum of an un-parenthesised operand in a position of role `k` (`OPM.addParens`) -/
def kindStratum (S : Strata) : Kind → Nat
  | .top => 0
  | .opr o => S.bin o + 1
  | .pre o => S.pre o
  | .btw => 4
  | .band => 4

/-- the banned prefix positions are never used by the SQL grouping: wherever `addParens` leaves a
prefix operator un-parenthesised, the start state opens it.  Finite, decidable. -/
def preCompat (C : Cert) (S : Strata) (F : Fragment) : Bool :=
  ([Kind.top, .btw, .band] ++ F.bins.map Kind.opr ++ F.pres.map Kind.pre).all fun k =>
    F.pres.all fun o => !(Nat.ble (kindStratum S k) (S.pre o)) || preAllowed C k o

/-! ### tokens and trees -/

def tokIds (C : Cert) : Tok → List Nat
  | .atom _ => [C.atomTok]
  | .op o => C.opTerm o :: (C.opRest o).toList
  | .lpar => [C.lpar]
  | .rpar => [C.rpar]

/-- terminal ids of the printed expression -/
def toks (C : Cert) (P : Table) (e : Expr) : List Nat := (print P e).flatMap (tokIds C)

/-- the parse tree of an atom: the unit chain over the atom token -/
def chainTree (chain : List (Nat × Nat)) (t : PT) : PT :=
  chain.foldl (fun t pl => .node pl.1 pl.2 [t]) t

/-- the parse tree the LR driver must build for `e` -/
def tree (C : Cert) (P : Table) : Expr → PT
  | .atom _ => chainTree C.chain (.leaf C.atomTok)
  | .paren e => .node C.parNo C.exprNt [.leaf C.lpar, tree C P e, .leaf C.rpar]
  | .bin o l r =>
    .node (C.binNo o) C.exprNt
      (tree C P l :: .leaf (C.opTerm o) :: ((C.opRest o).toList.map .leaf ++ [tree C P r]))
  | .pre o e => .node (C.preNo o) C.exprNt [.leaf o, tree C P e]
  | .btw x y z =>
    .node C.btwNo C.exprNt [tree C P x, .leaf P.btwTok, tree C P y, .leaf P.andTok, tree C P z]

/-- number of driver steps (shifts + reductions) spent on `e` -/
def simSteps (C : Cert) : Expr → Nat
  | .atom _ => 1 + C.chain.length
  | .paren e => 1 + simSteps C e + 2
  | .bin o l r => simSteps C l + (1 + (C.opRest o).toList.length) + simSteps C r + 1
  | .pre _ e => 1 + simSteps C e + 1
  | .btw x y z => simSteps C x + 1 + simSteps C y + 1 + simSteps C z + 1

/-! ### iterating the driver -/

/-- `n` steps of the driver, none of which ends the parse -/
def runN (T : Tables) (mode : Mode) (bad : Bool) : Nat → Cfg → Option Cfg
  | 0, c => some c
  | n + 1, c =>
    match step T mode bad c with
    | .inl c' => runN T mode bad n c'
    | .inr _ => none

/-- what `LR.fetch` delivers from the input when no lookahead is pending: the lookahead, the
remaining input and the number of consumed tokens -/
def fetchOf (bad : Bool) : List Nat → Option (LA × List Nat × Nat)
  | t :: ts => some (.tok t, ts, 1)
  | [] => bif bad then none else some (.eof, [], 0)

/-! ### the certificate checker -/

/-- SLY's resolution of lookahead operator `a` against the production pending in a state of role `k` -/
def dec (P : Table) : Kind → Nat → Decision
  | .opr o, a => resolve (P.binProd o) (P.tokLevel a)
  | .pre o, a => resolve (P.preProd o) (P.tokLevel a)
  | .band, a => resolve P.btwProd (P.tokLevel a)
  | .top, _ => .shift
  | .btw, _ => .shift

/-- production completed when the operand of a state of role `k` is finished -/
def prodOf (C : Cert) : Kind → Option Nat
  | .opr o => some (C.binNo o)
  | .pre o => some (C.preNo o)
  | .band => some C.btwNo
  | .top => none
  | .btw => none

/-- role of the state reached by shifting operator `o` after an operand of a state of role `k`
(mirrors `OPM.shiftOp`) -/
def kindAfter (P : Table) (k : Kind) (o : Nat) : Kind :=
  bif o == P.btwTok then .btw
  else
    match k with
    | .btw => bif o == P.andTok then .band else .opr o
    | _ => .opr o

/-- the row of a state that has no default reduction -/
def rowND (T : Tables) (s : Nat) : Option Row :=
  match T.rows.get? s with
  | some r => (match r.dflt with | none => some r | some _ => none)
  | none => none

def redFirst : List (Nat × Nat) → Nat → Nat → Bool
  | [], _, _ => false
  | (q, m) :: es, mask, p =>
    (q == p && (mask &&& m == mask)) || ((m &&& mask == 0) && redFirst es mask p)

/-- on every lookahead of `mask` the action of row `r` is `reduce p` -/
def actsReduce (r : Row) (mask p : Nat) : Bool :=
  r.shifts.all (fun e => !mask.testBit (e / 4096)) && redFirst r.reds mask p

def shiftTarget (r : Row) (t : Nat) : Option Nat :=
  match r.action t with
  | .shift s => some s
  | _ => none

/-- `s` is an expression-start state of role `k` whose closers include `cl` -/
def entryWith (C : Cert) (s : Nat) (k : Kind) (cl : Nat) : Bool :=
  match C.starts.get? s with
  | some e => e.kind == k && (cl &&& e.cl == cl)
  | none => false

/-- the unit chain runs from state `i` (on top of the start state with row `ru`) on every lookahead
of `mask`; returns the state reached -/
def chainOK (T : Tables) (ru : Row) (mask : Nat) : Nat → List (Nat × Nat) → Option Nat
  | i, [] => some i
  | i, (p, lhs) :: ps =>
    match rowND T i with
    | none => none
    | some ri =>
      bif actsReduce ri mask p then
        (match ru.goto lhs with
         | some i' => chainOK T ru mask i' ps
         | none => none)
      else none

/-- `LPAREN` from the start state leads to a start state of role `top` that accepts `RPAREN`; after
its expression `RPAREN` is shifted to a state that reduces `LPAREN expr RPAREN` on every lookahead of
`mask` -/
def parenOK (T : Tables) (C : Cert) (ru : Row) (mask : Nat) : Bool :=
  match shiftTarget ru C.lpar with
  | none => false
  | some u' =>
    match C.starts.get? u' with
    | none => false
    | some e' =>
      e'.kind == .top && e'.cl.testBit C.rpar &&
      match rowND T u' with
      | none => false
      | some ru' =>
        match ru'.goto C.exprNt with
        | none => false
        | some v' =>
          match rowND T v' with
          | none => false
          | some rv' =>
            match shiftTarget rv' C.rpar with
            | none => false
            | some w =>
              match rowND T w with
              | none => false
              | some rw => actsReduce rw mask C.parNo

/-- state reached from row `rv` by shifting the token(s) of operator `o` -/
def opTarget (T : Tables) (C : Cert) (rv : Row) (o : Nat) : Option Nat :=
  match shiftTarget rv (C.opTerm o) with
  | none => none
  | some s =>
    match C.opRest o with
    | none => some s
    | some t =>
      match rowND T s with
      | some rs => shiftTarget rs t
      | none => none

/-- the state after the operand behaves on operator lookahead `o` as the machine's frame does -/
def opOK (T : Tables) (P : Table) (C : Cert) (ent : Entry) (rv : Row) (o : Nat) : Bool :=
  match dec P ent.kind o with
  | .shift =>
    (match opTarget T C rv o with
     | some s => entryWith C s (kindAfter P ent.kind o) ent.cl
     | none => false)
  | .reduce =>
    (match prodOf C ent.kind with
     | some p => rv.action (C.opTerm o) == .reduce p
     | none => false)
  | .error => true

/-- all local facts about one expression-start state -/
def startOK (T : Tables) (P : Table) (F : Fragment) (C : Cert) (u : Nat) (ent : Entry) : Bool :=
  match rowND T u with
  | none => false
  | some ru =>
    match ru.goto C.exprNt with
    | none => false
    | some v =>
      match rowND T v with
      | none => false
      | some rv =>
        let mask := ent.cl ||| C.opsMask
        (ent.cl &&& C.opsMask == 0) &&
        (match shiftTarget ru C.atomTok with
         | some i => chainOK T ru mask i C.chain == some v
         | none => false) &&
        parenOK T C ru mask &&
        F.pres.all (fun o =>
          !preAllowed C ent.kind o ||
          match shiftTarget ru o with
          | some s => entryWith C s (.pre o) ent.cl
          | none => false) &&
        (F.bins ++ [P.btwTok]).all (opOK T P C ent rv) &&
        (match prodOf C ent.kind with
         | some p => actsReduce rv ent.cl p
         | none => true)

def prodIs (T : Tables) (p lhs : Nat) (rhs : List Nat) : Bool :=
  match T.prods.get? p with
  | some pr => pr.lhs == lhs && pr.rhs == rhs
  | none => false

def unitProd (T : Tables) (p lhs : Nat) : Bool :=
  match T.prods.get? p with
  | some pr => pr.lhs == lhs && pr.rhs.length == 1
  | none => false

/-- `f` is injective on the (duplicate-free) list -/
def injOn (f : Nat → Nat) : List Nat → Bool
  | [] => true
  | a :: as => as.all (fun b => f b != f a) && injOn f as

/-- operators announced by the same first terminal (`IS` and the two-token `IS NOT`) have the same lookahead
level — `resolve` decides for them in common — and differ in their second terminal; so the pair
`(opTerm, opRest)` is injective on the (duplicate-free) list -/
def termCompat (P : Table) (C : Cert) : List Nat → Bool
  | [] => true
  | a :: as =>
    as.all (fun b => C.opTerm b != C.opTerm a ||
      (P.tokLevel b == P.tokLevel a && C.opRest b != C.opRest a)) && termCompat P C as

/-- facts about the productions and terminals named by the certificate -/
def globalOK (T : Tables) (P : Table) (F : Fragment) (C : Cert) : Bool :=
  let E := 2 * C.exprNt + 1
  F.bins.all (fun o =>
    prodIs T (C.binNo o) C.exprNt
      (E :: 2 * C.opTerm o :: ((C.opRest o).toList.map (2 * ·) ++ [E])) &&
    C.opsMask.testBit (C.opTerm o)) &&
  F.pres.all (fun o =>
    prodIs T (C.preNo o) C.exprNt [2 * o, E] && C.opTerm o == o && (C.opRest o).isNone) &&
  prodIs T C.btwNo C.exprNt [E, 2 * P.btwTok, E, 2 * P.andTok, E] && C.opsMask.testBit P.btwTok &&
  F.bins.contains P.andTok &&
  C.opTerm P.btwTok == P.btwTok && (C.opRest P.btwTok).isNone &&
  C.opTerm P.andTok == P.andTok && (C.opRest P.andTok).isNone &&
  termCompat P C (F.bins ++ [P.btwTok]) &&
  prodIs T C.parNo C.exprNt [2 * C.lpar, E, 2 * C.rpar] &&
  C.chain.all (fun pl => unitProd T pl.1 pl.2) && !C.chain.isEmpty &&
  (C.chain.getLast?.map (·.2)) == some C.exprNt &&
  (match C.chain.head? with | some pl => prodIs T pl.1 pl.2 [2 * C.atomTok] | none => false)

def certOK (T : Tables) (P : Table) (F : Fragment) (C : Cert) : Bool :=
  globalOK T P F C && Trie.allIdx (startOK T P F C) 1 0 C.starts

/-- the state reached from `u` over `expr` -/
def gotoExpr (T : Tables) (C : Cert) (u : Nat) : Option Nat :=
  match T.rows.get? u with
  | some r => r.goto C.exprNt
  | none => none

end MindsVerif.ExprSim
