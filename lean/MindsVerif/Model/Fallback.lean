/-!
# M9 `Render` (C17 part): the fallback wrapper and the renderer's own-table exception classes

Transcribes `mindsdb_sql/render/sqlalchemy_render.py`:

* `getExecParams`  — the `try … except (SQLAlchemyError, NotImplementedError)` wrapper of
  `SqlalchemyRender.get_exec_params` / `get_string` as a function of what the inner rendering
  (`get_query` + `render_func`) does, what `str(ast_query)` does, the flag `with_failback` and
  `self.dialect.name`.
* `saRaises` — the first exception raised by the renderer's OWN code (table lookups, explicit
  `raise`, attribute access on the values it built itself) while it walks a tree, in the order in which
  `get_query / prepare_* / to_table / to_expression / to_function / get_type / get_alias /
  get_table_name` evaluate things.  What SQLAlchemy raises on its own is not modelled (result `none`).
* `prepareCols` — the column loop of `prepare_create_table` (no writes to the caller's `TableColumn`
  objects since 0ccda5f).

Core Lean only; strings are handled through `List Char` so that `decide` evaluates everything.
-/
namespace MindsVerif.Fallback

/-! ## exception classes and the wrapper -/

/-- Exception classes as far as `except (SQLAlchemyError, NotImplementedError)` and the probes can tell
them apart (`sa` = any subclass of SQLAlchemyError, `notImpl` = any subclass of NotImplementedError,
`exception` = a direct `Exception` / `RenderError`). -/
inductive Exc | sa | notImpl | key | attr | type | index | exception | other
  deriving DecidableEq, Repr, Inhabited

/-- the classes named in the `except` clause -/
def Exc.caught : Exc → Bool
  | .sa | .notImpl => true
  | _ => false

def Exc.name : Exc → String
  | .sa => "SQLAlchemyError" | .notImpl => "NotImplementedError" | .key => "KeyError"
  | .attr => "AttributeError" | .type => "TypeError" | .index => "IndexError"
  | .exception => "Exception" | .other => "Other"

/-- what a Python call does -/
inductive Outcome (α : Type) | ret (v : α) | raise (e : Exc)
  deriving Repr, DecidableEq

/-- what `get_exec_params` does: returns the SQLAlchemy rendering, returns the fallback text, or raises -/
inductive Result (ρ : Type) | rendering (r : ρ) | fallback (text : String) | raised (e : Exc)
  deriving Repr, DecidableEq

def Result.isRaised {ρ : Type} : Result ρ → Bool
  | .raised _ => true
  | _ => false

/-- `sql_query.replace('`', '')` -/
def stripBackticks (s : String) : String := String.ofList (s.toList.filter (· != '`'))

/-- the live code (`strip_backticks`, since c68d0a8): a scanner that drops back-tick IDENTIFIER quotes and
copies `'…'` literals (with `\\x` escapes) verbatim.  State: inside a literal / inside a back-tick identifier /
the previous character of the literal was a backslash. -/
def stripOutsideAux : (inStr inId esc : Bool) → List Char → List Char
  | _, _, _, [] => []
  | true, inId, true, c :: rest => c :: stripOutsideAux true inId false rest
  | true, inId, false, c :: rest =>
    if c == '\\' then c :: stripOutsideAux true inId true rest
    else if c == '\'' then c :: stripOutsideAux false inId false rest
    else c :: stripOutsideAux true inId false rest
  | false, inId, _, c :: rest =>
    if c == '`' then stripOutsideAux false (!inId) false rest
    else if c == '\'' && !inId then c :: stripOutsideAux true inId false rest
    else c :: stripOutsideAux false inId false rest

def stripOutside (s : String) : String := String.ofList (stripOutsideAux false false false s.toList)

/-- the text returned by the fallback branch: `str(ast_query)`; when `self.dialect.name == 'postgresql'` the back-ticks are
removed — only those outside string literals (`keepLiteral = true`, the live code; probed) or all of them
(`keepLiteral = false`, the code before the repair) -/
def fallbackText (keepLiteral : Bool) (dialectName : String) (s : String) : String :=
  if dialectName == "postgresql" then (if keepLiteral then stripOutside s else stripBackticks s) else s

/-- `SqlalchemyRender.get_exec_params` (and `get_string`, which only projects the first component):
`inner` is the behaviour of `get_query` followed by `render_func`, `printer` that of `str(ast_query)`. -/
def getExecParams {ρ : Type} (inner : Outcome ρ) (printer : Outcome String) (withFallback : Bool)
    (dialectName : String) (keepLiteral : Bool := false) : Result ρ :=
  match inner with
  | .ret r => .rendering r
  | .raise e =>
    if e.caught then
      if !withFallback then .raised e
      else match printer with
        | .ret s => .fallback (fallbackText keepLiteral dialectName s)
        | .raise e' => .raised e'
    else .raised e

/-! ## the renderer's own tables -/

structure Tables where
  typesMap : List String
  methods : List (String × String)
  functions : List String
  opmap : List (String × String)
  /-- probed behaviour of `getattr(list, m)(column)` / `getattr(list, m)(list)`: "attr" | "type" | "ok" -/
  listOps : List (String × String × String)
  textHas : List String
  /-- probed: `to_expression(Tuple)` is a Python list (the code before 8584708) rather than `sa.tuple_` (live: false) -/
  tupleIsList : Bool := true
  /-- probed: the class of `RenderError` as the wrapper sees it (live: `sa`; `exception` before 5bca26a) -/
  dupExc : Exc := .exception
  /-- probed (Tie B): every attribute name of the Python object `sa.func` with what `getattr(sa.func, name)` is:
  "gen" (a `_FunctionGenerator`, i.e. a SQL function), "pyattr" (`__repr__`, `__hash__`, `opts` … — NOT a SQL function) -/
  funcPyAttrs : List (String × String) := []
  /-- probed: `to_function` refuses python-attribute names with NotImplementedError (live code, since ff787d9); `false` =
  the code before: the attribute was called like a SQL function and its str / int result leaked an AttributeError -/
  funcGuard : Bool := true
  /-- probed: `to_function` refuses a name made of underscores only (`t.op.rstrip('_') == ''`, live code since 3ffafef):
  sa.func strips a trailing underscore, so the function `_` would get the empty name; `false` = the code before -/
  funcEmptyGuard : Bool := true

/-- the probed class name of `RenderError` ("exception" | "sa" | "notImpl") -/
def excOfProbe (s : String) : Exc :=
  if s == "sa" then .sa else if s == "notImpl" then .notImpl else .exception

def upper (s : String) : String := String.ofList (s.toList.map Char.toUpper)
def lower (s : String) : String := String.ofList (s.toList.map Char.toLower)

/-- `re.match('^P[\d]*$', s)` for a literal prefix `P` (ASCII digits) -/
def matchPrefixDigits (p s : String) : Bool :=
  p.toList.isPrefixOf s.toList && (s.toList.drop p.length).all Char.isDigit

/-- the key looked up by `get_type`: upper-cased, `INT\d*` ↦ `BIGINT`, then `FLOAT\d*` ↦ `FLOAT` -/
def normType (typename : String) : String :=
  let u := upper typename
  let u := if matchPrefixDigits "INT" u then "BIGINT" else u
  if matchPrefixDigits "FLOAT" u then "FLOAT" else u

/-- `get_type(typename)` for a `str`: a name that is not a key of `types_map` is a NotImplementedError
(since c96400c; before: `self.types_map[typename]` → KeyError) -/
def getType (tb : Tables) (typename : String) : Option Exc :=
  if tb.typesMap.contains (normType typename) then none else some .notImpl

/-- what `getattr(sa.func, name)` yields -/
inductive FuncClass | gen | pyattr | missing
  deriving DecidableEq, Repr

/-- `getattr(sa.func, name)`: a real attribute of the object wins (probed table); otherwise `_FunctionGenerator.__getattr__`:
a name starting with `__` → AttributeError, any other name (a trailing `_` is stripped) → a new generator -/
def funcClass (tb : Tables) (name : String) : FuncClass :=
  match tb.funcPyAttrs.lookup name with
  | some c => if c == "gen" then .gen else if c == "missing" then .missing else .pyattr
  | none => if "__".toList.isPrefixOf name.toList then .missing else .gen

/-- the name check at the top of `to_function` (before any argument is evaluated) -/
def funcNameRaise (tb : Tables) (name : String) : Option Exc :=
  match funcClass tb name with
  | .gen => if tb.funcEmptyGuard && name.toList.all (· == '_') then some .notImpl else none
  | .missing => some .notImpl
  | .pyattr => if tb.funcGuard then some .notImpl else none

/-- alias as seen by `if t.alias:` / `get_alias`: `none` = no alias, `some n` = Identifier with `n` parts -/
abbrev Al := Option Nat

/-- `get_alias` (called only when `t.alias` is truthy): more than one part ⇒ NotImplementedError -/
def getAlias : Al → Option Exc
  | some n => if n > 1 then some .notImpl else none
  | none => none

/-- argument of `get_table_name` -/
inductive TblName | ident (nparts : Nat) | notIdent
  deriving DecidableEq, Repr

def tableName : TblName → Option Exc
  | .ident n => if n > 2 then some .notImpl else none
  | .notIdent => none

inductive Mode | none | forUpdate | other
  deriving DecidableEq, Repr

/-- a `TableColumn` as far as `prepare_create_table` reads / writes it: `type` (`none` = not a `str`) and `is_primary_key` -/
structure Col where
  type : Option String
  pk : Bool
  deriving DecidableEq, Repr

/-- node kinds (Python classes) with the attributes the renderer's own code looks at.
Children are given in EVALUATION order (see `kidCtx`). -/
inductive Tag
  | star | last
  | const (al : Al)
  /-- `first` = `parts[0]` when it is a str (else "") -/
  | ident (nparts : Nat) (first : String) (al : Al)
  /-- kids: grp targets, grp ctes, from | nil, where | nil, grp group_by, having | nil, grp order_by fields -/
  | select (mode : Mode) (al : Al)
  /-- Union (`isUnion`) / Intersect / Except; kids: left, right -/
  | union (isUnion : Bool) (al : Al)
  /-- `name` = `t.op`; kids: the args, or only `from_arg` when `hasFrom` -/
  | func (name : String) (distinct hasFrom : Bool) (al : Al)
  | binop (op : String) (al : Al)
  | unop (op : String) (al : Al)
  | between (al : Al)
  | interval (al : Al)
  /-- kids: function, grp partition, grp order_by fields -/
  | window (al : Al)
  | cast (typeName : String) (al : Al)
  | param (hasAlias : Bool)
  | tuple
  | variable | latest
  /-- Exists / NotExists; kid: query -/
  | exists_ (al : Al)
  /-- kids: grp (cond, result, cond, result …), default | nil, arg | nil -/
  | case_ (al : Al)
  /-- CommonTableExpression; kid: query -/
  | cte (hasColumns : Bool) (nameParts : Nat)
  /-- kids: left, right, condition | nil; `joinType` = `str(join.join_type)` -/
  | join (implicit : Bool) (joinType : String)
  | nativeQuery (al : Al)
  | grp | nil
  /-- kids: grp of all values (row-major) when `hasValues`, else from_select -/
  | insert (tbl : TblName) (cols : Option (List String)) (plain hasValues : Bool)
  /-- kids: grp update values, where | nil -/
  | update (tbl : TblName) (hasFromSelect : Bool)
  /-- kid: where | nil -/
  | delete (tbl : TblName)
  | createTable (tbl : TblName) (cols : Option (List Col))
  /-- `ntables = len(tables)`, `tbl` = tables[0] -/
  | dropTables (ntables : Nat) (tbl : TblName)
  /-- any other class -/
  | other
  deriving Repr

inductive T | mk (tag : Tag) (kids : List T)
  deriving Repr

def T.tag : T → Tag | .mk t _ => t

/-- which method of the renderer looks at a node -/
inductive Ctx
  /-- `get_query` -/
  | stmt
  /-- `prepare_select` -/
  | sel
  /-- `to_expression` -/
  | expr
  /-- `to_table` -/
  | table
  /-- the `from_table` dispatch of `prepare_select` -/
  | from_
  /-- left operand of a Join while `prepare_join`'s item list is processed -/
  | joinL
  /-- an element of `node.cte` -/
  | cte
  /-- not evaluated at all -/
  | skip
  deriving DecidableEq, Repr

/-- what kind of Python value `to_expression` builds for a node (only what the own code can tell apart) -/
inductive Kind | col | colClause | list | text
  deriving DecidableEq, Repr

def sqlFnNames : List String := ["CURRENT_DATE", "CURRENT_TIME", "CURRENT_TIMESTAMP", "CURRENT_USER"]

def kindOf (tb : Tables) : Tag → Kind
  | .tuple => if tb.tupleIsList then .list else .col
  | .star => .text
  | .ident n first none => if n == 1 && sqlFnNames.contains (upper first) then .col else .colClause
  | .param _ | .variable | .latest | .last => .colClause
  | _ => .col

def kindAt (tb : Tables) (kids : List T) (i : Nat) : Kind :=
  match kids[i]? with
  | some k => kindOf tb k.tag
  | none => .col

/-- calling attribute `m` of the left operand built for a node of kind `k` (right operand of kind `r`) -/
def callMethod (tb : Tables) (k r : Kind) (m : String) : Option Exc :=
  match k with
  | .list =>
    match tb.listOps.lookup m with
    | some (bcol, blist) =>
      let b := if r == .list then blist else bcol
      if b == "attr" then some .attr else if b == "type" then some .type else none
    | none => some .attr
  | .text => if tb.textHas.contains m then none else some .attr
  | _ => none

/-- the join types `prepare_select` renders (since 1eac524 anything else is a NotImplementedError) -/
def joinTypes : List String :=
  ["LEFT JOIN", "LEFT OUTER JOIN", "FULL JOIN", "FULL OUTER JOIN", "JOIN", "INNER JOIN", "CROSS JOIN"]

def joinTypeRaise (implicit : Bool) (joinType : String) : Option Exc :=
  if !implicit && !joinTypes.contains joinType then some .notImpl else none

def isJoin : T → Bool
  | .mk (.join _ _) _ => true
  | _ => false

mutual
/-- `prepare_join`: some Join on the left spine has a Join as its right operand ⇒ 'Wrong join AST' -/
def spineBad : T → Bool
  | .mk tag kids => match tag with
    | .join _ _ => spineBadL kids
    | _ => false
def spineBadL : List T → Bool
  | [] => false
  | l :: rest => (match rest with | r :: _ => isJoin r | [] => false) || spineBad l
end

def firstDup : List String → List String → Bool
  | _, [] => false
  | seen, c :: cs => seen.contains c || firstDup (c :: seen) cs

/-- the column loop of `prepare_create_table`: first unknown type name (after the `serial` rewrite) -/
def colsRaise (tb : Tables) : List Col → Option Exc
  | [] => none
  | c :: cs =>
    match c.type with
    | some ty =>
      let ty' := if lower ty == "serial" then "INT" else ty
      match getType tb ty' with
      | some e => some e
      | none => colsRaise tb cs
    | none => colsRaise tb cs

def orElse (a b : Option Exc) : Option Exc := match a with | some e => some e | none => b

/-- checks made BEFORE the children are evaluated -/
def isStructural : Tag → Bool
  | .grp | .nil => true
  | _ => false

def pre (tb : Tables) (c : Ctx) (tag : Tag) (kids : List T) : Option Exc :=
  if isStructural tag then none else
  match c with
  | .skip => none
  | .stmt =>
    match tag with
    | .select _ _ | .union _ _ => none
    | .insert tbl cols _ _ =>
      orElse (tableName tbl) (match cols with
        | none => some .notImpl
        | some cs => if firstDup [] cs then some tb.dupExc else none)
    | .update tbl hasFromSelect => if hasFromSelect then some .notImpl else tableName tbl
    | .delete tbl => tableName tbl
    | .createTable tbl cols =>
      (match cols with
       | none => some .notImpl
       | some cs => orElse (colsRaise tb cs) (tableName tbl))
    | .dropTables n tbl => if n != 1 then some .notImpl else tableName tbl
    | _ => some .notImpl
  | .sel =>
    match tag with
    | .select _ _ | .union _ _ => none
    | _ => some .attr
  | .expr =>
    match tag with
    | .func name _ _ _ => funcNameRaise tb name
    | .star | .last | .const _ | .ident _ _ _ | .select _ _ | .binop _ _ | .unop _ _ | .between _
    | .interval _ | .window _ | .cast _ _ | .tuple | .variable | .latest | .exists_ _ | .case_ _ => none
    | .param hasAlias => if hasAlias then some .notImpl else none
    | _ => some .notImpl
  | .table | .joinL =>
    match tag with
    | .ident n _ _ => tableName (.ident n)
    | .select _ _ | .union _ _ => none
    | .join _ _ => if c == .joinL then none else some .notImpl
    | _ => some .notImpl
  | .from_ =>
    match tag with
    | .join _ _ => if spineBadL kids then some .notImpl else none
    | .union isUnion al => if isUnion then getAlias al else some .notImpl   -- only `ast.Union` is dispatched
    | .select _ _ => none
    | .ident n _ _ => tableName (.ident n)
    | .nativeQuery al => (match al with | some 0 => some .index | _ => none)
    | _ => some .notImpl
  | .cte =>
    match tag with
    | .cte hasColumns _ => if hasColumns then some .notImpl else none
    | _ => none

def modeRaise : Mode → Option Exc
  | .other => some .notImpl
  | _ => none

/-- checks made AFTER the children have been evaluated -/
def post (tb : Tables) (c : Ctx) (tag : Tag) (kids : List T) : Option Exc :=
  match c with
  | .skip => none
  | .stmt | .sel =>
    match tag with
    | .select mode _ => modeRaise mode
    | _ => none
  | .table | .joinL | .from_ =>
    match tag with
    | .select mode al => orElse (modeRaise mode) (getAlias al)
    | .union _ al => if c == .from_ then none else getAlias al
    | .ident _ _ al => getAlias al
    | .join implicit jt => if c == .table then none else joinTypeRaise implicit jt
    | _ => none
  | .cte =>
    match tag with
    | .cte _ nameParts => getAlias (some nameParts)
    | _ => none
  | .expr =>
    match tag with
    | .const al | .ident _ _ al | .interval al | .window al | .between al | .exists_ al | .case_ al => getAlias al
    | .select mode al => orElse (modeRaise mode) (getAlias al)
    | .func name _ _ al =>
      -- old code only (`funcGuard = false`): a python attribute called without arguments returns a str / int and `.label` fails
      orElse (if funcClass tb name == .pyattr && !tb.funcGuard && kids.isEmpty then some .attr else none) (getAlias al)
    | .binop op al =>
      let o := lower op
      orElse (if (o == "in" || o == "not in") && kindAt tb kids 1 == .colClause then some .notImpl else none)
        (orElse (match tb.methods.lookup o with
          | some m => callMethod tb (kindAt tb kids 0) (kindAt tb kids 1) m
          | none => if tb.functions.contains o then none else callMethod tb (kindAt tb kids 0) (kindAt tb kids 1) "op")
          (getAlias al))
    | .unop op al =>
      (match tb.opmap.lookup (upper op) with
       | none => some .notImpl
       | some m => orElse (callMethod tb (kindAt tb kids 0) .col m) (getAlias al))
    | .cast ty al => orElse (getType tb ty) (getAlias al)
    | _ => none

/-- in which role the `i`-th child of a node is evaluated (`w` = `with_params`) -/
def kidCtx (w : Bool) (c : Ctx) (tag : Tag) (i : Nat) : Ctx :=
  match tag with
  | .grp => c
  | .select _ _ => if i == 1 then .cte else if i == 2 then .from_ else .expr
  | .union _ _ | .exists_ _ | .cte _ _ => .sel
  | .join implicit _ => if i == 0 then .joinL else if i == 1 then .table else if implicit then .skip else .expr
  | .insert _ _ plain hasValues => if hasValues then (if plain && w then .skip else .expr) else .sel
  | _ => .expr

mutual
/-- the first exception raised by the renderer's own code on `get_query(t)` (for `c = .stmt`) -/
def saRaises (tb : Tables) (w : Bool) (c : Ctx) : T → Option Exc
  | .mk tag kids =>
    if c = .skip then none else
    match pre tb c tag kids with
    | some e => some e
    | none =>
      match saRaisesL tb w c tag 0 kids with
      | some e => some e
      | none => post tb c tag kids
def saRaisesL (tb : Tables) (w : Bool) (c : Ctx) (tag : Tag) (i : Nat) : List T → Option Exc
  | [] => none
  | k :: ks =>
    match saRaises tb w (kidCtx w c tag i) k with
    | some e => some e
    | none => saRaisesL tb w c tag (i + 1) ks
end

/-- not an exception the wrapper lets through -/
def okExc : Option Exc → Bool
  | none => true
  | some e => e.caught

mutual
/-- no node that is evaluated fails one of its LOCAL own-table checks with an uncaught class -/
def clean (tb : Tables) (w : Bool) (c : Ctx) : T → Bool
  | .mk tag kids =>
    if c = .skip then true else
    match pre tb c tag kids with
    | some e => e.caught
    | none => cleanL tb w c tag 0 kids && okExc (post tb c tag kids)
def cleanL (tb : Tables) (w : Bool) (c : Ctx) (tag : Tag) (i : Nat) : List T → Bool
  | [] => true
  | k :: ks => clean tb w (kidCtx w c tag i) k && cleanL tb w c tag (i + 1) ks
end

/-! ## shape invariants of parser output (not about the renderer; checked on every parsed tree by the harness) -/

/-- local shape conditions: a Star is never the receiver of an operator, a NativeQuery alias has a part, `prepare_select` is only handed Select / Union nodes -/
def shapedNode (tb : Tables) (c : Ctx) (tag : Tag) (kids : List T) : Bool :=
  match c, tag with
  | .expr, .binop _ _ => kindAt tb kids 0 != .text
  | .expr, .unop _ _ => kindAt tb kids 0 != .text
  | .from_, .nativeQuery al => al != some 0
  | .sel, .select _ _ | .sel, .union _ _ | .sel, .grp | .sel, .nil => true
  | .sel, _ => false
  | _, _ => true

mutual
def shaped (tb : Tables) (w : Bool) (c : Ctx) : T → Bool
  | .mk tag kids => if c = .skip then true else shapedNode tb c tag kids && shapedL tb w c tag 0 kids
def shapedL (tb : Tables) (w : Bool) (c : Ctx) (tag : Tag) (i : Nat) : List T → Bool
  | [] => true
  | k :: ks => shaped tb w (kidCtx w c tag i) k && shapedL tb w c tag (i + 1) ks
end

/-! ## `prepare_create_table` and the caller's columns -/

/-- the (type, primary-key flag) the loop USES for a column: computed in locals since 0ccda5f -/
def stepCol (c : Col) : Col :=
  match c.type with
  | some ty => if lower ty == "serial" then { type := some "INT", pk := true } else c
  | none => c

/-- the loop: columns as left behind in the caller's tree and the outcome (it stops at the first unknown type) -/
def prepareCols (tb : Tables) : List Col → List Col × Option Exc
  | [] => ([], none)
  | c :: cs =>
    match (stepCol c).type with
    | some ty =>
      match getType tb ty with
      | some e => (c :: cs, some e)
      | none => let r := prepareCols tb cs; (c :: r.1, r.2)
    | none => let r := prepareCols tb cs; (c :: r.1, r.2)

end MindsVerif.Fallback
