import MindsVerif.Model.Lex
/-!
# `float_to_str` — how `Constant.get_string` prints a float (mindsdb_sql/parser/ast/select/constant.py)

    text = repr(value)
    if 'e' in text or 'E' in text:
        text = format(Decimal(text), 'f')
        if '.' not in text:
            text += '.0'
    return text

The grammars have no exponent form for numbers (`FLOAT` is `\d+\.\d+` / `\d+\.\d*`), so a repr with an exponent is
rewritten in positional notation.  `repr(float)` itself (David Gay's shortest round-trip digits) is NOT modelled: the
model starts at the repr TEXT, which the harness takes from the interpreter.  Modelled:

* `parseSci` — the shape `[-]D[.DDD](e|E)[+|-]XX` of a repr with an exponent (what `Decimal(text)` reads: coefficient
  digits `ip ++ fp` with leading zeros dropped, exponent `±XX - len fp`);
* `positionalParts` — `Decimal.__format__(…, 'f')` without precision (no rounding): exponent ≥ 0 → the coefficient
  followed by that many zeros and no point (then `float_to_str` appends `.0`); exponent `-k` → the point is put `k`
  digits from the right, padding with zeros behind `0.` when the coefficient is shorter (a zero coefficient with a
  positive exponent is rescaled to `0` first);
* `floatToStr` — the function on repr texts.

`Lemmas/FloatPos.lean`: the printed text is `digits . digits` (one FLOAT token in all three lexers) and denotes the
SAME rational number as the repr, for every digit string and every exponent.  Tie: stream `float-print`
(`floatToStr (repr v)` vs `Constant(v).to_string()` over floats of all magnitudes).
-/
namespace MindsVerif.FloatPos
open MindsVerif.Lex

structure Sci where
  neg : Bool
  ip : List Char
  fp : List Char
  expNeg : Bool
  exp : Nat
  deriving Repr, DecidableEq

def isDig (c : Char) : Bool := c.isDigit

def zeros (n : Nat) : List Char := List.replicate n '0'

/-- `Decimal._int`: the coefficient digits without leading zeros (`'0'` for zero) -/
def stripZeros (l : List Char) : List Char :=
  match l.dropWhile (· == '0') with
  | [] => ['0']
  | r => r

def parseSci (s : List Char) : Option Sci :=
  let (neg, s) := match s with
    | '-' :: t => (true, t)
    | _ => (false, s)
  let ip := s.takeWhile isDig
  let r := s.dropWhile isDig
  let (fp, r) := match r with
    | '.' :: t => (t.takeWhile isDig, t.dropWhile isDig)
    | _ => ([], r)
  match r with
  | e :: r' =>
    if e = 'e' ∨ e = 'E' then
      let (en, ds) := match r' with
        | '-' :: t => (true, t)
        | '+' :: t => (false, t)
        | _ => (false, r')
      if ip ≠ [] ∧ ds ≠ [] ∧ ds.all isDig = true then some ⟨neg, ip, fp, en, digitsValue ds⟩ else none
    else none
  | [] => none

/-- the Decimal exponent `±exp - len fp` is ≥ 0 -/
def expNonNeg (x : Sci) : Bool := (!x.expNeg && x.fp.length ≤ x.exp) || (x.expNeg && x.exp + x.fp.length == 0)

/-- (integer digits, fraction digits) of `float_to_str` on a repr with an exponent -/
def positionalParts (x : Sci) : List Char × List Char :=
  let n := x.fp.length
  let d := stripZeros (x.ip ++ x.fp)
  if expNonNeg x then
    (d ++ zeros (if d = ['0'] then 0 else x.exp - n), ['0'])
  else
    let k := if x.expNeg then n + x.exp else n - x.exp
    if d.length ≤ k then (['0'], zeros (k - d.length) ++ d)
    else (d.take (d.length - k), d.drop (d.length - k))

def positional (x : Sci) : List Char :=
  let p := positionalParts x
  (if x.neg then ['-'] else []) ++ p.1 ++ '.' :: p.2

def hasExp (r : List Char) : Bool := r.any fun c => c == 'e' || c == 'E'

/-- `float_to_str` as a function of `repr(value)` -/
def floatToStr (r : List Char) : List Char :=
  if hasExp r then
    match parseSci r with
    | some x => positional x
    | none => r
  else r

end MindsVerif.FloatPos
