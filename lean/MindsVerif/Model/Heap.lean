/-!
# M11 `Heap` — Python object graphs, `copy.deepcopy`, `Identifier.__deepcopy__`, mutation

A heap is a list of cells; the address of a cell is its index (allocation = append, so the cells
of the heap a copy starts from are exactly the addresses `< h.length`).  A cell is an object
(`kind` = class name, slots = `vars(x)` in order), a list (`kind = "list"`, keys are ignored), a
dict (`kind = "dict"`, keys = the interned keys) or a tuple with mutable content.  Values are atoms
(`str`/`int`/`float`/`bool`/`None` — everything `copy._deepcopy_atomic` returns unchanged) or
references.

`dc` transcribes `copy.deepcopy(x, memo)` of CPython 3.12 (`Lib/copy.py`):
memo hit → the memoised copy; atomic → itself; otherwise allocate the empty result, **memoise it
before the children are copied** (`_deepcopy_list`: `y = []; memo[id(x)] = y`, `_reconstruct`:
`y = func(*args); memo[id(x)] = y`), copy the children left to right with the same memo.
When the hook is on, a cell of kind `Identifier` is copied by
`mindsdb_sql/parser/ast/select/identifier.py:Identifier.__deepcopy__`:

    identifier = Identifier(parts=copy(self.parts))        -- new list, *same elements*
    identifier.alias = deepcopy(self.alias)                -- fresh memo
    identifier.parentheses = self.parentheses              -- by reference
    if hasattr(self, 'sub_select'):
        identifier.sub_select = deepcopy(self.sub_select)  -- fresh memo
    return identifier                                      -- every other attribute is dropped

(`deepcopy` then stores `memo[id(self)] = identifier`.)  Hook `fixed` is the proposed repair
(`parts=deepcopy(self.parts, memo)`).
Recursion depth is explicit fuel (Python: the recursion limit); running out of fuel, a dangling
reference or a missing attribute give `none` (Python: an exception, no copy is returned).
-/
namespace MindsVerif.Heap

abbrev Addr := Nat

inductive Val where
  | atom (s : String)
  | ref (a : Addr)
  deriving DecidableEq, Repr, Inhabited

structure Cell where
  kind : String
  slots : List (String × Val)
  deriving DecidableEq, Repr, Inhabited

abbrev Heap := List Cell
abbrev Memo := List (Addr × Addr)

/-- which `__deepcopy__` the class `Identifier` has: none (generic), the pinned one, the repaired one;
`unknown` = the probe could not classify the behaviour (every copy fails in the model) -/
inductive Hook where
  | off | pinned | fixed | unknown
  deriving DecidableEq, Repr, Inhabited

def Cell.slot? (c : Cell) (k : String) : Option Val := c.slots.lookup k

/-- `y.append(v)` / `y[k] = v` / `y.__dict__[k] = v` on the object under construction -/
def pushSlot (h : Heap) (a : Addr) (kv : String × Val) : Heap :=
  match h[a]? with
  | some c => h.set a { c with slots := c.slots ++ [kv] }
  | none => h

/-- `copy.copy(x)` of a list / plain object: a new cell with the same slot values -/
def shallowCopy (h : Heap) : Val → Heap × Val
  | .atom s => (h, .atom s)
  | .ref p =>
    match h[p]? with
    | some c => (h ++ [c], .ref h.length)
    | none => (h, .ref p)

/-- copy the slots of the original left to right into the cell `a'` under construction -/
def dcSlots (f : Heap → Memo → Val → Option (Heap × Memo × Val)) (a' : Addr) :
    Heap → Memo → List (String × Val) → Option (Heap × Memo)
  | h, m, [] => some (h, m)
  | h, m, (k, v) :: rest =>
    match f h m v with
    | none => none
    | some (h1, m1, v') => dcSlots f a' (pushSlot h1 a' (k, v')) m1 rest

def identCell (al pa ps : Val) (ss : Option Val) : Cell :=
  ⟨"Identifier", [("alias", al), ("parentheses", pa), ("parts", ps)] ++
    (match ss with | some s => [("sub_select", s)] | none => [])⟩

/-- `copy.deepcopy(v, memo)` -/
def dc (hook : Hook) : Nat → Heap → Memo → Val → Option (Heap × Memo × Val)
  | _, h, m, .atom s => some (h, m, .atom s)
  | 0, h, m, .ref a =>
    match m.lookup a with
    | some a' => some (h, m, .ref a')
    | none => none
  | fuel + 1, h, m, .ref a =>
    match m.lookup a with
    | some a' => some (h, m, .ref a')
    | none =>
      match h[a]? with
      | none => none
      | some c =>
        if hook = .unknown then none
        else if hook ≠ .off ∧ c.kind = "Identifier" then
          match c.slot? "parts", c.slot? "alias", c.slot? "parentheses" with
          | some ps, some al, some pa =>
            -- parts
            let r1 : Option (Heap × Memo × Val) :=
              if hook = .fixed then dc hook fuel h m ps
              else let (h1, ps') := shallowCopy h ps; some (h1, m, ps')
            match r1 with
            | none => none
            | some (h1, m1, ps') =>
              match dc hook fuel h1 [] al with
              | none => none
              | some (h2, _, al') =>
                match c.slot? "sub_select" with
                | none =>
                  some (h2 ++ [identCell al' pa ps' none], (a, h2.length) :: m1, .ref h2.length)
                | some ss =>
                  match dc hook fuel h2 [] ss with
                  | none => none
                  | some (h3, _, ss') =>
                    some (h3 ++ [identCell al' pa ps' (some ss')], (a, h3.length) :: m1, .ref h3.length)
          | _, _, _ => none
        else
          match dcSlots (dc hook fuel) h.length (h ++ [⟨c.kind, []⟩]) ((a, h.length) :: m) c.slots with
          | none => none
          | some (h', m') => some (h', m', .ref h.length)

/-- `x.copy()` = `copy.deepcopy(x)` with a new memo -/
def deepcopy (hook : Hook) (fuel : Nat) (h : Heap) (v : Val) : Option (Heap × Val) :=
  (dc hook fuel h [] v).map (fun r => (r.1, r.2.2))

/-! ## reachability -/

/-- `Reach h v b`: the mutable cell `b` is reachable from the value `v` in `h` -/
inductive Reach (h : Heap) : Val → Addr → Prop where
  | here (a : Addr) : Reach h (.ref a) a
  | step {a : Addr} {c : Cell} {kv : String × Val} {b : Addr} :
      h[a]? = some c → kv ∈ c.slots → Reach h kv.2 b → Reach h (.ref a) b

/-- executable reachability (depth-first, `fuel` bounds the number of cells expanded) -/
def reachFrom : Nat → Heap → List Val → List Addr → List Addr
  | 0, _, _, seen => seen
  | _, _, [], seen => seen
  | fuel + 1, h, .atom _ :: rest, seen => reachFrom fuel h rest seen
  | fuel + 1, h, .ref a :: rest, seen =>
    if seen.contains a then reachFrom fuel h rest seen
    else
      match h[a]? with
      | some c => reachFrom fuel h (c.slots.map (·.2) ++ rest) (seen ++ [a])
      | none => reachFrom fuel h rest (seen ++ [a])

def reachList (h : Heap) (v : Val) : List Addr :=
  reachFrom (h.foldl (fun n c => n + c.slots.length + 1) 1 + 1) h [v] []

/-! ## well-formedness and the side conditions of the custom hook -/

def Val.okB (n : Nat) : Val → Bool
  | .atom _ => true
  | .ref a => decide (a < n)

def Val.isAtom : Val → Bool
  | .atom _ => true
  | .ref _ => false

/-- no dangling references -/
def wfB (h : Heap) : Bool := h.all (fun c => c.slots.all (fun kv => kv.2.okB h.length))

/-- every `Identifier` object keeps an atom in `parentheses` (it is a `bool` in every tree the
parsers and the planner build) -/
def parenAtomicB (h : Heap) : Bool :=
  h.all (fun c => c.kind != "Identifier" ||
    (match c.slot? "parentheses" with | some v => v.isAtom | none => true))

/-- every `Identifier` object's `parts` is a list of atoms (strings): no `Star` element -/
def partsAtomicB (h : Heap) : Bool :=
  h.all (fun c => c.kind != "Identifier" ||
    (match c.slot? "parts" with
     | some (.ref p) => (match h[p]? with | some cp => cp.slots.all (fun kv => kv.2.isAtom) | none => true)
     | _ => true))

/-! ## mutation -/

/-- any in-place change of one mutable object: set / delete an attribute, append / remove / replace a
list item, set a dict entry … (`f` is arbitrary) -/
def mutate (h : Heap) (a : Addr) (f : Cell → Cell) : Heap :=
  match h[a]? with
  | some c => h.set a (f c)
  | none => h

def mutateAll (h : Heap) : List (Addr × (Cell → Cell)) → Heap
  | [] => h
  | (a, f) :: rest => mutateAll (mutate h a f) rest

def setSlot (k : String) (v : Val) (c : Cell) : Cell :=
  if c.slots.any (·.1 == k) then
    { c with slots := c.slots.map (fun kv => if kv.1 == k then (k, v) else kv) }
  else { c with slots := c.slots ++ [(k, v)] }

def appendItem (v : Val) (c : Cell) : Cell := { c with slots := c.slots ++ [("", v)] }
def removeItem (i : Nat) (c : Cell) : Cell := { c with slots := c.slots.eraseIdx i }

/-! ## a concrete printer for the witness: `Identifier.parts_to_str` over `str` / `Star` parts
(`Star.to_string` = `maybe_add_parentheses('*')`) -/

def printPart (h : Heap) : Val → String
  | .atom s => s
  | .ref a =>
    match h[a]? with
    | some c => if c.slot? "parentheses" = some (.atom "True") then "(*)" else "*"
    | none => "?"

def printIdent (h : Heap) : Val → String
  | .atom s => s
  | .ref a =>
    match h[a]? with
    | some c =>
      match c.slot? "parts" with
      | some (.ref p) =>
        match h[p]? with
        | some cp => ".".intercalate (cp.slots.map (fun kv => printPart h kv.2))
        | none => "?"
      | _ => "?"
    | none => "?"

/-! ## canonical form of the graph below a value (for the correspondence driver):
cells reachable from `v` are numbered in depth-first slot order; addresses `< old` are printed as
`o<addr>` and not entered (they belong to the original). -/

def canonVal (old : Nat) (order : List Addr) : Val → String
  | .atom s => s
  | .ref a => if a < old then s!"o{a}" else
      match order.idxOf? a with
      | some i => s!"n{i}"
      | none => "?"

def canonFrom : Nat → Nat → Heap → List Val → List Addr → List Addr
  | 0, _, _, _, seen => seen
  | _, _, _, [], seen => seen
  | fuel + 1, old, h, .atom _ :: rest, seen => canonFrom fuel old h rest seen
  | fuel + 1, old, h, .ref a :: rest, seen =>
    if a < old || seen.contains a then canonFrom fuel old h rest seen
    else
      match h[a]? with
      | some c => canonFrom fuel old h (c.slots.map (·.2) ++ rest) (seen ++ [a])
      | none => canonFrom fuel old h rest (seen ++ [a])

def canon (old : Nat) (h : Heap) (v : Val) : String :=
  let order := canonFrom (h.foldl (fun n c => n + c.slots.length + 1) 1 + 1) old h [v] []
  let cells := order.map (fun a =>
    match h[a]? with
    | some c => " ".intercalate (c.kind :: c.slots.map (fun kv => kv.1 ++ "=" ++ canonVal old order kv.2))
    | none => "?")
  canonVal old order v ++ " ; " ++ " ; ".intercalate cells

end MindsVerif.Heap
