import MindsVerif.Model.Heap
/-!
Structural observations of an object graph and an executable simulation check.

`unfold n h v` is the depth-`n` unfolding of the graph below `v` (class names, attribute names / keys
in order, atoms).  Everything `str(x)`, `x.to_tree()` and the hand-written `__eq__` compute from a tree
is a function of a sufficiently deep unfolding (they never look at object identity).
`simCheck h h' R` checks that the finite relation `R` between cells of `h` and cells of `h'` is a
simulation; `buildSim` computes the candidate relation by walking two graphs in parallel.
-/
namespace MindsVerif.Heap

inductive UTree where
  | atom (s : String)
  | cut
  | node (kind : String) (kids : List (String × UTree))

def unfold : Nat → Heap → Val → UTree
  | _, _, .atom s => .atom s
  | 0, _, .ref _ => .cut
  | n + 1, h, .ref a =>
    match h[a]? with
    | none => .cut
    | some c => .node c.kind (c.slots.map (fun kv => (kv.1, unfold n h kv.2)))

/-- `v'` corresponds to `v` under the relation `R` -/
def relB (R : Memo) : Val → Val → Bool
  | .atom s, .atom s' => s == s'
  | .ref a, .ref a' => R.contains (a, a')
  | _, _ => false

def slotsRel (R : Memo) : List (String × Val) → List (String × Val) → Bool
  | [], [] => true
  | (k, v) :: r, (k', v') :: r' => k == k' && relB R v v' && slotsRel R r r'
  | _, _ => false

def simCheck (h h' : Heap) (R : Memo) : Bool :=
  R.all (fun p =>
    match h[p.1]?, h'[p.2]? with
    | some c, some c' => c.kind == c'.kind && slotsRel R c.slots c'.slots
    | none, none => true
    | _, _ => false)

/-- candidate relation: walk both graphs in parallel from `(v, v')` -/
def buildSim : Nat → Heap → Heap → List (Val × Val) → Memo → Memo
  | 0, _, _, _, R => R
  | _, _, _, [], R => R
  | fuel + 1, h, h', (.ref a, .ref a') :: rest, R =>
    if R.contains (a, a') then buildSim fuel h h' rest R
    else
      match h[a]?, h'[a']? with
      | some c, some c' => buildSim fuel h h' ((c.slots.map (·.2)).zip (c'.slots.map (·.2)) ++ rest) (R ++ [(a, a')])
      | _, _ => buildSim fuel h h' rest (R ++ [(a, a')])
  | fuel + 1, h, h', _ :: rest, R => buildSim fuel h h' rest R

/-- is the graph below `v'` in `h'` a structural copy of the graph below `v` in `h`? -/
def isoCheck (h h' : Heap) (v v' : Val) : Bool :=
  let fuel := h'.foldl (fun n c => n + c.slots.length + 1) 1 + h.foldl (fun n c => n + c.slots.length + 1) 1
  let R := buildSim fuel h h' [(v, v')] []
  relB R v v' && simCheck h h' R || (match v, v' with | .atom s, .atom s' => s == s' | _, _ => false)

/-- every `Identifier` object has exactly the attributes its `__deepcopy__` carries over, in the order
`Identifier.__init__` creates them (`alias, parentheses, parts` and optionally `sub_select`): the
hypothesis under which the custom hook produces a *structural* copy (nothing dropped) -/
def identShapeB (h : Heap) : Bool :=
  h.all (fun c => c.kind != "Identifier" ||
    (c.slots.map (·.1) == ["alias", "parentheses", "parts"] ||
     c.slots.map (·.1) == ["alias", "parentheses", "parts", "sub_select"]))

end MindsVerif.Heap
