/-!
# Object histories: observations (print, `==`, `to_tree`, …) interleaved with in-place edits

AST nodes of mindsdb_sql are mutable Python objects; the parser and the planner edit them in place
(`table.parts.pop(0)`, `table.parts.insert(0, integration)`, `node.parts = …`, `node.alias = …`, `node.op = '='`,
`param.value = …`, `query.where = …`).  The printed form of a node has to be a function of the state the node holds
NOW, whatever was observed or edited before.

* `Ev ω` — one event of a history: an observation, or an edit `o : ω`;
* `runLive step pr` — the machine of the code as it is: `get_string` computes the text from the current attributes
  (`pr`), observations leave no trace;
* `runMemo step pr inv` — the machine of a printer that remembers its text and forgets it on the edits selected by
  `inv` (any caching scheme that is keyed on events: "reset in the setter of `parts`", "reset never", "reset on
  everything");
* `ListOp` — the Python `list` edits applied to `Identifier.parts` (total functions; the generators only use valid
  indices, for which they are Python's semantics: `insert` clamps the index exactly like Python).

`Lemmas/Hist.lean`: the live machine prints `pr` of the current state at every observation; a memoising printer is
indistinguishable from it on ALL histories iff every edit it does not invalidate on leaves the printed form unchanged.
The live machine is tied to the real objects by the `ident-history` stream (same history on a real `Identifier`).
-/
namespace MindsVerif.Hist

inductive Ev (ω : Type) where
  | obs
  | act (o : ω)
  deriving Repr

variable {ω σ τ : Type}

/-- outputs of the observations of a history, printer without memory -/
def runLive (step : ω → σ → σ) (pr : σ → τ) : List (Ev ω) → σ → List τ
  | [], _ => []
  | .obs :: h, s => pr s :: runLive step pr h s
  | .act o :: h, s => runLive step pr h (step o s)

/-- the state held at each observation -/
def states (step : ω → σ → σ) : List (Ev ω) → σ → List σ
  | [], _ => []
  | .obs :: h, s => s :: states step h s
  | .act o :: h, s => states step h (step o s)

/-- the state after the whole history -/
def final (step : ω → σ → σ) : List (Ev ω) → σ → σ
  | [], s => s
  | .obs :: h, s => final step h s
  | .act o :: h, s => final step h (step o s)

/-- drop the observations -/
def edits : List (Ev ω) → List (Ev ω)
  | [] => []
  | .obs :: h => edits h
  | .act o :: h => .act o :: edits h

/-- printer with a remembered text, forgotten on the edits with `inv o = true` -/
def runMemo (step : ω → σ → σ) (pr : σ → τ) (inv : ω → Bool) : List (Ev ω) → σ → Option τ → List τ
  | [], _, _ => []
  | .obs :: h, s, some t => t :: runMemo step pr inv h s (some t)
  | .obs :: h, s, none => pr s :: runMemo step pr inv h s (some (pr s))
  | .act o :: h, s, c => runMemo step pr inv h (step o s) (if inv o then none else c)

/-- Python `list` edits -/
inductive ListOp (α : Type) where
  /-- `obj.parts = l` (rebinding the attribute) -/
  | assign (l : List α)
  /-- `parts.pop(i)` / `del parts[i]` -/
  | pop (i : Nat)
  /-- `parts.insert(i, x)` (an index past the end appends, like Python) -/
  | insert (i : Nat) (x : α)
  | append (x : α)
  /-- `parts[i] = x` -/
  | setItem (i : Nat) (x : α)
  /-- `parts.extend(l)` / `parts += l` -/
  | extend (l : List α)
  | reverse
  deriving Repr

def ListOp.apply {α : Type} : ListOp α → List α → List α
  | .assign l, _ => l
  | .pop i, s => s.eraseIdx i
  | .insert i x, s => s.take i ++ x :: s.drop i
  | .append x, s => s ++ [x]
  | .setItem i x, s => s.set i x
  | .extend l, s => s ++ l
  | .reverse, s => s.reverse

/-- the invalidation policy "forget the text when the attribute is re-assigned" (a setter / property) -/
def invOnAssign {α : Type} : ListOp α → Bool
  | .assign _ => true
  | _ => false

end MindsVerif.Hist
