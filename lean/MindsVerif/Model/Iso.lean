/-
M12 — isolation: calls that step a private state and only read a shared store.
`parse_sql`, `plan_query` and `SqlalchemyRender.get_string` each create their working objects
(lexer, parser, planner, renderer instances) per call and only read class-level tables; the
harness checks exactly these two assumptions on the real code (fresh objects, class-level state
hashes unchanged).  Under them a run of the system is a schedule over private step functions.
-/
namespace MindsVerif.Iso

/-- the state of one call: still running with private state `σ`, or finished with result `ρ` -/
abbrev Cell (σ ρ : Type) := σ ⊕ ρ

/-- one atomic step of a call: reads the shared store `sh`, updates its private state only -/
def stepCell {Sh σ ρ : Type} (f : Sh → σ → Cell σ ρ) (sh : Sh) : Cell σ ρ → Cell σ ρ
  | .inl s => f sh s
  | .inr r => .inr r

/-- run call `i` for one step -/
def stepAt {Sh σ ρ : Type} (f : Sh → σ → Cell σ ρ) (sh : Sh) (i : Nat) (st : List (Cell σ ρ)) :
    List (Cell σ ρ) :=
  st.modify i (stepCell f sh)

/-- run a whole schedule (any interleaving: a list of call indices) -/
def runSched {Sh σ ρ : Type} (f : Sh → σ → Cell σ ρ) (sh : Sh) (sched : List Nat)
    (st : List (Cell σ ρ)) : List (Cell σ ρ) :=
  sched.foldl (fun st i => stepAt f sh i st) st

def iter {α : Type} (g : α → α) : Nat → α → α
  | 0, a => a
  | n + 1, a => iter g n (g a)

/-- a lazily initialised global set (`RESERVED_KEYWORDS` filled by `get_reserved_words`):
state = the words currently in the set; a call adds `w` and returns the set -/
def lazyGet (w : List Nat) (g : List Nat) : List Nat × List Nat :=
  let g' := g ++ w.filter (fun x => !g.contains x)
  (g', g')

end MindsVerif.Iso
