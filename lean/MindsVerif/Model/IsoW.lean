import MindsVerif.Model.Iso
/-
M12c (round 6) — calls whose steps may WRITE the shared store.  In `Model/Iso.lean` the store is a parameter nobody
can write.  Seed C20_12 changes a module-level variable for the duration of a call and restores it: between two
steps of that call the store is different, and a step of ANOTHER call scheduled there reads the changed value.
`runSchedW` threads the store through the schedule; a step is one stretch of a call between two entries into library
functions (the boundaries at which `tools/harness/interleave.py` compares the module / class level attributes and at
which it runs other calls).  Core Lean only.
-/
namespace MindsVerif.Iso

/-- one step of a call that returns the new private state AND the store it leaves -/
def stepCellW {Sh σ ρ : Type} (f : Sh → σ → Cell σ ρ × Sh) (sh : Sh) : Cell σ ρ → Cell σ ρ × Sh
  | .inl s => f sh s
  | .inr r => (.inr r, sh)

/-- run call `i` for one step: its cell and the store change -/
def stepAtW {Sh σ ρ : Type} (f : Sh → σ → Cell σ ρ × Sh) (i : Nat) (p : Sh × List (Cell σ ρ)) :
    Sh × List (Cell σ ρ) :=
  match p.2[i]? with
  | some c => ((stepCellW f p.1 c).2, p.2.set i (stepCellW f p.1 c).1)
  | none => p

def runSchedW {Sh σ ρ : Type} (f : Sh → σ → Cell σ ρ × Sh) (sched : List Nat) (p : Sh × List (Cell σ ρ)) :
    Sh × List (Cell σ ρ) :=
  sched.foldl (fun p i => stepAtW f i p) p

/-- the shape of seed C20_12: a call `(pc, want, saved, seen)` that (step 0) saves the store and, if it `want`s another
value, switches the store to it, (step 1) prints = reads the store, (step 2) restores what it saved and returns what it
printed.  `want = none` is a plain print / render that never touches the store. -/
def quoteStep (sh : Nat) (s : Nat × Option Nat × Nat × Nat) : Cell (Nat × Option Nat × Nat × Nat) Nat × Nat :=
  match s.1 with
  | 0 => (.inl (1, s.2.1, sh, 0), match s.2.1 with | some q => q | none => sh)
  | 1 => (.inl (2, s.2.1, s.2.2.1, sh), sh)
  | _ => (.inr s.2.2.2, match s.2.1 with | some _ => s.2.2.1 | none => sh)

end MindsVerif.Iso
