import MindsVerif.Model.ModelJoin
/-!
# Join-type strings: what they MEAN and how `PlanJoinTablesQuery` CLASSIFIES them (property C14, round 6)

The join type of a `Join` node is a STRING made by the parser (`' '.join(tokens)`, upper-cased by `Join.__init__`):
`"JOIN"`, `"LEFT OUTER JOIN"`, `"FULL OUTER JOIN"`, … (`Operand.jtype` carries it unchanged).  The planner classifies
that string at three places, each time ad hoc:

* `get_filters_from_join_conditions`: `join_type.upper().split()[0] in ('RIGHT', 'FULL')`   → `rightOrFull`,
* `mark_nullable_tables`: `kind = join_type.upper().split()[0]`, `kind in ('LEFT', 'FULL')` / `('RIGHT', 'FULL')` → `markNullable`,
* `check_use_limit`: `join_type.upper() != 'LEFT JOIN'` (the whole string)                     → `useLimitLoop`.

`ModelJoin` transcribes the three places literally (first word / whole string).  This file adds

* the SPECIFICATION side: `JoinClass`, `semClass` (the class a spelling denotes, read off its words, independent of
  their order and of the planner) and what a class permits (`padsRight`, `padsLeft`, `keepsRight`, `limitSafe`);
* the CODE side as one observable record per string: `codeFlags jt`, computed by running the model's own plan
  functions (`rightOrFull`, `isNullable`, `useLimitLoop`) on a two / three table join of that type.

`Props/C14Join.lean` proves, by kernel evaluation on the spelling list regenerated from the live grammar, that the code
side respects the specification side for every spelling the parser can produce.
-/
namespace MindsVerif.ModelJoin

/-- what a join between the data joined so far (left) and one more operand (right) can be -/
inductive JoinClass where
  | inner      -- JOIN, INNER JOIN, the comma
  | cross      -- CROSS JOIN (with an ON clause the grammar accepts: an inner join)
  | left       -- LEFT [OUTER] JOIN: every left row is kept, the right side is padded with NULLs
  | right      -- RIGHT [OUTER] JOIN: every right row is kept, the left side is padded
  | full       -- FULL [OUTER] JOIN: both
  | outer      -- OUTER JOIN with no side named: nothing is known to be droppable — to be treated as FULL
deriving DecidableEq, Repr, Inhabited

/-- rows of the RIGHT operand can be replaced by NULLs in the result (the left rows are all kept) -/
def JoinClass.padsRight : JoinClass → Bool
  | .left | .full | .outer => true
  | _ => false

/-- rows of the LEFT operand can be replaced by NULLs in the result (the right rows are all kept) -/
def JoinClass.padsLeft : JoinClass → Bool
  | .right | .full | .outer => true
  | _ => false

/-- every row of the right operand is in the result, whatever ON says: ON can not restrict the right operand's fetch -/
def JoinClass.keepsRight : JoinClass → Bool
  | .right | .full | .outer => true
  | _ => false

/-- the only class for which `check_use_limit` may leave the LIMIT in the first fetch -/
def JoinClass.limitSafe : JoinClass → Bool
  | .left => true
  | _ => false

def JoinClass.name : JoinClass → String
  | .inner => "inner" | .cross => "cross" | .left => "left" | .right => "right" | .full => "full" | .outer => "outer"

/-- `s.upper().split()` on ASCII text -/
def upperWordsAux : List Char → List Char → List String → List String
  | [], cur, acc => if cur.isEmpty then acc else acc ++ [String.ofList cur]
  | c :: cs, cur, acc =>
    if c.isWhitespace then upperWordsAux cs [] (if cur.isEmpty then acc else acc ++ [String.ofList cur])
    else upperWordsAux cs (cur ++ [c.toUpper]) acc

def upperWords (s : String) : List String := upperWordsAux s.toList [] []

/-- SPECIFICATION: the class a join-type string denotes — by the side words it contains, wherever they stand.
(`""`: the first operand, no join.)  A string naming two different sides is not SQL; the most preserving reading wins. -/
def semClass (jt : String) : JoinClass :=
  let w := upperWords jt
  if w.contains "FULL" || (w.contains "LEFT" && w.contains "RIGHT") then .full
  else if w.contains "LEFT" then .left
  else if w.contains "RIGHT" then .right
  else if w.contains "CROSS" then .cross
  else if w.contains "OUTER" then .outer
  else .inner

/-- the four push-down decisions that depend on a join type -/
structure JoinFlags where
  keepsRight : Bool     -- nothing derived from ON reaches the right operand's fetch
  padsRight : Bool      -- the right operand is marked nullable
  padsLeft : Bool       -- the operands joined before are marked nullable
  limitLeft : Bool      -- LIMIT stays in the first fetch when a further table follows this join
deriving DecidableEq, Repr, Inhabited

/-- SPECIFICATION: what a class demands of the first three decisions, and the most it allows for the fourth -/
def JoinClass.flags (c : JoinClass) : JoinFlags :=
  { keepsRight := c.keepsRight, padsRight := c.padsRight, padsLeft := c.padsLeft, limitLeft := c.limitSafe }

def probeTab (n : String) (jt : String) : Operand :=
  { kind := .tab, parts := ["int1", n], alias := some [n], jtype := jt, on := none, target := none }

/-- `a <jt> b` -/
def probePair (jt : String) : List Operand := [probeTab "a" "", probeTab "b" jt]

/-- `a <jt> b JOIN c` -/
def probeTriple (jt : String) : List Operand := [probeTab "a" "", probeTab "b" jt, probeTab "c" "JOIN"]

/-- CODE: the decisions of the planner model for a join of type `jt`, through the functions the plan is built with -/
def codeFlags (jt : String) : JoinFlags :=
  { keepsRight := rightOrFull jt,
    padsRight := isNullable (probePair jt) 1,
    padsLeft := isNullable (probePair jt) 0,
    limitLeft := useLimitLoop (probeTriple jt) (joinSeq (probeTriple jt)) none true }

/-- the code's decisions give the class what it demands (a decision may be MORE cautious than demanded, never less);
LIMIT is kept at most where the class allows it -/
def respects (jt : String) : Bool :=
  let c := (semClass jt).flags
  let k := codeFlags jt
  (!c.keepsRight || k.keepsRight) && (!c.padsRight || k.padsRight) && (!c.padsLeft || k.padsLeft) && (!k.limitLeft || c.limitLeft)

/-- … and nothing is given up: the decisions are exactly the demanded ones (an observation about the pinned tree) -/
def exact (jt : String) : Bool :=
  let c := (semClass jt).flags
  let k := codeFlags jt
  k.keepsRight == c.keepsRight && k.padsRight == c.padsRight && k.padsLeft == c.padsLeft

/-- the first word decides (`join_type.upper().split()[0]`), as the code has it -/
def joinKind (jt : String) : String := lower (firstWord jt)

end MindsVerif.ModelJoin
