/-
M3 — the SLY LALR(1) runtime (`sly/yacc.py: Parser.parse`) as a total Lean function
over translator-generated tables.  Core Lean only (no Mathlib) so that the
line-protocol driver can import it cheaply.

Symbol codes: terminal `t` ↦ `2*t`, nonterminal `n` ↦ `2*n+1`.
Terminal 0 is `$end`, terminal 1 is the `error` pseudo token.
-/
namespace MindsVerif.LR

/-- Radix trie indexed by `Nat` (heap numbering: children of `i` are `2i+1`, `2i+2`). -/
inductive Trie (α : Type) where
  | nil : Trie α
  | node (v : Option α) (l r : Trie α) : Trie α

namespace Trie
variable {α : Type}

def get? : Trie α → Nat → Option α
  | nil, _ => none
  | node v l r, i =>
    bif i == 0 then v
    else bif (i - 1) % 2 == 0 then l.get? ((i - 1) / 2) else r.get? ((i - 1) / 2)

/-- `allIdx f a b t`: `f (a*j+b) x` holds for every entry `x` stored at sub-index `j`. -/
def allIdx (f : Nat → α → Bool) : Nat → Nat → Trie α → Bool
  | _, _, nil => true
  | a, b, node v l r =>
    (match v with | none => true | some x => f b x)
      && allIdx f (2 * a) (a + b) l && allIdx f (2 * a) (2 * a + b) r

end Trie

/-- Parse trees.  A node remembers its production number and its left-hand side. -/
inductive PT where
  | leaf (t : Nat) : PT
  | node (p lhs : Nat) (kids : List PT) : PT
  deriving Repr

def PT.root : PT → Nat
  | .leaf t => 2 * t
  | .node _ lhs _ => 2 * lhs + 1

structure Prod where
  lhs : Nat
  rhs : List Nat
  deriving Repr

/-- One state of the automaton, in the factored form emitted by the translator. -/
structure Row where
  /-- shift entries, `t * 4096 + target` -/
  shifts : List Nat
  /-- reduce groups `(production, mask of lookahead terminals)` -/
  reds : List (Nat × Nat)
  /-- mask of lookaheads whose table entry is an explicit `None` (nonassoc) -/
  nones : Nat
  /-- accept on `$end` -/
  acc : Bool
  /-- goto entries, `nt * 4096 + target` -/
  gotos : List Nat
  /-- `defaulted_states[s]` -/
  dflt : Option Nat
  /-- certificate: symbols known to lie below this state, topmost first -/
  past : List Nat
  /-- certificate: `pst[k]` is a bit mask of the states possible `k+1` entries down -/
  pst : List Nat

structure Tables where
  rows : Trie Row
  prods : Trie Prod
  /-- `gdom[A]` is a bit mask of states that have a goto on nonterminal `A` (certificate) -/
  gdom : List Nat
  start : Nat
  nStates : Nat

inductive Act where
  | shift (s : Nat) | reduce (p : Nat) | accept | none
  deriving Repr, DecidableEq

def findKey (k : Nat) : List Nat → Option Nat
  | [] => none
  | e :: es => bif e / 4096 == k then some (e % 4096) else findKey k es

def findRed (t : Nat) : List (Nat × Nat) → Option Nat
  | [] => none
  | (p, m) :: es => bif m.testBit t then some p else findRed t es

/-- `actions[state].get(ltype)` -/
def Row.action (r : Row) (t : Nat) : Act :=
  match findKey t r.shifts with
  | some s => .shift s
  | none =>
    match findRed t r.reds with
    | some p => .reduce p
    | none => bif r.acc && t == 0 then .accept else .none

def maskBits (m : Nat) (n : Nat) : List Nat :=
  (List.range n).filter (fun i => m.testBit i)

/-- `list(actions[state].keys())` as a set of terminal ids (order is not modelled) -/
def Row.keys (r : Row) (nTerms : Nat) : List Nat :=
  let m := r.shifts.foldl (fun acc e => acc ||| (1 <<< (e / 4096))) 0
  let m := r.reds.foldl (fun acc e => acc ||| e.2) m
  let m := m ||| r.nones
  let m := if r.acc then m ||| 1 else m
  maskBits m nTerms

def Row.goto (r : Row) (nt : Nat) : Option Nat := findKey nt r.gotos

/-- lookahead symbols -/
inductive LA where
  | tok (t : Nat) | eof | err
  deriving Repr, DecidableEq

def LA.term : LA → Nat
  | .tok t => t
  | .eof => 0
  | .err => 1

inductive Mode where
  /-- sqlite / mysql: `error()` raises `ParsingException` at once -/
  | raise
  /-- mindsdb: `error()` records `error_info`, drains the token iterator, returns `None` -/
  | drain
  deriving Repr, DecidableEq

structure ErrInfo where
  /-- index of the bad token in the token list; `none` = end of input -/
  bad : Option Nat
  /-- state whose action row supplies `expected_tokens` -/
  state : Nat
  deriving Repr, DecidableEq

abbrev Stack := List (Nat × PT)

def topState : Stack → Nat
  | [] => 0
  | (s, _) :: _ => s

structure Cfg where
  st : Stack
  input : List Nat
  la : Option LA
  las : List LA
  errcount : Nat
  errok : Bool
  consumed : Nat
  err : Option ErrInfo
  /-- productions reduced so far, most recent first (what a wrapped `Production.func` logs) -/
  log : List Nat

inductive Outcome where
  | accept (t : PT) (log : List Nat)
  /-- `parse` returned `None` -/
  | none_ (err : Option ErrInfo) (log : List Nat)
  /-- `error()` raised (raise mode) -/
  | synErr (e : ErrInfo) (log : List Nat)
  /-- the token generator raised (illegal character) -/
  | lexErr (log : List Nat)
  /-- the driver itself would raise IndexError / KeyError / RuntimeError -/
  | stuck (why : Nat)
  | fuel
  deriving Repr

def initCfg (toks : List Nat) : Cfg :=
  { st := [], input := toks, la := none, las := [], errcount := 0, errok := false,
    consumed := 0, err := none, log := [] }

def doReduce (T : Tables) (c : Cfg) (p : Nat) : Cfg ⊕ Outcome :=
  match T.prods.get? p with
  | none => .inr (.stuck 1)
  | some pr =>
    let n := pr.rhs.length
    if c.st.length < n then .inr (.stuck 2)
    else
      let kids := ((c.st.take n).map (·.2)).reverse
      let rest := c.st.drop n
      match T.rows.get? (topState rest) with
      | none => .inr (.stuck 3)
      | some r =>
        match r.goto pr.lhs with
        | none => .inr (.stuck 4)
        | some g => .inl { c with st := (g, .node p pr.lhs kids) :: rest, log := p :: c.log }

def topIsErr : Stack → Bool
  | (_, .leaf 1) :: _ => true
  | _ => false

/-- first half of the `t is None` branch: error-count bookkeeping and the user's `error()` -/
def errCallback (mode : Mode) (bad : Bool) (c : Cfg) (s : Nat) (l : LA) : Cfg ⊕ Outcome :=
  if c.errcount == 0 || c.errok then
    let info : ErrInfo := { bad := if l = .eof then none else some (c.consumed - 1), state := s }
    match mode with
    | .raise => .inr (.synErr info c.log)
    | .drain =>
      if bad then .inr (.lexErr c.log)
      else
        let c' := { c with errcount := 3, errok := false, input := [], err := some info }
        if l = .eof then .inr (.none_ c'.err c'.log) else .inl c'
  else .inl { c with errcount := 3 }

/-- second half: panic-mode manipulation of the stacks and the lookahead -/
def recover (c : Cfg) (l : LA) : Cfg ⊕ Outcome :=
  if c.st.isEmpty && l != .eof then
    .inl { c with la := none, las := [] }
  else if l = .eof then .inr (.none_ c.err c.log)
  else if l != .err then
    if topIsErr c.st then .inl { c with la := none }
    else .inl { c with las := l :: c.las, la := some .err }
  else
    .inl { c with st := c.st.tail }

/-- the `t is None` branch of `Parser.parse` -/
def doError (mode : Mode) (bad : Bool) (c : Cfg) (s : Nat) (l : LA) : Cfg ⊕ Outcome :=
  match errCallback mode bad c s l with
  | .inr o => .inr o
  | .inl c => recover c l

/-- make sure there is a lookahead (from `lookahead`, the lookahead stack, or the token iterator) -/
def fetch (bad : Bool) (c : Cfg) : (Cfg × LA) ⊕ Outcome :=
  match c.la with
  | some l => .inl (c, l)
  | none =>
    match c.las with
    | l :: ls => .inl ({ c with las := ls, la := some l }, l)
    | [] =>
      match c.input with
      | t :: ts => .inl ({ c with input := ts, la := some (.tok t), consumed := c.consumed + 1 }, .tok t)
      | [] => if bad then .inr (.lexErr c.log) else .inl ({ c with la := some .eof }, .eof)

def doShift (c : Cfg) (l : LA) (s' : Nat) : Cfg :=
  { c with st := (s', .leaf l.term) :: c.st, la := none, errcount := c.errcount - 1 }

def doAccept (c : Cfg) : Outcome :=
  match c.st with
  | [] => .none_ c.err c.log
  | (_, t) :: _ => .accept t c.log

def step (T : Tables) (mode : Mode) (bad : Bool) (c : Cfg) : Cfg ⊕ Outcome :=
  let s := topState c.st
  match T.rows.get? s with
  | none => .inr (.stuck 0)
  | some row =>
    match row.dflt with
    | some p => doReduce T c p
    | none =>
      match fetch bad c with
      | .inr o => .inr o
      | .inl (c, l) =>
        match row.action l.term with
        | .shift s' => .inl (doShift c l s')
        | .reduce p => doReduce T c p
        | .accept => .inr (doAccept c)
        | .none => doError mode bad c s l

def run (T : Tables) (mode : Mode) (bad : Bool) : Nat → Cfg → Outcome
  | 0, _ => .fuel
  | fuel + 1, c =>
    match step T mode bad c with
    | .inr o => o
    | .inl c' => run T mode bad fuel c'

def parse (T : Tables) (mode : Mode) (bad : Bool) (toks : List Nat) (fuel : Nat) : Outcome :=
  run T mode bad fuel (initCfg toks)

/-! ### The table validity checker (evaluated by the kernel on generated tables) -/

def isPrefix : List Nat → List Nat → Bool
  | [], _ => true
  | _ :: _, [] => false
  | a :: as, b :: bs => a == b && isPrefix as bs

/-- `subsetAll as bs`: `bs` is no longer than `as` and `as[i] ⊆ bs[i]` bitwise. -/
def subsetAll : List Nat → List Nat → Bool
  | _, [] => true
  | [], _ :: _ => false
  | a :: as, b :: bs => (a &&& b == a) && subsetAll as bs

/-- edge `s --X--> s'` respects the certificates -/
def edgeOK (T : Tables) (s : Nat) (r : Row) (X : Nat) (s' : Nat) : Bool :=
  s' != 0 &&
  match T.rows.get? s' with
  | none => false
  | some r' =>
    isPrefix r'.past (X :: r.past) &&
    match r'.pst with
    | [] => true
    | m0 :: rest => m0.testBit s && subsetAll r.pst rest

def nthD : List Nat → Nat → Nat
  | [], _ => 0
  | a :: _, 0 => a
  | _ :: as, n + 1 => nthD as n

def redOK (T : Tables) (r : Row) (p : Nat) : Bool :=
  match T.prods.get? p with
  | none => false
  | some pr =>
    isPrefix pr.rhs.reverse r.past &&
    match pr.rhs.length with
    | 0 => (r.goto pr.lhs).isSome
    | n + 1 =>
      n < r.pst.length &&
      (let d := nthD r.pst n
       d &&& nthD T.gdom pr.lhs == d)

def rowOK (T : Tables) (s : Nat) (r : Row) : Bool :=
  r.shifts.all (fun e => edgeOK T s r (2 * (e / 4096)) (e % 4096)) &&
  r.gotos.all (fun e => edgeOK T s r (2 * (e / 4096) + 1) (e % 4096)) &&
  r.reds.all (fun e => redOK T r e.1) &&
  (match r.dflt with | none => true | some p => r.reds.any (fun e => e.1 == p)) &&
  (!r.acc || (r.past == [2 * T.start + 1] && r.pst.head? == some 1)) &&
  -- no action on the `error` terminal, no shift on `$end`
  (r.action 1 == .none) && (findKey 0 r.shifts).isNone &&
  -- gdom certificate: a set bit means the goto exists
  goDom s r T.gdom 0
where
  goDom (s : Nat) (r : Row) : List Nat → Nat → Bool
    | [], _ => true
    | m :: ms, a => (!m.testBit s || (r.goto a).isSome) && goDom s r ms (a + 1)

def Tables.valid (T : Tables) : Bool :=
  Trie.allIdx (rowOK T) 1 0 T.rows &&
  -- every state mentioned in a mask must have a row: masks are below 2^nStates and rows exist
  (match T.rows.get? 0 with
   | none => false
   | some r0 => r0.past.isEmpty && r0.dflt.isNone && r0.action 0 == .none)

end MindsVerif.LR
