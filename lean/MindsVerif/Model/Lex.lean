import MindsVerif.Model.Py
/-!
# M2 `Lex` — literal / identifier scanners, token actions, grammar actions, encoders

Transcribed from (pinned tree):

* `parser/dialects/mindsdb/lexer.py`: `QUOTE_STRING = '(?:\\.|[^'])*(?:''(?:\\.|[^'])*)*'` with the action
  `t.value.replace('\\"', '"').replace("\\'", "'").replace("''", "'")`;
  `DQUOTE_STRING = "(?:\\.|[^"])*"` with `replace('\\"', '"').replace("\\'", "'")`;
  `ID = (?:([a-zA-Z_$0-9]*[a-zA-Z_$]+[a-zA-Z_$0-9]*)|(?:`([^`]+)`))`; `FLOAT = \d+\.\d+`; `INTEGER = \d+`.
* `parser/lexer.py` (sqlite, and mysql by inheritance): `QUOTE_STRING = '[^']*'`, `DQUOTE_STRING = "[^"]*"`
  without actions, `FLOAT = \d+\.\d*`.
* grammar actions (bottom of the sqlite / mysql parsers): `quote_string → p[0].strip('\'')`,
  `dquote_string → p[0].strip('"')`, `integer → int(p[0])`, `id → p[0]`,
  `identifier → Identifier.from_path_str(value)`.
* `ast/select/constant.py: Constant.get_string`, `ast/select/identifier.py: parts_to_str /
  path_str_to_parts / get_reserved_words`, `ast/variable.py`, `ast/select/parameter.py`.

The regex matchers reproduce Python `re` backtracking priority for these particular patterns: a greedy
`(?:A|B)*` first tries one more iteration (alternative `A`, then `B`) with everything that follows, and
only if that fails continues behind the star.  `.` does not match a newline (no DOTALL); `[^x]` does.
All matchers start *behind* the opening delimiter and return `(body, rest)`.
-/
namespace MindsVerif.Lex
open MindsVerif.Py

inductive Dialect where
  | sqlite | mysql | mindsdb
  deriving DecidableEq, Repr

/-- `(?:\\.|[^'])*(?:''(?:\\.|[^'])*)*'`: the state "A* B* '" (the loop behind a `''` is the same state). -/
def mQuote : List Char → Option (List Char × List Char)
  | [] => none
  | c :: t =>
    -- alternative `\\.` : a backslash and any character but newline
    (if c = '\\' then
      match t with
      | d :: t' => if d = '\n' then none else (mQuote t').map fun (b, r) => ('\\' :: d :: b, r)
      | [] => none
     else none : Option (List Char × List Char)).orElse fun _ =>
    -- alternative `[^']`
    (if c = '\'' then none else (mQuote t).map fun (b, r) => (c :: b, r) : Option (List Char × List Char)).orElse fun _ =>
    if c = '\'' then
      -- one more `''…` group, else the closing quote
      (match t with
       | d :: t' => if d = '\'' then (mQuote t').map fun (b, r) => ('\'' :: '\'' :: b, r) else none
       | [] => none : Option (List Char × List Char)).orElse fun _ => some ([], t)
    else none

/-- `(?:\\.|[^"])*"` -/
def mDQuote : List Char → Option (List Char × List Char)
  | [] => none
  | c :: t =>
    (if c = '\\' then
      match t with
      | d :: t' => if d = '\n' then none else (mDQuote t').map fun (b, r) => ('\\' :: d :: b, r)
      | [] => none
     else none : Option (List Char × List Char)).orElse fun _ =>
    if c = '"' then some ([], t) else (mDQuote t).map fun (b, r) => (c :: b, r)

/-- `[^q]*q` (sqlite / mysql string regexes, back-quoted identifiers) -/
def mSimple (q : Char) : List Char → Option (List Char × List Char)
  | [] => none
  | c :: t => if c = q then some ([], t) else (mSimple q t).map fun (b, r) => (c :: b, r)

/-- token text (`src`, what the regex matched) and the rewritten `t.value` -/
structure Tok where
  src : List Char
  value : List Char
  rest : List Char
  deriving DecidableEq, Repr

/-- the un-escaping chain of single-quoted literals.  (Since /repo 5f4cdd1 it runs in the grammar action
`quote_string` of the MindsDB parser; before, in the lexer action.  The MindsDB lexer actions now keep
`t.value = ` source text; the sqlite / mysql lexers never had string actions.) -/
def unescQuote : Dialect → List Char → List Char
  | .mindsdb, v => replace ['\'', '\''] ['\''] (replace ['\\', '\''] ['\''] (replace ['\\', '"'] ['"'] v))
  | _, v => v

/-- the un-escaping chain of double-quoted literals (grammar action `dquote_string`, MindsDB) -/
def unescDQuote : Dialect → List Char → List Char
  | .mindsdb, v => replace ['\\', '\''] ['\''] (replace ['\\', '"'] ['"'] v)
  | _, v => v

/-- lexer on a text starting with `'`: the token value is the matched text in every dialect -/
def lexQuote (d : Dialect) : List Char → Option Tok
  | '\'' :: t =>
    (match d with | .mindsdb => mQuote t | _ => mSimple '\'' t).map fun (b, r) =>
      let src := '\'' :: b ++ ['\'']
      ⟨src, src, r⟩
  | _ => none

def lexDQuote (d : Dialect) : List Char → Option Tok
  | '"' :: t =>
    (match d with | .mindsdb => mDQuote t | _ => mSimple '"' t).map fun (b, r) =>
      let src := '"' :: b ++ ['"']
      ⟨src, src, r⟩
  | _ => none

/-- grammar actions `quote_string` / `dquote_string`: (MindsDB: un-escape, then) `strip` the delimiter -/
def quoteString (d : Dialect) (v : List Char) : List Char := strip ['\''] (unescQuote d v)
def dquoteString (d : Dialect) (v : List Char) : List Char := strip ['"'] (unescDQuote d v)

/-- the whole decoder on a token source text -/
def decodeQuote (d : Dialect) (src : List Char) : List Char := quoteString d src
def decodeDQuote (d : Dialect) (src : List Char) : List Char := dquoteString d src

/-- value of the constant produced for a text that starts with a string literal -/
def readString (d : Dialect) (s : List Char) : Option (List Char × List Char) :=
  match s with
  | '\'' :: _ => (lexQuote d s).map fun t => (quoteString d t.value, t.rest)
  | '"' :: _ => (lexDQuote d s).map fun t => (dquoteString d t.value, t.rest)
  | _ => none

/-- `Constant.get_string` for a `str` value (`with_quotes=True`) -/
def constantToString (v : List Char) : List Char := '\'' :: replace ['\''] ['\\', '\''] v ++ ['\'']

/-! ## numbers -/

/-- the four non-ASCII characters that `[a-zA-Z]` matches under `re.IGNORECASE` -/
def icExtra (c : Char) : Bool := c = 'İ' || c = 'ı' || c = 'ſ' || c = '\u212a'

/-- `[a-zA-Z_$]` under IGNORECASE -/
def isIdLetter (c : Char) : Bool := c.isAlpha || c = '_' || c = '$' || icExtra c
/-- `[a-zA-Z_$0-9]` under IGNORECASE -/
def isIdChar (c : Char) : Bool := isIdLetter c || c.isDigit


/-- `\d` restricted to ASCII (Python's `\d` also accepts other Unicode decimal digits and `int()` reads
them; they are outside the model and exercised by the correspondence stream only) -/
def isDigit (c : Char) : Bool := c.isDigit

def digitsValue (ds : List Char) : Nat := ds.foldl (fun a c => 10 * a + (c.toNat - '0'.toNat)) 0

inductive Num where
  | int (n : Nat)
  /-- `FLOAT`: integer digits, fraction digits (kept as digit strings; `float()` is not modelled) -/
  | dec (ip fp : List Char)
  deriving DecidableEq, Repr

/-- FLOAT is tried before INTEGER: `\d+\.\d+` (mindsdb) / `\d+\.\d*` (sqlite, mysql) -/
def lexNumber (d : Dialect) (s : List Char) : Option (Num × List Char) :=
  let ip := s.takeWhile isDigit
  let r := s.dropWhile isDigit
  -- `ID` precedes the number rules: a run of identifier characters containing a letter is an `ID`
  if ip = [] || (s.takeWhile isIdChar).any isIdLetter then none else
  match r with
  | '.' :: r' =>
    let fp := r'.takeWhile isDigit
    if fp = [] ∧ d = .mindsdb then some (.int (digitsValue ip), r)
    else some (.dec ip fp, r'.dropWhile isDigit)
  | _ => some (.int (digitsValue ip), r)

/-! ## identifiers -/

/-- `no_wrap_identifier_regex.fullmatch(part)`: `[a-zA-Z_][a-zA-Z_0-9]*` (no IGNORECASE) -/
def noWrap : List Char → Bool
  | [] => false
  | c :: t => (c.isAlpha || c = '_') && t.all fun c => c.isAlpha || c = '_' || c.isDigit

/-- `Identifier.parts_to_str` for string parts, given the reserved set -/
def partToStr (reserved : List (List Char)) (p : List Char) : List Char :=
  if !noWrap p || reserved.contains (upper p) then '`' :: p ++ ['`'] else p

def partsToStr (reserved : List (List Char)) (parts : List (List Char)) : List Char :=
  join ['.'] (parts.map (partToStr reserved))

/-- `path_str_to_parts`: `re.finditer('(?:(?:(`[^`]+`))|([^.]+))', s)` then `strip('`')` of each match.
At every position the first alternative (a complete back-quoted group with a non-empty body) is tried
first, else a maximal run of non-dots; a dot that starts no match is skipped. Fuel = length. -/
def pathGo : Nat → List Char → List (List Char)
  | 0, _ => []
  | _, [] => []
  | n + 1, c :: t =>
    let bq : Option (List Char × List Char) :=
      if c = '`' then
        match mSimple '`' t with
        | some (b, r) => if b = [] then none else some ('`' :: b ++ ['`'], r)
        | none => none
      else none
    match bq with
    | some (m, r) => strip ['`'] m :: pathGo n r
    | none =>
      if c = '.' then pathGo n t
      else
        let m := (c :: t).takeWhile (· ≠ '.')
        strip ['`'] m :: pathGo n ((c :: t).dropWhile (· ≠ '.'))

def pathStrToParts (s : List Char) : List (List Char) := pathGo (s.length + 1) s

/-- case-insensitive comparison of a word with an (upper-case ASCII) keyword as `re.IGNORECASE` does it -/
def foldCI (c : Char) : Char :=
  if c = 'İ' || c = 'ı' then 'I' else if c = 'ſ' then 'S' else if c = '\u212a' then 'K' else c.toUpper

def ciEq (w k : List Char) : Bool := w.map foldCI == k

/-- lexical data of a dialect that the identifier model depends on (filled from `Gen/Lex_<d>`):
`keywords` = (token name, word) for every keyword rule that can match a single word, in rule order;
`idAlts` = token names with a production `id : NAME`. -/
structure KwTable where
  keywords : List (String × List Char)
  idAlts : List String

/-- classification of a maximal word (`[A-Za-z0-9_]+`, not all digits): the first keyword rule matching the
whole word wins (keyword rules precede `ID` in the master regex), else it is an `ID`.
Result: `some value` if the token can be reduced to `id`, `none` if it is a keyword that is not an `id`. -/
def classifyWord (K : KwTable) (w : List Char) : Option (List Char) :=
  match K.keywords.find? (fun kw => ciEq w kw.2) with
  | some kw => if K.idAlts.contains kw.1 then some w else none
  | none => if K.idAlts.contains "ID" then some w else none

/-- `[A-Za-z0-9_]` (ASCII part of `\w`) -/
def isWordChar (c : Char) : Bool := c.isAlphanum || c = '_'

/-- lexer + grammar on a dotted identifier path (`identifier : id | identifier DOT identifier`,
`id : ID | <keyword alternatives>`): one `id` token per segment, each mapped through
`Identifier.from_path_str`, parts concatenated.  `none` = not (modelled as) an identifier path.
Segments: a back-quoted `ID`, or a maximal run of word characters that is not all digits.
Fuel = length. -/
def identSeg (K : KwTable) (s : List Char) : Option (List Char × List Char) :=
  match s with
  | [] => none
  | c :: t =>
    if c = '`' then
      match mSimple '`' t with
      | some (b, r) => if b = [] then none else some ('`' :: b ++ ['`'], r)
      | none => none
    else
      let w := s.takeWhile isWordChar
      if w = [] || w.all Char.isDigit then none
      else (classifyWord K w).map fun v => (v, s.dropWhile isWordChar)

def identGo (K : KwTable) : Nat → List Char → Option (List (List Char))
  | 0, _ => none
  | n + 1, s =>
    match identSeg K s with
    | none => none
    | some (v, r) =>
      match r with
      | [] => some (pathStrToParts v)
      | c :: r' => if c = '.' then (identGo K n r').map fun ps => pathStrToParts v ++ ps else none

def lexIdentPath (K : KwTable) (s : List Char) : Option (List (List Char)) := identGo K (s.length + 1) s

/-! ## variables, parameters -/

/-- `[a-zA-Z_.$]` without IGNORECASE (the printer's `re.fullmatch(r'[a-zA-Z_.$]+', value)`) -/
def isVarCharA (c : Char) : Bool := c.isAlpha || c = '_' || c = '.' || c = '$'

/-- the name can be printed bare -/
def varPlain (v : List Char) : Bool := v != [] && v.all isVarCharA

/-- quote chosen for a name that is not plain: `` ` `` unless the name contains one, then `"`, then `'` -/
def varQuote (v : List Char) : Char :=
  if !v.contains '`' then '`' else if !v.contains '"' then '"' else '\''

/-- `Variable.get_string` (ast/variable.py since /repo 6a738d8): sigil, then the name bare if it fully matches
`[a-zA-Z_.$]+`, else between quotes -/
def variableToString (isSystem : Bool) (v : List Char) : List Char :=
  (if isSystem then ['@', '@'] else ['@']) ++
    (if varPlain v then v else varQuote v :: v ++ [varQuote v])

/-- `Parameter.get_string` (since /repo fa4fc42: the positional placeholder prints as written) -/
def parameterToString (v : List Char) : List Char := if v = ['?'] then ['?'] else ':' :: v

/-- VARIABLE / SYSTEM_VARIABLE rule + decoding (mysql: lexer action; mindsdb since 5f4cdd1: `MindsDBParser.variable_name`
on the source text) on a text starting with `@`:
`@[a-zA-Z_.$]+ | @'[a-zA-Z_.$][^']*' | @`…` | @"…"`, then `lstrip('@')` and `strip(<quote>)` by first char.
(SYSTEM_VARIABLE is the same with `@@`; both rules come after each other and the action strips every
leading `@`.) Returns (isSystem, value, rest). -/
def isVarChar (c : Char) : Bool := c.isAlpha || c = '_' || c = '.' || c = '$' || icExtra c

def lexVarBody (s : List Char) : Option (List Char × List Char) :=
  match s with
  | [] => none
  | c :: t =>
    if c = '\'' || c = '`' || c = '"' then
      match t with
      | f :: _ =>
        if isVarChar f then
          (mSimple c t).map fun (b, r) => (strip [c] (c :: b ++ [c]), r)
        else none
      | [] => none
    else
      let w := s.takeWhile isVarChar
      if w = [] then none else some (w, s.dropWhile isVarChar)

def lexVariable : List Char → Option (Bool × List Char × List Char)
  | '@' :: '@' :: t => (lexVarBody t).map fun (v, r) => (true, v, r)
  | '@' :: t => (lexVarBody t).map fun (v, r) => (false, v, r)
  | _ => none

end MindsVerif.Lex
