import MindsVerif.Model.Lex
/-!
# Identifier codec of `docs/proposed_fixes/C04_4.diff`: a back-quote inside a part is written doubled

* `parts_to_str`: `` '`' + part.replace('`', '``') + '`' `` for parts that need quoting;
* `ID` (three lexers) and `path_str_parts_regex`: back-quoted alternative `` `((?:[^`]|``)+)` ``;
* `path_str_to_parts`: a back-quoted match gives `m[1:-1].replace('``', '`')`, any other match `strip('`')` as before.

`mBq` is the matcher of ``(?:[^`]|``)+` `` behind the opening back-quote with Python's backtracking order
(one more iteration first — the two alternatives exclude each other — else the closing back-quote); the `+`
is the `b = []` test at the call sites.  Tied to the live code when `Gen.RenderPins.bqDoubled = true`.
-/
namespace MindsVerif.LexBq
open MindsVerif.Py MindsVerif.Lex

def mBq : List Char → Option (List Char × List Char)
  | [] => none
  | c :: t =>
    if c = '`' then
      (match t with
       | d :: t' => if d = '`' then (mBq t').map fun (b, r) => ('`' :: '`' :: b, r) else none
       | [] => none : Option (List Char × List Char)).orElse fun _ => some ([], t)
    else (mBq t).map fun (b, r) => (c :: b, r)

def partToStr (reserved : List (List Char)) (p : List Char) : List Char :=
  if !noWrap p || reserved.contains (upper p) then '`' :: replace ['`'] ['`', '`'] p ++ ['`'] else p

def partsToStr (reserved : List (List Char)) (parts : List (List Char)) : List Char :=
  join ['.'] (parts.map (partToStr reserved))

def pathGo : Nat → List Char → List (List Char)
  | 0, _ => []
  | _, [] => []
  | n + 1, c :: t =>
    let bq : Option (List Char × List Char) :=
      if c = '`' then
        match mBq t with
        | some (b, r) => if b = [] then none else some (replace ['`', '`'] ['`'] b, r)
        | none => none
      else none
    match bq with
    | some (m, r) => m :: pathGo n r
    | none =>
      if c = '.' then pathGo n t
      else
        let m := (c :: t).takeWhile (· ≠ '.')
        strip ['`'] m :: pathGo n ((c :: t).dropWhile (· ≠ '.'))

def pathStrToParts (s : List Char) : List (List Char) := pathGo (s.length + 1) s

def identSeg (K : KwTable) (s : List Char) : Option (List Char × List Char) :=
  match s with
  | [] => none
  | c :: t =>
    if c = '`' then
      match mBq t with
      | some (b, r) => if b = [] then none else some ('`' :: b ++ ['`'], r)
      | none => none
    else
      let w := s.takeWhile isWordChar
      if w = [] || w.all Char.isDigit then none
      else (classifyWord K w).map fun v => (v, s.dropWhile isWordChar)

def identGo (K : KwTable) : Nat → List Char → Option (List (List Char))
  | 0, _ => none
  | n + 1, s =>
    match identSeg K s with
    | none => none
    | some (v, r) =>
      match r with
      | [] => some (pathStrToParts v)
      | c :: r' => if c = '.' then (identGo K n r').map fun ps => pathStrToParts v ++ ps else none

def lexIdentPath (K : KwTable) (s : List Char) : Option (List (List Char)) := identGo K (s.length + 1) s

end MindsVerif.LexBq
