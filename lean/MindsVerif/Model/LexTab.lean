import MindsVerif.Model.Lex
/-!
# keyword tables from the exported lexer rules

`ruleWords re` = the single words (upper case) that a keyword rule can match as a whole:
`\bWORD\b` ↦ `WORD`; `\bA[_|\s]B\b` ↦ `A_B` (the other members `A|B`, `A B` are not words);
rules containing white space (`\bGROUP BY\b`, `\bNOT[\s]+IN\b`) match no single word;
rules not starting with `\b` (operators, literals, `ID`) are not keyword rules;
any *other* `\b…` shape yields the marker word `?<regex>` so that an unforeseen keyword regex
breaks the Φ4 obligation instead of being silently ignored.
-/
namespace MindsVerif.Lex

/-- first occurrence of `pat` in `s`: text before and behind it -/
def splitAtSub (pat : List Char) : List Char → Option (List Char × List Char)
  | [] => if pat = [] then some ([], []) else none
  | c :: t =>
    if pat.isPrefixOf (c :: t) then some ([], (c :: t).drop pat.length)
    else (splitAtSub pat t).map fun (a, b) => (c :: a, b)

def isWordish (s : List Char) : Bool := s != [] && s.all fun c => c.isAlpha || c = '_'

def ruleWords (s : List Char) : List (List Char) :=
  let bb := ['\\', 'b']
  if !(bb.isPrefixOf s) then [] else
  let mid0 := s.drop 2
  if !(['b', '\\'].isPrefixOf mid0.reverse) then ['?' :: s] else
  let mid := (mid0.reverse.drop 2).reverse
  if isWordish mid then [mid.map Char.toUpper]
  else match splitAtSub ['[', '_', '|', '\\', 's', ']'] mid with
    | some (a, b) => if isWordish a && isWordish b then [(a ++ '_' :: b).map Char.toUpper] else ['?' :: s]
    | none =>
      if mid.contains ' ' || (splitAtSub ['[', '\\', 's', ']', '+'] mid).isSome then [] else ['?' :: s]

/-- (token name, word) for every keyword rule, in rule order -/
def keywordsOf (rules : List (String × List Char)) : List (String × List Char) :=
  rules.flatMap fun (n, re) => (ruleWords re).map fun w => (n, w)

def kwTable (rules : List (String × List Char)) (idAlts : List String) : KwTable :=
  ⟨keywordsOf rules, idAlts⟩

/-- Φ4 offenders: keyword words that are neither reserved nor reducible to `id` -/
def offenders (K : KwTable) (reserved : List (List Char)) : List (List Char) :=
  (K.keywords.filter fun kw => !(reserved.contains kw.2) && !(K.idAlts.contains kw.1)).map (·.2)

end MindsVerif.Lex
