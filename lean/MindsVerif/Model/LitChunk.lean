import MindsVerif.Model.LitRender
/-!
# Literals written in pieces (length-dependent rendering paths)

Some targets limit the length of one string literal (Oracle: 4000 characters, ORA-01704); a renderer may then write a
long text as a concatenation of pieces, `TO_CLOB('..') || TO_CLOB('..')`.  What can be cut is the VALUE: each piece is
then quoted on its own.  Cutting the QUOTED text (after the quotes were doubled) is wrong as soon as a doubled quote
straddles a cut.

* `chunks n l` = `[l[i:i+n] for i in range(0, len(l), n)]`;
* `readConcat` — the value of a concatenation of standard-SQL literals, given the literal texts;
* `splitAfterDoubling n v` — the literal texts obtained by cutting the doubled body (the unsound order).
-/
namespace MindsVerif.LitChunk
open MindsVerif.LitRender

def chunksGo (n : Nat) : Nat → List Char → List (List Char)
  | 0, _ => []
  | f + 1, l => if l = [] then [] else l.take n :: chunksGo n f (l.drop n)

def chunks (n : Nat) (l : List Char) : List (List Char) := chunksGo n l.length l

def readConcat : List (List Char) → Option (List Char)
  | [] => some []
  | t :: ts =>
    match stdLex t with
    | some (v, []) => (readConcat ts).map (v ++ ·)
    | _ => none

def splitAfterDoubling (n : Nat) (v : List Char) : List (List Char) :=
  (chunks n (renderBody false v)).map fun b => '\'' :: b ++ ['\'']

end MindsVerif.LitChunk
