import MindsVerif.Model.Py
/-!
# M9 (literal part) — the SQLAlchemy literal renderer and target-engine lexical models

* `renderLiteral mysql v` transcribes `quote_literal(value, dialect)` (called by
  `LiteralCompiler.render_literal_value` of both the DML and the DDL compiler, /repo 8d4e738) in
  `render/sqlalchemy_render.py`: `value.replace("'", "''")`, then for `dialect.name == 'mysql'` additionally
  `.replace('\\', '\\\\')`, wrapped in quotes.  `mysql = false` is the text for every other dialect.
* `stdLex` — string literal of standard SQL (PostgreSQL with `standard_conforming_strings`, SQLite,
  MSSQL, Oracle): opening `'`, then `''` ↦ `'`, any other character itself, closing `'` (a quote not
  followed by a quote).  No backslash escapes.  Validated against `sqlite3` by the check.
* `mysqlLex` — MySQL string literal with backslash escapes on (default `sql_mode`): additionally `\c`
  is an escape (`\'`→`'`, `\"`→`"`, `\\`→`\`, `\n`→newline, `\t`, `\r`, `\0`, `\b`, `\Z`; `\%`, `\_` keep
  the backslash; every other `\c` ↦ `c`).  From the MySQL manual (trusted; no engine offline).
-/
namespace MindsVerif.LitRender
open MindsVerif.Py

def renderBody (mysql : Bool) (v : List Char) : List Char :=
  let d := replace ['\''] ['\'', '\''] v
  if mysql then replace ['\\'] ['\\', '\\'] d else d

def renderLiteral (mysql : Bool) (v : List Char) : List Char := '\'' :: renderBody mysql v ++ ['\'']

/-- behind the opening quote: `(value, rest)`; `none` = unterminated -/
def stdBody : List Char → Option (List Char × List Char)
  | [] => none
  | [c] => if c = '\'' then some ([], []) else none
  | c :: d :: t =>
    if c = '\'' then
      (if d = '\'' then (stdBody t).map fun (v, r) => ('\'' :: v, r) else some ([], d :: t))
    else (stdBody (d :: t)).map fun (v, r) => (c :: v, r)

def stdLex : List Char → Option (List Char × List Char)
  | '\'' :: t => stdBody t
  | _ => none

def mysqlEsc (c : Char) : List Char :=
  if c = 'n' then ['\n'] else if c = 't' then ['\t'] else if c = 'r' then ['\r']
  else if c = '0' then [Char.ofNat 0] else if c = 'b' then [Char.ofNat 8] else if c = 'Z' then [Char.ofNat 26]
  else if c = '%' ∨ c = '_' then ['\\', c] else [c]

def mysqlBody : List Char → Option (List Char × List Char)
  | [] => none
  | [c] => if c = '\'' then some ([], []) else none
  | c :: d :: t =>
    if c = '\\' then (mysqlBody t).map fun (v, r) => (mysqlEsc d ++ v, r)
    else if c = '\'' then
      (if d = '\'' then (mysqlBody t).map fun (v, r) => ('\'' :: v, r) else some ([], d :: t))
    else (mysqlBody (d :: t)).map fun (v, r) => (c :: v, r)

def mysqlLex : List Char → Option (List Char × List Char)
  | '\'' :: t => mysqlBody t
  | _ => none

end MindsVerif.LitRender
