import MindsVerif.Model.Codec
/-! C01 / L1 in sequence: several string constants printed one after the other inside one statement.
A printed statement is, as far as string literals are concerned, `lit₁ sep₁ lit₂ sep₂ …` where `litᵢ` is
`Constant.get_string` of a string value and `sepᵢ` is the text up to the next literal (`, `, ` AND b = `, `)` …).
`readSeq` reads such a text the way the lexer does: a literal (`Codec.readString`: master-regex match of
QUOTE_STRING, then `unescape_string`), then the separator, then the next literal.  Whether the literal ends where
the printer ended it depends on what follows — a value whose printed form ends in an odd run of backslashes swallows
the closing quote and runs on to the next quote of the statement. -/
namespace MindsVerif.LitSeq
open MindsVerif.Codec

def printSeq : List (List Char × List Char) → List Char
  | [] => []
  | (v, sep) :: rest => constantToString v ++ (sep ++ printSeq rest)

/-- drop `p` from the front of `s` if it is there -/
def dropPrefix : List Char → List Char → Option (List Char)
  | [], s => some s
  | _ :: _, [] => none
  | a :: p, b :: s => if a = b then dropPrefix p s else none

/-- read the literals of a text given the separators that follow them -/
def readSeq : List (List Char) → List Char → Option (List (List Char))
  | [], [] => some []
  | [], _ :: _ => none
  | sep :: seps, s =>
    match readString s with
    | some (v, r) =>
      (match dropPrefix sep r with
       | some r' => (readSeq seps r').map (v :: ·)
       | none => none)
    | none => none

end MindsVerif.LitSeq
