/-!
# Model of `PlanJoinTablesQuery` for table–model joins (property C14)

Transcribes, from `mindsdb_sql/planner/plan_join.py` (pinned tree):

* `resolve_table` aliases, `get_table_for_column` (`tables_idx` lookup, later operand wins),
* `_check_identifiers` (qualified identifiers are rewritten to `aliases[-1] + [column]`),
* `check_query_conditions` / `check_node_condition` (the walker visits EVERY node of the WHERE tree,
  whatever its boolean context, and attributes `col op const` / `const op col` / `col BETWEEN c AND c`
  to the table of the column's qualifier),
* `process_predictor` (row_dict, neutralisation `0 = 0`, `join_condition_to_columns_map`, USING → params,
  `partition_size`),
* `process_table` (`'or' in binary_ops` guard, `get_filters_from_join_conditions`),
* `process_subselect`, the join loop with `step_stack`, `add_plan_step` / partitions / `close_partition`,
* the final `QueryStep`.

* `check_use_limit`, `where_is_applied_before_join`, the LIMIT / OFFSET / ORDER BY take-over of `process_table`.

Core Lean only.  Not modelled: time-series models, nested selects in the select list,
the inner plans of sub-select operands and of nested selects in WHERE (opaque: only their number of steps,
`Operand.inner` / `sel n`, enters the model), integration routing (C10).
-/
namespace MindsVerif.ModelJoin

/-- condition / expression trees.  `fn name args` has its argument list as a spine of `acons`/`anil`
(keeps the type a plain inductive, so theorems are by ordinary structural induction).
`col q n` = `Identifier(parts = q ++ [n])`; `const v` = `Constant`, `param v` = `Parameter`
(values are opaque canonical strings); `opq` = any node kind the walker does not descend into;
`sel n` = a nested `Select` inside WHERE (planned first — its own plan has `n` steps — and replaced by a
`Parameter` with the result of its last step). -/
inductive E where
  | col (q : List String) (n : String)
  | const (v : String)
  | param (v : String)
  | bin (op : String) (l r : E)
  | btw (a b c : E)
  | un (op : String) (e : E)
  | fn (name : String) (args : E)
  | anil
  | acons (h t : E)
  | opq (tag : String)
  | sel (n : Nat)
deriving DecidableEq, Repr, Inhabited

inductive Kind where
  | tab | mod | sub
deriving DecidableEq, Repr, Inhabited

/-- one join operand, as the harness abstracts it from the parsed `from_table` -/
structure Operand where
  kind : Kind
  parts : List String            -- identifier parts as written (sub-select: its generated name)
  alias : Option (List String)   -- alias parts as written
  jtype : String                 -- join type of the Join whose RIGHT operand this is ("" for the first)
  on : Option E                  -- that Join's condition
  target : Option String         -- models: `to_predict` (first element), as in the catalog
  inner : Nat := 1               -- sub-select operands: number of steps of the sub-select's own plan
  integ : String := ""           -- tables: the (lower-cased) integration the fetch is sent to
  tkey : String := ""            -- tables: `str(item.table)` (name without integration + alias), for `table_info.table != item.table`
deriving Repr, Inhabited

/-- ASCII lower-casing (Python's `str.lower` on ASCII text), written so that `decide` can evaluate it -/
def lower (s : String) : String := String.ofList (s.toList.map Char.toLower)

/-- all non-empty suffixes -/
def suffixes : List String → List (List String)
  | [] => []
  | x :: xs => (x :: xs) :: suffixes xs

/-- `resolve_table`: possible aliases, lower-cased -/
def aliasesOf (o : Operand) : List (List String) :=
  match o.alias with
  | some a => [a.map lower]
  | none => suffixes (o.parts.map lower)

/-- `aliases[-1]` -/
def lastAlias (o : Operand) : List String := (aliasesOf o).getLast?.getD []

/-- `tables_idx` lookup: the LAST operand having the alias (dict assignment overrides) -/
def lookupFrom (ops : List Operand) (q : List String) (i : Nat) : Option Nat :=
  match ops with
  | [] => none
  | o :: rest =>
    match lookupFrom rest q (i + 1) with
    | some j => some j
    | none => if (aliasesOf o).contains q then some i else none

/-- `get_table_for_column` on an identifier with qualifier `q` (already lower-cased inside) -/
def tableFor (ops : List Operand) (q : List String) : Option Nat := lookupFrom ops (q.map lower) 0

/-- `_check_identifiers`: the shortest alias of operand `i` that still resolves to `i` in `tables_idx`
(a shorter one may be taken by the alias of a later operand) -/
def shortName (ops : List Operand) (i : Nat) : List String :=
  (((aliasesOf (ops.getD i default)).reverse.find? fun a => lookupFrom ops a 0 = some i)).getD []

/-- `model JOIN table`: the two operands are swapped -/
def isSwap (ops : List Operand) : Bool :=
  match ops with
  | [a, _] => a.kind = .mod
  | _ => false

/-- `join_condition` of operand `i`: in the swap the model operand also gets the Join's ON clause -/
def effOn (ops : List Operand) (i : Nat) : Option E :=
  if isSwap ops ∧ i = 0 then (ops.getD 1 default).on else (ops.getD i default).on

def tableOfE (ops : List Operand) : E → Option Nat
  | .col q _ => tableFor ops q
  | _ => none

/-! ## `_check_identifiers` -/

/-- rewrite every qualified identifier to `shortest still-resolving alias + [col]`; `none` = PlanningException -/
def rewrite (ops : List Operand) : E → Option E
  | .col q n =>
    if q.isEmpty then some (.col q n) else
    match tableFor ops q with
    | none => none
    | some i => some (.col (shortName ops i) n)
  | .bin op l r => do let l' ← rewrite ops l; let r' ← rewrite ops r; pure (.bin op l' r')
  | .btw a b c => do let a' ← rewrite ops a; let b' ← rewrite ops b; let c' ← rewrite ops c; pure (.btw a' b' c')
  | .un op e => do let e' ← rewrite ops e; pure (.un op e')
  | .fn nm a => do let a' ← rewrite ops a; pure (.fn nm a')
  | .acons h t => do let h' ← rewrite ops h; let t' ← rewrite ops t; pure (.acons h' t')
  | e => some e

/-! ## the walker -/

/-- every node of the tree in `query_traversal` order (callback first, then the children in order) -/
def nodes : E → List E
  | .bin op l r => .bin op l r :: (nodes l ++ nodes r)
  | .btw a b c => .btw a b c :: (nodes a ++ nodes b ++ nodes c)
  | .un op e => .un op e :: nodes e
  | .fn nm a => .fn nm a :: nodes a
  | .acons h t => nodes h ++ nodes t
  | .anil => []
  | e => [e]

def isCol : E → Bool
  | .col _ _ => true
  | _ => false

def isConstOrParam : E → Bool
  | .const _ => true
  | .param _ => true
  | _ => false

def isConst : E → Bool
  | .const _ => true
  | _ => false

/-- `binary_ops` of `check_query_conditions`: the op of every BinaryOperation anywhere -/
def opsOf (w : E) : List String :=
  (nodes w).filterMap fun | .bin op _ _ => some op | _ => none

/-- `check_node_condition`: the table the node is attributed to and the stored copy
(column reduced to its name).  `none` = not stored. -/
def attributed (ops : List Operand) : E → Option (Nat × E)
  | .bin op (.col q n) r =>
    if isConstOrParam r ∧ ¬ q.isEmpty then (tableFor ops q).map fun i => (i, .bin op (.col [] n) r) else none
  | .bin op l (.col q n) =>      -- here the first argument is not an Identifier
    if isConstOrParam l ∧ ¬ q.isEmpty then (tableFor ops q).map fun i => (i, .bin op l (.col [] n)) else none
  | .btw (.col q n) b c =>
    if isConstOrParam b ∧ isConstOrParam c ∧ ¬ q.isEmpty then
      (tableFor ops q).map fun i => (i, .btw (.col [] n) b c) else none
  | _ => none

/-- `check_node_condition` raises when the qualifier resolves to no table -/
def attribFails (ops : List Operand) : E → Bool
  | .bin _ (.col q _) r => isConstOrParam r && !q.isEmpty && (tableFor ops q).isNone
  | .bin _ l (.col q _) => isConstOrParam l && !q.isEmpty && (tableFor ops q).isNone
  | .btw (.col q _) b c => isConstOrParam b && isConstOrParam c && !q.isEmpty && (tableFor ops q).isNone
  | _ => false

/-- the top-level conjuncts of a condition (`_check_conjuncts` descends through `and` only) -/
def topConjuncts : E → List E
  | .bin op l r => if op = "and" then topConjuncts l ++ topConjuncts r else [.bin op l r]
  | e => [e]

/-- `TableInfo.conditions` of operand `i` after `check_query_conditions`: only top-level conjuncts of
WHERE are looked at (`_check_conjuncts`) -/
def conditionsOf (ops : List Operand) (i : Nat) (w : E) : List E :=
  (topConjuncts w).filterMap fun n => match attributed ops n with
    | some (j, c) => if j = i then some c else none
    | none => none

/-! ## `process_predictor` -/

/-- Python `dict[k] = v` on an association list kept in insertion order -/
def dictSet (d : List (String × α)) (k : String) (v : α) : List (String × α) :=
  match d with
  | [] => [(k, v)]
  | (k', v') :: rest => if k' = k then (k', v) :: rest else (k', v') :: dictSet rest k v

def dictPop (d : List (String × α)) (k : String) : List (String × α) := d.filter (·.1 ≠ k)

def argValue : E → Option String
  | .const v => some v
  | .param v => some v
  | _ => none

/-- the test of the `for el in item.conditions` loop on the ORIGINAL node `n`
(the stored copy differs from it only in the dropped qualifier):
the node is attributed to model `i`, it is `col = value` or `value = col`,
and the column is not the predict target.  Exactly these nodes are neutralised. -/
def consumed (ops : List Operand) (i : Nat) (tgt : Option String) : E → Bool
  | .bin op (.col q n) r =>
    op = "=" && isConstOrParam r && !q.isEmpty && tableFor ops q = some i && some (lower n) ≠ tgt.map lower
  | .bin op l (.col q n) =>      -- here the first argument is not an Identifier
    op = "=" && isConstOrParam l && !q.isEmpty && tableFor ops q = some i && some (lower n) ≠ tgt.map lower
  | _ => false

/-- `(column name, other side)` of a stored equality in either orientation -/
def eqParts : E → Option (String × E)
  | .bin op (.col _ n) r => if op = "=" then some (n, r) else none
  | .bin op l (.col _ n) => if op = "=" then some (n, l) else none
  | _ => none

/-- the row_dict loop over the stored conditions -/
def rowDictLoop (tgt : Option String) : List E → List (String × String) → List (String × String)
  | [], d => d
  | c :: rest, d =>
    match eqParts c with
    | some (n, r) =>
      if some (lower n) ≠ tgt.map lower then
        match argValue r with
        | some v => rowDictLoop tgt rest (dictSet d n v)
        | none => rowDictLoop tgt rest d
      else rowDictLoop tgt rest d
    | none => rowDictLoop tgt rest d

/-- `row_dict` (None when the model has no conditions at all) -/
def rowDict (ops : List Operand) (i : Nat) (tgt : Option String) (w : Option E) : Option (List (String × String)) :=
  match w with
  | none => none
  | some w =>
    let cs := conditionsOf ops i w
    if cs.isEmpty then none else some (rowDictLoop tgt cs [])

def zeroEq (op : String) : E := .bin op (.const "0") (.const "0")

/-- replace (`node.args = [Constant(0), Constant(0)]`, the op is kept) every BinaryOperation satisfying `p` -/
def neut (p : E → Bool) : E → E
  | .bin op l r => if p (.bin op l r) then zeroEq op else .bin op (neut p l) (neut p r)
  | .btw a b c => .btw (neut p a) (neut p b) (neut p c)
  | .un op e => .un op (neut p e)
  | .fn nm a => .fn nm (neut p a)
  | .acons h t => .acons (neut p h) (neut p t)
  | e => e

/-- neutralisation of consumed WHERE conditions: only top-level conjuncts are ever stored, so only they
are replaced -/
def neutTop (p : E → Bool) : E → E
  | .bin op l r =>
    if op = "and" then .bin op (neutTop p l) (neutTop p r)
    else if p (.bin op l r) then zeroEq op else .bin op l r
  | e => e

/-- the test of `join_condition_to_columns_map._check_conditions` -/
def mapped (ops : List Operand) (i : Nat) : E → Bool
  | .bin _ (.col q1 _) (.col q2 _) => tableFor ops q1 = some i || tableFor ops q2 = some i
  | _ => false

def colMapLoop (ops : List Operand) (i : Nat) : List E → List (String × E) → List (String × E)
  | [], d => d
  | .bin _ (.col q1 n1) (.col q2 n2) :: rest, d =>
    if tableFor ops q1 = some i then colMapLoop ops i rest (dictSet d n1 (.col q2 n2))
    else if tableFor ops q2 = some i then colMapLoop ops i rest (dictSet d n2 (.col q1 n1))
    else colMapLoop ops i rest d
  | _ :: rest, d => colMapLoop ops i rest d

/-- `columns_map` of model `i` from its join condition -/
def colMap (ops : List Operand) (i : Nat) (on : E) : List (String × E) := colMapLoop ops i (nodes on) []

/-- `'.'.join` -/
def joinDots (l : List String) : String := String.ofList (List.intercalate ['.'] (l.map String.toList))

def splitCs : List Char → List Char → List (List Char)
  | [], cur => [cur.reverse]
  | c :: cs, cur => if c = '.' then cur.reverse :: splitCs cs [] else splitCs cs (c :: cur)

/-- `str.split('.')` -/
def splitDots (s : String) : List String := (splitCs s.toList []).map String.ofList

/-- where a USING key goes for a model with aliases `als`: the params key it is stored under, or
`none` when it is prefixed by something that is not one of the model's aliases -/
def routeKey (als : List (List String)) (k : String) : Option String :=
  match splitDots k with
  | [_] => some (lower k)
  | a :: more => if als.contains [lower a] then some (lower (joinDots more)) else none
  | [] => some (lower k)

/-- USING → params of the model whose aliases are `als` (before `partition_size` is popped) -/
def paramsLoop (als : List (List String)) : List (String × String) → List (String × String) → List (String × String)
  | [], d => d
  | (k, v) :: rest, d =>
    match routeKey als k with
    | some k' => paramsLoop als rest (dictSet d k' v)
    | none => paramsLoop als rest d

def dictGet (d : List (String × α)) (k : String) : Option α := (d.find? (·.1 = k)).map (·.2)

/-- `(params, partition_size)` -/
def modelParams (als : List (List String)) (using? : Option (List (String × String))) :
    Option (List (String × String)) × Option String :=
  match using? with
  | none => (none, none)
  | some u =>
    let d := paramsLoop als u []
    (some (dictPop d "partition_size"), dictGet d "partition_size")

/-! ## `process_table` -/

def andAll : List E → Option E
  | [] => none
  | c :: cs => some (cs.foldl (fun acc x => .bin "and" acc x) c)

/-- `get_filters_from_join_conditions`, the test "`node.op == '='`, one side is a column of the fetched
table `j`, the other side is a Constant" -/
def onConstP (ops : List Operand) (j : Nat) : E → Bool
  | .bin op l r =>
    op = "=" && (if tableOfE ops l = some j then isConst r else (tableOfE ops r = some j && isConst l))
  | _ => false

/-- the data condition `(own column, other column)` a node contributes, if any -/
def onDataP (ops : List Operand) (j : Nat) : E → Option (E × E)
  | .bin op l r =>
    if op ≠ "=" then none else
    if tableOfE ops l = some j then
      (if isConst r then none else if (tableOfE ops r).isSome then some (l, r) else none)
    else if tableOfE ops r = some j then
      (if isConst l then none else if (tableOfE ops l).isSome then some (r, l) else none)
    else none
  | _ => none

/-- the scan of `get_filters_from_join_conditions` over the visited nodes of the ON tree of table `j`:
(non-`=` ops seen, constant filters, data conditions) -/
def onScan (ops : List Operand) (j : Nat) (ns : List E) : (List String × List E × List (E × E)) :=
  (ns.filterMap (fun | .bin op _ _ => if op ≠ "=" then some (lower op) else none | _ => none),
   ns.filter (onConstP ops j),
   ns.filterMap (onDataP ops j))

def colName : E → String
  | .col _ n => n
  | _ => ""

/-! ## steps -/

/-- reference to a step result: a top-level plan step, or the `k`-th sub-step of the MapReduceStep at `p` -/
inductive Ref where
  | top (n : Nat)
  | sub (p k : Nat)
  | bad
deriving DecidableEq, Repr, Inhabited

/-- `step_num` as Python prints it -/
def Ref.show : Ref → String
  | .top n => toString n
  | .sub p k => s!"{p}_{k}"
  | .bad => "?"

/-- the parts of the query that the LIMIT pushdown (`check_use_limit`, `process_table`) and the final
QueryStep look at -/
structure QInfo where
  targets : List E := []             -- the select list (aliases dropped); `[]` with `isStar` for `SELECT *`
  isStar : Bool := true              -- `len(targets) == 1 and isinstance(targets[0], Star)`
  distinct : Bool := false
  groupBy : Bool := false
  having : Bool := false
  limit : Option String := none
  offset : Option String := none
  orderBy : Option (List (E × String)) := none    -- (field, direction tag)
deriving Repr, Inhabited

/-- LIMIT / OFFSET / ORDER BY copied into a fetch -/
structure FetchLim where
  limit : Option String := none
  offset : Option String := none
  order : Option (List (String × String)) := none
deriving Repr, Inhabited, DecidableEq

def FetchLim.any (l : FetchLim) : Bool := l.limit.isSome || l.offset.isSome || l.order.isSome

inductive Step where
  | nested (k : Nat)                                   -- plan of the k-th nested select of WHERE
  | fetch (tab : Nat) (wh : Option E) (lim : FetchLim := {})
  | inner (tab : Nat)                                  -- plan of a sub-select operand (one step assumed)
  | subsel (tab : Nat) (input : Ref) (wh : Option E)
  | distinct (input : Ref) (col : String)
  | apply (tab : Nat) (input : Ref) (row : Option (List (String × String)))
      (params : Option (List (String × String))) (cmap : Option (List (String × E)))
  | join (l r : Ref) (jtype : String) (on : Option E)
  | mr (values : Ref) (size : String) (subs : List Step)
  | query (input : Ref) (wh : Option E) (limit : Option String := none) (offset : Option String := none)
deriving Repr, Inhabited

structure St where
  steps : List Step := []
  part : Option Nat := none          -- index of the open MapReduceStep
  stack : List Ref := []             -- head = top
  fetched : List (Nat × Ref) := []   -- tables_fetch_step
  q : QInfo := {}                    -- read-only: the query being planned
  useLimit : Bool := false           -- `query_context['use_limit']`
  offMoved : Bool := false           -- `query_in.offset = None` happened (OFFSET moved into a fetch)
deriving Repr, Inhabited

def addToPart (st : St) (p : Nat) (s : Step) : St × Ref :=
  match st.steps.getD p default with
  | .mr v sz subs =>
    ({ st with steps := st.steps.set p (.mr v sz (subs ++ [s])) }, .sub p subs.length)
  | _ => (st, .bad)

def isJoinOrApply : Step → Bool
  | .join .. => true
  | .apply .. => true
  | _ => false

def stepInput : Step → Ref
  | .apply _ i _ _ _ => i
  | _ => .bad

/-- `close_partition` -/
def closePartition (st : St) : St :=
  match st.part with
  | some p =>
    match st.stack with
    | _ :: rest => { st with stack := .top p :: rest, part := none }
    | [] => { st with part := none }
  | none => st

/-- `add_plan_step` -/
def addPlanStep (st : St) (s : Step) (psize : Option String := none) : St × Ref :=
  match st.part with
  | some p =>
    if isJoinOrApply s then addToPart st p s
    else
      let st := closePartition st
      ({ st with steps := st.steps ++ [s] }, .top st.steps.length)
  | none =>
    match psize with
    | some sz =>
      let p := st.steps.length
      let st1 := { st with steps := st.steps ++ [.mr (stepInput s) sz []], part := some p }
      addToPart st1 p s
    | none => ({ st with steps := st.steps ++ [s] }, .top st.steps.length)

/-- `planner.plan.add_step` (bypasses the partition logic) -/
def addStep (st : St) (s : Step) : St × Ref :=
  ({ st with steps := st.steps ++ [s] }, .top st.steps.length)

def lookupRef (l : List (Nat × Ref)) (i : Nat) : Option Ref := (l.find? (·.1 = i)).map (·.2)

/-- the `for arg1, arg2 in data_conditions` loop -/
def dataFilters (ops : List Operand) : List (E × E) → St → St × List E
  | [], st => (st, [])
  | (a1, a2) :: rest, st =>
    match (tableOfE ops a2).bind (lookupRef st.fetched) with
    | none => dataFilters ops rest st
    | some fr =>
      let (st1, r) := addPlanStep st (.distinct fr (colName a2))
      let (st2, fs) := dataFilters ops rest st1
      (st2, .bin "in" (.col [] (colName a1)) (.param ("r:" ++ r.show)) :: fs)

/-- first whitespace-separated word -/
def firstWord (s : String) : String :=
  String.ofList ((s.toList.dropWhile Char.isWhitespace).takeWhile (fun c => !c.isWhitespace))

/-- `join_type.upper().split()[0] in ('RIGHT', 'FULL')`: every row of the right operand is in the result -/
def rightOrFull (jt : String) : Bool := ["right", "full"].contains (lower (firstWord jt))

/-- `get_filters_from_join_conditions`: nothing for the right operand of a RIGHT / FULL join; only the
top-level conjuncts of ON are looked at; any top-level non-`=` comparison disables the pushdown -/
def onFilters (ops : List Operand) (j : Nat) (on : Option E) (st : St) : St × List E :=
  match on with
  | none => (st, [])
  | some on =>
    if rightOrFull (ops.getD j default).jtype then (st, []) else
    let (bo, cf, dc) := onScan ops j (topConjuncts on)
    if (bo.filter (· ≠ "and")).isEmpty then
      let (st1, fs) := dataFilters ops dc st
      (st1, cf ++ fs)
    else (st, [])

/-- a semi-join filter `col IN :Result` -/
def isInFilter : E → Bool
  | .bin op (.col _ _) (.param _) => op = "in"
  | _ => false

inductive Item where
  | operand (i : Nat)
  | join (k : Nat)        -- the Join whose right operand is operand k
deriving Repr

/-- `get_join_sequence` for a left-deep join of `n` operands + the model-first swap -/
def joinSeqFrom (n : Nat) (k : Nat) : List Item :=
  match n with
  | 0 => []
  | n + 1 => [.operand k, .join k] ++ joinSeqFrom n (k + 1)

def joinSeq (ops : List Operand) : List Item :=
  match ops with
  | [] => []
  | [a, _] => if a.kind = .mod then [.operand 1, .operand 0, .join 1] else [.operand 0, .operand 1, .join 1]
  | _ => .operand 0 :: joinSeqFrom (ops.length - 1) 1

/-- `mark_nullable_tables`: operands whose rows can be replaced by NULLs in the join result — the right operand
of a LEFT / FULL join, everything joined before a RIGHT / FULL join (`seen` = operands met so far) -/
def markNullable (ops : List Operand) : List Item → List Nat → List Nat → List Nat
  | [], _, acc => acc
  | .operand i :: rest, seen, acc => markNullable ops rest (seen ++ [i]) acc
  | .join k :: rest, seen, acc =>
    let kind := lower (firstWord (ops.getD k default).jtype)
    let acc1 := if kind = "left" ∨ kind = "full" then acc ++ seen.getLast?.toList else acc
    let acc2 := if kind = "right" ∨ kind = "full" then acc1 ++ seen.dropLast else acc1
    markNullable ops rest seen acc2

def isNullable (ops : List Operand) (j : Nat) : Bool := (markNullable ops (joinSeq ops) [] []).contains j

/-- `filter_accepts_null`: `col IS NULL` is true for the NULLs an outer join puts in place of a missing row -/
def acceptsNull : E → Bool
  | .bin op _ _ => op = "is"
  | _ => false

/-- the WHERE-derived conditions `process_table` / `process_subselect` use: none when `or` occurs; on the
null-supplying side of an outer join no `IS` condition -/
def whereFilters (ops : List Operand) (j : Nat) (w : Option E) : List E :=
  match w with
  | none => []
  | some w =>
    if (opsOf w).contains "or" then []
    else if isNullable ops j then (conditionsOf ops j w).filter (fun c => !acceptsNull c)
    else conditionsOf ops j w

/-- `prepare_integration_select` on the fetch query: a leading integration name is cut from an identifier,
unless the identifier has just two parts and the name is also a table alias of that query -/
def cutDb (db : String) (locals : List String) : E → E
  | .col q n =>
    match q with
    | q0 :: rest => if lower q0 = db ∧ (rest ≠ [] ∨ ¬ locals.contains db) then .col rest n else .col q n
    | [] => .col q n
  | .bin op l r => .bin op (cutDb db locals l) (cutDb db locals r)
  | .btw a b c => .btw (cutDb db locals a) (cutDb db locals b) (cutDb db locals c)
  | .un op e => .un op (cutDb db locals e)
  | .fn nm a => .fn nm (cutDb db locals a)
  | .acons h t => .acons (cutDb db locals h) (cutDb db locals t)
  | e => e

/-- `where_is_applied_before_join`: every top-level conjunct of WHERE is evaluated in the fetch of table `j`
or is stored for a model operand -/
def whereApplied (ops : List Operand) (j : Nat) : Option E → Bool
  | none => true
  | some w => (topConjuncts w).all fun c =>
    match attributed ops c with
    | some (t, f) => (ops.getD t default).kind = .mod || (t == j && (whereFilters ops j (some w)).contains f)
    | none => false

/-- the ORDER BY a fetch of table `j` can take over: every field must be a qualified column of that table;
`none` = `order_by = False` (LIMIT is then not pushed either), `some none` = the query has no ORDER BY -/
def orderFor (ops : List Operand) (j : Nat) : Option (List (E × String)) → Option (Option (List (String × String)))
  | none => some none
  | some l =>
    if l.all (fun (f, _) => match tableOfE ops f with
        | some t => (ops.getD t default).tkey = (ops.getD j default).tkey
        | none => false)
    then some (some (l.map fun (f, d) => (colName f, d))) else none

/-- LIMIT / OFFSET / ORDER BY of the fetch of table `j` in state `st` -/
def fetchLim (ops : List Operand) (j : Nat) (w : Option E) (st : St) : FetchLim :=
  if st.useLimit && whereApplied ops j w then
    match orderFor ops j st.q.orderBy with
    | some ob => { limit := st.q.limit, offset := st.q.offset, order := ob }
    | none => {}
  else {}

def processTable (ops : List Operand) (j : Nat) (w : Option E) (st : St) : St :=
  let o := ops.getD j default
  let (st1, fs) := onFilters ops j o.on st
  let locals := match o.alias with
    | some a => [lower (a.getLast?.getD "")]
    | none => [lower (o.parts.getLast?.getD "")]      -- an unaliased table is referred to by its own name
  let lim := fetchLim ops j w st1
  let moved := st1.useLimit && whereApplied ops j w && (orderFor ops j st1.q.orderBy).isSome
  let (st2, r) := addPlanStep st1 (.fetch j ((andAll (whereFilters ops j w ++ fs)).map (cutDb o.integ locals)) lim)
  { st2 with stack := r :: st2.stack, fetched := (j, r) :: st2.fetched, useLimit := false,
             offMoved := st2.offMoved || moved }

inductive Err where
  | planning | notImplemented
deriving DecidableEq, Repr

/-- `planner.plan_select(item.sub_select)`: the sub-select's own plan, `n` opaque steps added with
`plan.add_step` (not through the partition logic) -/
def addInner (st : St) (j : Nat) : Nat → St
  | 0 => st
  | n + 1 => addInner { st with steps := st.steps ++ [.inner j] } j n

def processSubselect (ops : List Operand) (j : Nat) (w : Option E) (st : St) : Except Err St :=
  let o := ops.getD j default
  -- LIMIT can be applied only to the leftmost operand: not to a table after this sub-select
  let st1 := addInner { st with useLimit := false } j o.inner
  match o.alias with
  | none => .error .planning
  | some _ =>
    let (st2, r) := addPlanStep st1 (.subsel j (.top (st1.steps.length - 1)) (andAll (whereFilters ops j w)))
    .ok { st2 with stack := r :: st2.stack }

/-- what `process_predictor` computes for model `i`: (row_dict, params, partition_size, columns_map) -/
def predictorArgs (ops : List Operand) (i : Nat) (w : Option E) (using? : Option (List (String × String))) :
    Option (List (String × String)) × Option (List (String × String)) × Option String × Option (List (String × E)) :=
  let o := ops.getD i default
  let (ps, sz) := modelParams (aliasesOf o) using?
  (rowDict ops i o.target w, ps, sz, (effOn ops i).map (colMap ops i))

def processPredictor (ops : List Operand) (i : Nat) (w : Option E) (using? : Option (List (String × String)))
    (st : St) : Except Err St :=
  match st.stack with
  | [] => .error .notImplemented
  | top :: _ =>
    let (row, ps, sz, cm) := predictorArgs ops i w using?
    let (st1, r) := addPlanStep st (.apply i top row ps cm) sz
    .ok { st1 with stack := r :: st1.stack }

/-- ON condition of operand `k` as the JoinStep sees it (neutralised when `k` is a model) -/
def onAfter (ops : List Operand) (k : Nat) : Option E :=
  let o := ops.getD k default
  if isSwap ops ∧ k = 1 then o.on.map (neut (mapped ops 0)) else
  match o.kind with
  | .mod => o.on.map (neut (mapped ops k))
  | _ => o.on

def processItem (ops : List Operand) (w : Option E) (using? : Option (List (String × String)))
    (st : St) : Item → Except Err St
  | .operand i =>
    match (ops.getD i default).kind with
    | .sub => processSubselect ops i w st
    | .mod => processPredictor ops i w using? st
    | .tab => .ok (processTable ops i w st)
  | .join k =>
    match st.stack with
    | r :: l :: rest =>
      let (st1, ref) := addPlanStep { st with stack := rest } (.join l r (ops.getD k default).jtype (onAfter ops k))
      .ok { st1 with stack := ref :: st1.stack }
    | _ => .error .planning      -- Python would raise IndexError (`pop` from an empty list); unreachable from `joinSeq`:
                                 -- every Join item follows two operand items (see `absRun_joinSeq`)

def runItems (ops : List Operand) (w : Option E) (using? : Option (List (String × String))) :
    List Item → St → Except Err St
  | [], st => .ok st
  | it :: rest, st => do
    let st1 ← processItem ops w using? st it
    runItems ops w using? rest st1

/-- nested selects of WHERE are planned first (walk order) and replaced by `Parameter(Result(k))` -/
def numberSelects : E → Nat → E × Nat
  | .sel n, k => (.param s!"r:{k + n - 1}", k + n)
  | .bin op l r, k =>
    let (l', k1) := numberSelects l k
    let (r', k2) := numberSelects r k1
    (.bin op l' r', k2)
  | .btw a b c, k =>
    let (a', k1) := numberSelects a k
    let (b', k2) := numberSelects b k1
    let (c', k3) := numberSelects c k2
    (.btw a' b' c', k3)
  | .un op e, k => let (e', k1) := numberSelects e k; (.un op e', k1)
  | .fn nm a, k => let (a', k1) := numberSelects a k; (.fn nm a', k1)
  | .acons h t, k =>
    let (h', k1) := numberSelects h k
    let (t', k2) := numberSelects t k1
    (.acons h' t', k2)
  | e, k => (e, k)

/-- every predicate neutralised in WHERE: consumed by some model operand -/
def consumedAny (ops : List Operand) (all : List Operand) (i : Nat) (n : E) : Bool :=
  match all with
  | [] => false
  | o :: rest => (o.kind = .mod && consumed ops i o.target n) || consumedAny ops rest (i + 1) n

/-- the residual WHERE of the final QueryStep -/
def outerWhere (ops : List Operand) (w : E) : E := neutTop (consumedAny ops ops 0) w

structure Query where
  ops : List Operand
  wh : Option E
  using? : Option (List (String × String))
  info : QInfo := {}
  others : List E := []      -- every other expression `_check_identifiers` visits (select list, GROUP BY, HAVING, ORDER BY)
deriving Repr, Inhabited

def rewriteOn (ops : List Operand) : List Operand → Option (List Operand)
  | [] => some []
  | o :: rest =>
    match (match o.on with | none => some none | some e => (rewrite ops e).map some), rewriteOn ops rest with
    | some on', some rest' => some ({ o with on := on' } :: rest')
    | _, _ => none

/-- `check_query_conditions` raises (a top-level conjunct names an unknown table) -/
def whereFails (ops : List Operand) : Option E → Bool
  | none => false
  | some w => (topConjuncts w).any (attribFails ops)

def aggNames : List String := ["count", "sum", "min", "max", "avg", "std"]

def isAggNode : E → Bool
  | .fn nm _ => aggNames.contains (lower nm)
  | _ => false

/-- `check_use_limit`: an aggregate function ANYWHERE in the select list (the targets are walked) -/
def hasAgg (targets : List E) : Bool := targets.any fun t => (nodes t).any isAggNode

/-- a plain row query: no HAVING, no GROUP BY, no DISTINCT, no aggregate in the select list -/
def plainRow (q : QInfo) : Bool := !q.having && !q.groupBy && !q.distinct && !hasAgg q.targets

/-- the join-kind loop of `check_use_limit`: a plain table met after a Join item that is not spelled
`LEFT JOIN` switches the pushdown off -/
def useLimitLoop (ops : List Operand) : List Item → Option Nat → Bool → Bool
  | [], _, u => u
  | .operand i :: rest, j, u =>
    let u' := if (ops.getD i default).kind = .tab then
        (match j with
         | some k => if lower (ops.getD k default).jtype = "left join" then u else false
         | none => u)
      else u
    useLimitLoop ops rest j u'
  | .join k :: rest, _, u => useLimitLoop ops rest (some k) u

def checkUseLimit (ops : List Operand) (q : QInfo) : Bool :=
  if plainRow q then useLimitLoop ops (joinSeq ops) none true else false

/-- `PlanJoinTablesQuery.plan`: the QueryStep on top of the join, unless the query is a bare `SELECT *`
(an OFFSET that was moved into a fetch is gone from the query) -/
def finalSteps (ops : List Operand) (w : Option E) (info : QInfo) (moved : Bool) (top : Ref) : List Step :=
  let off := if moved then none else info.offset
  if info.groupBy || info.orderBy.isSome || info.having || info.distinct || w.isSome || info.limit.isSome
      || off.isSome || !info.isStar then
    [.query top (w.map (outerWhere ops)) info.limit off]
  else []

/-- the planning proper, after `_check_identifiers`: `k` nested selects of WHERE were planned first -/
def planWith (ops : List Operand) (w : Option E) (using? : Option (List (String × String))) (k : Nat)
    (info : QInfo := {}) : Except Err (List Step) :=
  -- check_query_conditions
  if whereFails ops w then .error .planning else
  match runItems ops w using? (joinSeq ops)
      { steps := (List.range k).map .nested, q := info, useLimit := checkUseLimit ops info } with
  | .error e => .error e
  | .ok st =>
    match (closePartition st).stack with
    | [] => .error .planning
    | top :: _ => .ok ((closePartition st).steps ++ finalSteps ops w info st.offMoved top)

/-- nested selects in WHERE first -/
def numberWhere : Option E → Option E × Nat
  | none => (none, 0)
  | some w => ((numberSelects w 0).1, (numberSelects w 0).2) |> fun p => (some p.1, p.2)

/-- `PlanJoinTablesQuery.plan` -/
def plan (q : Query) : Except Err (List Step) :=
  -- _check_identifiers
  match rewriteOn q.ops q.ops,
      (match (numberWhere q.wh).1 with | none => some none | some w => (rewrite q.ops w).map some) with
  | some ops, some w =>
    if q.others.all (fun e => (rewrite q.ops e).isSome) then planWith ops w q.using? (numberWhere q.wh).2 q.info
    else .error .planning
  | _, _ => .error .planning

/-! ## the catalog (`QueryPlanner.__init__`, `get_predictor`, `resolve_table`): which operand is a model

Every catalog name — data integrations, projects listed among the integrations, the project (`integration_name`)
of each model of `predictor_metadata` (list form or legacy dict form), `predictor_namespace`, `default_namespace` —
is compared in lower case with the lower-cased qualifier of the query. -/

structure Catalog where
  integrations : List String := []               -- data integrations, as written
  projects : List String := []                   -- entries of `integrations` whose type is not `data`, as written
  models : List (Option String × String) := []   -- (integration_name as written, if any; model name as written)
  predictorNs : Option String := none
  defaultNs : Option String := none
deriving Repr, Inhabited

/-- `self.predictor_namespace` -/
def Catalog.pns (c : Catalog) : String :=
  match c.predictorNs with
  | some p => lower p
  | none => "mindsdb"

/-- keys of `self.predictor_info`: (project, model name), lower-cased -/
def Catalog.modelKeys (c : Catalog) : List (String × String) :=
  c.models.map fun (p, n) => ((match p with | some p => lower p | none => c.pns), lower n)

/-- `self.databases`: integrations, `mindsdb`, projects, and the project of every model -/
def Catalog.databases (c : Catalog) : List String :=
  c.integrations.map lower ++ ("mindsdb" :: c.projects.map lower ++ c.modelKeys.map (·.1))

/-- `str.isdigit` on ASCII text -/
def isDigits (s : String) : Bool := !s.toList.isEmpty && s.toList.all Char.isDigit

/-- `get_predictor`: a trailing all-digit part of a multi-part name is the version -/
def dropVersion (parts : List String) : List String :=
  match parts.reverse with
  | v :: n :: rest => if isDigits v then (n :: rest).reverse else parts
  | _ => parts

/-- `get_predictor(identifier) is not None` -/
def Catalog.isModel (c : Catalog) (parts : List String) : Bool :=
  match (dropVersion parts).reverse with
  | [] => false
  | n :: rest =>
    match (match rest with | q :: _ => some (lower q) | [] => c.defaultNs.map lower) with
    | some ns => c.modelKeys.contains (ns, lower n)
    | none => false

/-- `resolve_table` finds an integration for the operand -/
def Catalog.routable (c : Catalog) (parts : List String) : Bool :=
  (match parts with
   | q :: _ :: _ => c.databases.contains (lower q)
   | _ => false) || c.defaultNs.isSome

/-! ## specification vocabulary (used by the theorems of `Props/C14.lean`) -/

/-- the proper descendants the walker visits -/
def below : E → List E
  | .bin _ l r => nodes l ++ nodes r
  | .btw a b c => nodes a ++ nodes b ++ nodes c
  | .un _ e => nodes e
  | .fn _ a => nodes a
  | .acons h t => nodes h ++ nodes t
  | _ => []

/-- every visited node satisfying `P` is a top-level conjunct (decidable hypothesis of the partial theorems) -/
def flatP (P : E → Bool) : E → Bool
  | .bin op l r =>
    if op = "and" then !P (.bin op l r) && flatP P l && flatP P r
    else (nodes l ++ nodes r).all fun n => !P n
  | e => (below e).all fun n => !P n

/-- the walker stores a condition for this node -/
def stored (ops : List Operand) (n : E) : Bool := (attributed ops n).isSome

/-- qualifiers of all identifiers of an expression -/
def qualsOf : E → List (List String)
  | .col q _ => [q]
  | .bin _ l r => qualsOf l ++ qualsOf r
  | .btw a b c => qualsOf a ++ qualsOf b ++ qualsOf c
  | .un _ e => qualsOf e
  | .fn _ a => qualsOf a
  | .acons h t => qualsOf h ++ qualsOf t
  | _ => []

/-- three-valued evaluation of the boolean skeleton (0 = false, 1 = unknown, 2 = true);
`val` gives the value of every atom (anything that is not AND / OR / NOT) -/
def ev (val : E → Nat) : E → Nat
  | .bin op l r =>
    if op = "and" then min (ev val l) (ev val r)
    else if op = "or" then max (ev val l) (ev val r)
    else val (.bin op l r)
  | .un op e => if op = "not" then 2 - ev val e else val (.un op e)
  | e => val e

/-- column name / value of an equality in either orientation -/
def eqKey : E → String
  | .bin _ (.col _ k) _ => k
  | .bin _ _ (.col _ k) => k
  | _ => ""

def eqVal : E → Option String
  | .bin _ (.col _ _) r => argValue r
  | .bin _ l (.col _ _) => argValue l
  | _ => none

/-- what neutralisation does to one conjunct -/
def neut1 (p : E → Bool) : E → E
  | .bin op l r => if p (.bin op l r) then zeroEq op else .bin op l r
  | e => e

def keys (d : List (String × α)) : List String := d.map (·.1)

def isLeaf : E → Bool
  | .col _ _ => true
  | .const _ => true
  | .param _ => true
  | _ => false

/-! ## dataflow vocabulary for T14.1 -/

/-- the step a reference points to -/
def stepAt (steps : List Step) : Ref → Option Step
  | .top n => steps[n]?
  | .sub p k => match steps[p]? with
    | some (.mr _ _ subs) => subs[k]?
    | _ => none
  | .bad => none

/-- `HoldsX steps x r S`: the result referenced by `r` is built (by fetch / sub-select / apply / join steps)
from exactly the operands `S`, in join order.  A MapReduceStep denotes what its last sub-step denotes;
`x` = index of a still OPEN MapReduceStep, whose own result may not be used yet. -/
inductive HoldsX (steps : List Step) (x : Option Nat) : Ref → List Nat → Prop where
  | fetch {r j w l} : stepAt steps r = some (.fetch j w l) → HoldsX steps x r [j]
  | subsel {r j i w} : stepAt steps r = some (.subsel j i w) → HoldsX steps x r [j]
  | apply {r j i a b c} : stepAt steps r = some (.apply j i a b c) → HoldsX steps x r [j]
  | join {r l r' jt on A B} : stepAt steps r = some (.join l r' jt on) →
      HoldsX steps x l A → HoldsX steps x r' B → HoldsX steps x r (A ++ B)
  | mr {p v sz subs S} : steps[p]? = some (.mr v sz subs) → some p ≠ x → subs ≠ [] →
      HoldsX steps x (.sub p (subs.length - 1)) S → HoldsX steps x (.top p) S

/-- `Holds steps r S` in a finished plan -/
abbrev Holds (steps : List Step) (r : Ref) (S : List Nat) : Prop := HoldsX steps none r S

def applyOf1 : Step → Option (Nat × Ref)
  | .apply i inp _ _ _ => some (i, inp)
  | _ => none

def appliesOfStep : Step → List (Nat × Ref)
  | .apply i inp _ _ _ => [(i, inp)]
  | .mr _ _ subs => subs.filterMap applyOf1
  | _ => []

/-- all apply steps of a plan (also those inside MapReduceSteps): (model operand, input reference) -/
def appliesOf (steps : List Step) : List (Nat × Ref) := steps.flatMap appliesOfStep

/-- abstract run: what every stack entry denotes, and which model was applied to what -/
structure Abs where
  stk : List (List Nat) := []
  log : List (Nat × List Nat) := []
deriving Repr

def absItem (ops : List Operand) (a : Abs) : Item → Option Abs
  | .operand i =>
    match (ops.getD i default).kind with
    | .mod =>
      match a.stk with
      | [] => none
      | T :: rest => some { stk := [i] :: T :: rest, log := a.log ++ [(i, T)] }
    | _ => some { a with stk := [i] :: a.stk }
  | .join _ =>
    match a.stk with
    | r :: l :: rest => some { a with stk := (l ++ r) :: rest }
    | _ => none

def absRun (ops : List Operand) : List Item → Abs → Option Abs
  | [], a => some a
  | it :: rest, a => (absItem ops a it).bind (absRun ops rest)

def isModAt (ops : List Operand) (i : Nat) : Bool := (ops.getD i default).kind = .mod

/-- indices of the model operands -/
def modelIdx (ops : List Operand) : List Nat := (List.range' 0 ops.length).filter (isModAt ops)

/-- the operands a model operand is joined to: everything to its left (the other operand for `model JOIN table`) -/
def leftOf (ops : List Operand) (i : Nat) : List Nat :=
  if ops.length = 2 ∧ i = 0 then [1] else List.range i

end MindsVerif.ModelJoin
