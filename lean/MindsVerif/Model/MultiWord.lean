import MindsVerif.Model.TokStr
/-!
C16 / sepStable: a small scanner model for the *multi-word keyword tokens* of `MindsDBLexer`
(`\bW1<sep>W2\b` with `<sep>` one of `[\s]+`, a single blank, `[_|\s]`; `re.IGNORECASE`).
`parseMW` reads the regex source string exported by the translator, `mwMatch` is `re.match` of that
pattern at a position (ASCII reading of `\s`, `\b` — Python's Unicode classes are not modelled).
Used to decide, per keyword, whether blanking a comment between the two words changes the tokens.
-/
namespace MindsVerif.MultiWord
open MindsVerif.TokStr

inductive Sep where
  | plus   -- `[\s]+`
  | blank  -- one literal blank
  | one    -- `[_|\s]`
  deriving DecidableEq, Repr

structure MW where
  w1 : Str
  sep : Sep
  w2 : Str
  deriving DecidableEq, Repr

def isLetter (c : Char) : Bool := c.isAlpha
def isWs (c : Char) : Bool := c == ' ' || c == '\t' || c == '\n' || c == '\r' || c == '\x0b' || c == '\x0c'
def wordCh (c : Char) : Bool := c.isAlphanum || c == '_'

def stripPrefix (p : Str) (s : Str) : Option Str :=
  if p.isPrefixOf s then some (s.drop p.length) else none

/-- parse `\bW1<sep>W2\b` -/
def parseMW (re : Str) : Option MW := do
  let r ← stripPrefix "\\b".toList re
  let w1 := r.takeWhile isLetter
  let r := r.dropWhile isLetter
  let (sep, r) ←
    (match stripPrefix "[\\s]+".toList r with
     | some r' => some (Sep.plus, r')
     | none =>
       match stripPrefix "[_|\\s]".toList r with
       | some r' => some (Sep.one, r')
       | none =>
         match stripPrefix " ".toList r with
         | some r' => some (Sep.blank, r')
         | none => none)
  let w2 := r.takeWhile isLetter
  let r := r.dropWhile isLetter
  if r == "\\b".toList && !w1.isEmpty && !w2.isEmpty then some ⟨w1, sep, w2⟩ else none

/-- case-insensitive prefix match of a keyword word -/
def stripWordCI : Str → Str → Option Str
  | [], s => some s
  | _ :: _, [] => none
  | p :: ps, c :: cs => if p.toLower == c.toLower then stripWordCI ps cs else none

def sepLen : Sep → Str → Option Nat
  | .plus, s => let n := (s.takeWhile isWs).length; if n ≥ 1 then some n else none
  | .blank, c :: _ => if c == ' ' then some 1 else none
  | .one, c :: _ => if c == '_' || c == '|' || isWs c then some 1 else none
  | _, [] => none

/-- `re.match(pattern, text, pos)` where `prev` is the character before `pos` (for the leading `\b`):
length of the match -/
def mwMatch (k : MW) (prev : Option Char) (s : Str) : Option Nat :=
  if (match prev with | some c => wordCh c | none => false) then none else
  match stripWordCI k.w1 s with
  | none => none
  | some r1 =>
    match sepLen k.sep r1 with
    | none => none
    | some n =>
      match stripWordCI k.w2 (r1.drop n) with
      | none => none
      | some r3 =>
        if (match r3 with | c :: _ => wordCh c | [] => false) then none
        else some (k.w1.length + n + k.w2.length)

/-- what `tokens_to_string` puts in place of a gap (same line / line changed), see `TokStr.blank` -/
def blanked (g : Str) (lineChanged : Bool) : Str :=
  if lineChanged then '\n' :: List.replicate (g.length - 1) ' ' else List.replicate g.length ' '

/-- the two words written with gap `g` in between, followed by ` x` -/
def sample (k : MW) (g : Str) : Str := k.w1 ++ g ++ k.w2 ++ " x".toList

/-- blanking the gap `g` between the two words leaves "is one token / is not one token" unchanged -/
def stableOn (k : MW) (g : Str) (lineChanged : Bool) : Bool :=
  (mwMatch k none (sample k g)).isSome == (mwMatch k none (sample k (blanked g lineChanged))).isSome

end MindsVerif.MultiWord
