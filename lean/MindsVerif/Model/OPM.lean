/-
M5 — operator-precedence machine: how an LALR parser whose only decision function is SLY's
precedence resolution groups an operator expression.  Core Lean only.

The machine works on *frames* (pending productions with the operands collected so far) plus an
optional current value (`some r` = an operand has just been completed, an operator is expected;
`none` = an operand is expected).
-/
namespace MindsVerif.OPM

inductive Assoc where
  | left | right | nonassoc
  deriving DecidableEq, Repr

structure Prec where
  assoc : Assoc
  level : Nat
  deriving DecidableEq, Repr

inductive Decision where
  | shift | reduce | error
  deriving DecidableEq, Repr

/-- SLY's shift/reduce resolution (`sly/yacc.py: LRTable.lr_parse_table`): `r` is the precedence of
the completed production, `s` the level of the lookahead token. -/
def resolve (r : Prec) (s : Nat) : Decision :=
  if s < r.level then .reduce
  else if s = r.level then
    match r.assoc with
    | .left => .reduce
    | .right => .shift
    | .nonassoc => .error
  else .shift

/-- Precedence data of one dialect (filled from the exported `Grammar.Precedence` /
`Production.prec`).  Operators are numbered by the translator. -/
structure Table where
  /-- level of an operator token when it is the lookahead (`Precedence.get(a, ('right', 0))[1]`) -/
  tokLevel : Nat → Nat
  /-- precedence of the production `expr o expr` -/
  binProd : Nat → Prec
  /-- precedence of the production `o expr` (given by `%prec`) -/
  preProd : Nat → Prec
  /-- which operator tokens may start an operand (prefix operators) -/
  isPre : Nat → Bool
  /-- the BETWEEN token and the AND token -/
  btwTok : Nat
  andTok : Nat
  /-- precedence of `expr BETWEEN expr AND expr` -/
  btwProd : Prec

inductive Expr where
  | atom (n : Nat)
  | bin (o : Nat) (l r : Expr)
  | pre (o : Nat) (e : Expr)
  | btw (x y z : Expr)
  /-- user-written parentheses (`LPAREN expr RPAREN` sets `parentheses=True`) -/
  | paren (e : Expr)
  deriving DecidableEq, Repr

inductive Tok where
  | atom (n : Nat) | op (o : Nat) | lpar | rpar
  deriving DecidableEq, Repr

inductive Frame where
  /-- `l o .` : binary operator shifted, right operand pending -/
  | opr (o : Nat) (l : Expr)
  /-- `o .` : prefix operator shifted -/
  | pre (o : Nat)
  | lpar
  /-- `x BETWEEN .` -/
  | btw (x : Expr)
  /-- `x BETWEEN y AND .` -/
  | band (x y : Expr)
  deriving DecidableEq, Repr

/-- reduce completed productions on top of the frame stack while SLY's resolution against the
lookahead operator `a` says reduce.  `none` = the table entry is an error (nonassoc). -/
def reduceWhile (P : Table) (a : Nat) : List Frame → Expr → Option (List Frame × Expr)
  | [], r => some ([], r)
  | .opr o l :: fs, r =>
    match resolve (P.binProd o) (P.tokLevel a) with
    | .reduce => reduceWhile P a fs (.bin o l r)
    | .shift => some (.opr o l :: fs, r)
    | .error => none
  | .pre o :: fs, r =>
    match resolve (P.preProd o) (P.tokLevel a) with
    | .reduce => reduceWhile P a fs (.pre o r)
    | .shift => some (.pre o :: fs, r)
    | .error => none
  | .band x y :: fs, r =>
    match resolve P.btwProd (P.tokLevel a) with
    | .reduce => reduceWhile P a fs (.btw x y r)
    | .shift => some (.band x y :: fs, r)
    | .error => none
  | .btw x :: fs, r => some (.btw x :: fs, r)
  | .lpar :: fs, r => some (.lpar :: fs, r)

/-- reduce everything down to the innermost `(` (lookahead `)`): returns the frames below it -/
def closeParen : List Frame → Expr → Option (List Frame × Expr)
  | [], _ => none
  | .opr o l :: fs, r => closeParen fs (.bin o l r)
  | .pre o :: fs, r => closeParen fs (.pre o r)
  | .band x y :: fs, r => closeParen fs (.btw x y r)
  | .btw _ :: _, _ => none
  | .lpar :: fs, r => some (fs, .paren r)

/-- reduce everything at end of input -/
def finish : List Frame → Expr → Option Expr
  | [], r => some r
  | .opr o l :: fs, r => finish fs (.bin o l r)
  | .pre o :: fs, r => finish fs (.pre o r)
  | .band x y :: fs, r => finish fs (.btw x y r)
  | .btw _ :: _, _ => none
  | .lpar :: _, _ => none

/-- push the frame for a shifted operator `a` whose left operand is `r` -/
def shiftOp (P : Table) (a : Nat) (fs : List Frame) (r : Expr) : List Frame :=
  if a = P.btwTok then .btw r :: fs
  else
    match fs with
    | .btw x :: fs' => if a = P.andTok then .band x r :: fs' else .opr a r :: fs
    | _ => .opr a r :: fs

def parse (P : Table) : List Tok → List Frame → Option Expr → Option Expr
  | [], _, none => none
  | [], fs, some r => finish fs r
  | .atom n :: ts, fs, none => parse P ts fs (some (.atom n))
  | .atom _ :: _, _, some _ => none
  | .lpar :: ts, fs, none => parse P ts (.lpar :: fs) none
  | .lpar :: _, _, some _ => none
  | .rpar :: _, _, none => none
  | .rpar :: ts, fs, some r =>
    match closeParen fs r with
    | none => none
    | some (fs', r') => parse P ts fs' (some r')
  | .op a :: ts, fs, none => if P.isPre a then parse P ts (.pre a :: fs) none else none
  | .op a :: ts, fs, some r =>
    match reduceWhile P a fs r with
    | none => none
    | some (fs', r') => parse P ts (shiftOp P a fs' r') none

/-- print exactly the tree: parentheses only where the tree has `paren` nodes -/
def print (P : Table) : Expr → List Tok
  | .atom n => [.atom n]
  | .bin o l r => print P l ++ .op o :: print P r
  | .pre o e => .op o :: print P e
  | .btw x y z => print P x ++ .op P.btwTok :: (print P y ++ .op P.andTok :: print P z)
  | .paren e => .lpar :: (print P e ++ [.rpar])

/-! ### which trees are reproduced by parsing their print -/

/-- operator tokens that arrive as lookahead while the frame *below* `e` is still on top -/
def leftOps (P : Table) : Expr → List Nat
  | .atom _ => []
  | .paren _ => []
  | .pre _ _ => []
  | .bin o l _ => o :: leftOps P l
  | .btw x _ _ => P.btwTok :: leftOps P x

/-- precedences of the productions left pending on the right spine of `e` -/
def rightProds (P : Table) : Expr → List Prec
  | .atom _ => []
  | .paren _ => []
  | .pre o e => P.preProd o :: rightProds P e
  | .bin o _ r => P.binProd o :: rightProds P r
  | .btw _ _ z => P.btwProd :: rightProds P z

def allReduce (P : Table) (ps : List Prec) (a : Nat) : Bool :=
  ps.all (fun p => resolve p (P.tokLevel a) == .reduce)

def allShift (P : Table) (p : Prec) (as : List Nat) : Bool :=
  as.all (fun a => resolve p (P.tokLevel a) == .shift)

/-- the tree is canonical for `P`: SLY's resolution regroups none of its children -/
def canon (P : Table) : Expr → Bool
  | .atom _ => true
  | .paren e => canon P e
  | .pre o e => P.isPre o && canon P e && allShift P (P.preProd o) (leftOps P e)
  | .bin o l r =>
    o != P.btwTok && canon P l && canon P r &&
    allReduce P (rightProds P l) o && allShift P (P.binProd o) (leftOps P r)
  | .btw x y z =>
    canon P x && canon P y && canon P z &&
    allReduce P (rightProds P x) P.btwTok &&
    allReduce P (rightProds P y) P.andTok && !(leftOps P y).contains P.andTok &&
    allShift P P.btwProd (leftOps P z) && P.andTok != P.btwTok

/-! ### the SQL reference grouping (stratified grammar) and minimal parenthesisation -/

/-- strata, loosest first: 0 OR, 1 AND, 2 NOT, 3 comparisons and predicates (incl. BETWEEN),
4 `+ -`, 5 `* / %`, 6 unary minus, 7 primary -/
structure Strata where
  bin : Nat → Nat
  pre : Nat → Nat

def stratum (S : Strata) : Expr → Nat
  | .atom _ => 7
  | .paren _ => 7
  | .pre o _ => S.pre o
  | .bin o _ _ => S.bin o
  | .btw _ _ _ => 3

def wrapIf (c : Bool) (e : Expr) : Expr := if c then .paren e else e

/-- insert exactly the parentheses the stratified SQL grammar requires.
left operand of a binary operator of stratum `s`: needs `stratum ≥ s` (`> s` for the
non-associative stratum 3); right operand: needs `stratum > s`;
operand of a prefix operator of stratum `s`: needs `stratum ≥ s`;
BETWEEN operands: need `stratum ≥ 4`. -/
def addParens (S : Strata) : Expr → Expr
  | .atom n => .atom n
  | .paren e => .paren (addParens S e)
  | .pre o e => .pre o (wrapIf (stratum S e < S.pre o) (addParens S e))
  | .bin o l r =>
    let s := S.bin o
    .bin o (wrapIf (if s = 3 then stratum S l ≤ s else stratum S l < s) (addParens S l))
           (wrapIf (stratum S r ≤ s) (addParens S r))
  | .btw x y z =>
    .btw (wrapIf (stratum S x < 4) (addParens S x)) (wrapIf (stratum S y < 4) (addParens S y))
         (wrapIf (stratum S z < 4) (addParens S z))

/-- remove all parentheses -/
def strip : Expr → Expr
  | .atom n => .atom n
  | .paren e => strip e
  | .pre o e => .pre o (strip e)
  | .bin o l r => .bin o (strip l) (strip r)
  | .btw x y z => .btw (strip x) (strip y) (strip z)

/-- the operators of the C03 fragment, as finite lists (filled by the translator) -/
structure Fragment where
  bins : List Nat
  pres : List Nat

/-- every operator of `e` belongs to the fragment -/
def inFragment (F : Fragment) : Expr → Bool
  | .atom _ => true
  | .paren e => inFragment F e
  | .pre o e => F.pres.contains o && inFragment F e
  | .bin o l r => F.bins.contains o && inFragment F l && inFragment F r
  | .btw x y z => inFragment F x && inFragment F y && inFragment F z

/-- what the stratified grammar demands of the resolution of a completed production of stratum
`sp` (left-associative iff `la`) against a lookahead operator of stratum `sa`;
`none` = the fragment never asks. -/
def expected (sp : Nat) (sa : Nat) : Option Decision :=
  if sa < sp then some .reduce
  else if sa = sp then (if sp = 3 then none else some .reduce)
  else some .shift

def agrees (d : Decision) : Option Decision → Bool
  | none => true
  | some d' => d == d'

/-- Φ3a: the precedence table of a dialect orders the fragment's operators as SQL does.
Finite and decidable: evaluated by the kernel on the exported table. -/
def sqlOrder (P : Table) (S : Strata) (F : Fragment) : Bool :=
  let las : List (Nat × Nat) := (F.bins.map fun a => (a, S.bin a)) ++ [(P.btwTok, 3)]
  -- completed binary production vs lookahead
  F.bins.all (fun o => las.all fun (a, sa) =>
    agrees (resolve (P.binProd o) (P.tokLevel a)) (expected (S.bin o) sa)) &&
  -- completed prefix production vs lookahead (a prefix production is never left-associative
  -- with an infix operator of its own stratum: none exists in the fragment)
  F.pres.all (fun o => las.all fun (a, sa) =>
    agrees (resolve (P.preProd o) (P.tokLevel a)) (if sa = S.pre o then none else expected (S.pre o) sa)) &&
  -- completed BETWEEN vs lookahead: it must yield to AND / OR and keep `+ - * / %` operands
  las.all (fun (a, sa) =>
    agrees (resolve P.btwProd (P.tokLevel a)) (if sa ≤ 1 then some .reduce else if sa ≥ 4 then some .shift else none)) &&
  F.pres.all (fun o => P.isPre o) &&
  F.bins.all (fun o => o != P.btwTok) &&
  -- strata are sane
  F.bins.all (fun o => S.bin o ≤ 5 && S.bin o != 2) && F.pres.all (fun o => S.pre o == 2 || S.pre o == 6) &&
  S.bin P.andTok == 1 && F.bins.contains P.andTok

end MindsVerif.OPM
