import MindsVerif.Model.LR
import MindsVerif.Model.OPM
/-!
Φ3b — conformance of the real LALR tables with the operator-precedence machine:
in every state whose accessing symbol is `expr`, the table's action on each fragment operator
lookahead is what `OPM.reduceWhile` does with the corresponding top frame
(completed operator production: SLY's `resolve`; no completed operator production: shift).
Evaluated by the kernel on the generated tables.
-/
namespace MindsVerif.OPMConf
open MindsVerif.LR MindsVerif.OPM

inductive OpKind where
  | bin (o : Nat) | pre (o : Nat) | btw
  /-- an operator-shaped production outside the C03 fragment (`expr NOT expr`, `expr -> expr`, …) -/
  | other
  deriving DecidableEq, Repr

structure Spec where
  P : OPM.Table
  S : Strata
  F : Fragment
  /-- lookahead cells `(operator id, terminal id, stratum)` -/
  las : List (Nat × Nat × Nat)
  /-- operator-shaped productions of the grammar, by canonical production number -/
  opProds : List (Nat × OpKind)
  /-- symbol code of the nonterminal `expr` -/
  exprCode : Nat

def Spec.kindOf (Sp : Spec) (p : Nat) : Option OpKind :=
  (Sp.opProds.find? (fun e => e.1 == p)).map (·.2)

def actMatches (d : Decision) (p : Nat) : Act → Bool
  | .shift _ => d == .shift
  | .reduce q => d == .reduce && p == q
  | .none => d == .error
  | .accept => false

def isShift : Act → Bool
  | .shift _ => true
  | _ => false

/-- does the fragment care about the resolution of production kind `k` against a lookahead of
stratum `sa`? (mirrors `OPM.sqlOrder`) -/
def cares (S : Strata) : OpKind → Nat → Bool
  | .bin o, sa => !(sa == 3 && S.bin o == 3)
  | .pre o, sa => sa != S.pre o
  | .btw, sa => sa ≤ 1 || sa ≥ 4
  | .other, _ => false

def precOf (P : OPM.Table) : OpKind → Prec
  | .bin o => P.binProd o
  | .pre o => P.preProd o
  | .btw => P.btwProd
  | .other => ⟨.right, 0⟩

def rowConf (Sp : Spec) (s : Nat) (r : Row) : Bool :=
  if r.past.head? != some Sp.exprCode then (s == 0 || !r.past.isEmpty)
  else
    let kinds := r.reds.filterMap (fun e => (Sp.kindOf e.1).map (fun k => (e.1, k)))
    if kinds.any (fun pk => pk.2 == OpKind.other) then true
    else
      let chosen : Option (Nat × OpKind) :=
        match kinds.find? (fun pk => pk.2 == OpKind.btw) with
        | some pk => some pk
        | none => match kinds with
          | [pk] => some pk
          | _ => none
      match chosen, kinds with
      | none, [] => Sp.las.all (fun c => isShift (r.action c.2.1))
      | none, _ => false
      | some (p, k), _ =>
        Sp.las.all (fun c =>
          !cares Sp.S k c.2.2 ||
            actMatches (resolve (precOf Sp.P k) (Sp.P.tokLevel c.1)) p (r.action c.2.1))

def conforms (Sp : Spec) (T : Tables) : Bool :=
  Trie.allIdx (rowConf Sp) 1 0 T.rows

end MindsVerif.OPMConf
