import MindsVerif.Model.OPMConf
/-!
Φ3c — reduce/reduce conflicts among operator rules.

yacc / SLY settle a reduce/reduce conflict by the ORDER of the rules in the grammar file (the rule written first
wins), so moving a rule — no rule, action or precedence entry changed — can flip a grouping.  Two operator-shaped
productions are complete in the same state exactly when one right-hand side is a suffix of the other
(`expr BETWEEN expr AND expr` / `expr AND expr`; `expr IS NOT expr` / `NOT expr`).  The reading SQL defines is the
LONGER one (the multi-word operator): `x IS NOT y` is the `IS NOT` predicate, never `x IS (NOT y)`.

`rrLongest` checks on the real table, for every state whose accessing symbol is `expr`: among the operator-shaped
productions whose reversed right-hand side is a prefix of the state's `past` certificate (the symbols every path
into the state ends with — re-checked by `Tables.valid`), no reduction of the row is by a shorter one than the
longest that begins with `expr` (such a production IS an item of the state: the state `|rhs|` symbols back has a
transition on `expr`, so its closure holds every `expr → . γ`).  Independent of the order of the rules.

`opProdsComplete` checks that the translator's list `Spec.opProds` misses no operator-shaped production of the
real table (`expr → expr … expr`, `expr → X expr`, `expr → expr`).
-/
namespace MindsVerif.OPMConf
open MindsVerif.LR MindsVerif.OPM

/-- `xs` is a prefix of `ys` -/
def isPre : List Nat → List Nat → Bool
  | [], _ => true
  | _ :: _, [] => false
  | x :: xs, y :: ys => x == y && isPre xs ys

/-- length of the longest operator-shaped production that begins and ends with `expr` and is complete on top
of `past` (0 if none) -/
def longestAt (T : Tables) (exprCode : Nat) (past : List Nat) : List (Nat × OpKind) → Nat
  | [] => 0
  | (p, _) :: ps =>
    let rest := longestAt T exprCode past ps
    match T.prods.get? p with
    | some pr =>
      bif pr.rhs.head? == some exprCode && isPre pr.rhs.reverse past && Nat.blt rest pr.rhs.length
      then pr.rhs.length else rest
    | none => rest

def prodLen (T : Tables) (p : Nat) : Nat :=
  match T.prods.get? p with
  | some pr => pr.rhs.length
  | none => 0

def rowRR (Sp : Spec) (T : Tables) (_s : Nat) (r : Row) : Bool :=
  bif r.past.head? != some Sp.exprCode then true
  else
    let n := longestAt T Sp.exprCode r.past Sp.opProds
    r.reds.all (fun e => (Sp.kindOf e.1).isNone || Nat.ble n (prodLen T e.1)) &&
    (match r.dflt with
     | some p => (Sp.kindOf p).isNone || Nat.ble n (prodLen T p)
     | none => true)

/-- Φ3c: every reduce/reduce conflict among operator rules is won by the longest rule -/
def rrLongest (Sp : Spec) (T : Tables) : Bool :=
  Trie.allIdx (rowRR Sp T) 1 0 T.rows

/-- a production of `expr` that begins or ends like an operator rule -/
def opShaped (exprCode : Nat) (rhs : List Nat) : Bool :=
  rhs.getLast? == some exprCode &&
    (rhs.length ≤ 2 || rhs.head? == some exprCode)

def opProdsComplete (Sp : Spec) (T : Tables) : Bool :=
  Trie.allIdx (fun p (pr : Prod) =>
    !(2 * pr.lhs + 1 == Sp.exprCode && opShaped Sp.exprCode pr.rhs) || (Sp.kindOf p).isSome) 1 0 T.prods

end MindsVerif.OPMConf
