import MindsVerif.Model.Walk
/-!
# Callbacks used by the library on top of the walker, and the prepared-statement state machine

`get_query_params` / `fill_query_params` (`planner/utils.py`) and
`PreparedStatementPlanner.prepare_steps / execute_steps / get_statement_info`
(`planner/query_prepare.py`), transcribed.
-/
namespace MindsVerif.Params
open MindsVerif.Walk

/-- a visitor that only looks -/
def cbLog : Cb Unit := fun st _ _ _ _ => (none, st)

/-- a visitor that returns `r` for the node with identity `x` -/
def cbAt (x : Nat) (r : Node) : Cb Unit := fun st n _ _ _ =>
  match n with
  | some m => if m.tag = x then (some r, st) else (none, st)
  | none => (none, st)

/-- `params_find`: `if isinstance(node, Parameter): params.append(node); return node` -/
def cbFind (P : Nat) : Cb (List Node) := fun st n _ _ _ =>
  match n with
  | some m => if m.cls = P then (some m, st ++ [m]) else (none, st)
  | none => (none, st)

/-- stable insertion sort (the model of Python's `sorted(..., key=position)`) -/
def ins {α : Type} (le : α → α → Bool) (a : α) : List α → List α
  | [] => [a]
  | b :: l => if le a b then a :: b :: l else b :: ins le a l
def isort {α : Type} (le : α → α → Bool) : List α → List α
  | [] => []
  | a :: l => ins le a (isort le l)

/-! `sort_by_text_position` finds a placeholder by searching its marker in the rendered statement.  The model below
uses the print-template position instead; this is the same as long as a marker is only found where its own placeholder
is rendered.  The markers are probed (`Gen.Schema.markers`) and `markersOK` is kernel-checked on them. -/

def isPrefixL : List Nat → List Nat → Bool
  | [], _ => true
  | _ :: _, [] => false
  | a :: as, b :: bs => a == b && isPrefixL as bs

/-- `a` occurs somewhere in `b` -/
def isInfixL (a : List Nat) : List Nat → Bool
  | [] => a.isEmpty
  | b :: bs => isPrefixL a (b :: bs) || isInfixL a bs

/-- enough markers were probed, none is empty and none occurs inside another one (in particular none is a prefix
of another: `:__param_1` would be found inside `:__param_10`) -/
def markersOK (ms : List (List Nat)) : Bool :=
  decide (26 ≤ ms.length) && ms.all (fun m => !m.isEmpty)
  && (List.range ms.length).all (fun i => (List.range ms.length).all (fun j =>
        i == j || !isInfixL (ms.getD i []) (ms.getD j [])))

/-- position in the rendered statement (`text.find(marker)`); `order.length` when not rendered -/
def rank (order : List Nat) (t : Nat) : Nat := order.findIdx (· == t)

/-- `sort_by_text_position(query, params)`: fewer than two — as found; a placeholder that is not rendered — the
traversal order is kept; otherwise ordered by the position in the rendered statement -/
def sortByText (σ : Schema) (q : Node) (ps : List Node) : List Node :=
  let order := textOrder σ q
  if ps.length < 2 then ps
  else if ps.all (fun p => order.contains p.tag) then isort (fun a b => rank order a.tag ≤ rank order b.tag) ps
  else ps

/-- `get_query_params(query)`: the placeholders found by the walk, in the order they are written -/
def getParams (σ : Schema) (P : Nat) (q : Node) : List Node := sortByText σ q (walk σ (cbFind P) q []).st

/-- `params_replace` of `fill_query_params`: the value is looked up by the identity of the placeholder;
`Constant(value, alias=node.alias, parentheses=node.parentheses)` keeps the placeholder's children -/
def cbFillMap (P C : Nat) (values : List (Nat × Nat)) : Cb Unit := fun st n _ _ _ =>
  match n with
  | some m =>
    if m.cls = P then
      match values.lookup m.tag with
      | some v => (some (.mk C m.slot v m.kids), st)
      | none => (some m, st)                 -- KeyError in Python; cannot happen (same walk as `get_query_params`)
    else (none, st)
  | none => (none, st)

structure FillRes where
  out : Out Unit
  failed : Bool      -- IndexError: `params.pop(0)` on an empty list while assigning the values (nothing is changed then)
  left : Nat         -- values not used

/-- `fill_query_params(query, params)`: values are assigned to the placeholders in textual order first, then the
walk replaces every placeholder by its value -/
def fillParams (σ : Schema) (P C : Nat) (q : Node) (vs : List Nat) : FillRes :=
  let found := getParams σ P q
  if vs.length < found.length then ⟨⟨none, q, (), [], true⟩, true, 0⟩
  else ⟨walk σ (cbFillMap P C ((found.map Node.tag).zip vs)) q (), false, vs.length - found.length⟩

/-! ## `PreparedStatementPlanner` -/

inductive Err | planning | typeError
deriving DecidableEq, Repr

/-- `planner.statement` (`none`; `some none`: a Statement whose `params` is `None`;
`some (some n)`: a Statement with `n` placeholders found) and `planner.query` -/
structure PState where
  stmt : Option (Option Nat)
  query : Option Node

inductive Res
  | planned (q : Node)      -- `plan_query(q)` is run on this tree
  | nothing                 -- `[]` is returned (no query to plan)
  | error (e : Err)

def PState.init : PState := ⟨none, none⟩

/-- `prepare_steps(query)`: `stmt.params = get_query_params(deepcopy(query))`, `planner.query = query` -/
def prepare (σ : Schema) (P : Nat) (q : Node) (_ : PState) : PState :=
  ⟨some (some (getParams σ P q).length), some q⟩

/-- `execute_steps(params)` -/
def execute (σ : Schema) (P C : Nat) (params : Option (List Nat)) (s : PState) : PState × Res :=
  match s.query with
  | none =>                                   -- nothing was prepared: `planner.query` is None
    match s.stmt, params with
    | none, some _ => (s, .error .planning)  -- "Can't execute statement"
    | _, _ => (s, .nothing)                  -- not a plannable statement kind: `return []`
  | some q =>
    match s.stmt, params with
    | none, some _ => (s, .error .planning)              -- "Can't execute statement"
    | none, none => (s, .planned q)                      -- a local `Statement()` is used and dropped
    | some _, none => (⟨some none, some q⟩, .planned q)  -- `stmt.params = None`
    | some none, some _ => (s, .error .planning)         -- "Can't execute statement: it was already executed"
    | some (some n), some vs =>
      if vs.length ≠ n then (s, .error .planning)        -- "Count of execution parameters don't match …"
      else
        let q' := (fillParams σ P C q vs).out.self
        (⟨some none, some q'⟩, .planned q')

/-- `get_statement_info()['parameters']`: length, or the exception -/
def info (s : PState) : Except Err Nat :=
  match s.stmt with
  | none => .error .planning                 -- "Statement is not prepared"
  | some none => .ok 0                       -- `for param in stmt.params or []`
  | some (some n) => .ok n

end MindsVerif.Params
