import MindsVerif.Model.Walk
/-!
# Callbacks used by the library on top of the walker, and the prepared-statement state machine

`get_query_params` / `fill_query_params` (`planner/utils.py`) and
`PreparedStatementPlanner.prepare_steps / execute_steps / get_statement_info`
(`planner/query_prepare.py`), transcribed.
-/
namespace MindsVerif.Params
open MindsVerif.Walk

/-- a visitor that only looks -/
def cbLog : Cb Unit := fun st _ _ _ _ => (none, st)

/-- a visitor that returns `r` for the node with identity `x` -/
def cbAt (x : Nat) (r : Node) : Cb Unit := fun st n _ _ _ =>
  match n with
  | some m => if m.tag = x then (some r, st) else (none, st)
  | none => (none, st)

/-- `params_find`: `if isinstance(node, Parameter): params.append(node); return node` -/
def cbFind (P : Nat) : Cb (List Node) := fun st n _ _ _ =>
  match n with
  | some m => if m.cls = P then (some m, st ++ [m]) else (none, st)
  | none => (none, st)

/-- values still to be bound; `failed`: `params.pop(0)` was evaluated on an empty list (IndexError —
in Python the traversal is aborted by the exception; the model goes on with the flag set) -/
structure FillSt where
  vals : List Nat
  failed : Bool
deriving Repr, DecidableEq

/-- `params_replace`: `if isinstance(node, Parameter): value = params.pop(0);
return Constant(value, alias=node.alias, parentheses=node.parentheses)`.
The new constant carries the value as its identity and keeps the placeholder's children (its alias). -/
def cbFill (P C : Nat) : Cb FillSt := fun st n _ _ _ =>
  match n with
  | some m =>
    if m.cls = P then
      match st.vals with
      | v :: vs => (some (.mk C m.slot v m.kids), ⟨vs, st.failed⟩)
      | [] => (some m, ⟨[], true⟩)
    else (none, st)
  | none => (none, st)

/-- `get_query_params(query)` -/
def getParams (σ : Schema) (P : Nat) (q : Node) : List Node := (walk σ (cbFind P) q []).st

/-- `fill_query_params(query, params)`: the query object itself is returned (mutated) -/
def fillParams (σ : Schema) (P C : Nat) (q : Node) (vs : List Nat) : Node × FillSt :=
  let o := walk σ (cbFill P C) q ⟨vs, false⟩
  (o.self, o.st)

/-! ## `PreparedStatementPlanner` -/

inductive Err | planning | typeError
deriving DecidableEq, Repr

/-- `planner.statement` (`none`; `some none`: a Statement whose `params` is `None`;
`some (some n)`: a Statement with `n` placeholders found) and `planner.query` -/
structure PState where
  stmt : Option (Option Nat)
  query : Option Node

inductive Res
  | planned (q : Node)      -- `plan_query(q)` is run on this tree
  | nothing                 -- `[]` is returned (no query to plan)
  | error (e : Err)

def PState.init : PState := ⟨none, none⟩

/-- `prepare_steps(query)`: `stmt.params = get_query_params(deepcopy(query))`, `planner.query = query` -/
def prepare (σ : Schema) (P : Nat) (q : Node) (_ : PState) : PState :=
  ⟨some (some (getParams σ P q).length), some q⟩

/-- `execute_steps(params)` -/
def execute (σ : Schema) (P C : Nat) (params : Option (List Nat)) (s : PState) : PState × Res :=
  match s.query with
  | none =>                                   -- nothing was prepared: `planner.query` is None
    match s.stmt, params with
    | none, some _ => (s, .error .planning)  -- "Can't execute statement"
    | _, _ => (s, .nothing)                  -- not a plannable statement kind: `return []`
  | some q =>
    match s.stmt, params with
    | none, some _ => (s, .error .planning)              -- "Can't execute statement"
    | none, none => (s, .planned q)                      -- a local `Statement()` is used and dropped
    | some _, none => (⟨some none, some q⟩, .planned q)  -- `stmt.params = None`
    | some none, some _ => (s, .error .planning)         -- "Can't execute statement: it was already executed"
    | some (some n), some vs =>
      if vs.length ≠ n then (s, .error .planning)        -- "Count of execution parameters don't match …"
      else
        let q' := (fillParams σ P C q vs).1
        (⟨some none, some q'⟩, .planned q')

/-- `get_statement_info()['parameters']`: length, or the exception -/
def info (s : PState) : Except Err Nat :=
  match s.stmt with
  | none => .error .planning                 -- "Statement is not prepared"
  | some none => .ok 0                       -- `for param in stmt.params or []`
  | some (some n) => .ok n

end MindsVerif.Params
