/-
M8 (bookkeeping part) — query plans as forward-only dataflow programs.

Transcribes, from `mindsdb_sql/planner`:
* `steps.py: PlanStep.step_num / PlanStep.result`, `step_result.py: Result(step_num)`,
* `query_plan.py: QueryPlan.add_step`,
* `plan_join.py: PlanJoinTablesQuery` — `get_join_sequence`, the `model JOIN table` swap, the loop of
  `plan_join_tables` over the join sequence with its `step_stack`, `tables_fetch_step`, and the
  partition bookkeeping `add_plan_step / add_step_to_partition / close_partition`, and the
  `QueryStep` wrapper of `plan`.

Everything a step *carries* is abstracted to: its class (`Kind`), its `step_num`, the list of result
numbers it references anywhere (fields, `Parameter(Result)` inside embedded queries) and its sub-steps
(containers `MapReduceStep.step`, `MultipleSteps.steps`).  What other planners contribute (nested
selects, sub-selects in FROM, CTE bodies) enters as *blocks*: lists of steps numbered as if planned on
an empty plan, re-based when they are appended.

Core Lean only.
-/
namespace MindsVerif.Plan

/-- `PlanStep.step_num`: an `int` for steps of the plan, the string `f'{p}_{i}'` for the `i`-th
sub-step of the map-reduce partition that is step `p` (`add_step_to_partition`). -/
inductive SNum where
  | top (n : Nat)
  | sub (p i : Nat)
  deriving DecidableEq, Repr, Inhabited

/-- step classes that the join planner creates itself; `other` = classes only found in blocks -/
inductive Kind where
  | fetch | subselect | join | apply | mapreduce | query
  | other (tag : Nat)
  deriving DecidableEq, Repr, Inhabited

/-- a sub-step held by a container step -/
structure Sub where
  kind : Kind
  num : Option SNum
  refs : List SNum
  deriving DecidableEq, Repr

structure Step where
  kind : Kind
  /-- `None` until `QueryPlan.add_step` (or `add_step_to_partition`) assigns it -/
  num : Option SNum
  /-- every `Result(k)` reachable from the step's own attributes -/
  refs : List SNum
  subs : List Sub := []
  deriving DecidableEq, Repr

/-- Python truthiness of `step.step_num` in `if not step.step_num:` — `None` and `0` are falsy,
positive ints and the non-empty strings `'p_i'` are truthy. -/
def falsy : Option SNum → Bool
  | none => true
  | some (.top 0) => true
  | _ => false

/-- `QueryPlan.add_step`:
```
if not step.step_num: step.step_num = len(self.steps)
self.steps.append(step)
``` -/
def addStep (plan : List Step) (s : Step) : List Step :=
  plan ++ [if falsy s.num then { s with num := some (.top plan.length) } else s]

/-! ### the invariant (Bool-valued so that witnesses are `decide`d) -/

/-- a reference made by the top-level step at position `i` -/
def refOKTop (i : Nat) : SNum → Bool
  | .top k => decide (k < i)
  | .sub _ _ => false

/-- a reference made by the `j`-th sub-step of the container at position `i`: an earlier step of the
plan, or an earlier sub-step of the same container -/
def refOKSub (i j : Nat) : SNum → Bool
  | .top k => decide (k < i)
  | .sub p j' => p == i && decide (j' < j)

def subOK (i j : Nat) (s : Sub) : Bool :=
  (s.num == none || s.num == some (.sub i j)) && s.refs.all (refOKSub i j)

def subsOK (i : Nat) : Nat → List Sub → Bool
  | _, [] => true
  | j, s :: ss => subOK i j s && subsOK i (j + 1) ss

def stepOK (i : Nat) (s : Step) : Bool :=
  s.num == some (.top i) && s.refs.all (refOKTop i) && subsOK i 0 s.subs

/-- steps `i, i+1, …` are numbered by position and reference only what precedes them -/
def stepsOK : Nat → List Step → Bool
  | _, [] => true
  | i, s :: ss => stepOK i s && stepsOK (i + 1) ss

/-- C09's invariant for a plan together with the step the planner returned as the answer -/
def invB (plan : List Step) (answer : SNum) : Bool :=
  stepsOK 0 plan && !plan.isEmpty && answer == .top (plan.length - 1)

/-! ### blocks -/

def shiftNum (n : Nat) : SNum → SNum
  | .top k => .top (k + n)
  | .sub p i => .sub (p + n) i

def shiftSub (n : Nat) (s : Sub) : Sub :=
  { s with num := s.num.map (shiftNum n), refs := s.refs.map (shiftNum n) }

def shiftStep (n : Nat) (s : Step) : Step :=
  { s with num := s.num.map (shiftNum n), refs := s.refs.map (shiftNum n), subs := s.subs.map (shiftSub n) }

/-- what another planner appended when it was called on a plan of length `base` -/
def appendBlock (plan : List Step) (block : List Step) : List Step :=
  plan ++ block.map (shiftStep plan.length)

/-! ### the join skeleton -/

inductive Err where
  | planning (msg : String)
  | notImpl (msg : String)
  /-- an exception that is neither `PlanningException` nor `NotImplementedError` -/
  | internal (msg : String)
  deriving Repr, DecidableEq

/-- a planner call: extends the plan and returns the `step_num` of the step it returns, or raises -/
abbrev Planner := List Step → Except Err (List Step × SNum)

/-- a planner that appends a fixed block and returns its `ret`-th step (used for hand-written examples) -/
def blockPlanner (block : List Step) (ret : Nat) : Planner :=
  fun plan => .ok (appendBlock plan block, .top (plan.length + ret))

inductive Operand where
  /-- a table: `cte` = it names a CTE (then the step is a `SubSelectStep` on the CTE result);
  `dataConds` = for each `=` condition of its ON clause that `get_filters_from_join_conditions`
  keeps as a data condition, the index (`TableInfo.index`) of the *other* table;
  `pre` = results of already planned steps referenced from its fetch query (CTE result,
  `Parameter(Result)` of nested selects pushed into its WHERE) -/
  | table (cte : Bool) (dataConds : List Nat) (pre : List SNum)
  /-- a model; `psize` = `partition_size` is among the USING parameters that apply to it -/
  | predictor (ts psize : Bool)
  /-- a sub-select / native query / data node in FROM, planned by `planner.plan_select` (`sub`) -/
  | subselect (aliased : Bool) (sub : Planner)

inductive JT where
  | leaf (o : Operand)
  | join (l r : JT)
  /-- a FROM node that is neither `Identifier` nor `Join` after `replace_subselects` -/
  | bad

inductive Item where
  | op (idx : Nat) (o : Operand)
  | jn

/-- `get_join_sequence`; the `Nat` is `len(self.tables)` (gives `TableInfo.index`) -/
def getJoinSequence : JT → Nat → Except Err (List Item × Nat)
  | .leaf o, n => .ok ([.op n o], n + 1)
  | .join l r, n =>
    match getJoinSequence l n with
    | .error e => .error e
    | .ok (s1, n1) =>
      match getJoinSequence r n1 with
      | .error e => .error e
      | .ok (s2, n2) =>
        match s2 with
        | [x] => .ok (s1 ++ [x, .jn], n2)
        | _ => .error (.planning "Unexpected join nesting behavior")
  | .bad, _ => .error (.notImpl "")

/-- `if len(join_sequence) == 3 and join_sequence[0].predictor_info is not None: swap [0] and [1]` -/
def swapModelFirst : List Item → List Item
  | [.op i (.predictor ts ps), b, c] => [b, .op i (.predictor ts ps), c]
  | s => s

/-- state of one `PlanJoinTablesQuery` instance plus the shared plan -/
structure St where
  plan : List Step
  /-- `step_stack` as the `step_num`s of the stacked steps, head = `step_stack[-1]` -/
  stack : List SNum
  /-- `self.partition`: position (= `step_num`, the step was fresh when `plan.add_step` numbered it)
  of the open `MapReduceStep` -/
  partition : Option Nat
  /-- `tables_fetch_step`: table index ↦ `step_num` of its fetch step -/
  fetched : List (Nat × SNum)

def modifyAt (f : Step → Step) : List Step → Nat → List Step
  | [], _ => []
  | s :: ss, 0 => f s :: ss
  | s :: ss, n + 1 => s :: modifyAt f ss n

/-- `self.planner.plan.add_step(step)` for a freshly constructed step -/
def planAdd (st : St) (kind : Kind) (refs : List SNum) : St × SNum :=
  ({ st with plan := addStep st.plan ⟨kind, none, refs, []⟩ }, .top st.plan.length)

/-- `add_step_to_partition`:
```
step.step_num = f'{self.partition.step_num}_{len(self.partition.step)}'
self.partition.step.append(step)
``` -/
def addToPartition (st : St) (p : Nat) (kind : Kind) (refs : List SNum) : St × SNum :=
  let n := match st.plan[p]? with
    | some mr => mr.subs.length
    | none => 0
  ({ st with plan := modifyAt (fun m => { m with subs := m.subs ++ [⟨kind, some (.sub p n), refs⟩] }) st.plan p },
   .sub p n)

/-- `close_partition`: `if self.partition: (if step_stack: step_stack[-1] = self.partition); self.partition = None` -/
def closePartition (st : St) : St :=
  match st.partition with
  | none => st
  | some p =>
    { st with
      stack := (match st.stack with | [] => [] | _ :: r => .top p :: r),
      partition := none }

def partitionable : Kind → Bool
  | .join => true
  | .apply => true
  | _ => false

/-- `add_plan_step(step, partition_size)`.
`fixed = false` is the code BEFORE commit faf0f40 (kept for the witnesses): a non-partitionable step arriving while a
partition is open falls through to `plan.add_step` *without* `close_partition` (the `else: self.close_partition()`
belonged to the outer `if self.partition:` and therefore only ran when no partition was open).
`fixed = true` is the code as it is now (plan_join.py `add_plan_step`: "next step can't be partitioned.
self.close_partition()"), formerly the proposed repair `fixes/C09_1.diff`.  [review: doc-comment corrected, it
still called `fixed = false` "the pinned code"]
`dataframe` is `step.dataframe` (used for `MapReduceStep.values` when a partition is created). -/
def addPlanStep (fixed : Bool) (st : St) (kind : Kind) (refs : List SNum) (dataframe : SNum)
    (psize : Bool) : St × SNum :=
  match st.partition with
  | some p =>
    if partitionable kind then addToPartition st p kind refs
    else planAdd (if fixed then closePartition st else st) kind refs
  | none =>
    if psize then
      let st1 := (planAdd st .mapreduce [dataframe]).1
      addToPartition { st1 with partition := some st.plan.length } st.plan.length kind refs
    else planAdd (closePartition st) kind refs

def lookupFetched (t : Nat) : List (Nat × SNum) → Option SNum
  | [] => none
  | (i, r) :: rest => if i == t then some r else lookupFetched t rest

/-- the loop at the end of `get_filters_from_join_conditions`: one `SubSelectStep(select distinct col,
fetch_step.result)` per data condition whose other table has already been fetched -/
def addFilterSteps (fixed : Bool) : List Nat → St → List SNum → St × List SNum
  | [], st, acc => (st, acc)
  | t2 :: rest, st, acc =>
    match lookupFetched t2 st.fetched with
    | none => addFilterSteps fixed rest st acc
    | some r =>
      let (st', n) := addPlanStep fixed st .subselect [r] r false
      addFilterSteps fixed rest st' (acc ++ [n])

def processTable (fixed : Bool) (idx : Nat) (cte : Bool) (dataConds : List Nat) (pre : List SNum) (st : St) : St :=
  let (st1, ps) := addFilterSteps fixed dataConds st []
  let (st2, n) := addPlanStep fixed st1 (if cte then .subselect else .fetch) (pre ++ ps) (.top 0) false
  { st2 with fetched := (idx, n) :: st2.fetched, stack := n :: st2.stack }

def processSubselect (fixed : Bool) (aliased : Bool) (sub : Planner) (st : St) : Except Err St :=
  -- step = self.planner.plan_select(item.sub_select)   (before the alias check)
  match sub st.plan with
  | .error e => .error e
  | .ok (plan1, r) =>
    if aliased then
      let (st2, n) := addPlanStep fixed { st with plan := plan1 } .subselect [r] (.top 0) false
      .ok { st2 with stack := n :: st2.stack }
    else .error (.planning "Subselect in join have to be aliased")

def processPredictor (fixed : Bool) (ts psize : Bool) (st : St) : Except Err St :=
  match st.stack with
  | [] => .error (.notImpl "Predictor can't be first element of join syntax")
  | d :: _ =>
    if ts then .error (.notImpl "TS predictor is not supported here yet")
    else
      let (st1, n) := addPlanStep fixed st .apply [d] d psize
      .ok { st1 with stack := n :: st1.stack }

def processJoin (fixed : Bool) (st : St) : Except Err St :=
  match st.stack with
  | r :: l :: rest =>
    let (st1, n) := addPlanStep fixed { st with stack := rest } .join [l, r] (.top 0) false
    .ok { st1 with stack := n :: st1.stack }
  | _ => .error (.internal "IndexError: pop from empty list")

def stepItem (fixed : Bool) (st : St) : Item → Except Err St
  | .op idx (.table cte dc pre) => .ok (processTable fixed idx cte dc pre st)
  | .op _ (.subselect al f) => processSubselect fixed al f st
  | .op _ (.predictor ts ps) => processPredictor fixed ts ps st
  | .jn => processJoin fixed st

def run (fixed : Bool) : List Item → St → Except Err St
  | [], st => .ok st
  | it :: rest, st =>
    match stepItem fixed st it with
    | .error e => .error e
    | .ok st' => run fixed rest st'

/-- `plan_join_tables` from `get_join_sequence` on: returns the plan and the `step_num` of the step it
returns (`self.step_stack.pop()` after the final `close_partition`) -/
def planJoinTables (fixed : Bool) (t : JT) (plan : List Step) : Except Err (List Step × SNum) :=
  match getJoinSequence t 0 with
  | .error e => .error e
  | .ok (s, _) =>
    match run fixed (swapModelFirst s) ⟨plan, [], none, []⟩ with
    | .error e => .error e
    | .ok st =>
      match (closePartition st).stack with
      | x :: _ => .ok ((closePartition st).plan, x)
      | [] => .error (.internal "IndexError: pop from empty list")

/-- `PlanJoinTablesQuery.plan`: the join sequence, then — when any clause is present or the targets are not
`*` (`wrap`) — `QueryStep(query2, from_table=join_step.result)`; `params` = the `Parameter(Result)`s of nested
selects that are still in `query2` -/
def planJoin (fixed : Bool) (t : JT) (wrap : Bool) (params : List SNum) : Planner := fun plan =>
  match planJoinTables fixed t plan with
  | .error e => .error e
  | .ok (plan1, j) =>
    if wrap then .ok (addStep plan1 ⟨.query, none, j :: params, []⟩, .top plan1.length)
    else .ok (plan1, j)

end MindsVerif.Plan
