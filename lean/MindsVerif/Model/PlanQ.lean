import MindsVerif.Model.Plan
/-
M8 (bookkeeping part, continued) — the planners around the join planner, as functions on the plan model:
`plan_select` dispatch, `plan_union`, `plan_cte`, nested selects replaced by `Parameter(Result)`
(`get_nested_selects_plan_fnc`), `plan_integration_select`, `plan_api_db_select`,
`plan_integration_select_with_functions`, `plan_select_from_predictor` + `plan_project`,
`plan_nested_select` (`plan_mdb_nested_select`), native query / data in FROM, `plan_sub_select`,
`PlanJoin.plan` dispatch (whole query to one integration | time-series planner | `PlanJoinTablesQuery`),
`PlanJoinTSPredictorQuery.plan`, and `from_query` with the DML planners.

Which branch a query takes (catalog look-ups, `get_query_info`, clause presence) is *not* modelled: it is
the constructor of the skeleton (`Sel`, `Stmt`).  What is modelled is which steps each branch adds, what they
reference, and what it returns.  Core Lean only.
-/
namespace MindsVerif.Plan

/-! ### step classes that only these planners create (numbers = `planwalk.OTHER` indexes) -/
def Kind.applyRow : Kind := .other 0
def Kind.applyTS : Kind := .other 1
def Kind.createTable : Kind := .other 2
def Kind.dataStep : Kind := .other 3
def Kind.deleteStep : Kind := .other 4
def Kind.getPredictorColumns : Kind := .other 6
def Kind.insertToTable : Kind := .other 9
def Kind.limitOffset : Kind := .other 10
def Kind.multipleSteps : Kind := .other 11
def Kind.project : Kind := .other 13
def Kind.saveToTable : Kind := .other 14
def Kind.unionStep : Kind := .other 15
def Kind.updateToTable : Kind := .other 16

/-! ### combinators -/

/-- `self.plan.add_step(<a freshly constructed step>)`, returning that step -/
def pStep (kind : Kind) (refs : List SNum) (subs : List Sub := []) : Planner :=
  fun plan => .ok (addStep plan ⟨kind, none, refs, subs⟩, .top plan.length)

def pFail (e : Err) : Planner := fun _ => .error e

/-- `x = <planner call>` followed by code that may use `x.result` -/
def pLet (c : Planner) (body : SNum → Planner) : Planner :=
  fun plan =>
    match c plan with
    | .error e => .error e
    | .ok (plan', x) => body x plan'

/-- `self.plan.steps[-1]` used as a value (its `.result` raises `PlanningException` when unnumbered) -/
def lastNum (plan : List Step) : Except Err SNum :=
  match plan.getLast? with
  | none => .error (.internal "IndexError: list index out of range")
  | some s =>
    match s.num with
    | none => .error (.planning "Can't reference a step with no assigned step number")
    | some n => .ok n

/-! ### the planners -/

/-- `plan_sub_select(query, prev_step)`: a `SubSelectStep` on `prev_step.result` when any clause is present or
the targets are not `*` (`wrap`), else `prev_step` itself; `extra` = `Parameter(Result)`s left in the query -/
def planSubSelect (wrap : Bool) (extra : List SNum) (prev : SNum) : Planner :=
  fun plan => if wrap then pStep .subselect (prev :: extra) [] plan else .ok (plan, prev)

/-- `plan_project(query, dataframe)`: `SELECT *` returns `self.plan.steps[-1]`, else a `ProjectStep` -/
def planProject (star : Bool) (extra : List SNum) (dataframe : SNum) : Planner :=
  fun plan =>
    if star then
      match lastNum plan with
      | .ok n => .ok (plan, n)
      | .error e => .error e
    else pStep Kind.project (dataframe :: extra) [] plan

/-- `plan_integration_select`: one `FetchDataframeStep`, or for a CTE name `SubSelectStep(select, cte_result)` -/
def planIntegrationSelect (cte : Bool) (refs : List SNum) : Planner :=
  pStep (if cte then .subselect else .fetch) refs

/-- `plan_api_db_select` -/
def planApiDbSelect (refs : List SNum) (wrap : Bool) (extra : List SNum) : Planner :=
  pLet (planIntegrationSelect false refs) (planSubSelect wrap extra)

/-- `plan_integration_select_with_functions` -/
def planWithFunctions (refs : List SNum) (wrap : Bool) (extra : List SNum) : Planner :=
  pLet (planIntegrationSelect false refs) (planSubSelect wrap extra)

/-- `plan_select_from_predictor`: `GetPredictorColumns` (the `WHERE 1 = 0` form) or `ApplyPredictorRowStep`
(whose `row_dict` may hold `Result`s of nested selects), then `plan_project` -/
def planSelectFromPredictor (columnsOnly : Bool) (rowRefs : List SNum) (star : Bool) (extra : List SNum) : Planner :=
  pLet (if columnsOnly then pStep Kind.getPredictorColumns [] else pStep Kind.applyRow rowRefs)
    (planProject star extra)

/-- `plan_nested_select` → `plan_mdb_nested_select`: plans the FROM-select, then takes `self.plan.steps[-1]`
(not the returned step) as input of `plan_sub_select` -/
def planNestedSelect (inner : Planner) (wrap : Bool) : Planner :=
  fun plan =>
    match inner plan with
    | .error e => .error e
    | .ok (plan1, _) =>
      match lastNum plan1 with
      | .error e => .error e
      | .ok last => planSubSelect wrap [] last plan1

/-- `FROM <integration> (<raw query>)`: `FetchDataframeStep(raw_query=…)`, then `plan_sub_select` -/
def planNative (wrap : Bool) (extra : List SNum) : Planner :=
  pLet (pStep .fetch []) (planSubSelect wrap extra)

/-- `FROM <Data>`: `DataStep`, then `plan_sub_select(add_absent_cols=True)` -/
def planData (wrap : Bool) (extra : List SNum) : Planner :=
  pLet (pStep Kind.dataStep []) (planSubSelect wrap extra)

/-- `plan_union` (UNION / INTERSECT / EXCEPT) -/
def planUnion (l r : Planner) : Planner :=
  pLet l (fun a => pLet r (fun b => pStep Kind.unionStep [a, b]))

/-- `PlanJoinTSPredictorQuery.plan` after its checks.  `grouped` = the model has `group_by_columns`;
`two` = the time filter needs two integration selects (`MultipleSteps`); `cte` / `refs` = the data table is a
CTE name (sub-steps are then `SubSelectStep`s on the CTE result); `limit` = `LimitOffsetStep` after the join -/
def planTS (grouped two cte limit star : Bool) (refs : List SNum) : Planner :=
  let k : Kind := if cte then .subselect else .fetch
  let one : Sub := ⟨k, none, refs⟩
  let part : List Sub := if two then [⟨Kind.multipleSteps, none, []⟩, one, one] else [one]
  let data : Planner :=
    if grouped then
      -- plan_fetch_timeseries_partitions, then MapReduceStep(values=partitions.result, step=select_partition_step)
      pLet (planIntegrationSelect cte refs) (fun p => pStep .mapreduce [p] part)
    else if two then pStep Kind.multipleSteps [] [one, one]
    else pStep k refs
  pLet data (fun d =>
    pLet (pStep Kind.applyTS [d]) (fun p =>
      pLet (pStep .join [p, d]) (fun j =>
        if limit then pLet (pStep Kind.limitOffset [j]) (planProject star [])
        else planProject star [] j)))

/-! ### the skeleton language -/

/-- SELECT-like queries (and, below `joinTables`, the nodes of a FROM join tree).
`uses` lists are indexes into the environment of results bound by enclosing `bind`s (0 = innermost). -/
inductive Sel where
  | union (l r : Sel)
  /-- `plan_cte` entry, or a nested select of targets / WHERE that is planned and replaced by
  `Parameter(Result)`: plan `c`, bind its result, continue with `rest` -/
  | bind (c : Sel) (rest : Sel)
  /-- the planner raises `PlanningException` (`false`) / `NotImplementedError` (`true`) here -/
  | fail (notImpl : Bool)
  /-- the whole query goes to one integration (`check_single_integration`): one `FetchDataframeStep` -/
  | whole
  | table (cte : Bool) (uses : List Nat)
  | apiDb (uses : List Nat) (wrap : Bool) (uses2 : List Nat)
  | withFunctions (uses : List Nat) (wrap : Bool) (uses2 : List Nat)
  | predictor (columnsOnly : Bool) (uses : List Nat) (star : Bool) (uses2 : List Nat)
  | fromSelect (inner : Sel) (wrap : Bool)
  | native (wrap : Bool) (uses2 : List Nat)
  | data (wrap : Bool) (uses2 : List Nat)
  | ts (grouped two cte limit star : Bool) (uses : List Nat)
  | joinTables (tree : Sel) (wrap : Bool) (uses : List Nat)
  /-- a final DML step (`InsertToTable`, `SaveToTable`, `UpdateToTable`, `DeleteStep`) using bound results -/
  | dml (kind : Nat) (uses : List Nat)
  -- nodes of a join tree
  | jTable (cte : Bool) (dataConds : List Nat) (uses : List Nat)
  | jModel (ts psize : Bool)
  | jSub (aliased : Bool) (s : Sel)
  | jJoin (l r : Sel)
  deriving Repr

def refsOf (env : List SNum) (uses : List Nat) : List SNum := uses.filterMap (fun i => env[i]?)

/-- meaning of a skeleton: as a planner call (`plan_select`), and as a node of a join tree
(`get_join_sequence` raises `NotImplementedError` for what is not a table / join) -/
def den (fixed : Bool) : Sel → List SNum → Planner × JT
  | .union l r, env => (planUnion (den fixed l env).1 (den fixed r env).1, .bad)
  | .bind c rest, env => (pLet (den fixed c env).1 (fun x => (den fixed rest (x :: env)).1), .bad)
  | .fail ni, _ => (pFail (if ni then .notImpl "" else .planning ""), .bad)
  | .whole, _ => (pStep .fetch [], .bad)
  | .table cte uses, env => (planIntegrationSelect cte (refsOf env uses), .bad)
  | .apiDb uses wrap uses2, env => (planApiDbSelect (refsOf env uses) wrap (refsOf env uses2), .bad)
  | .withFunctions uses wrap uses2, env => (planWithFunctions (refsOf env uses) wrap (refsOf env uses2), .bad)
  | .predictor co uses star uses2, env =>
    (planSelectFromPredictor co (refsOf env uses) star (refsOf env uses2), .bad)
  | .fromSelect inner wrap, env => (planNestedSelect (den fixed inner env).1 wrap, .bad)
  | .native wrap uses2, env => (planNative wrap (refsOf env uses2), .bad)
  | .data wrap uses2, env => (planData wrap (refsOf env uses2), .bad)
  | .ts g two cte lim star uses, env => (planTS g two cte lim star (refsOf env uses), .bad)
  | .joinTables t wrap uses, env => (planJoin fixed (den fixed t env).2 wrap (refsOf env uses), .bad)
  | .dml k uses, env => (pStep (.other k) (refsOf env uses), .bad)
  | .jTable cte dc uses, env => (pFail (.notImpl ""), .leaf (.table cte dc (refsOf env uses)))
  | .jModel ts ps, _ => (pFail (.notImpl ""), .leaf (.predictor ts ps))
  | .jSub al s, env => (pFail (.notImpl ""), .leaf (.subselect al (den fixed s env).1))
  | .jJoin l r, env => (pFail (.notImpl ""), .join (den fixed l env).2 (den fixed r env).2)

/-- statements as `from_query` dispatches them -/
inductive Stmt where
  /-- SELECT / UNION / …: `check_single_integration` (skeleton `whole`) or `plan_select` -/
  | select (s : Sel)
  /-- CREATE TABLE … (SELECT …): `plan_select`, then `SaveToTable(dataframe=last_step)` -/
  | createTableAs (s : Sel)
  /-- CREATE TABLE with a column list (`true`) / with neither (`false`: `PlanningException`) -/
  | createTable (columns : Bool)
  | insertSelect (s : Sel)
  | insertValues
  | update (s : Option Sel)
  /-- DELETE: nested selects of WHERE as `bind`s around a final `dml` step -/
  | delete (s : Sel)
  /-- `Unsupported query type` -/
  | other
  deriving Repr

/-- `QueryPlanner.from_query` -/
def fromQuery (fixed : Bool) : Stmt → Planner
  | .select s => (den fixed s []).1
  | .createTableAs s => pLet (den fixed s []).1 (fun x => pStep Kind.saveToTable [x])
  | .createTable cols => if cols then pStep Kind.createTable [] else pFail (.planning "Not implemented \"create table\"")
  | .insertSelect s => pLet (den fixed s []).1 (fun x => pStep Kind.insertToTable [x])
  | .insertValues => pStep Kind.insertToTable []
  | .update (some s) => pLet (den fixed s []).1 (fun x => pStep Kind.updateToTable [x])
  | .update none => pStep Kind.updateToTable []
  | .delete s => (den fixed s []).1
  | .other => pFail (.planning "Unsupported query type")

/-! ### `cte_results`: the name → result dictionary of `plan_cte` / `get_integration_select_step`

Names are lists of character codes; the three places that touch the dictionary may each spell the key in
their own way (as written, case-folded, …) — `CteKeys` records which. -/

abbrev Name := List Nat

/-- ASCII `str.lower()` on character codes -/
def lowerName (n : Name) : Name := n.map (fun c => if 65 ≤ c ∧ c ≤ 90 then c + 32 else c)

structure CteKeys where
  /-- `plan_cte`: `self.cte_results[<store name>] = step.result` -/
  store : Name → Name
  /-- `get_integration_select_step`: `<test name> in self.cte_results` -/
  test : Name → Name
  /-- `get_integration_select_step`: `self.cte_results[<fetch name>]` -/
  fetch : Name → Name

/-- the code as it is: every key is the name as written -/
def CteKeys.exact : CteKeys := ⟨id, id, id⟩
/-- a complete case-insensitive variant -/
def CteKeys.folded : CteKeys := ⟨lowerName, lowerName, lowerName⟩

def dictGet (dict : List (Name × SNum)) (key : Name) : Option SNum :=
  match dict with
  | [] => none
  | (k, r) :: rest => if k = key then some r else dictGet rest key

/-- `self.cte_results[name] = result` (a later CTE of the same key replaces the earlier one) -/
def cteStore (k : CteKeys) (dict : List (Name × SNum)) (name : Name) (r : SNum) : List (Name × SNum) :=
  (k.store name, r) :: dict

/-- how `get_integration_select_step` classifies a bare table name of the default namespace:
`some r` = reference to a CTE (→ `SubSelectStep` on `r`), `none` = an ordinary table (→ fetch);
the dictionary access after a successful membership test raises `KeyError` when the two keys differ -/
def cteRef (k : CteKeys) (dict : List (Name × SNum)) (name : Name) : Except Err (Option SNum) :=
  if (dictGet dict (k.test name)).isSome then
    match dictGet dict (k.fetch name) with
    | some r => .ok (some r)
    | none => .error (.internal "KeyError")
  else .ok none

/-- `plan_integration_select` of `SELECT … FROM <bare name>` under a default namespace -/
def planTableRef (k : CteKeys) (dict : List (Name × SNum)) (name : Name) (params : List SNum) : Planner :=
  match cteRef k dict name with
  | .ok (some r) => planIntegrationSelect true (r :: params)
  | .ok none => planIntegrationSelect false params
  | .error e => pFail e

end MindsVerif.Plan
