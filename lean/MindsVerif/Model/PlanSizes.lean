import MindsVerif.Model.PlanQ
/-
M8 (bookkeeping part, per-model USING options) — several models in one join, each with its own
`USING <alias>.partition_size = n`, hence possibly several map-reduce partitions in one plan.

`Model/Plan.lean` abstracts the partition size a model asks for to a Boolean (`Operand.predictor ts psize`).  That is
what `PlanJoinTablesQuery.add_plan_step` does with it today:

```
if self.partition:
    if isinstance(step, (JoinStep, ApplyPredictorStep)):
        self.add_step_to_partition(step); return step          # whatever size the step asks for
    self.close_partition()
elif partition_size is not None:
    self.partition = MapReduceStep(values=step.dataframe, …, partition=partition_size)   # only `is not None` matters
    …
```

This file makes that abstraction a statement: the join planner is re-stated over a *size assignment*
`sizes : Nat → Nat` (operand index ↦ the number written after `partition_size =`) and a `SizePolicy` that says what a
partitionable step asking for a size does while a partition is open:

* `joinOpen`   — the code as it is: it joins the open partition, the sizes are not consulted;
* `splitStale` — HYPOTHETICAL (the seeded change C09_11, not in the library): a size different from the open partition's
  closes it and opens a new `MapReduceStep`, but the `ApplyPredictorStep` was built by `process_predictor` BEFORE the close from
  `step_stack[-1]`, a sub-step of the closed partition, and keeps that `Result('p_i')`;
* `splitFresh` — HYPOTHETICAL: the same feature with the step's dataframe re-read from the stack after the close.

Core Lean only.
-/
namespace MindsVerif.Plan

inductive SizePolicy where
  | joinOpen | splitStale | splitFresh
  deriving DecidableEq, Repr

/-- state of the join planner plus `self.partition.partition` (the size of the open partition; meaningful only while
`st.partition` is `some`) -/
structure StZ where
  st : St
  openSize : Nat

/-- `process_predictor` + `add_plan_step(predictor_step, partition_size)` with the size the model asks for
(`sizes idx` when `psize`, else none) -/
def processPredictorZ (pol : SizePolicy) (sizes : Nat → Nat) (idx : Nat) (ts psize : Bool) (z : StZ) : Except Err StZ :=
  match z.st.stack with
  | [] => .error (.notImpl "Predictor can't be first element of join syntax")
  | d :: _ =>
    if ts then .error (.notImpl "TS predictor is not supported here yet")
    else
      if !psize then
        let (st1, n) := addPlanStep true z.st .apply [d] d false
        .ok ⟨{ st1 with stack := n :: st1.stack }, z.openSize⟩
      else
        match z.st.partition with
        | none =>
          -- no partition open: `partition_size is not None` opens one of this size
          let (st1, n) := addPlanStep true z.st .apply [d] d true
          .ok ⟨{ st1 with stack := n :: st1.stack }, sizes idx⟩
        | some _ =>
          if pol == .joinOpen || sizes idx == z.openSize then
            -- the step joins the open partition
            let (st1, n) := addPlanStep true z.st .apply [d] d true
            .ok ⟨{ st1 with stack := n :: st1.stack }, z.openSize⟩
          else
            -- another size: close the open partition, open a new one for this step
            let st' := closePartition z.st
            let d' := if pol == .splitFresh then (match st'.stack with | x :: _ => x | [] => d) else d
            let (st1, n) := addPlanStep true st' .apply [d'] d' true
            .ok ⟨{ st1 with stack := n :: st1.stack }, sizes idx⟩

def stepItemZ (pol : SizePolicy) (sizes : Nat → Nat) (z : StZ) : Item → Except Err StZ
  | .op idx (.predictor ts ps) => processPredictorZ pol sizes idx ts ps z
  | it =>
    match stepItem true z.st it with
    | .error e => .error e
    | .ok st' => .ok ⟨st', z.openSize⟩

def runZ (pol : SizePolicy) (sizes : Nat → Nat) : List Item → StZ → Except Err StZ
  | [], z => .ok z
  | it :: rest, z =>
    match stepItemZ pol sizes z it with
    | .error e => .error e
    | .ok z' => runZ pol sizes rest z'

/-- `plan_join_tables` with per-model partition sizes -/
def planJoinTablesZ (pol : SizePolicy) (sizes : Nat → Nat) (t : JT) (plan : List Step) : Except Err (List Step × SNum) :=
  match getJoinSequence t 0 with
  | .error e => .error e
  | .ok (s, _) =>
    match runZ pol sizes (swapModelFirst s) ⟨⟨plan, [], none, []⟩, 0⟩ with
    | .error e => .error e
    | .ok z =>
      match (closePartition z.st).stack with
      | x :: _ => .ok ((closePartition z.st).plan, x)
      | [] => .error (.internal "IndexError: pop from empty list")

/-- `PlanJoinTablesQuery.plan` with per-model partition sizes -/
def planJoinZ (pol : SizePolicy) (sizes : Nat → Nat) (t : JT) (wrap : Bool) (params : List SNum) : Planner := fun plan =>
  match planJoinTablesZ pol sizes t plan with
  | .error e => .error e
  | .ok (plan1, j) =>
    if wrap then .ok (addStep plan1 ⟨.query, none, j :: params, []⟩, .top plan1.length)
    else .ok (plan1, j)

/-- a size assignment given as a list (operand index ↦ size; 0 beyond the list) -/
def sizesOf (l : List Nat) : Nat → Nat := fun i => l.getD i 0

end MindsVerif.Plan
