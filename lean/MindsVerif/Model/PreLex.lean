/-!
# What `parse_sql` does to the statement text BEFORE the lexer sees it

`mindsdb_sql.parse_sql(sql, dialect)`:

    sql = re.sub(r'[\s;]+$', '', sql)
    tokens = lexer.tokenize(sql)

i.e. the only pre-lexing step is: cut the trailing run of white space / semicolons.  `\s` of a `str` pattern is
`str.isspace()` (`Py_UNICODE_ISSPACE`): the code points of `isPySpaceN` (compared with the live `re` over all of
Unicode on every run, op `pyspace`).  `[\s;]+$` is greedy and the run reaches the end of the text, so the substitution
is `rstrip` by the predicate `isTrail` (`$` before a final `\n` never comes into play: the `\n` is part of the run).

Nothing else may happen to the text: every code point that is not in the trailing run — in particular every code
point between the delimiters of a literal or quoted identifier, CR / LF / TAB / U+2028 … included — reaches the lexer
unchanged and at its place (`Lemmas/PreLex.lean`).  The model is tied to the code by the `prelex` stream: the text
the real `parse_sql` hands to `lexer.tokenize` is captured and compared with `preLex`.
-/
namespace MindsVerif.PreLex

/-- `str.isspace()` / `\s` on a code point -/
def isPySpaceN (n : Nat) : Bool :=
  (9 ≤ n && n ≤ 13) || (28 ≤ n && n ≤ 32) || n == 0x85 || n == 0xa0 || n == 0x1680 ||
  (0x2000 ≤ n && n ≤ 0x200a) || n == 0x2028 || n == 0x2029 || n == 0x202f || n == 0x205f || n == 0x3000

def isPySpace (c : Char) : Bool := isPySpaceN c.toNat

/-- `[\s;]` -/
def isTrail (c : Char) : Bool := isPySpace c || c == ';'

/-- `re.sub(r'[\s;]+$', '', sql)` -/
def preLex (s : List Char) : List Char := (s.reverse.dropWhile isTrail).reverse

end MindsVerif.PreLex
