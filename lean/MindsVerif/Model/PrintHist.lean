import MindsVerif.Model.LexBq
import MindsVerif.Model.Codec
/-!
# C01 / printing as a function of the tree alone (history independence)

`ASTNode.to_string` of the library is, as transcribed by every printer model of this framework (`LexBq.partsToStr`,
`Codec.constantToString`, `Lex.variableToString`, `Lex.parameterToString`, `OPM.print`, `Sel.clauses`, `printQ`), a
**function of the tree**: it reads no module-level variable that printing or parsing updates, no per-class attribute,
no object identity.  The property C01 quantifies over statements, not over processes, so this is what it needs: were the
printed text to depend on what the process printed before, "the printed form of an accepted statement is accepted again"
would be a statement about a (history, statement) pair.

To be able to SAY that, printers are modelled here with an explicit process state:

* `SPrinter σ Tree Text` — `init : σ` (state of a fresh process), `step : σ → Tree → Text × σ` (print one tree: text + new
  state); `after h t` = the text printed for `t` after the history `h` (trees printed earlier, oldest first); `texts h` =
  the texts of a whole run;
* `pure print` — the printer the library has (state `Unit`): `after h t = print t`;
* `HistIndep P` — `∀ h t, P.after h t = P.after [] t`;
* `memo key f` — the class of the seeded change C01_9: a decision `f a` is remembered in a process-wide table under
  `key a` (first decision wins).  `Lemmas/PrintHist.lean` proves: `memo key f` is history independent **iff** the key
  determines the decision (`∀ a b, key a = key b → f a = f b`); so a table keyed by the part itself is a harmless
  refactoring and a table keyed by `part.upper()` / `lower()` / `casefold()` / a normal form is not, as soon as two parts
  with different decisions share a key (`'straße'.upper() = 'STRASSE'`);
* `identMemo key reserved` — `Identifier.parts_to_str` with the back-quote decision of each part taken through
  `memo key (needsWrap reserved)`, threaded through the parts of one identifier and through the history;
* `atomPrint` — the live atom printers as ONE pure function of an atom (identifier / string constant / variable /
  parameter), run by `Driver/PrintHist.lean` over whole histories and compared with the real classes printing the same
  history in a fresh process (stream `print-history`).
-/
namespace MindsVerif.PrintHist
open MindsVerif.Py

/-- a printer with process state -/
structure SPrinter (σ Tree Text : Type) where
  init : σ
  step : σ → Tree → Text × σ

namespace SPrinter
variable {σ Tree Text : Type}

/-- the state after printing the trees of `h` (oldest first) starting in `s` -/
def run (P : SPrinter σ Tree Text) : σ → List Tree → σ
  | s, [] => s
  | s, t :: h => P.run (P.step s t).2 h

/-- the text printed for `t` in a process that printed `h` before -/
def after (P : SPrinter σ Tree Text) (h : List Tree) (t : Tree) : Text := (P.step (P.run P.init h) t).1

/-- the texts of a whole run from state `s` -/
def textsFrom (P : SPrinter σ Tree Text) : σ → List Tree → List Text
  | _, [] => []
  | s, t :: h => (P.step s t).1 :: P.textsFrom (P.step s t).2 h

def texts (P : SPrinter σ Tree Text) (h : List Tree) : List Text := P.textsFrom P.init h

end SPrinter

/-- a printer without state: what every printer model of the framework is -/
def pure {Tree Text : Type} (print : Tree → Text) : SPrinter Unit Tree Text := ⟨(), fun _ t => (print t, ())⟩

/-- the printed text never depends on what was printed before -/
def HistIndep {σ Tree Text : Type} (P : SPrinter σ Tree Text) : Prop := ∀ h t, P.after h t = P.after [] t

/-! ## remembered decisions -/

def lookup {K V : Type} [DecidableEq K] (k : K) : List (K × V) → Option V
  | [] => none
  | (k', v) :: r => if k = k' then some v else lookup k r

/-- `v = table.get(key(a)); if v is None: v = f(a); table[key(a)] = v; return v` -/
def memoStep {A K V : Type} [DecidableEq K] (key : A → K) (f : A → V) (c : List (K × V)) (a : A) : V × List (K × V) :=
  match lookup (key a) c with
  | some v => (v, c)
  | none => (f a, (key a, f a) :: c)

def memo {A K V : Type} [DecidableEq K] (key : A → K) (f : A → V) : SPrinter (List (K × V)) A V :=
  ⟨[], memoStep key f⟩

/-! ## `Identifier.parts_to_str` with a remembered back-quote decision -/

/-- the decision of `parts_to_str` for one part: not a plain word, or a reserved word -/
def needsWrap (reserved : List (List Char)) (p : List Char) : Bool :=
  !Lex.noWrap p || reserved.contains (upper p)

def quote (p : List Char) : List Char := '`' :: replace ['`'] ['`', '`'] p ++ ['`']

def partText (b : Bool) (p : List Char) : List Char := if b then quote p else p

/-- the parts of one identifier, the decision of every part taken through the table `c` -/
def identStep {K : Type} [DecidableEq K] (key : List Char → K) (reserved : List (List Char)) :
    List (K × Bool) → List (List Char) → List (List Char) × List (K × Bool)
  | c, [] => ([], c)
  | c, p :: ps =>
    let r := memoStep key (needsWrap reserved) c p
    let rest := identStep key reserved r.2 ps
    (partText r.1 p :: rest.1, rest.2)

def identMemo {K : Type} [DecidableEq K] (key : List Char → K) (reserved : List (List Char)) :
    SPrinter (List (K × Bool)) (List (List Char)) (List Char) :=
  ⟨[], fun c ps => let r := identStep key reserved c ps; (join ['.'] r.1, r.2)⟩

/-- Python's `str.upper()` on the code points used by the witnesses: `ß → SS`, `ﬁ → FI`, `ﬂ → FL`, `ſ → S`, `ı → I`
(one code point can become two, and different words get the same image); ASCII letters as `Char.toUpper` -/
def pyUpperChar (c : Char) : List Char :=
  if c = 'ß' then ['S', 'S'] else if c = 'ﬁ' then ['F', 'I'] else if c = 'ﬂ' then ['F', 'L']
  else if c = 'ſ' then ['S'] else if c = 'ı' then ['I'] else [c.toUpper]

def pyUpper (s : List Char) : List Char := s.flatMap pyUpperChar

/-! ## the live atom printers as one function of the atom -/

inductive Atom where
  | ident (parts : List (List Char))
  | str (value : List Char)
  | var (system : Bool) (name : List Char)
  | param (value : List Char)
  deriving DecidableEq, Repr

/-- `Identifier.to_string` (string parts), `Constant.to_string` (string value), `Variable.to_string`,
`Parameter.to_string` -/
def atomPrint (reserved : List (List Char)) : Atom → List Char
  | .ident ps => LexBq.partsToStr reserved ps
  | .str v => Codec.constantToString v
  | .var sys v => Lex.variableToString sys v
  | .param v => Lex.parameterToString v

/-- the live printer of atoms: no state -/
def atomPrinter (reserved : List (List Char)) : SPrinter Unit Atom (List Char) := pure (atomPrint reserved)

end MindsVerif.PrintHist
