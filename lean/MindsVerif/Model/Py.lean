/-!
# M1 `Py` — the Python `str` primitives the literal / identifier code uses, over `List Char`

* `replace pat rep s`  = `s.replace(pat, rep)` for a non-empty `pat`: non-overlapping occurrences, found
  left to right; after a match scanning resumes *behind* the match (the replacement is never rescanned).
  (`pat = []` is not used by the library; here it is the identity.)
* `lstrip cs`, `rstrip cs`, `strip cs` = `s.lstrip(cs)` … : remove every leading / trailing character
  that is a member of `cs`.
* `upper` on ASCII letters (the library calls `part.upper()` only to look a word up in the reserved set;
  every reserved word is ASCII — for non-ASCII characters `Char.toUpper` is the identity, Python's is
  not, which can matter only for words containing non-ASCII letters; those are always back-quoted
  because `no_wrap_identifier_regex` is ASCII-only).
-/
namespace MindsVerif.Py

/-- worker of `replace`: `skip` = number of characters still covered by the last match -/
def replaceGo (pat rep : List Char) : Nat → List Char → List Char
  | _, [] => []
  | k + 1, _ :: t => replaceGo pat rep k t
  | 0, c :: t =>
    if pat.isPrefixOf (c :: t) then rep ++ replaceGo pat rep (pat.length - 1) t
    else c :: replaceGo pat rep 0 t

def replace (pat rep s : List Char) : List Char :=
  if pat = [] then s else replaceGo pat rep 0 s

def lstrip (cs s : List Char) : List Char := s.dropWhile (fun c => cs.contains c)
def rstrip (cs s : List Char) : List Char := (lstrip cs s.reverse).reverse
def strip (cs s : List Char) : List Char := rstrip cs (lstrip cs s)

def upper (s : List Char) : List Char := s.map Char.toUpper

/-- `sep.join(parts)` -/
def join (sep : List Char) : List (List Char) → List Char
  | [] => []
  | [p] => p
  | p :: q :: r => p ++ sep ++ join sep (q :: r)

end MindsVerif.Py
