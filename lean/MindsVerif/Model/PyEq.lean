/-!
# The hand-written `__eq__` / `__hash__` methods, transcribed literally

* `mindsdb_sql/parser/ast/base.py:ASTNode.__eq__`
* `mindsdb_sql/planner/steps.py:PlanStep.__eq__`
* `mindsdb_sql/planner/query_plan.py:QueryPlan.__eq__`
* `mindsdb_sql/planner/step_result.py:Result.__eq__ / __hash__`
* `mindsdb_sql/parser/ast/create.py:TableColumn.__eq__`

The value a Python method call produces, as far as `==`, `!=` and truthiness are concerned, is one of
`True`, `False`, `None` (falling off the end of the function) or an exception.
-/
namespace MindsVerif.PyEq

inductive R where
  | true | false | none | raises
  deriving DecidableEq, Repr, Inhabited

/-- `bool(r)` as used by `if a == b` / `assert a == b` -/
def R.truthy : R → Bool
  | .true => Bool.true
  | _ => Bool.false

/-- `a != b` when only `__eq__` is defined: `not a.__eq__(b)` -/
def R.ne : R → R
  | .true => .false
  | .false => .true
  | .none => .true
  | .raises => .raises

/-! ## `ASTNode.__eq__`

    if isinstance(other, ASTNode):
        return self.to_tree() == other.to_tree() and to_single_line(str(self)) == to_single_line(str(other))
    else:
        return False

`tree x` is `x.to_tree()`, `line x` is `to_single_line(str(x))` (any deterministic functions). -/
section ast
variable {N T S : Type} [DecidableEq T] [DecidableEq S]

def astEq (isNode : N → Bool) (tree : N → T) (line : N → S) (a b : N) : Bool :=
  if isNode b then decide (tree a = tree b) && decide (line a = line b) else false
end ast

/-! ## `PlanStep.__eq__`

    if type(self) != type(other): return False
    for k in vars(self):
        if k == 'result_data': continue
        if getattr(self, k) != getattr(other, k): return False     -- AttributeError when `other` has no `k`
    return True

`veq x y` is `x == y` on attribute values (`x != y` is its negation: none of the value classes defines `__ne__`). -/
structure Step (V : Type) where
  ty : String
  attrs : List (String × V)

section step
variable {V : Type}

def stepLoop (veq : V → V → Bool) (other : List (String × V)) : List (String × V) → R
  | [] => .true
  | (k, x) :: rest =>
    if k = "result_data" then stepLoop veq other rest
    else
      match other.lookup k with
      | none => .raises
      | some y => if veq x y then stepLoop veq other rest else .false

def stepEq (veq : V → V → Bool) (a b : Step V) : R :=
  if a.ty ≠ b.ty then .false else stepLoop veq b.attrs a.attrs

/-- attribute names other than `result_data` -/
def Step.keys (a : Step V) : List String := (a.attrs.map (·.1)).filter (· ≠ "result_data")
end step

/-! ## `QueryPlan.__eq__`

    if type(self) != type(other): return False
    if len(self.steps) != len(other.steps): return False
    for step, other_step in zip(self.steps, other.steps):
        if step != other_step: return False
    # (the `return True` is commented out in the source)

`fixed := true` is the proposed repair (final `return True`). -/
section plan
variable {St : Type}

def planLoop (seq : St → St → R) (fixed : Bool) : List St → List St → R
  | a :: as, b :: bs =>
    match (seq a b).ne with
    | .raises => .raises
    | .true => .false
    | _ => planLoop seq fixed as bs
  | _, _ => if fixed then .true else .none

def planEq (seq : St → St → R) (fixed : Bool) (sameType : Bool) (a b : List St) : R :=
  if !sameType then .false
  else if a.length ≠ b.length then .false
  else planLoop seq fixed a b
end plan

/-! ## `Result.__eq__` / `Result.__hash__`

    def __hash__(self): return 'Result' + self.step_num.__hash__()
    def __eq__(self, other):
        if isinstance(other, Result): return self.step_num == other.step_num
        return False
-/
inductive PyV where
  | str (s : String)
  | int (i : Int)
  deriving DecidableEq, Repr

/-- Python `+` on `str` / `int` operands -/
def pyAdd : PyV → PyV → Except String PyV
  | .str a, .str b => .ok (.str (a ++ b))
  | .int a, .int b => .ok (.int (a + b))
  | _, _ => .error "TypeError"

/-- `hash(x)`: call `__hash__`, which must return an `int` -/
def pyHashOf (r : Except String PyV) : Except String Int :=
  match r with
  | .ok (.int i) => .ok i
  | _ => .error "TypeError"

/-- `Result.__hash__` as written; `intHash` is `int.__hash__` -/
def resultHashRaw (intHash : Int → Int) (stepNum : Int) : Except String PyV :=
  pyAdd (.str "Result") (.int (intHash stepNum))

def resultHash (intHash : Int → Int) (stepNum : Int) : Except String Int :=
  pyHashOf (resultHashRaw intHash stepNum)

/-- proposed repair: `return hash(('Result', self.step_num))` (`tupHash` is the tuple hash) -/
def resultHashFixed (tupHash : String → Int → Int) (stepNum : Int) : Except String Int :=
  .ok (tupHash "Result" stepNum)

def resultEq (a b : Int) : Bool := decide (a = b)

/-! ## `TableColumn.__eq__` : compares `name, is_primary_key, type, default, length` — not `nullable` -/
structure TableColumn (A : Type) where
  name : A
  type : A
  is_primary_key : A
  default : A
  length : A
  nullable : A

def colEq {A : Type} [DecidableEq A] (a b : TableColumn A) : Bool :=
  decide (a.name = b.name) && decide (a.is_primary_key = b.is_primary_key) && decide (a.type = b.type) &&
    decide (a.default = b.default) && decide (a.length = b.length)

/-! ## list-lifted equality

`list.__eq__` (used by `PlanStep.__eq__` for list-valued attributes such as `MultipleSteps.steps`,
`ProjectStep.columns`, and — via the explicit length check and the `zip` loop — by `QueryPlan.__eq__`):
lists are equal iff they have the same length and are element-wise equal. -/
def eqList {α : Type} (eq : α → α → Bool) : List α → List α → Bool
  | [], [] => true
  | a :: as, b :: bs => eq a b && eqList eq as bs
  | _, _ => false

/-- the `zip`-only comparison (`all(s == t for s, t in zip(a, b))`, no length check): what a
"simplified" `QueryPlan.__eq__` computes — not an equality (see `C18_witness_8`) -/
def eqZip {α : Type} (eq : α → α → Bool) : List α → List α → Bool
  | a :: as, b :: bs => eq a b && eqZip eq as bs
  | _, _ => true

/-! ## step numbers, `Result` equality and the eq / hash contract

A step number is an `int` at top level and a string such as `'2_0'` inside partitions.  Python's `==` between
an `int` and a `str` is `False`.  `Result.__eq__` compares the step numbers, `Result.__hash__` hashes the key
`('Result', step_num)`; the contract `a == b ⇒ hash(a) == hash(b)` holds because equal objects have the same key. -/
inductive StepNum where
  | int (i : Int)
  | str (s : String)
  deriving DecidableEq, Repr

/-- `x == y` on step numbers -/
def snEq (a b : StepNum) : Bool := decide (a = b)

/-- `Result.__eq__` between two `Result`s -/
def resultEqSN (a b : StepNum) : Bool := snEq a b

/-- the tuple `Result.__hash__` hashes -/
def resultHashKey (a : StepNum) : String × StepNum := ("Result", a)

/-- `hash(Result(sn))` for an abstract tuple hash -/
def resultHashSN (tupHash : String × StepNum → Int) (a : StepNum) : Int := tupHash (resultHashKey a)

/-- `Result.ref_name`: `f'result_{step_num}'` -/
def refName : StepNum → String
  | .int i => "result_" ++ toString i
  | .str s => "result_" ++ s

/-- a seeded variant: `__eq__` compares `ref_name` while `__hash__` still hashes the raw step number -/
def resultEqByRefName (a b : StepNum) : Bool := refName a == refName b

end MindsVerif.PyEq
