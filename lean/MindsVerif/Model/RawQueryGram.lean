import MindsVerif.Model.LR
/-!
C16, grammar side (Φ16): decidable conditions on the *exported* production list of the mindsdb
grammar that make the `RQ` model (Model/TokStr.lean) the right one:
* every production of `raw_query` has one of the four modelled shapes,
* the single-token productions are exactly `all_tokens_list`, and
  `all_tokens_list = MindsDBLexer.tokens \ {LPAREN, RPAREN}`, and the lexer's tokens are the grammar's terminals,
* everywhere else `raw_query` occurs only as `LPAREN raw_query RPAREN`.
Core Lean only.
-/
namespace MindsVerif.RawQueryGram
open MindsVerif.LR

/-- canonical numbers (from the translator) of the symbols Φ16 talks about -/
structure Ids where
  rq : Nat
  lparen : Nat
  rparen : Nat
  nTerms : Nat
  /-- `MindsDBLexer.tokens`, sorted terminal numbers -/
  lexTokens : List Nat
  /-- `all_tokens_list` of the parser module, sorted terminal numbers -/
  allTokens : List Nat

def Ids.rqc (I : Ids) : Nat := 2 * I.rq + 1
def Ids.lpc (I : Ids) : Nat := 2 * I.lparen
def Ids.rpc (I : Ids) : Nat := 2 * I.rparen

/-- the three structural shapes, or one terminal out of `all_tokens_list` -/
def rqShape (I : Ids) (rhs : List Nat) : Bool :=
  rhs == [I.lpc, I.rqc, I.rpc] || rhs == [I.rqc, I.lpc, I.rpc] || rhs == [I.rqc, I.rqc] ||
  (match rhs with
   | [x] => x % 2 == 0 && I.allTokens.contains (x / 2)
   | _ => false)

/-- every `raw_query` in `rhs` stands directly between `LPAREN` and `RPAREN` -/
def guarded (I : Ids) : Nat → List Nat → Bool
  | _, [] => true
  | prev, x :: rest =>
    (if x == I.rqc then prev == I.lpc && rest.head? == some I.rpc else true) && guarded I x rest

def prodOK (I : Ids) (p : Prod) : Bool :=
  if p.lhs == I.rq then rqShape I p.rhs else guarded I 1 p.rhs

/-- terminals `t` with a production `raw_query : t` -/
def singles (I : Ids) : Trie Prod → List Nat
  | .nil => []
  | .node v l r =>
    (match v with
     | some p => (match p.rhs with
        | [x] => if p.lhs == I.rq && x % 2 == 0 then [x / 2] else []
        | _ => [])
     | none => []) ++ singles I l ++ singles I r

def hasProd (I : Ids) (rhs : List Nat) : Trie Prod → Bool
  | .nil => false
  | .node v l r =>
    (match v with
     | some p => p.lhs == I.rq && p.rhs == rhs
     | none => false) || hasProd I rhs l || hasProd I rhs r

/-- Φ16 -/
def phi16 (I : Ids) (prods : Trie Prod) : Bool :=
  -- all_tokens_list = tokens \ {LPAREN, RPAREN}
  (I.allTokens == I.lexTokens.filter (fun t => t != I.lparen && t != I.rparen))
  -- the lexer's token set is the grammar's terminal set (terminals 0,1 are $end, error)
  && (I.lexTokens == List.range' 2 (I.nTerms - 2))
  && I.lexTokens.contains I.lparen && I.lexTokens.contains I.rparen
  -- production shapes / contexts
  && Trie.allIdx (fun _ p => prodOK I p) 1 0 prods
  -- each token of all_tokens_list has its production; the three structural rules exist
  && I.allTokens.all (fun t => (singles I prods).contains t)
  && hasProd I [I.lpc, I.rqc, I.rpc] prods && hasProd I [I.rqc, I.lpc, I.rpc] prods
  && hasProd I [I.rqc, I.rqc] prods

end MindsVerif.RawQueryGram
