/-!
# `Re` — a backtracking regular-expression matcher with the priority semantics of Python's `re`

The lexers of mindsdb_sql are SLY lexers: one *master regex* `(?P<T1>r1)|(?P<T2>r2)|…` tried at the current
index with `match(text, index)`; the first alternative (in rule order) that matches wins, inside an
alternative the match is the first one in backtracking priority order (greedy repeats take as many
iterations as possible first, lazy ones as few as possible, alternations left to right, look-aheads are
atomic tests).  `tools/extract/x_relex.py` parses the live master regex with Python's own `re._parser` and
transcribes the parse tree into the `Re` terms of `Gen/LexRe_<dialect>.lean`; every one-character atom
(`LITERAL`, `NOT_LITERAL`, `IN`, `ANY`, categories — under the lexer's flags, i.e. IGNORECASE + UNICODE) is
emitted as the exact set of code points the real engine accepts for it (tabulated by running the compiled
atom over all 0x110000 code points), so no case-folding or Unicode category logic is modelled by hand.

Text is a list of code points (`Nat`): Python strings may hold lone surrogates, Lean `Char` may not.

`m r w p k`: match `r` at position `p` and continue with `k`; `none` = this branch fails, the caller
backtracks.  The continuation style makes the evaluation order *be* the backtracking order of `sre`.
-/
namespace MindsVerif.Re

/-- a set of code points as inclusive ranges in ascending order -/
abbrev CSet := List (Nat × Nat)

/-- membership in an ascending range list (stops at the first range that starts behind `c`) -/
def CSet.mem : CSet → Nat → Bool
  | [], _ => false
  | (lo, hi) :: r, c => if Nat.blt c lo then false else if Nat.ble c hi then true else CSet.mem r c

inductive Re where
  | eps
  /-- one code point out of the set -/
  | set (s : CSet)
  | seq (a b : Re)
  /-- ordered alternation: `a` first -/
  | alt (a b : Re)
  /-- `r*` (greedy) / `r*?` (lazy) -/
  | star (greedy : Bool) (r : Re)
  /-- `(?=r)` / `(?!r)` -/
  | look (neg : Bool) (r : Re)
  /-- `\b` / `\B` -/
  | bound (neg : Bool)
  /-- a construct the translator does not transcribe; never matches; `supported` = false -/
  | fail
  deriving Repr, Inhabited

/-- a position in a text: the consumed part (reversed) and the rest -/
structure Pos where
  pre : List Nat
  suf : List Nat
  deriving Repr, DecidableEq, Inhabited

def Pos.index (p : Pos) : Nat := p.pre.length

/-- advance over `l`: `q` is reached from `p` by consuming `l` -/
def Pos.adv (p : Pos) (l : List Nat) : Pos := ⟨l.reverse ++ p.pre, p.suf.drop l.length⟩

def isWordAt (w : CSet) : Option Nat → Bool
  | none => false
  | some c => w.mem c

/-- the loop of a repeat.  `fuel` bounds the number of iterations; an iteration that consumes nothing
is cut (as `sre` does); with `fuel = rest length + 1` the bound is never reached. -/
def starLoop (step : Pos → (Pos → Option Pos) → Option Pos) (greedy : Bool) :
    Nat → Pos → (Pos → Option Pos) → Option Pos
  | 0, p, k => k p
  | n + 1, p, k =>
    if greedy then
      (step p fun q => if q.suf.length < p.suf.length then starLoop step greedy n q k else none).orElse
        fun _ => k p
    else
      (k p).orElse fun _ =>
        step p fun q => if q.suf.length < p.suf.length then starLoop step greedy n q k else none

/-- match `r` at `p`, then `k`.  `w` = the code points that count as word characters for `\b`. -/
def m (w : CSet) : Re → Pos → (Pos → Option Pos) → Option Pos
  | .eps, p, k => k p
  | .set s, p, k =>
    match p.suf with
    | c :: t => if s.mem c then k ⟨c :: p.pre, t⟩ else none
    | [] => none
  | .seq a b, p, k => m w a p fun q => m w b q k
  | .alt a b, p, k => (m w a p k).orElse fun _ => m w b p k
  | .star g r, p, k => starLoop (fun q k' => m w r q k') g (p.suf.length + 1) p k
  | .look neg r, p, k =>
    match m w r p some with
    | some _ => if neg then none else k p
    | none => if neg then k p else none
  | .bound neg, p, k =>
    if (isWordAt w p.pre.head? != isWordAt w p.suf.head?) != neg then k p else none
  | .fail, _, _ => none

/-- `pattern.match(text, index)`: the end position of the first match in priority order -/
def matchAt (w : CSet) (r : Re) (p : Pos) : Option Pos := m w r p some

/-- conservative "cannot match the empty string" -/
def nonNull : Re → Bool
  | .eps => false
  | .set _ => true
  | .seq a b => nonNull a || nonNull b
  | .alt a b => nonNull a && nonNull b
  | .star _ _ => false
  | .look _ _ => false
  | .bound _ => false
  | .fail => true

/-- no untranscribed construct, and every repeat body consumes (so the cut in `starLoop` is never taken) -/
def supported : Re → Bool
  | .eps => true
  | .set _ => true
  | .seq a b => supported a && supported b
  | .alt a b => supported a && supported b
  | .star _ r => supported r && nonNull r
  | .look _ r => supported r
  | .bound _ => true
  | .fail => false

end MindsVerif.Re
