/-!
M9 / M6 (fragment) — what the text produced by `SqlalchemyRender` denotes, as an AST → AST normal
form (`saNorm…`), and a small SQL semantics to state "means the same".  Core Lean only.

Transcribed from `mindsdb_sql/render/sqlalchemy_render.py`:
* `to_expression` / `UnaryOperation` : `NOT x` is `x.__invert__()`; SQLAlchemy flips a comparison
  that has a `negate` operator instead of printing `NOT (...)`.  The flip table is generated
  (`Gen/SaPrec.lean`, last component) and pinned in `Props/C06` (generated through the renderer; since 834b7e0 `is ↔ is not`).
* `prepare_select` : join method chosen from the `join_type` *string* (since 1eac524):
  `LEFT [OUTER] JOIN` → `outerjoin`, `FULL [OUTER] JOIN` → `full=True`, `JOIN` / `INNER JOIN` /
  `CROSS JOIN` → `join`, anything else → `NotImplementedError` (then `get_string` falls back to the
  AST printer, i.e. the original statement);
  missing condition → `text('1=1')`; implicit joins are added to the FROM list.
* ORDER BY: `direction.upper()` ∈ {DESC, ASC}, `nulls.upper()` ∈ {NULLS FIRST, NULLS LAST}; window
  functions test only `direction == 'DESC'` and drop `nulls`.
* constants and functions are labelled; explicit aliases are kept (d11bd89).
-/
namespace MindsVerif.Render

/-! ### values, three-valued logic -/

/-- NULL or an integer; truth values are integers as in sqlite -/
abbrev Val := Option Int

def ofBool (b : Bool) : Val := some (if b then 1 else 0)

def ofTruth : Option Bool → Val
  | none => none
  | some b => ofBool b

def truth : Val → Option Bool
  | none => none
  | some n => some (n != 0)

def not3 (v : Val) : Val :=
  match truth v with
  | none => none
  | some b => ofBool (!b)

/-- Kleene conjunction / disjunction on truth values -/
def and3T : Option Bool → Option Bool → Option Bool
  | some false, _ => some false
  | _, some false => some false
  | some true, some true => some true
  | _, _ => none

def or3T : Option Bool → Option Bool → Option Bool
  | some true, _ => some true
  | _, some true => some true
  | some false, some false => some false
  | _, _ => none

def and3 (a b : Val) : Val := ofTruth (and3T (truth a) (truth b))

def or3 (a b : Val) : Val := ofTruth (or3T (truth a) (truth b))

def lift2 (f : Int → Int → Bool) : Val → Val → Val
  | some x, some y => ofBool (f x y)
  | _, _ => none

def liftI (f : Int → Int → Int) : Val → Val → Val
  | some x, some y => some (f x y)
  | _, _ => none

/-! ### expressions -/

inductive Cmp where
  | eq | ne | lt | le | gt | ge | is | isNot | like | notLike
  deriving DecidableEq, Repr

inductive Ar where
  | add | sub | mul | mod
  /-- `/` as written (0c1e34d): integer division, truncating; NULL on division by zero (sqlite) -/
  | div
  deriving DecidableEq, Repr

inductive Expr where
  | null
  | int (n : Int)
  | col (i : Nat)
  | cmp (o : Cmp) (l r : Expr)
  | ar (o : Ar) (l r : Expr)
  | and (l r : Expr)
  | or (l r : Expr)
  | not (e : Expr)
  | neg (e : Expr)
  /-- `x [NOT] BETWEEN lo AND hi` -/
  | btw (negated : Bool) (x lo hi : Expr)
  /-- `CASE WHEN c THEN r ELSE e END`; a list of rules is the nested chain, no ELSE is `ELSE NULL` -/
  | ite (c r e : Expr)
  /-- `CAST(e AS <integer type>)` (values of the fragment are integers or NULL) -/
  | cast (e : Expr)
  /-- `x [NOT] IN (items)`; `items` is a `tnil` / `tcons` chain (the AST's `Tuple` node) -/
  | inl (negated : Bool) (x items : Expr)
  | tnil
  | tcons (e rest : Expr)
  /-- `x [NOT] IN (<sub-query q>)`: `q` is the slot of an uncorrelated sub-query (see `Nested`) -/
  | inq (negated : Bool) (x : Expr) (q : Nat)
  /-- `EXISTS (<sub-query q>)` -/
  | exists_ (q : Nat)
  /-- `(<sub-query q>)` used as a value: first column of its first row, NULL when it is empty -/
  | scalar (q : Nat)
  deriving DecidableEq, Repr

/-- what is fixed outside the statement: the engine's LIKE and its default NULL position -/
structure Env where
  like : Val → Val → Option Bool
  /-- NULLs sort as the smallest value when no NULLS FIRST/LAST is given (sqlite, MySQL) -/
  nullsLow : Bool
  /-- results of the (uncorrelated) sub-queries of the statement, by slot -/
  sub : Nat → List (List Val)

def evalCmp (env : Env) : Cmp → Val → Val → Val
  | .eq => lift2 (fun x y => x == y)
  | .ne => lift2 (fun x y => x != y)
  | .lt => lift2 (fun x y => decide (x < y))
  | .le => lift2 (fun x y => decide (x ≤ y))
  | .gt => lift2 (fun x y => decide (y < x))
  | .ge => lift2 (fun x y => decide (y ≤ x))
  | .is => fun a b => ofBool (a == b)
  | .isNot => fun a b => ofBool (a != b)
  | .like => fun a b => ofTruth (env.like a b)
  | .notLike => fun a b => not3 (ofTruth (env.like a b))

def evalAr : Ar → Val → Val → Val
  | .add => liftI (· + ·)
  | .sub => liftI (· - ·)
  | .mul => liftI (· * ·)
  | .mod => fun a b => match a, b with
    | some x, some y => if y = 0 then none else some (Int.tmod x y)
    | _, _ => none
  | .div => fun a b => match a, b with
    | some x, some y => if y = 0 then none else some (Int.tdiv x y)
    | _, _ => none

/-- SQL `x IN (v₁, …, vₙ)`: the three-valued disjunction of `x = vᵢ` -/
def inSem (x : Val) (vs : List Val) : Val :=
  vs.foldr (fun v acc => or3 (lift2 (fun a b => a == b) x v) acc) (ofBool false)

mutual
def eval (env : Env) (ρ : Nat → Val) : Expr → Val
  | .null => none
  | .int n => some n
  | .col i => ρ i
  | .cmp o l r => evalCmp env o (eval env ρ l) (eval env ρ r)
  | .ar o l r => evalAr o (eval env ρ l) (eval env ρ r)
  | .and l r => and3 (eval env ρ l) (eval env ρ r)
  | .or l r => or3 (eval env ρ l) (eval env ρ r)
  | .not e => not3 (eval env ρ e)
  | .neg e => (eval env ρ e).map (fun n => -n)
  | .btw n x lo hi =>
    let v := and3 (evalCmp env .ge (eval env ρ x) (eval env ρ lo))
                  (evalCmp env .le (eval env ρ x) (eval env ρ hi))
    if n then not3 v else v
  | .ite c r e => if truth (eval env ρ c) == some true then eval env ρ r else eval env ρ e
  | .cast e => eval env ρ e
  | .inl n x items =>
    if n then not3 (inSem (eval env ρ x) (evalItems env ρ items))
    else inSem (eval env ρ x) (evalItems env ρ items)
  | .tnil => none
  | .tcons e _ => eval env ρ e
  | .inq n x q =>
    if n then not3 (inSem (eval env ρ x) ((env.sub q).map fun r => (r.head?).join))
    else inSem (eval env ρ x) ((env.sub q).map fun r => (r.head?).join)
  | .exists_ q => ofBool (!(env.sub q).isEmpty)
  | .scalar q => ((env.sub q).head?.bind fun r => r.head?).join
/-- values of the items of a tuple chain -/
def evalItems (env : Env) (ρ : Nat → Val) : Expr → List Val
  | .tcons e rest => eval env ρ e :: evalItems env ρ rest
  | _ => []
end

/-- the operator `BinaryExpression._negate` switches to (generated table, pinned in Props) -/
def Cmp.saNeg : Cmp → Cmp
  | .eq => .ne | .ne => .eq
  | .lt => .ge | .ge => .lt
  | .gt => .le | .le => .gt
  | .like => .notLike | .notLike => .like
  | .is => .isNot | .isNot => .is

/-- `ColumnElement.__invert__` applied to the element built for an (already normalised) tree -/
def saInvert : Expr → Expr
  | .cmp o l r => .cmp o.saNeg l r
  | .btw n x lo hi => .btw (!n) x lo hi
  | .inl n x items => .inl (!n) x items
  | .inq n x q => .inq (!n) x q
  | e => .not e

/-- the expression the rendered text denotes -/
def saNormE : Expr → Expr
  | .null => .null
  | .int n => .int n
  | .col i => .col i
  | .cmp o l r => .cmp o (saNormE l) (saNormE r)
  | .ar o l r => .ar o (saNormE l) (saNormE r)
  | .and l r => .and (saNormE l) (saNormE r)
  | .or l r => .or (saNormE l) (saNormE r)
  | .not e => saInvert (saNormE e)
  | .neg e => .neg (saNormE e)
  | .btw n x lo hi => .btw n (saNormE x) (saNormE lo) (saNormE hi)
  | .ite c r e => .ite (saNormE c) (saNormE r) (saNormE e)
  | .cast e => .cast (saNormE e)
  | .inl n x items => .inl n (saNormE x) (saNormE items)
  | .tnil => .tnil
  | .tcons e rest => .tcons (saNormE e) (saNormE rest)
  | .inq n x q => .inq n (saNormE x) q
  | .exists_ q => .exists_ q
  | .scalar q => .scalar q

/-- SQLAlchemy's static type of the element (only its being Boolean matters): columns and NULL are
`NullType`, integer literals `Integer`; an arithmetic result takes the left operand's type, except
that `NullType` defers to the right operand for the commutative `+` and `*` -/
inductive Ty where
  | bool | int | null
  /-- not modelled (CASE takes the type of one of its branches) -/
  | unk
  deriving DecidableEq, Repr

def tyOf : Expr → Ty
  | .null => .null
  | .int _ => .int
  | .col _ => .null
  | .cmp _ _ _ => .bool
  | .and _ _ => .bool
  | .or _ _ => .bool
  | .not _ => .bool
  | .btw _ _ _ _ => .bool
  | .neg e => tyOf e
  | .ite _ _ _ => .null        -- `prepare_case` gives the CASE no type (e7eccad)
  | .cast _ => .int
  | .inl _ _ _ => .bool
  | .tnil => .unk
  | .tcons _ _ => .unk
  | .inq _ _ _ => .bool
  | .exists_ _ => .bool
  | .scalar _ => .unk
  | .ar .add _ _ => .null      -- built as `BinaryExpression(l, r, add)` without a type (374b822)
  | .ar .div _ _ => .null      -- custom operator `/`
  | .ar o l r =>
    match tyOf l with
    | .bool => .bool
    | .int => .int
    | .unk => .unk
    | .null => if o = .mul then tyOf r else .null

/-- arithmetic whose SQLAlchemy type is Boolean (or a CASE, whose type is not modelled): `NOT` of it is printed by the sqlite compiler as
`(x) = 0` (`AsBoolean … is_false`), which this model does not reproduce (same value; the execution
probe covers it) -/
def typedArith : Expr → Bool
  | .ar _ _ _ => false         -- since 1f57814 `NOT (x)` is printed for these, as the model does
  | .neg e => tyOf e == .bool || tyOf e == .unk
  | _ => false

/-- the modelled fragment: no `NOT` stands directly over a unary minus that SQLAlchemy types as
Boolean (printed `NOT (-x)` instead of `NOT -x`; same value).  Only the printed *text* is concerned:
the normal form preserves values everywhere. -/
def okE : Expr → Bool
  | .null => true
  | .int _ => true
  | .col _ => true
  | .cmp _ l r => okE l && okE r
  | .ar _ l r => okE l && okE r
  | .and l r => okE l && okE r
  | .or l r => okE l && okE r
  | .not e => okE e && !typedArith (saNormE e)
  | .neg e => okE e
  | .btw _ x lo hi => okE x && okE lo && okE hi
  | .ite c r e => okE c && okE r && okE e
  | .cast e => okE e
  | .inl _ x items => okE x && okE items
  | .tnil => true
  | .tcons e rest => okE e && okE rest
  | .inq _ x _ => okE x
  | .exists_ _ => true
  | .scalar _ => true

/-! ### relations and joins -/

abbrev Row := List Val
abbrev Table := List Row

def rowEnv (r : Row) : Nat → Val := fun i => (r[i]?).join

def holds (env : Env) (c : Expr) (r : Row) : Bool := truth (eval env (rowEnv r) c) == some true

def nulls (n : Nat) : Row := List.replicate n none

def matchesOf (env : Env) (c : Expr) (l : Row) (R : Table) : Table :=
  R.filter fun r => holds env c (l ++ r)

def innerJoin (env : Env) (c : Expr) (L R : Table) : Table :=
  L.flatMap fun l => (matchesOf env c l R).map (l ++ ·)

def leftJoin (env : Env) (c : Expr) (wR : Nat) (L R : Table) : Table :=
  L.flatMap fun l =>
    if (matchesOf env c l R).isEmpty then [l ++ nulls wR] else (matchesOf env c l R).map (l ++ ·)

/-- right rows without a partner, padded on the left -/
def unmatchedR (env : Env) (c : Expr) (wL : Nat) (L R : Table) : Table :=
  (R.filter fun r => !(L.any fun l => holds env c (l ++ r))).map (nulls wL ++ ·)

inductive JoinKind where
  | inner | left | right | full
  deriving DecidableEq, Repr

def evalJoin (env : Env) (k : JoinKind) (c : Expr) (wL wR : Nat) (L R : Table) : Table :=
  match k with
  | .inner => innerJoin env c L R
  | .left => leftJoin env c wR L R
  | .right => innerJoin env c L R ++ unmatchedR env c wL L R
  | .full => leftJoin env c wR L R ++ unmatchedR env c wL L R

def cross (L R : Table) : Table := L.flatMap fun l => R.map (l ++ ·)

/-- what a `join_type` string means in SQL (`none`: not an SQL join operator) -/
def sqlKind (jt : String) : Option JoinKind :=
  if jt = "JOIN" ∨ jt = "INNER JOIN" ∨ jt = "CROSS JOIN" then some .inner
  else if jt = "LEFT JOIN" ∨ jt = "LEFT OUTER JOIN" then some .left
  else if jt = "RIGHT JOIN" ∨ jt = "RIGHT OUTER JOIN" then some .right
  else if jt = "FULL JOIN" ∨ jt = "FULL OUTER JOIN" then some .full
  else none

/-- `prepare_select`: `outerjoin` for `LEFT [OUTER] JOIN`, `full=True` for `FULL [OUTER] JOIN`, a plain
`join` for `JOIN` / `INNER JOIN` / `CROSS JOIN`; `none` = `NotImplementedError` -/
def saKind (jt : String) : Option JoinKind :=
  if jt = "LEFT JOIN" ∨ jt = "LEFT OUTER JOIN" then some .left
  else if jt = "FULL JOIN" ∨ jt = "FULL OUTER JOIN" then some .full
  else if jt = "JOIN" ∨ jt = "INNER JOIN" ∨ jt = "CROSS JOIN" then some .inner
  else none

/-- the keyword SQLAlchemy prints -/
def kindText : JoinKind → String
  | .inner => "JOIN"
  | .left => "LEFT OUTER JOIN"
  | .right => "RIGHT OUTER JOIN"
  | .full => "FULL OUTER JOIN"

/-- `sa.text('1=1')` -/
def oneEqOne : Expr := .cmp .eq (.int 1) (.int 1)

/-- left-deep join chains (`prepare_join` rejects a `Join` on the right) over base tables -/
inductive From where
  | table (t : Nat)
  /-- `(<sub-query q>) AS s` with `w` columns, as the first source of the chain -/
  | sub (q w : Nat)
  | join (l : From) (jt : String) (implicit : Bool) (t : Nat) (on : Option Expr)
  deriving Repr

structure Db where
  width : Nat → Nat
  rows : Nat → Table

def fromWidth (db : Db) : From → Nat
  | .table t => db.width t
  | .sub _ w => w
  | .join l _ _ t _ => fromWidth db l + db.width t

/-- SQL meaning of a FROM clause; a `join_type` without SQL meaning denotes nothing -/
def evalFrom (env : Env) (db : Db) : From → Table
  | .table t => db.rows t
  | .sub q _ => env.sub q
  | .join l jt imp t on =>
    if imp then cross (evalFrom env db l) (db.rows t)
    else match sqlKind jt with
      | none => []
      | some k =>
        match on with
        | none => if k = .inner then cross (evalFrom env db l) (db.rows t) else
            evalJoin env k oneEqOne (fromWidth db l) (db.width t) (evalFrom env db l) (db.rows t)
        | some c => evalJoin env k c (fromWidth db l) (db.width t) (evalFrom env db l) (db.rows t)

/-- the FROM clause of the rendered text (when no join raises) -/
def saFrom : From → From
  | .table t => .table t
  | .sub q w => .sub q w
  | .join l jt imp t on =>
    if imp then .join (saFrom l) jt true t none
    else match saKind jt with
      | none => .join (saFrom l) jt false t on      -- not reached: the renderer raises
      | some k => .join (saFrom l) (kindText k) false t
          (some (match on with | none => oneEqOne | some c => saNormE c))

/-- some explicit join has a `join_type` for which the renderer raises `NotImplementedError` -/
def raisesFrom : From → Bool
  | .table _ => false
  | .sub _ _ => false
  | .join l jt imp _ _ => raisesFrom l || (!imp && (saKind jt).isNone)

/-- the ON conditions are in the modelled fragment -/
def okFrom : From → Bool
  | .table _ => true
  | .sub _ _ => true
  | .join l _ imp _ on =>
    okFrom l && (imp || match on with | none => true | some c => okE c)

/-! ### ORDER BY -/

structure OrderKey where
  e : Expr
  /-- `OrderBy.direction.upper()` -/
  dir : String
  /-- `OrderBy.nulls.upper()` -/
  nulls : String
  deriving Repr

def keyDesc (k : OrderKey) : Bool := k.dir = "DESC"

def keyNullsFirst (env : Env) (k : OrderKey) : Bool :=
  if k.nulls = "NULLS FIRST" then true else if k.nulls = "NULLS LAST" then false
  else (if keyDesc k then !env.nullsLow else env.nullsLow)

/-- `prepare_select`: `.desc()` / `.asc()` / nothing, `nullsfirst` / `nullslast` / nothing -/
def saKey (k : OrderKey) : OrderKey :=
  { e := saNormE k.e
    dir := if k.dir = "DESC" then "DESC" else if k.dir = "ASC" then "ASC" else ""
    nulls := if k.nulls = "NULLS FIRST" then "NULLS FIRST"
             else if k.nulls = "NULLS LAST" then "NULLS LAST" else "" }

/-- `to_expression(WindowFunction)`: since c20d32e exactly as `prepare_select` -/
def saWinKey (k : OrderKey) : OrderKey := saKey k

def valLe (desc nullsFirst : Bool) : Val → Val → Bool
  | none, none => true
  | none, some _ => nullsFirst
  | some _, none => !nullsFirst
  | some x, some y => if desc then decide (y ≤ x) else decide (x ≤ y)

def keyLe (env : Env) (k : OrderKey) (a b : Val) : Bool :=
  valLe (keyDesc k) (keyNullsFirst env k) a b

/-- lexicographic comparison of two rows under the key list -/
def rowsLe (env : Env) : List OrderKey → Row → Row → Bool
  | [], _, _ => true
  | k :: ks, r1, r2 =>
    let a := eval env (rowEnv r1) k.e
    let b := eval env (rowEnv r2) k.e
    if keyLe env k a b && keyLe env k b a then rowsLe env ks r1 r2 else keyLe env k a b

def insertBy {α : Type} (le : α → α → Bool) (x : α) : List α → List α
  | [] => [x]
  | y :: ys => if le x y then x :: y :: ys else y :: insertBy le x ys

/-- stable insertion sort -/
def sortBy {α : Type} (le : α → α → Bool) : List α → List α
  | [] => []
  | x :: xs => insertBy le x (sortBy le xs)

/-! ### SELECT and set operations -/

structure Target where
  e : Expr
  alias : Option String
  deriving Repr

/-- `to_expression`: a `Constant` without alias is labelled with `str(value)`; explicit aliases are kept -/
def saTarget (t : Target) : Target :=
  { e := saNormE t.e
    alias := match t.e, t.alias with
      | .int n, none => some (toString n)
      | .null, none => some "NULL"
      | _, a => a }

structure Select where
  distinct : Bool
  targets : List Target
  from_ : From
  where_ : Option Expr
  order : List OrderKey
  limit : Option Nat
  offset : Option Nat
  deriving Repr

inductive SetOp where
  | union | intersect | except
  deriving DecidableEq, Repr

/-! aggregation: `SELECT <targets> FROM … WHERE … GROUP BY <keys> HAVING <aggregate> <cmp> <n>` -/

inductive AggFn where
  | count | sum | min | max
  deriving DecidableEq, Repr

/-- a target of a grouped select: an expression over the group's first row (group keys), an
aggregate over the group, or `count(*)` -/
inductive TExpr where
  | plain (e : Expr)
  | agg (f : AggFn) (e : Expr)
  | countStar
  deriving Repr

structure GSelect where
  targets : List TExpr
  from_ : From
  where_ : Option Expr
  groupBy : List Expr
  having : Option (TExpr × Cmp × Int)
  /-- ORDER BY over the group's representative row (group keys), then LIMIT / OFFSET -/
  order : List OrderKey
  limit : Option Nat
  offset : Option Nat
  deriving Repr

inductive Query where
  | select (s : Select)
  | gselect (g : GSelect)
  | setop (op : SetOp) (unique : Bool) (l r : Query)
  deriving Repr

def dedup : Table → Table
  | [] => []
  | x :: xs => x :: (dedup xs).filter (· != x)

def bagInter : Table → Table → Table
  | [], _ => []
  | x :: xs, r => if r.contains x then x :: bagInter xs (r.erase x) else bagInter xs r

def bagDiff : Table → Table → Table
  | [], _ => []
  | x :: xs, r => if r.contains x then bagDiff xs (r.erase x) else x :: bagDiff xs r

def whereRows (env : Env) : Option Expr → Table → Table
  | none, rows => rows
  | some c, rows => rows.filter (holds env c)

def evalSelect (env : Env) (db : Db) (s : Select) : Table :=
  let rows := evalFrom env db s.from_
  let rows := whereRows env s.where_ rows
  let rows := sortBy (rowsLe env s.order) rows
  let out := rows.map fun r => s.targets.map fun t => eval env (rowEnv r) t.e
  let out := if s.distinct then dedup out else out
  let out := match s.offset with | none => out | some n => out.drop n
  match s.limit with | none => out | some n => out.take n

/-- SQL aggregates ignore NULLs; `sum` / `min` / `max` of no value is NULL -/
def aggVal : AggFn → List Val → Val
  | .count, vs => some ((vs.filterMap id).length : Nat)
  | .sum, vs => match vs.filterMap id with | [] => none | x :: xs => some (xs.foldl (· + ·) x)
  | .min, vs => match vs.filterMap id with | [] => none | x :: xs => some (xs.foldl min x)
  | .max, vs => match vs.filterMap id with | [] => none | x :: xs => some (xs.foldl max x)

def evalT (env : Env) (g : Table) : TExpr → Val
  | .plain e => match g with | [] => none | r :: _ => eval env (rowEnv r) e
  | .agg f e => aggVal f (g.map fun r => eval env (rowEnv r) e)
  | .countStar => some (g.length : Nat)

def groupKey (env : Env) (ks : List Expr) (r : Row) : Row := ks.map fun k => eval env (rowEnv r) k

/-- groups in order of first occurrence; without GROUP BY the whole input is one group (even if empty) -/
def groupsOf (env : Env) (ks : List Expr) (rows : Table) : List Table :=
  if ks.isEmpty then [rows]
  else (dedup (rows.map (groupKey env ks))).map fun k => rows.filter fun r => groupKey env ks r == k

def havingOk (env : Env) (g : Table) (h : TExpr × Cmp × Int) : Bool :=
  truth (evalCmp env h.2.1 (evalT env g h.1) (some h.2.2)) == some true

def havingGroups (env : Env) : Option (TExpr × Cmp × Int) → List Table → List Table
  | none, gs => gs
  | some h, gs => gs.filter fun grp => havingOk env grp h

def evalGSelect (env : Env) (db : Db) (g : GSelect) : Table :=
  let rows := whereRows env g.where_ (evalFrom env db g.from_)
  let gs := groupsOf env g.groupBy rows
  let gs := havingGroups env g.having gs
  let gs := sortBy (fun g1 g2 => rowsLe env g.order (g1.headD []) (g2.headD [])) gs
  let out := gs.map fun grp => g.targets.map (evalT env grp)
  let out := match g.offset with | none => out | some n => out.drop n
  match g.limit with | none => out | some n => out.take n

def evalQuery (env : Env) (db : Db) : Query → Table
  | .select s => evalSelect env db s
  | .gselect g => evalGSelect env db g
  | .setop op u l r =>
    let a := evalQuery env db l
    let b := evalQuery env db r
    match op, u with
    | .union, true => dedup (a ++ b)
    | .union, false => a ++ b
    | .intersect, true => dedup (a.filter b.contains)
    | .intersect, false => bagInter a b
    | .except, true => dedup (a.filter fun x => !b.contains x)
    | .except, false => bagDiff a b

/-- the SELECT the rendered text denotes (`prepare_select`) -/
def saSelect (s : Select) : Select :=
  { distinct := s.distinct
    targets := s.targets.map saTarget
    from_ := saFrom s.from_
    where_ := s.where_.map saNormE
    order := s.order.map saKey
    limit := s.limit
    offset := s.offset }

def saT : TExpr → TExpr
  | .plain e => .plain (saNormE e)
  | .agg f e => .agg f (saNormE e)
  | .countStar => .countStar

/-- `prepare_select` on a grouped select (functions are labelled with their name: no effect on rows) -/
def saGSelect (g : GSelect) : GSelect :=
  { targets := g.targets.map saT
    from_ := saFrom g.from_
    where_ := g.where_.map saNormE
    groupBy := g.groupBy.map saNormE
    having := g.having.map fun h => (saT h.1, h.2.1, h.2.2)
    order := g.order.map saKey
    limit := g.limit
    offset := g.offset }

/-- `prepare_union`: `sa.union` / `union_all` / `intersect` / … chosen from the class and `unique` -/
def saNorm : Query → Query
  | .select s => .select (saSelect s)
  | .gselect g => .gselect (saGSelect g)
  | .setop op u l r => .setop op u (saNorm l) (saNorm r)

def raisesQ : Query → Bool
  | .select s => raisesFrom s.from_
  | .gselect g => raisesFrom g.from_
  | .setop _ _ l r => raisesQ l || raisesQ r

/-- `get_string(ast)` with the default `with_failback=True`: when the renderer raises
`NotImplementedError` the statement is printed by the AST printer, i.e. it is the original -/
def saRender (q : Query) : Query := if raisesQ q then q else saNorm q

def okSelect (s : Select) : Bool :=
  okFrom s.from_ && s.targets.all (fun t => okE t.e) &&
    (match s.where_ with | none => true | some c => okE c) && s.order.all (fun k => okE k.e)

def okT : TExpr → Bool
  | .plain e => okE e
  | .agg _ e => okE e
  | .countStar => true

def okGSelect (g : GSelect) : Bool :=
  okFrom g.from_ && g.targets.all okT && (match g.where_ with | none => true | some c => okE c) &&
    g.groupBy.all okE && (match g.having with | none => true | some h => okT h.1) &&
    g.order.all (fun k => okE k.e)

def okQ : Query → Bool
  | .select s => okSelect s
  | .gselect g => okGSelect g
  | .setop _ _ l r => okQ l && okQ r

/-! ### statements with (uncorrelated) sub-queries

A statement is its main query plus the list of its sub-queries in dependency order: sub-query `i`
may refer (`Expr.inq/exists_/scalar`, `From.sub`) to the slots `< i`, the main query to all of them.
`to_expression(Select)` / `to_table(Select)` render a sub-query with `prepare_select`, i.e. with the
same normal form. -/

structure Nested where
  subs : List Query
  main : Query
  deriving Repr

def withSub (env : Env) (f : Nat → Table) : Env := { env with sub := f }

/-- evaluate the sub-queries in order, slot `i` seeing the slots before it -/
def evalSubs (env : Env) (db : Db) : List Query → Nat → (Nat → Table) → (Nat → Table)
  | [], _, acc => acc
  | q :: qs, i, acc =>
    evalSubs env db qs (i + 1) (fun j => if j = i then evalQuery (withSub env acc) db q else acc j)

def evalNested (env : Env) (db : Db) (n : Nested) : Table :=
  evalQuery (withSub env (evalSubs env db n.subs 0 (fun _ => []))) db n.main

def raisesN (n : Nested) : Bool := n.subs.any raisesQ || raisesQ n.main

/-- `get_string` on the whole statement (fallback = the original statement) -/
def saRenderN (n : Nested) : Nested :=
  if raisesN n then n else ⟨n.subs.map saNorm, saNorm n.main⟩

def okN (n : Nested) : Bool := n.subs.all okQ && okQ n.main

/-! ### INSERT … VALUES / UPDATE / DELETE -/

inductive Stmt where
  | insert (t : Nat) (cols : List Nat) (rows : List (List Expr))
  | update (t : Nat) (sets : List (Nat × Expr)) (where_ : Option Expr)
  | delete (t : Nat) (where_ : Option Expr)
  deriving Repr

def setCols (env : Env) (sets : List (Nat × Expr)) (old : Row) : Row :=
  sets.foldl (fun r (ce : Nat × Expr) => r.set ce.1 (eval env (rowEnv old) ce.2)) old

def mkRow (env : Env) (w : Nat) (cols : List Nat) (vals : List Expr) : Row :=
  (cols.zip vals).foldl (fun r (ce : Nat × Expr) => r.set ce.1 (eval env (fun _ => none) ce.2)) (nulls w)

/-- new contents of the target table -/
def exec (env : Env) (db : Db) : Stmt → Table
  | .insert t cols rows => db.rows t ++ rows.map (mkRow env (db.width t) cols)
  | .update t sets w =>
    (db.rows t).map fun r =>
      if (match w with | none => true | some c => holds env c r) then setCols env sets r else r
  | .delete t w =>
    match w with
    | none => []
    | some c => (db.rows t).filter fun r => !holds env c r

def saStmt : Stmt → Stmt
  | .insert t cols rows => .insert t cols (rows.map (·.map saNormE))
  | .update t sets w => .update t (sets.map fun ce => (ce.1, saNormE ce.2)) (w.map saNormE)
  | .delete t w => .delete t (w.map saNormE)

def okStmt : Stmt → Bool
  | .insert _ _ rows => rows.all (·.all okE)
  | .update _ sets w => sets.all (fun ce => okE ce.2) && (match w with | none => true | some c => okE c)
  | .delete _ w => match w with | none => true | some c => okE c

/-! ### CREATE TABLE: column constraints

`prepare_create_table`: `primary_key = is_primary_key` (a `serial` column becomes an integer key),
`nullable` is passed to `sa.Column` **only when the column specifies it**; SQLAlchemy then prints
`NOT NULL` iff `nullable is False`, where an unspecified `nullable` defaults to `not primary_key`. -/

structure ColDef where
  pk : Bool
  /-- `TableColumn.nullable`: `NULL` / `NOT NULL` / not specified -/
  nullable : Option Bool
  serial : Bool
  deriving DecidableEq, Repr

/-- what a column declaration says: `NOT NULL` written, member of the primary key -/
structure ColSpec where
  notNull : Bool
  pk : Bool
  deriving DecidableEq, Repr

/-- the declaration in the original text -/
def srcSpec (c : ColDef) : ColSpec := ⟨c.nullable == some false, c.pk || c.serial⟩

/-- the declaration in the rendered text -/
def saSpec (c : ColDef) : ColSpec :=
  let pk := c.pk || c.serial
  ⟨match c.nullable with | some n => !n | none => pk, pk⟩

/-- a key column is NOT NULL in effect (SQL) -/
def ColSpec.rejectsNull (s : ColSpec) : Bool := s.notNull || s.pk

/-- a row may enter a table with the given column declarations and contents: no NULL where one is
rejected, and its key (if any) is new -/
def admits (specs : List ColSpec) (rows : Table) (r : Row) : Bool :=
  ((specs.zip r).all fun sr => !(sr.1.rejectsNull && sr.2.isNone)) &&
    (!(specs.any (·.pk)) ||
      !(rows.any fun r' => ((specs.zip (r.zip r')).all fun x => !x.1.pk || x.2.1 == x.2.2)))

/-- `INSERT OR IGNORE` of a list of rows -/
def insertAll (specs : List ColSpec) : Table → Table → Table
  | rows, [] => rows
  | rows, r :: rs => insertAll specs (if admits specs rows r then rows ++ [r] else rows) rs

end MindsVerif.Render
