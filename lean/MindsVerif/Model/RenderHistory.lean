import MindsVerif.Model.Render
/-!
C06, round 6 — a renderer is an *object* that answers many statements: is its answer a function of the
current statement only?

`Render.saRender` is a function of the query.  The Python object `SqlalchemyRender` is asked again and
again by one handler; whatever it keeps in instance attributes between calls is a hidden second argument
of `get_string`.  This file makes that argument explicit (`Renderer`: state, one call returning an
outcome — rendered text, fail-back text or the exception — and the next state), states what "the answer
depends on the current statement only" means (`after … hist q = answer of a new object`), and models the
mechanism of the round-6 seed: a counter incremented before and decremented after a nested
`prepare_select`, with and without `try/finally`, where the nested rendering may raise.  Core Lean only.

Transcribed from `SqlalchemyRender`: `__init__` sets `dialect` and `types_map`; no method assigns an
instance attribute (`actual`: the state is never changed, the outcome is `saRender q`).
-/
namespace MindsVerif.RenderHistory
open MindsVerif.Render

/-- a renderer object: `call s q` = (what the caller gets — text, fail-back text or exception —, state left behind) -/
structure Renderer (σ Stmt Out : Type) where
  call : σ → Stmt → Out × σ

variable {σ Stmt Out : Type}

/-- state after a history of calls (their outcomes — success, fail-back, exception — are whatever they are) -/
def runAll (R : Renderer σ Stmt Out) : σ → List Stmt → σ
  | s, [] => s
  | s, q :: rest => runAll R (R.call s q).2 rest

/-- the answer to `q` of an object that has answered `hist` before -/
def after (R : Renderer σ Stmt Out) (s0 : σ) (hist : List Stmt) (q : Stmt) : Out :=
  (R.call (runAll R s0 hist) q).1

/-- every call, whatever its outcome, leaves the object as `__init__` made it -/
def Restoring (R : Renderer σ Stmt Out) (s0 : σ) : Prop := ∀ q, (R.call s0 q).2 = s0

/-- `SqlalchemyRender` as it is: no attribute is assigned after `__init__` -/
def actual : Renderer Unit Query Query := ⟨fun s q => (saRender q, s)⟩

/-! ### the seed's mechanism: a depth counter around nested rendering, exception paths -/

/-- a statement as far as derived tables and failures go -/
inductive Job where
  /-- no derived table; `raises`: it holds a construct the SQLAlchemy path cannot express -/
  | plain (raises : Bool)
  /-- `FROM (<inner>) …`; `restRaises`: the part rendered after the derived table raises -/
  | derived (inner : Job) (restRaises : Bool)
  deriving DecidableEq, Repr

/-- `to_table`: `depth += 1; prepare_select(inner); depth -= 1` — `guarded`: with `try/finally`.
Returns (depth left behind, an exception propagates) -/
def runJob (guarded : Bool) : Nat → Job → Nat × Bool
  | d, .plain r => (d, r)
  | d, .derived inner rest =>
    let r := runJob guarded (d + 1) inner
    if r.2 then (if guarded then r.1 - 1 else r.1, true) else (r.1 - 1, rest)

/-- a statement of the counter model: its nesting / failure shape, has a top-level ORDER BY, has LIMIT / OFFSET -/
structure CStmt where
  job : Job
  ordered : Bool
  limited : Bool
  deriving DecidableEq, Repr

/-- what the caller observes: did an exception propagate (fail-back text or raise), is the top-level ORDER BY printed -/
structure COut where
  raised : Bool
  orderPrinted : Bool
  deriving DecidableEq, Repr

/-- the seed: ORDER BY of a select is dropped when `depth > 0` and there is no LIMIT / OFFSET -/
def counterRenderer (guarded : Bool) : Renderer Nat CStmt COut :=
  ⟨fun d q =>
    let r := runJob guarded d q.job
    (⟨r.2, q.ordered && (d == 0 || q.limited)⟩, r.1)⟩

end MindsVerif.RenderHistory
