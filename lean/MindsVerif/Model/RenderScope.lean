/-!
C06, round 5 — FROM lists of nested expression sub-queries and SQLAlchemy's auto-correlation.

In SQL a FROM entry of a sub-query hides an equally named entry of the enclosing query: the FROM list of
every (sub-)select must arrive in the rendered text in full.  SQLAlchemy decides by **object identity**:
when an expression sub-query (EXISTS / IN / scalar) with more than one FROM entry is compiled inside
another select, every entry that *is* (the same Python object as) one of the from-objects of the
immediately enclosing select is left out ("auto-correlation").  Whether the rendered FROM lists are
complete therefore depends on how the renderer allocates `FromClause` objects, not on the statement.

Transcribed from
* `sqlalchemy.sql.selectable.SelectState._get_display_froms` (the `_auto_correlate` branch:
  `implicit_correlate_froms and len(froms) > 1`),
* `sqlalchemy.sql.compiler.SQLCompiler._setup_select_stack` (`asfrom_froms` of the new stack entry is
  `set(_from_objects(*froms))` of the *displayed* froms; `Join._from_objects` = the join and its members),
* `SqlalchemyRender.to_table` / `prepare_select`: `sa.table(…)` (+ `aliased(…)`) is built anew at every
  reference; an explicit join chain is one `Join` object over the referenced tables.
Core Lean only.
-/
namespace MindsVerif.RenderScope

/-- identity of a `FromClause` object -/
inductive ObjId where
  /-- the `n`-th object created while rendering -/
  | fresh (n : Nat)
  /-- an object kept in a cache under (table, alias) -/
  | cached (table : Nat) (alias : Option Nat)
  deriving DecidableEq, Repr

/-- a table reference of the AST: table name and optional alias (names as numbers) -/
structure TRef where
  table : Nat
  alias : Option Nat
  deriving DecidableEq, Repr

/-- one entry of a FROM list in the AST: a table, or a chain of explicit joins over tables -/
inductive FRef where
  | table (t : TRef)
  | join (first : TRef) (more : List TRef)
  deriving DecidableEq, Repr

/-- the object the renderer built for an entry: its identity, its `_from_objects`, and what it prints -/
structure FromObj where
  id : ObjId
  parts : List ObjId
  ref : FRef
  deriving DecidableEq, Repr

/-- `_get_display_froms`, auto-correlation branch -/
def display (implicit : List ObjId) (froms : List FromObj) : List FromObj :=
  if !implicit.isEmpty && froms.length > 1 then froms.filter fun f => !implicit.contains f.id else froms

def fromObjects (fs : List FromObj) : List ObjId := fs.flatMap (·.parts)

/-- FROM lists printed for a chain of nested expression sub-queries, outermost first -/
def displayAll : List ObjId → List (List FromObj) → List (List FromObj)
  | _, [] => []
  | imp, fs :: rest => display imp fs :: displayAll (fromObjects (display imp fs)) rest

/-! ### allocation disciplines -/

/-- `to_table` as it is: every reference is a new object (`n` = number of objects made so far) -/
def freshEntry (n : Nat) : FRef → FromObj × Nat
  | .table t => (⟨.fresh n, [.fresh n], .table t⟩, n + 1)
  | .join a more =>
    (⟨.fresh n, .fresh n :: (List.range (more.length + 1)).map (fun i => .fresh (n + 1 + i)), .join a more⟩,
      n + 1 + (more.length + 1))

def freshLevel : Nat → List FRef → List FromObj × Nat
  | n, [] => ([], n)
  | n, r :: rs =>
    ((freshEntry n r).1 :: (freshLevel (freshEntry n r).2 rs).1, (freshLevel (freshEntry n r).2 rs).2)

def allocFresh : Nat → List (List FRef) → List (List FromObj)
  | _, [] => []
  | n, l :: ls => (freshLevel n l).1 :: allocFresh (freshLevel n l).2 ls

/-- a renderer that keeps aliased table clauses in a cache keyed by (table, alias) (the round-5 seed
C06_9); `cacheAll`: also the un-aliased ones -/
def cachedEntry (cacheAll : Bool) (n : Nat) : FRef → FromObj × Nat
  | .table t =>
    if t.alias.isSome || cacheAll then (⟨.cached t.table t.alias, [.cached t.table t.alias], .table t⟩, n)
    else (⟨.fresh n, [.fresh n], .table t⟩, n + 1)
  | .join a more =>
    let tid := fun (t : TRef) (k : Nat) =>
      if t.alias.isSome || cacheAll then ObjId.cached t.table t.alias else ObjId.fresh k
    (⟨.fresh n, .fresh n :: tid a (n + 1) :: (more.zipIdx.map fun (t, i) => tid t (n + 2 + i)), .join a more⟩,
      n + 2 + more.length)

def cachedLevel (cacheAll : Bool) : Nat → List FRef → List FromObj × Nat
  | n, [] => ([], n)
  | n, r :: rs =>
    ((cachedEntry cacheAll n r).1 :: (cachedLevel cacheAll (cachedEntry cacheAll n r).2 rs).1,
      (cachedLevel cacheAll (cachedEntry cacheAll n r).2 rs).2)

def allocCached (cacheAll : Bool) : Nat → List (List FRef) → List (List FromObj)
  | _, [] => []
  | n, l :: ls => (cachedLevel cacheAll n l).1 :: allocCached cacheAll (cachedLevel cacheAll n l).2 ls

/-- the FROM lists of the rendered text, as AST-level entries -/
def printed (levels : List (List FromObj)) : List (List FRef) := levels.map fun l => l.map (·.ref)

end MindsVerif.RenderScope
