import MindsVerif.Model.Render
/-!
C06, round 5 — set-operation *trees* and the *text* the renderer prints for them.

`Render.saNorm` keeps a set operation as a tree (`.setop op u (saNorm l) (saNorm r)`); that the printed
text is read back by the target with the same operand grouping was part of the trusted "SQL reading".
This file removes that assumption for set operations: the rendered statement is modelled as *text
structure* (`RText`: operand selects, delimited operands, and bare juxtaposition `x OP y` without any
delimiter), the target engine's reading of a bare chain is a function (`readChain`: sqlite groups a
chain left to right with all operators at one level; MySQL / PostgreSQL let INTERSECT bind tighter),
and the renderer's decision per dialect is a function (`render`).  Core Lean only.

Transcribed from `SqlalchemyRender.prepare_union` + the SQLAlchemy compiler:
* an operand that is itself a `CompoundSelect` is, for sqlite, replaced by
  `SELECT * FROM (<compound>) AS anon_k` (sqlite has no parenthesised compound operands); for the other
  dialects SQLAlchemy's `self_group` prints it in parentheses;
* a plain SELECT operand (incl. such a derived-table SELECT) is printed bare;
* `sa.union / union_all / intersect / intersect_all / except_ / except_all` from the class and `unique`.
-/
namespace MindsVerif.RenderSetOps
open MindsVerif.Render

/-- rows of one set operation (the same clauses as `Render.evalQuery`, see `Lemmas/RenderSetOps.evalQuery_toQuery`) -/
def setRows : SetOp → Bool → Table → Table → Table
  | .union, true, a, b => dedup (a ++ b)
  | .union, false, a, b => a ++ b
  | .intersect, true, a, b => dedup (a.filter b.contains)
  | .intersect, false, a, b => bagInter a b
  | .except, true, a, b => dedup (a.filter fun x => !b.contains x)
  | .except, false, a, b => bagDiff a b

/-- a parsed set-operation tree; a leaf is the `i`-th operand SELECT -/
inductive STree where
  | leaf (i : Nat)
  | node (op : SetOp) (unique : Bool) (l r : STree)
  deriving DecidableEq, Repr

/-- what the statement means: the operand grouping is the tree -/
def evalTree (tabs : Nat → Table) : STree → Table
  | .leaf i => tabs i
  | .node op u l r => setRows op u (evalTree tabs l) (evalTree tabs r)

/-- the same tree as a `Render.Query` -/
def toQuery (leaves : Nat → Query) : STree → Query
  | .leaf i => leaves i
  | .node op u l r => .setop op u (toQuery leaves l) (toQuery leaves r)

inductive Dialect where
  | sqlite | mysql | postgres
  deriving DecidableEq, Repr

/-- how an operand is delimited in the text -/
inductive Wrap where
  /-- `SELECT * FROM ( … ) AS anon_k` -/
  | derived
  /-- `( … )` -/
  | paren
  deriving DecidableEq, Repr

/-- structure of the printed text -/
inductive RText where
  /-- the text of operand SELECT `i` -/
  | sel (i : Nat)
  /-- a delimited operand -/
  | wrap (w : Wrap) (x : RText)
  /-- `x OP [ALL] y`, the two texts simply written one after the other -/
  | chain (x : RText) (op : SetOp) (unique : Bool) (y : RText)
  deriving DecidableEq, Repr

/-! ### the target's reading -/

/-- sqlite's grammar has no parenthesised compound operand; a derived table is a SELECT everywhere -/
def accepts : Dialect → Wrap → Bool
  | .sqlite, .paren => false
  | _, _ => true

/-- sqlite knows `UNION ALL` only; MySQL (≥ 8.0.31) and PostgreSQL have all six operators -/
def hasOp : Dialect → SetOp → Bool → Bool
  | .sqlite, .intersect, false => false
  | .sqlite, .except, false => false
  | _, _, _ => true

/-- a chain as the engine sees it: first operand, then (operator, operand) pairs; operands already evaluated -/
abbrev Chain := Table × List (SetOp × Bool × Table)

/-- sqlite: "when three or more simple SELECTs are connected into a compound SELECT, they group from
left to right" — all operators at one level -/
def readLeft : Table → List (SetOp × Bool × Table) → Table
  | acc, [] => acc
  | acc, (op, u, t) :: rest => readLeft (setRows op u acc t) rest

def closeRun : Option (Table × SetOp × Bool) → Table → Table
  | none, cur => cur
  | some (a, op, u), cur => setRows op u a cur

/-- MySQL / PostgreSQL (SQL standard): INTERSECT binds tighter than UNION and EXCEPT, equal levels
group left to right.  `done` = the finished part with its pending operator, `cur` = the running
INTERSECT term -/
def readPrec (done : Option (Table × SetOp × Bool)) (cur : Table) : List (SetOp × Bool × Table) → Table
  | [] => closeRun done cur
  | (op, u, t) :: rest =>
    if op = .intersect then readPrec done (setRows op u cur t) rest
    else readPrec (some (closeRun done cur, op, u)) t rest

def readChain : Dialect → Chain → Table
  | .sqlite, c => readLeft c.1 c.2
  | _, c => readPrec none c.1 c.2

/-- the operands of the (bare) chain a text is, each delimited operand read on its own;
`none` = the target rejects the text -/
def items (d : Dialect) (tabs : Nat → Table) : RText → Option Chain
  | .sel i => some (tabs i, [])
  | .wrap w x =>
    if accepts d w then (items d tabs x).map fun c => (readChain d c, []) else none
  | .chain x op u y =>
    if hasOp d op u then
      match items d tabs x, items d tabs y with
      | some (hx, tx), some (hy, ty) => some (hx, tx ++ (op, u, hy) :: ty)
      | _, _ => none
    else none

/-- rows the target returns for the text (`none`: syntax error) -/
def denote (d : Dialect) (tabs : Nat → Table) (x : RText) : Option Table :=
  (items d tabs x).map (readChain d)

/-! ### the renderer -/

def nestAs : Dialect → Wrap
  | .sqlite => .derived
  | _ => .paren

/-- an operand statement inside a compound: a compound is delimited, a plain SELECT is not -/
def operand (d : Dialect) : RText → RText
  | .chain x op u y => .wrap (nestAs d) (.chain x op u y)
  | x => x

/-- `prepare_union` + compilation, per dialect -/
def render (d : Dialect) : STree → RText
  | .leaf i => .sel i
  | .node op u l r => .chain (operand d (render d l)) op u (operand d (render d r))

/-- the operators the target has at all (for sqlite: no INTERSECT ALL / EXCEPT ALL anywhere in the tree) -/
def supported (d : Dialect) : STree → Bool
  | .leaf _ => true
  | .node op u l r => hasOp d op u && supported d l && supported d r

/-! ### other decisions a renderer could take (for the theorems / witnesses in `Props/C06`) -/

/-- continue the chain on the LEFT (any operator), delimit compound operands on the right -/
def renderLeftChain (d : Dialect) : STree → RText
  | .leaf i => .sel i
  | .node op u l r => .chain (renderLeftChain d l) op u (operand d (renderLeftChain d r))

def sameOp (op : SetOp) (u : Bool) : RText → Bool
  | .chain _ op' u' _ => op' == op && u' == u
  | _ => false

/-- splice an operand that is a compound of the SAME operation into the chain, on either side
(the round-5 seed C06_10) -/
def renderSpliceSame (d : Dialect) : STree → RText
  | .leaf i => .sel i
  | .node op u l r =>
    let a := renderSpliceSame d l
    let b := renderSpliceSame d r
    .chain (if sameOp op u a then a else operand d a) op u (if sameOp op u b then b else operand d b)

/-- never delimit anything -/
def renderFlat : STree → RText
  | .leaf i => .sel i
  | .node op u l r => .chain (renderFlat l) op u (renderFlat r)

/-! ### which texts are right: a checker (proved sound in `Lemmas/RenderSetOps.accepted_sound`)

A renderer has a choice: a compound LEFT operand may be delimited or — for sqlite, whose own grouping is
left to right — simply continue the chain; a compound RIGHT operand must be delimited in a way the
dialect's grammar has.
`accepted d t x`: the text `x` is one of these renderings of `t`.  The correspondence stream
`render-setops` asks this of the text the real renderer printed. -/

/-- a delimited operand the target's grammar has (a derived table anywhere, parentheses except for sqlite) -/
def unwrap (d : Dialect) : RText → Option RText
  | .wrap w x => if accepts d w then some x else none
  | _ => none

/-- operand `x` for sub-tree `t` (`isNode`: `t` is a compound), `self` = `accepted d t` -/
def accOperand (d : Dialect) (isNode : Bool) (x : RText) (self : RText → Bool) (allowBare : Bool) : Bool :=
  if isNode then
    match unwrap d x with
    | some x' => self x'
    | none => allowBare && self x
  else self x

def isNode : STree → Bool
  | .leaf _ => false
  | .node .. => true

def accepted (d : Dialect) : STree → RText → Bool
  | .leaf i, x => x == .sel i
  | .node op u l r, .chain a op' u' b =>
    op == op' && u == u' &&
      accOperand d (isNode l) a (accepted d l) (d == .sqlite) &&
      accOperand d (isNode r) b (accepted d r) false
  | .node .., _ => false

/-! ### canonical text (line protocol of `Driver/Render.lean`, stream `render-setops`) -/

def opText : SetOp → Bool → String
  | .union, true => "UNION" | .union, false => "UNION_ALL"
  | .intersect, true => "INTERSECT" | .intersect, false => "INTERSECT_ALL"
  | .except, true => "EXCEPT" | .except, false => "EXCEPT_ALL"

def RText.show : RText → String
  | .sel i => s!"S{i}"
  | .wrap .derived x => "D[ " ++ x.show ++ " ]"
  | .wrap .paren x => "( " ++ x.show ++ " )"
  | .chain x op u y => x.show ++ " " ++ opText op u ++ " " ++ y.show

end MindsVerif.RenderSetOps
