/-
M12b — REUSED objects (round 5).  `Model/Iso.lean` models calls that get a fresh private cell each.  The library
also hands out long-lived objects whose methods may be called again and again: `SqlalchemyRender(dialect)`
(`get_string`, `get_exec_params`), `QueryPlanner(...)` (`from_query`, `prepare_steps` / `get_statement_info` /
`execute_steps`), and the lexer / parser instances of `get_lexer_parser`.  Such an object is a finite store of
attributes; a call reads some of them, may write some of them, and returns a result.

* `Foot` / `Respects`: the footprint of a call (attributes whose value AT THE START of the call can influence it;
  attributes whose value at the END may differ from the start) and what it means for a call semantics to respect it.
* `runHist`: the object after a history of calls.
* `frameOkFor` / `frameOk`: the decidable frame condition — no call reads what a call of the history may have
  written.
* `Row` / `conflicts` / `tableOk` / `strip`: the same condition on a footprint TABLE as the translator
  `tools/extract/x_footprint.py` emits it (`Gen/Footprint.lean`: attribute names as strings, write PATHS below an
  attribute), probed on the live objects by attribute snapshots before / after calls and a get / set trace.
* `lookup` / `fill` / `Consistent`: a memo table of a pure function kept inside the object (SQLAlchemy's
  `IdentifierPreparer._strings`, `Dialect._type_memos`): written by calls, but transparent.
* `Reg`: the smallest object that is NOT history independent — a registry of names (a `sa.MetaData` that keeps the
  tables of earlier CREATE TABLE statements, a planner that keeps the CTE results of earlier statements).
Core Lean only.
-/
namespace MindsVerif.Reuse

/-- an object: attribute name ↦ value -/
abbrev Obj (κ V : Type) := κ → V

/-- footprint of a call -/
structure Foot (κ : Type) where
  /-- exposed reads: attributes whose value at the start of the call the call may depend on -/
  reads : List κ
  /-- attributes whose value at the end of the call may differ from the value at its start -/
  writes : List κ

/-- a call semantics `run c s = (object afterwards, result)` respects the footprints `fp` -/
structure Respects {κ V C R : Type} (run : C → Obj κ V → Obj κ V × R) (fp : C → Foot κ) : Prop where
  /-- the result is a function of the exposed reads only -/
  reads_only : ∀ c s s', (∀ k, k ∈ (fp c).reads → s k = s' k) → (run c s).2 = (run c s').2
  /-- attributes outside `writes` end as they started (a call that changes an attribute and RESTORES it is fine) -/
  writes_only : ∀ c s k, k ∉ (fp c).writes → (run c s).1 k = s k

/-- the object after a history of calls (results dropped) -/
def runHist {κ V C R : Type} (run : C → Obj κ V → Obj κ V × R) (h : List C) (s : Obj κ V) : Obj κ V :=
  h.foldl (fun s c => (run c s).1) s

/-- frame condition for call `c` after history `h`: `c` reads nothing a call of `h` may have written -/
def frameOkFor {κ C : Type} [BEq κ] (fp : C → Foot κ) (h : List C) (c : C) : Bool :=
  h.all fun c' => (fp c).reads.all fun k => !((fp c').writes.contains k)

/-- frame condition for a set of entry points: pairwise -/
def frameOk {κ C : Type} [BEq κ] (fp : C → Foot κ) (calls : List C) : Bool :=
  calls.all fun c => frameOkFor fp calls c

/-! ## the footprint table as generated -/

/-- one entry point (episode) of a class of long-lived objects, as probed -/
structure Row where
  /-- entry point / episode name -/
  call : String
  /-- attributes read (`__getattribute__` hit in the instance dict) before the call itself rebound them -/
  reads : List String
  /-- `(attribute, path)`: the attribute was rebound (`path = attribute`) or the content below it changed between
  the snapshot before and the snapshot after the call (`path` = attribute chain to the first difference) -/
  writes : List (String × String)
deriving Repr

/-- `(reader, writer, path)`: `reader` has an exposed read of the attribute under which `writer` changes `path` -/
def conflicts (tbl : List Row) : List (String × String × String) :=
  tbl.flatMap fun r => tbl.flatMap fun w =>
    (w.writes.filter (fun p => r.reads.contains p.1)).map (fun p => (r.call, w.call, p.2))

/-- drop the write paths listed in `exempt` (memo tables, write-only logs, listed known findings) -/
def strip (exempt : List String) (r : Row) : Row :=
  { r with writes := r.writes.filter (fun p => !exempt.contains p.2) }

/-- footprint of row `i` of a table (calls are row numbers) -/
def footOf (tbl : List Row) (i : Nat) : Foot String :=
  match tbl[i]? with
  | some r => ⟨r.reads, r.writes.map (·.1)⟩
  | none => ⟨[], []⟩

/-- the table satisfies the frame condition -/
def tableOk (tbl : List Row) : Bool := frameOk (footOf tbl) (List.range tbl.length)

/-! ## memo tables inside the object -/

/-- what a call sees when it asks the memo table `m` of the pure function `g` -/
def lookup {μ W : Type} (g : μ → W) (m : μ → Option W) (k : μ) : W := (m k).getD (g k)

/-- the memo table after the keys `ks` were filled -/
def fill {μ W : Type} [DecidableEq μ] (g : μ → W) (m : μ → Option W) (ks : List μ) : μ → Option W :=
  fun k => if k ∈ ks then some (g k) else m k

/-- every stored entry is the value of `g` -/
def Consistent {μ W : Type} (g : μ → W) (m : μ → Option W) : Prop := ∀ k w, m k = some w → w = g k

/-- a call of an object with a memo table: it gets the looked-up function, returns object, result, filled keys -/
def runMemo {κ V C R μ W : Type} [DecidableEq μ] (g : μ → W)
    (runM : C → (μ → W) → Obj κ V → Obj κ V × R × List μ) (c : C)
    (p : Obj κ V × (μ → Option W)) : (Obj κ V × (μ → Option W)) × R :=
  let out := runM c (lookup g p.2) p.1
  ((out.1, fill g p.2 out.2.2), out.2.1)

def runHistMemo {κ V C R μ W : Type} [DecidableEq μ] (g : μ → W)
    (runM : C → (μ → W) → Obj κ V → Obj κ V × R × List μ) (h : List C)
    (p : Obj κ V × (μ → Option W)) : Obj κ V × (μ → Option W) :=
  h.foldl (fun p c => (runMemo g runM c p).1) p

/-! ## the counter-model: a registry kept in the object -/

/-- calls of an object with ONE attribute, a list of registered names:
`define n` registers `n` (a statement that plans CTE `n`; DROP TABLE `n` building a `Table` in the kept MetaData),
`use n` answers differently when `n` is registered (SELECT from a table called `n`),
`create n` does both (CREATE TABLE `n`: refused — rendered by the fallback — when `n` is already registered). -/
inductive RegCall where
  | define (n : Nat)
  | use (n : Nat)
  | create (n : Nat)
deriving DecidableEq, Repr

/-- result: `true` = the answer a fresh object gives, `false` = the other text -/
def regRun (c : RegCall) (s : Obj Unit (List Nat)) : Obj Unit (List Nat) × Bool :=
  match c with
  | .define n => (fun _ => n :: s (), true)
  | .use n => (s, !(s ()).contains n)
  | .create n => (fun _ => n :: s (), !(s ()).contains n)

/-- its footprints: `use` and `create` read the registry, `define` and `create` write it -/
def regFoot : RegCall → Foot Unit
  | .define _ => ⟨[], [()]⟩
  | .use _ => ⟨[()], []⟩
  | .create _ => ⟨[()], [()]⟩

/-- the repaired object: every call starts from an empty registry (`metadata = sa.MetaData()` per statement,
`self.cte_results = {}` at the start of `from_query`) -/
def regRunFixed (c : RegCall) (_s : Obj Unit (List Nat)) : Obj Unit (List Nat) × Bool :=
  regRun c (fun _ => [])

def regFootFixed : RegCall → Foot Unit
  | .define _ => ⟨[], [()]⟩
  | .use _ => ⟨[], [()]⟩
  | .create _ => ⟨[], [()]⟩

end MindsVerif.Reuse
