/-!
# Model of the planner's name resolution and single-integration pushdown (C10, C11)

Transcribes (mindsdb_sql/planner):
* `QueryPlanner.__init__`                      → `mkCatalog`
* `QueryPlanner.resolve_database_table`        → `resolveSimple`
* `PlanJoinTablesQuery.resolve_table`          → `resolveJoin`  (+ `process_table` → `routeJoinOperand`; `resolveJoinOld` = before b8a8b6b)
* `QueryPlanner.get_predictor`                 → `getPredictor`
* `get_predictor_namespace_and_name_from_identifier`, `utils.get_predictor_name_identifier`
                                               → `predictorRef`, `predictorStepName`
* `QueryPlanner.get_query_info`                → `queryInfo` (over the list of things the walker visits)
* `QueryPlanner.check_single_integration`      → `checkSingle`,  `PlanJoin.check_single_integration` → `checkSingleJoin`
* `query_traversal` specialised to callbacks that never replace a node → `Node` / `Slot`
* `QueryPlanner.prepare_integration_select`    → `stripIdent`, `strip`
* `from_query` for SELECT / set operations, pushdown branch only → `planTop`

Names are lists of code points (`Name = List Nat`): `String` does not reduce in the kernel, and the
only string operations the code uses here are `lower`, `isdigit`, `'.'.join` and `'.' in`.
`lower` is the ASCII lower-casing (Python's `str.lower` on non-ASCII text is not modelled).
Core Lean only.
-/
namespace MindsVerif.Route

abbrev Name := List Nat

-- string literal → code points, at elaboration time
open Lean in
macro:max "n!" s:str : term => do
  let cs : Array (TSyntax `term) := (s.getString.toList.map (fun c => (Syntax.mkNumLit (toString c.toNat) : TSyntax `term))).toArray
  `(([$cs,*] : List Nat))

def lowerC (c : Nat) : Nat := if 65 ≤ c ∧ c ≤ 90 then c + 32 else c
def lower (n : Name) : Name := n.map lowerC
def isDigitC (c : Nat) : Bool := 48 ≤ c && c ≤ 57
/-- `str.isdigit` (ASCII): non-empty and all digits -/
def isDigitStr (n : Name) : Bool := !n.isEmpty && n.all isDigitC
def dot : Nat := 46
/-- `f'{a}.{b}'` -/
def dotted (a b : Name) : Name := a ++ dot :: b

/-! ## Catalog: the constructor's normalisation -/

/-- one element of the `integrations` argument -/
inductive IntegSpec
  | nm (name : Name)                                             -- a plain string
  | dict (name : Name) (type : Name) (classType : Option Name)   -- {'name':…, 'type':…, 'class_type':…}
  deriving DecidableEq, Repr

/-- one predictor record: its `name` (list form) or key (legacy dict form) and optional `integration_name` -/
structure PredSpec where
  name : Name
  integ : Option Name
  deriving DecidableEq, Repr

inductive PredMeta
  | none
  | list (ps : List PredSpec)
  | legacy (ps : List PredSpec)      -- dict items in insertion order
  deriving DecidableEq, Repr

structure CatalogIn where
  integrations : Option (List IntegSpec)
  predictorNs : Option Name
  preds : PredMeta
  defaultNs : Option Name
  deriving DecidableEq, Repr

/-- value stored in `predictor_info`: only `integration_name` matters for routing -/
structure PredInfo where
  project : Option Name
  deriving DecidableEq, Repr

/-- the planner's catalog state.  The dicts are association lists in which the *first* entry for a
key wins; the constructor model prepends, so a later assignment overrides as in Python. -/
structure Catalog where
  integrations : List (Name × Option Name)   -- lower-cased name ↦ class_type
  projects : List Name
  predictors : List (Name × PredInfo)
  defaultNs : Option Name
  deriving DecidableEq, Repr

def Catalog.databases (c : Catalog) : List Name := c.integrations.map (·.1) ++ c.projects

def lookup {β} (k : Name) : List (Name × β) → Option β
  | [] => none
  | (k', v) :: r => if k' = k then some v else lookup k r

def Catalog.classType (c : Catalog) (i : Name) : Option Name := (lookup i c.integrations).join

/-- one iteration of `for integration in integrations` : (integrations, projects) -/
def integStep (st : List (Name × Option Name) × List Name) : IntegSpec → List (Name × Option Name) × List Name
  | .nm n => ((lower n, none) :: st.1, st.2)
  | .dict n ty ct => if ty ≠ n!"data" then (st.1, lower n :: st.2) else ((lower n, ct) :: st.1, st.2)

/-- `predictor_namespace.lower() if predictor_namespace else 'mindsdb'` -/
def predNs (p : Option Name) : Name :=
  match p with
  | some n => if n.isEmpty then n!"mindsdb" else lower n
  | none => n!"mindsdb"

/-- list form: one iteration : (predictor_info, projects) -/
def predStepList (pns : Name) (st : List (Name × PredInfo) × List Name) (p : PredSpec) :
    List (Name × PredInfo) × List Name :=
  let iname := p.integ.getD pns
  ((lower (dotted iname p.name), ⟨some iname⟩) :: st.1, lower iname :: st.2)

/-- `name.rsplit('.', 1)[0]`: what stands before the LAST dot of a name that contains one -/
def beforeLastDot (n : Name) : Name := ((n.reverse.dropWhile (· ≠ dot)).drop 1).reverse

/-- legacy dict form: one iteration (since d8a610a a dotted key `project.model` without `integration_name` gets the
part before its last dot as `integration_name`; before, the entry was stored as given) -/
def predStepLegacy (pns : Name) (st : List (Name × PredInfo) × List Name) (p : PredSpec) :
    List (Name × PredInfo) × List Name :=
  if dot ∈ p.name then ((p.name, ⟨some (p.integ.getD (beforeLastDot p.name))⟩) :: st.1, st.2)
  else
    let iname := p.integ.getD pns
    ((lower (dotted iname p.name), ⟨some iname⟩) :: st.1, lower iname :: st.2)

def mkCatalog (i : CatalogIn) : Catalog :=
  let s0 := (i.integrations.getD []).foldl integStep ([], [])
  let projects0 := n!"mindsdb" :: s0.2
  let pns := predNs i.predictorNs
  let s1 := match i.preds with
    | .none => ([], projects0)
    | .list ps => ps.foldl (predStepList pns) ([], projects0)
    | .legacy ps => ps.foldl (predStepLegacy pns) ([], projects0)
  { integrations := s0.1, projects := s1.2, predictors := s1.1, defaultNs := i.defaultNs.map lower }

/-! ## The two resolvers -/

/-- `resolve_database_table`: (database, remaining parts); `none` = PlanningException -/
def resolveSimple (c : Catalog) (parts : List Name) : Option (Name × List Name) :=
  match parts with
  | p :: q :: r =>
    if lower p ∈ c.databases then some (lower p, q :: r)
    else c.defaultNs.map (·, parts)
  | _ => c.defaultNs.map (·, parts)

/-- what `PlanJoinTablesQuery.resolve_table` returns (`TableInfo`), as far as name resolution is concerned -/
structure TableInfo where
  integration : Option Name
  table : List Name            -- `table.parts` after the qualifier was popped
  aliases : List (List Name)   -- names under which columns may refer to the table (lower-cased)
  bareName : Bool              -- written without any qualifier: may be a CTE name (6dae0a8)
  deriving DecidableEq, Repr

/-- `PlanJoinTablesQuery.resolve_table`, transcribed from plan_join.py line by line (NOT from
`resolve_database_table`): `alias`: `table.alias.parts`; `hasSubSelect`: the placeholder identifier of a
sub-select operand carries a `sub_select` attribute and is never refused.  `none` = PlanningException. -/
def resolveTableCore (c : Catalog) (parts : List Name) : Option Name × List Name :=
  -- try to use default namespace
  let integration0 := c.defaultNs
  if parts.length > 1 then
    if lower (parts.headD []) ∈ c.databases then (some (lower (parts.headD [])), parts.tail)
    else (c.defaultNs, parts)
  else (integration0, parts)

def resolveTable (c : Catalog) (parts : List Name) (alias : Option (List Name)) (hasSubSelect : Bool) :
    Option TableInfo :=
  -- get possible table aliases
  let aliases : List (List Name) :=
    match alias with
    | some a => [a.map lower]
    | none => (List.range parts.length).map fun i => (parts.drop i).map lower
  -- written without any qualifier: may be a CTE name
  let bareName := parts.length == 1
  if (resolveTableCore c parts).1.isNone && !hasSubSelect then none
  else some ⟨(resolveTableCore c parts).1, (resolveTableCore c parts).2, aliases, bareName⟩

/-- the (integration, remaining parts) of `resolve_table` for an identifier operand -/
def resolveJoin (c : Catalog) (parts : List Name) : Option (Name × List Name) :=
  (resolveTable c parts none false).bind fun ti => ti.integration.map (·, ti.table)

/-- the resolver before b8a8b6b (kept for the regression examples): compared `parts[0]` as written
and popped it even when it was the only part -/
def resolveJoinOld (c : Catalog) (parts : List Name) : Option (Name × List Name) :=
  match parts with
  | p :: r =>
    if p ∈ c.databases then some (p, r)
    else c.defaultNs.map (·, parts)
  | [] => c.defaultNs.map (·, parts)

/-- the class on which the old join resolver agreed with `resolve_database_table` -/
def agreeClass (c : Catalog) (parts : List Name) : Bool :=
  match parts with
  | [] => true
  | [p] => decide (p ∉ c.databases)
  | p :: _ :: _ => decide (lower p = p)

/-- the default namespace, when there is one, is a known database -/
def defaultKnown (c : Catalog) : Bool :=
  match c.defaultNs with
  | none => true
  | some d => decide (d ∈ c.databases)

/-- the default namespace, when there is one, is a known database written in lower case
(the second half holds for every catalog the constructor builds since 10d49ed: `defaultOk_mkCatalog`) -/
def defaultOk (c : Catalog) : Bool :=
  match c.defaultNs with
  | none => true
  | some d => decide (d ∈ c.databases) && decide (lower d = d)

/-- number of parts of the Python identifier (`star`: a trailing `Star` part) -/
def identLen (parts : List Name) (star : Bool) : Nat := parts.length + (if star then 1 else 0)

/-- "cut integration part" of `prepare_integration_select` -/
def stripParts (db : Name) (parts : List Name) (star : Bool) : List Name :=
  match parts with
  | p :: r => if identLen parts star > 1 ∧ lower p = db then r else parts
  | [] => parts

/-- outcome of routing one join operand (the table path is the one in the fetched query, i.e. after
`prepare_integration_select`) -/
inductive Routed
  | fetch (integration : Name) (table : List Name)
  | planningError                 -- PlanningException
  | crash                         -- AssertionError: Identifier with no parts
  deriving DecidableEq, Repr

/-- `process_table`: the resolved integration is put back in front and the select goes through
`get_integration_select_step`, i.e. through `resolve_database_table` again; the fetched query is a copy
of that select after `prepare_integration_select` (the cut is applied to the identifier as it stands in
the select, not to the resolver's answer). -/
def routeJoinOperandWith (rj : Catalog → List Name → Option (Name × List Name))
    (c : Catalog) (parts : List Name) : Routed :=
  match rj c parts with
  | none => .planningError
  | some (_, []) => .crash
  | some (i, t :: ts) =>
    match resolveSimple c (i :: t :: ts) with
    | none => .planningError
    | some (db, _) => .fetch db (stripParts db (i :: t :: ts) false)

def routeJoinOperand := routeJoinOperandWith resolveJoin
def routeJoinOperandOld := routeJoinOperandWith resolveJoinOld

/-- the "DBT workaround" of `PlanJoinTSPredictorQuery.adapt_dbt_query` on the data source SRC of
`(select … from SRC) JOIN <time-series model>` inside CREATE TABLE / INSERT / UPDATE..FROM: `integration` is
`parts[0]` of the statement's target table (`None` outside such statements); a source whose first part, lower-cased
(since 18f6c71), is not a known database gets that integration in front -/
def dbtSource (c : Catalog) (integration : Option Name) (parts : List Name) : List Name :=
  match integration, parts with
  | some i, p :: _ => if lower p ∈ c.databases then parts else i :: parts
  | _, _ => parts

/-- the workaround before 18f6c71 (kept for the regression example): the first part was compared as written -/
def dbtSourceOld (c : Catalog) (integration : Option Name) (parts : List Name) : List Name :=
  match integration, parts with
  | some i, p :: _ => if p ∈ c.databases then parts else i :: parts
  | _, _ => parts

/-- routing of a table on the simple path (`get_integration_select_step`) -/
def routeSimple (c : Catalog) (parts : List Name) : Routed :=
  match resolveSimple c parts with
  | none => .planningError
  | some (db, _) => .fetch db (stripParts db parts false)

/-! ## Models -/

structure PredView where
  project : Option Name      -- info['integration_name']
  name : Name                -- as written in the query
  version : Option Name
  deriving DecidableEq, Repr

/-- reversed name parts without the version, and the version -/
def splitVersion (rparts : List Name) : Option Name × List Name :=
  match rparts with
  | v :: n :: r => if isDigitStr v then (some v, n :: r) else (none, v :: n :: r)
  | r => (none, r)

/-- namespace used for the lookup: the part before the name, else the default namespace
(`rest` = the parts before the name, reversed) -/
def nsOf (c : Catalog) (rest : List Name) : Option Name :=
  match rest with
  | ns :: _ => some ns
  | [] => c.defaultNs

/-- the `predictor_info` record a (namespace, name) pair finds -/
def lookupModel (c : Catalog) (ns : Option Name) (name : Name) : Option PredInfo :=
  lookup (match ns with
    | some ns => lower (dotted ns name)
    | none => lower name) c.predictors

/-- `get_predictor` on the reversed parts -/
def getPredictorR (c : Catalog) (rparts : List Name) : Option PredView :=
  match splitVersion rparts with
  | (_, []) => none
  | (version, name :: rest) =>
    (lookupModel c (nsOf c rest) name).map fun info => ⟨info.project, name, version⟩

/-- `get_predictor` on the identifier's parts (`none` also for an empty part list) -/
def getPredictor (c : Catalog) (parts : List Name) : Option PredView := getPredictorR c parts.reverse

def isPredictor (c : Catalog) (parts : List Name) : Bool := (getPredictor c parts).isSome

/-- what one planner answers for the model references of a statement, in the order in which it meets them:
`get_predictor` keeps no state between calls, so this is a `map` -/
def resolveModels (c : Catalog) (refs : List (List Name)) : List (Option PredView) := refs.map (getPredictor c)

/-- `get_predictor_namespace_and_name_from_identifier`: (namespace, new identifier parts);
`none` = not a predictor / KeyError on a record without `integration_name` -/
def predictorRef (c : Catalog) (parts : List Name) : Option (Name × List Name) :=
  match getPredictor c parts with
  | some ⟨some ns, name, version⟩ => some (ns, ns :: name :: version.toList)
  | _ => none

/-- `utils.get_predictor_name_identifier` -/
def predictorStepName (parts : List Name) : List Name :=
  match parts with
  | _ :: q :: r => q :: r
  | p => p

/-- what the simple path (`plan_select_from_predictor`, `plan_join_ts`) puts in the step:
(namespace, predictor identifier) -/
def predictorStepSimple (c : Catalog) (parts : List Name) : Option (Name × List Name) :=
  (predictorRef c parts).map fun (ns, ps) => (ns, predictorStepName ps)

/-- what the join path (`process_predictor`) puts in `ApplyPredictorStep`:
namespace = `resolve_table`'s integration, predictor = the remaining parts -/
def predictorStepJoinWith (rj : Catalog → List Name → Option (Name × List Name))
    (c : Catalog) (parts : List Name) : Option (Name × List Name) :=
  if isPredictor c parts then rj c parts else none

def predictorStepJoin := predictorStepJoinWith resolveJoin
def predictorStepJoinOld := predictorStepJoinWith resolveJoinOld

/-! ## The walker, specialised to callbacks that return `None`

A real tree is abstracted (by the harness, from the class of each node and the walker's branch for
it) to a `Node`: identifiers, functions, native queries, nodes that become `parent_query` of their
children (`scope`), and all other nodes (`plain`).  Each child carries the `Slot` in which the
walker visits it: as a table, as a select target, as an ordinary child, or not at all (`skip`:
`Case.arg`, `Function.from_arg`, `Select.limit/offset`, `Delete.table`, …). -/

inductive Slot | tbl | tgt | arg | skip
  deriving DecidableEq, Repr

/-- `parent_query` as seen by `prepare_integration_select`: has no `from_table` attribute (or is
`None`), or is a Select whose `from_table` is / is not a Join -/
inductive Par | noFrom | sel (fromIsJoin : Bool)
  deriving DecidableEq, Repr

mutual
inductive Node
  | ident (parts : List Name) (star : Bool) (alias : Option (List Name))   -- `star`: a trailing `Star` part
  | leaf
  | func (udf : Bool) (kids : Kids)        -- Function; `udf` = namespace present or op = 'llm'
  | native                                 -- NativeQuery / Data
  | scope (p : Par) (kids : Kids)          -- Select / Union / Insert / Update / Delete / CreateTable
  | plain (kids : Kids)                    -- every other node kind (parent_query inherited)
inductive Kids
  | nil
  | cons (s : Slot) (n : Node) (ks : Kids)
end

/-- does the identifier carry the qualifier `db` (what the cut tests) -/
def qualifiedBy (db : Name) (parts : List Name) (star : Bool) : Bool :=
  match parts with
  | p :: _ => decide (identLen parts star > 1) && decide (lower p = db)
  | [] => false

/-- the cut since 1ea1207: a two-part identifier that is not a table (`int1.x`, `int1.*`) is left
alone when `db` is one of `names` = the lower-cased table aliases and CTE names of the query.
`names = []` is the cut before that commit. -/
def keepsLocal (db : Name) (names : List Name) (isTab : Bool) (parts : List Name) (star : Bool) : Bool :=
  !isTab && identLen parts star == 2 && names.contains db

def stripPartsN (db : Name) (names : List Name) (isTab : Bool) (parts : List Name) (star : Bool) : List Name :=
  if keepsLocal db names isTab parts star then parts else stripParts db parts star

/-- the callback of `prepare_integration_select` on an identifier -/
def stripIdent (db : Name) (names : List Name) (par : Par) (s : Slot) (parts : List Name) (star : Bool)
    (alias : Option (List Name)) : List Name × Option (List Name) :=
  let parts' := stripPartsN db names (s == .tbl) parts star
  let alias' :=
    match par, s, alias, star with
    | .sel false, .tgt, none, false =>
      match parts'.getLast? with
      | some l => some [l]
      | none => none
    | _, _, a, _ => a
  (parts', alias')

mutual
/-- `query_traversal(node, _prepare_integration_select)` -/
def strip (db : Name) (names : List Name) (par : Par) (s : Slot) : Node → Node
  | .ident parts star alias =>
    let r := stripIdent db names par s parts star alias
    .ident r.1 star r.2
  | .leaf => .leaf
  | .native => .native
  | .func u ks => .func u (stripKids db names par ks)
  | .scope p ks => .scope p (stripKids db names p ks)
  | .plain ks => .plain (stripKids db names par ks)
def stripKids (db : Name) (names : List Name) (par : Par) : Kids → Kids
  | .nil => .nil
  | .cons .skip n ks => .cons .skip n (stripKids db names par ks)
  | .cons s n ks => .cons s (strip db names par s n) (stripKids db names par ks)
end

/-- what `find_objects` (get_query_info) can see -/
inductive Item
  | table (parts : List Name)
  | native
  | udf
  deriving DecidableEq, Repr

mutual
/-- the visit log of the walker, in visiting order, for `find_objects` -/
def visit (s : Slot) : Node → List Item
  | .ident parts _ _ => if s = .tbl then [.table parts] else []
  | .leaf => []
  | .native => if s = .tbl then [.native] else []
  | .func u ks => (if u then [.udf] else []) ++ visitKids ks
  | .scope _ ks => visitKids ks
  | .plain ks => visitKids ks
def visitKids : Kids → List Item
  | .nil => []
  | .cons .skip _ ks => visitKids ks
  | .cons s n ks => visit s n ++ visitKids ks
end

mutual
/-- every table reference of the tree, visited by the walker or not -/
def allTables (s : Slot) : Node → List (List Name)
  | .ident parts _ _ => if s = .tbl then [parts] else []
  | .leaf => []
  | .native => []
  | .func _ ks => allTablesKids ks
  | .scope _ ks => allTablesKids ks
  | .plain ks => allTablesKids ks
def allTablesKids : Kids → List (List Name)
  | .nil => []
  | .cons s n ks => allTables s n ++ allTablesKids ks
end

mutual
/-- identifiers the walker visits: (parts, star, visited as a table) -/
def visitedIdents (s : Slot) : Node → List (List Name × Bool × Bool)
  | .ident parts star _ => [(parts, star, s == .tbl)]
  | .leaf => []
  | .native => []
  | .func _ ks => visitedIdentsKids ks
  | .scope _ ks => visitedIdentsKids ks
  | .plain ks => visitedIdentsKids ks
def visitedIdentsKids : Kids → List (List Name × Bool × Bool)
  | .nil => []
  | .cons .skip _ ks => visitedIdentsKids ks
  | .cons s n ks => visitedIdents s n ++ visitedIdentsKids ks
end

mutual
/-- all identifiers in tree order incl. unvisited ones, with alias (for the correspondence check) -/
def allIdents : Node → List (List Name × Bool × Option (List Name))
  | .ident parts star a => [(parts, star, a)]
  | .leaf => []
  | .native => []
  | .func _ ks => allIdentsKids ks
  | .scope _ ks => allIdentsKids ks
  | .plain ks => allIdentsKids ks
def allIdentsKids : Kids → List (List Name × Bool × Option (List Name))
  | .nil => []
  | .cons _ n ks => allIdents n ++ allIdentsKids ks
end

/-- nodes that cannot hold a table reference or a sub-query -/
def isAtom : Node → Bool
  | .ident _ _ _ => true
  | .leaf => true
  | _ => false

mutual
/-- whatever sits in a slot the walker skips is an atom (a name or a constant): CTE names, column lists, … -/
def skipLeafOnly : Node → Bool
  | .func _ ks => skipLeafOnlyKids ks
  | .scope _ ks => skipLeafOnlyKids ks
  | .plain ks => skipLeafOnlyKids ks
  | _ => true
def skipLeafOnlyKids : Kids → Bool
  | .nil => true
  | .cons s n ks => (if s = .skip then isAtom n else skipLeafOnly n) && skipLeafOnlyKids ks
end

/-! ## `get_query_info` and the pushdown decision -/

structure QueryInfo where
  mdbEntities : Nat                -- only the count is used
  integrations : List Name         -- a set: duplicates removed
  predictors : Nat
  userFunctions : Nat
  deriving DecidableEq, Repr

/-- `'.'.join(parts)` -/
def joinDots : List Name → Name
  | [] => []
  | [p] => p
  | p :: r => p ++ dot :: joinDots r

def insertSet (x : Name) (s : List Name) : List Name := if x ∈ s then s else s ++ [x]

/-- a bare name that is one of the CTE names -/
def isCteRef (ctes : List Name) (parts : List Name) : Bool :=
  match parts with
  | [t] => ctes.contains t
  | _ => false

/-- `find_objects` on one visited item; the `'.'.join(parts) not in cte_names` filter is applied here
(equivalent: it only removes entries from `mdb_entities`).  `none` = PlanningException out of
`resolve_database_table`.  `skip = true`: the code since 0e75382 — a bare CTE name is not looked at at all.  `skip = false`: before (a CTE
reference was resolved like a table and forgiven only as a mindsdb entity). -/
def infoStep (skip : Bool) (c : Catalog) (ctes : List Name) (qi : QueryInfo) : Item → Option QueryInfo
  | .udf => some { qi with userFunctions := qi.userFunctions + 1 }
  | .native => some { qi with mdbEntities := qi.mdbEntities + 1 }
  | .table parts =>
    if skip && isCteRef ctes parts then some qi else
    match resolveSimple c parts with
    | none => none
    | some (integ, _) =>
      let qi := if isPredictor c parts then { qi with predictors := qi.predictors + 1 } else qi
      if integ ∈ c.projects then
        some (if !skip && decide (joinDots parts ∈ ctes) then qi else { qi with mdbEntities := qi.mdbEntities + 1 })
      else some { qi with integrations := insertSet integ qi.integrations }

def queryInfoFrom (skip : Bool) (c : Catalog) (ctes : List Name) (qi : QueryInfo) : List Item → Option QueryInfo
  | [] => some qi
  | it :: r => match infoStep skip c ctes qi it with
    | none => none
    | some qi' => queryInfoFrom skip c ctes qi' r

def queryInfo (skip : Bool) (c : Catalog) (ctes : List Name) (items : List Item) : Option QueryInfo :=
  queryInfoFrom skip c ctes ⟨0, [], 0, 0⟩ items

/-- `cte_name_captures_table` (a9036e5): some qualified table reference ends in a name that is also a CTE name of
the query — after the cut it would be read as that CTE, so the query is not pushed down whole -/
def cteCaptures (ctes : List Name) (items : List Item) : Bool :=
  items.any fun
    | .table parts => decide (parts.length > 1) && (ctes.map lower).contains (lower (parts.getLastD []))
    | _ => false

/-- `QueryPlanner.check_single_integration`: the integration the whole query is sent to -/
def checkSingle (skip : Bool) (c : Catalog) (ctes : List Name) (items : List Item) : Option Name :=
  match queryInfo skip c ctes items with
  | some ⟨0, [i], _, 0⟩ =>
    if i ≠ n!"files" ∧ i ≠ n!"views" ∧ c.classType i ≠ some n!"api" ∧ cteCaptures ctes items = false then some i
    else none
  | _ => none

/-- `PlanJoin.check_single_integration` (no user-function test) -/
def checkSingleJoin (skip : Bool) (c : Catalog) (ctes : List Name) (items : List Item) : Option Name :=
  match queryInfo skip c ctes items with
  | some ⟨0, [i], _, _⟩ =>
    if i ≠ n!"files" ∧ i ≠ n!"views" ∧ c.classType i ≠ some n!"api" ∧ cteCaptures ctes items = false then some i
    else none
  | _ => none

inductive Step
  | fetch (integration : Name) (query : Node)

/-- `from_query` on a Select / Union / Except / Intersect, pushdown branch only:
`some [fetch …]` when `check_single_integration` fires, `none` = the query goes on to `plan_select`
(not modelled here). The root is visited with `parent_query=None`, not as a table. -/
def planTop (skip : Bool) (names : List Name) (c : Catalog) (ctes : List Name) (q : Node) : Option (List Step) :=
  match checkSingle skip c ctes (visit .arg q) with
  | some i => some [.fetch i (strip i names .noFrom .arg q)]
  | none => none

/-! ## A tiny name-resolution semantics (C11)

One SELECT level = the table references of its FROM clause (joins flattened), the column
references that occur at that level, and its nested selects (which see the enclosing scopes). -/

structure TRef where
  parts : List Name
  alias : Option Name
  deriving DecidableEq, Repr

mutual
inductive Sel
  /-- `ctes`: the bodies of the WITH clause; a CTE body is a scope of its own (it does not see the select it is
  attached to); a reference to the CTE is a table reference by its bare name, its columns come from the schema -/
  | mk (tabs : List TRef) (cols : List (List Name)) (subs : Sels) (ctes : Sels)
inductive Sels
  | nil
  | cons (s : Sel) (ss : Sels)
end

/-- a table instance after catalog resolution -/
structure Inst where
  db : Name
  table : Name
  alias : Option Name
  deriving DecidableEq, Repr

/-- federated reading of a table reference when everything lives in `db`
(`resolve_database_table` with default namespace `db`): `[t]` and `[db', t]` with `lower db' = db` -/
def instFed (db : Name) (t : TRef) : Option Inst :=
  match t.parts with
  | [n] => some ⟨db, n, t.alias⟩
  | [q, n] => if lower q = db then some ⟨db, n, t.alias⟩ else none
  | _ => none

/-- reading on the integration's own catalog: only `[t]` -/
def instLocal (db : Name) (t : TRef) : Option Inst :=
  match t.parts with
  | [n] => some ⟨db, n, t.alias⟩
  | _ => none

/-- columns of a table -/
abbrev Schema := Name → Name → List Name

def exposed (i : Inst) : Name := lower (i.alias.getD i.table)

def hasCol (sch : Schema) (i : Inst) (c : Name) : Bool := (sch i.db i.table).map lower |>.contains (lower c)

/-- does column reference `r` denote a column of instance `i`?  `fed`: three-part names
`db.table.col` are understood (federated reading; as in sqlite3 the middle part may be the alias). -/
def matchesCol (fed : Bool) (sch : Schema) (i : Inst) (r : List Name) : Bool :=
  match r with
  | [c] => hasCol sch i c
  | [q, c] => lower q = exposed i && hasCol sch i c
  | [d, q, c] => fed && lower d = i.db && lower q = exposed i && hasCol sch i c
  | _ => false

inductive Res
  | ok (depth : Nat) (inst : Nat) (table : Name) (col : Name)
  | ambiguous
  | notFound
  | badTable              -- a table reference of some scope is not understood
  deriving DecidableEq, Repr

/-- indices of matching instances -/
def matchIdx (fed : Bool) (sch : Schema) (r : List Name) : Nat → List Inst → List (Nat × Inst)
  | _, [] => []
  | k, i :: is => (if matchesCol fed sch i r then [(k, i)] else []) ++ matchIdx fed sch r (k + 1) is

/-- resolve in a chain of scopes, innermost first -/
def resolveCol (fed : Bool) (sch : Schema) (r : List Name) : Nat → List (List Inst) → Res
  | _, [] => .notFound
  | d, sc :: outer =>
    match matchIdx fed sch r 0 sc with
    | [] => resolveCol fed sch r (d + 1) outer
    | [(k, i)] => .ok d k i.table (lower (r.getLastD []))
    | _ => .ambiguous

def optAll {α β} (f : α → Option β) : List α → Option (List β)
  | [] => some []
  | a :: as => match f a, optAll f as with
    | some b, some bs => some (b :: bs)
    | _, _ => none

mutual
/-- resolution of every column reference of the query, in order -/
def resolveAll (fed : Bool) (db : Name) (sch : Schema) (chain : List (List Inst)) : Sel → List Res
  | .mk tabs cols subs ctes =>
    resolveAlls fed db sch [] ctes ++
    match optAll (if fed then instFed db else instLocal db) tabs with
    | none => [.badTable]
    | some sc =>
      cols.map (fun r => resolveCol fed sch r 0 (sc :: chain)) ++ resolveAlls fed db sch (sc :: chain) subs
def resolveAlls (fed : Bool) (db : Name) (sch : Schema) (chain : List (List Inst)) : Sels → List Res
  | .nil => []
  | .cons s ss => resolveAll fed db sch chain s ++ resolveAlls fed db sch chain ss
end

/-- the cut applied to a plain part list (no trailing star); `names = []`: nothing is protected (the cut before 1ea1207) -/
def cut (db : Name) (names : List Name) (isTab : Bool) (parts : List Name) : List Name :=
  stripPartsN db names isTab parts false

mutual
def stripSel (db : Name) (names : List Name) : Sel → Sel
  | .mk tabs cols subs ctes =>
    .mk (tabs.map fun t => { t with parts := cut db names true t.parts }) (cols.map (cut db names false))
      (stripSels db names subs) (stripSels db names ctes)
def stripSels (db : Name) (names : List Name) : Sels → Sels
  | .nil => .nil
  | .cons s ss => .cons (stripSel db names s) (stripSels db names ss)
end

/-- table references allowed in the semantic fragment: `[t]` or `[db.]t` -/
def okTab (db : Name) (t : TRef) : Bool :=
  match t.parts with
  | [_] => true
  | [q, _] => lower q = db
  | _ => false

/-- column references allowed: a two-part reference qualified by the integration name is only allowed
when the cut leaves it alone (`db ∈ names`: it is an alias or CTE name) -/
def okCol (db : Name) (names : List Name) (r : List Name) : Bool :=
  match r with
  | [q, _] => lower q ≠ db || names.contains db
  | _ => true

mutual
def okSel (db : Name) (names : List Name) : Sel → Bool
  | .mk tabs cols subs ctes =>
    tabs.all (okTab db) && cols.all (okCol db names) && okSels db names subs && okSels db names ctes
def okSels (db : Name) (names : List Name) : Sels → Bool
  | .nil => true
  | .cons s ss => okSel db names s && okSels db names ss
end

/-- the name by which a table reference is referred to in its scope, lower-cased -/
def localName (t : TRef) : Option Name :=
  (match t.alias with
   | some a => some a
   | none => t.parts.getLast?).map lower

/-- what it means for the pushed-down query to keep the meaning of a reference: whenever the original reference
denotes something (or is ambiguous), the stripped one denotes exactly the same; nothing is claimed for a reference
that denotes nothing in the original -/
def Res.keeps (orig pushed : Res) : Prop := orig = .notFound ∨ pushed = orig

mutual
/-- the `names` the planner hands to the cut (since 1ea1207 / bd15793): for every table reference of the whole
query, CTE bodies included, its lower-cased alias or — when it has none — its own (last) name; a reference to a
CTE is such an unaliased table reference, so used CTE names are in it -/
def aliasesOf : Sel → List Name
  | .mk tabs _ subs ctes => tabs.filterMap localName ++ aliasesOfs subs ++ aliasesOfs ctes
def aliasesOfs : Sels → List Name
  | .nil => []
  | .cons s ss => aliasesOf s ++ aliasesOfs ss
end

/-- output column name of an identifier target -/
def outName (parts : List Name) (alias : Option (List Name)) : Option Name :=
  match alias with
  | some a => a.getLast?
  | none => parts.getLast?

end MindsVerif.Route
