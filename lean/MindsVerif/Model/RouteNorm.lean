import MindsVerif.Model.Route
/-!
# The routing model with the case-mapping as a PARAMETER (C10, C11 — round 6)

`Model/Route.lean` fixes "case-insensitive" as equality after the ASCII `lower`.  The code calls `str.lower()` at
several SITES that have to agree with each other:

* `QueryPlanner.__init__`                 — the keys of `integrations`, the projects, the predictor keys, the default
                                            namespace are stored normalised                      (`nk`, "constructor")
* `resolve_database_table`, `get_predictor`, `cte_name_captures_table`
                                          — `parts[0].lower() in self.databases`; the answer IS the normalised first part,
                                            and it is what `get_query_info` / `check_single_integration` hand on
                                                                                                 (`nr`, "resolver")
* `prepare_integration_select`            — `node.parts[0].lower() == database`                  (`nc`, "cut")

Here every site takes its own `Norm := Name → Name` (a function on whole names: Python's `str.lower` is context
sensitive — final sigma — and `str.casefold` changes lengths — `ß ↦ ss`).  The law the code has to obey is that all
sites use the SAME function; `Lemmas/RouteNorm.lean` proves that this is sufficient for the decision and the cut to be
consistent, for every function whatsoever, and `Props/C11.lean` shows two different functions diverging.
The definitions below are the ones of `Model/Route.lean` for the code as it is (`skip = true`), with `lower` replaced
by the parameter of the site; at `lower` they coincide with them (`*_lower` lemmas).
Core Lean only.
-/
namespace MindsVerif.Route

/-- a case-mapping on names -/
abbrev Norm := Name → Name

/-- a normaliser given by a finite graph (what Python's `str.lower` answers on the names of one case, sent along by
the harness), ASCII `lower` elsewhere — used by the driver -/
def lowerWith (tbl : List (Name × Name)) : Norm := fun n => (lookup n tbl).getD (lower n)

/-- full case folding on the fragment ASCII + `ß` (U+00DF ↦ `ss`) + final sigma (U+03C2 ↦ U+03C3): what `str.casefold`
does where it differs from `str.lower` — the second normaliser of the witnesses -/
def foldC (c : Nat) : List Nat := if c = 223 then [115, 115] else if c = 962 then [963] else [lowerC c]
def fold : Norm := fun n => n.flatMap foldC

/-! ## constructor -/

def integStepG (nk : Norm) (st : List (Name × Option Name) × List Name) : IntegSpec → List (Name × Option Name) × List Name
  | .nm n => ((nk n, none) :: st.1, st.2)
  | .dict n ty ct => if ty ≠ n!"data" then (st.1, nk n :: st.2) else ((nk n, ct) :: st.1, st.2)

def predNsG (nk : Norm) (p : Option Name) : Name :=
  match p with
  | some n => if n.isEmpty then n!"mindsdb" else nk n
  | none => n!"mindsdb"

def predStepListG (nk : Norm) (pns : Name) (st : List (Name × PredInfo) × List Name) (p : PredSpec) :
    List (Name × PredInfo) × List Name :=
  let iname := p.integ.getD pns
  ((nk (dotted iname p.name), ⟨some iname⟩) :: st.1, nk iname :: st.2)

def predStepLegacyG (nk : Norm) (pns : Name) (st : List (Name × PredInfo) × List Name) (p : PredSpec) :
    List (Name × PredInfo) × List Name :=
  if dot ∈ p.name then ((p.name, ⟨some (p.integ.getD (beforeLastDot p.name))⟩) :: st.1, st.2)
  else
    let iname := p.integ.getD pns
    ((nk (dotted iname p.name), ⟨some iname⟩) :: st.1, nk iname :: st.2)

def mkCatalogG (nk : Norm) (i : CatalogIn) : Catalog :=
  let s0 := (i.integrations.getD []).foldl (integStepG nk) ([], [])
  let projects0 := n!"mindsdb" :: s0.2
  let pns := predNsG nk i.predictorNs
  let s1 := match i.preds with
    | .none => ([], projects0)
    | .list ps => ps.foldl (predStepListG nk pns) ([], projects0)
    | .legacy ps => ps.foldl (predStepLegacyG nk pns) ([], projects0)
  { integrations := s0.1, projects := s1.2, predictors := s1.1, defaultNs := i.defaultNs.map nk }

/-! ## resolver side -/

/-- `resolve_database_table` -/
def resolveSimpleG (nr : Norm) (c : Catalog) (parts : List Name) : Option (Name × List Name) :=
  match parts with
  | p :: q :: r =>
    if nr p ∈ c.databases then some (nr p, q :: r)
    else c.defaultNs.map (·, parts)
  | _ => c.defaultNs.map (·, parts)

def lookupModelG (nr : Norm) (c : Catalog) (ns : Option Name) (name : Name) : Option PredInfo :=
  lookup (match ns with
    | some ns => nr (dotted ns name)
    | none => nr name) c.predictors

def getPredictorRG (nr : Norm) (c : Catalog) (rparts : List Name) : Option PredView :=
  match splitVersion rparts with
  | (_, []) => none
  | (version, name :: rest) =>
    (lookupModelG nr c (nsOf c rest) name).map fun info => ⟨info.project, name, version⟩

def isPredictorG (nr : Norm) (c : Catalog) (parts : List Name) : Bool := (getPredictorRG nr c parts.reverse).isSome

/-- `find_objects` of `get_query_info` (the code since 0e75382: a bare CTE name is not looked at) -/
def infoStepG (nr : Norm) (c : Catalog) (ctes : List Name) (qi : QueryInfo) : Item → Option QueryInfo
  | .udf => some { qi with userFunctions := qi.userFunctions + 1 }
  | .native => some { qi with mdbEntities := qi.mdbEntities + 1 }
  | .table parts =>
    if isCteRef ctes parts then some qi else
    match resolveSimpleG nr c parts with
    | none => none
    | some (integ, _) =>
      let qi := if isPredictorG nr c parts then { qi with predictors := qi.predictors + 1 } else qi
      if integ ∈ c.projects then some { qi with mdbEntities := qi.mdbEntities + 1 }
      else some { qi with integrations := insertSet integ qi.integrations }

def queryInfoFromG (nr : Norm) (c : Catalog) (ctes : List Name) (qi : QueryInfo) : List Item → Option QueryInfo
  | [] => some qi
  | it :: r => match infoStepG nr c ctes qi it with
    | none => none
    | some qi' => queryInfoFromG nr c ctes qi' r

def queryInfoG (nr : Norm) (c : Catalog) (ctes : List Name) (items : List Item) : Option QueryInfo :=
  queryInfoFromG nr c ctes ⟨0, [], 0, 0⟩ items

def cteCapturesG (nr : Norm) (ctes : List Name) (items : List Item) : Bool :=
  items.any fun
    | .table parts => decide (parts.length > 1) && (ctes.map nr).contains (nr (parts.getLastD []))
    | _ => false

/-- `QueryPlanner.check_single_integration` -/
def checkSingleG (nr : Norm) (c : Catalog) (ctes : List Name) (items : List Item) : Option Name :=
  match queryInfoG nr c ctes items with
  | some ⟨0, [i], _, 0⟩ =>
    if i ≠ n!"files" ∧ i ≠ n!"views" ∧ c.classType i ≠ some n!"api" ∧ cteCapturesG nr ctes items = false then some i
    else none
  | _ => none

/-- `PlanJoin.check_single_integration` (no user-function test) -/
def checkSingleJoinG (nr : Norm) (c : Catalog) (ctes : List Name) (items : List Item) : Option Name :=
  match queryInfoG nr c ctes items with
  | some ⟨0, [i], _, _⟩ =>
    if i ≠ n!"files" ∧ i ≠ n!"views" ∧ c.classType i ≠ some n!"api" ∧ cteCapturesG nr ctes items = false then some i
    else none
  | _ => none

/-! ## cut side -/

/-- "cut integration part" of `prepare_integration_select` -/
def stripPartsG (nc : Norm) (db : Name) (parts : List Name) (star : Bool) : List Name :=
  match parts with
  | p :: r => if identLen parts star > 1 ∧ nc p = db then r else parts
  | [] => parts

def stripPartsNG (nc : Norm) (db : Name) (names : List Name) (isTab : Bool) (parts : List Name) (star : Bool) : List Name :=
  if keepsLocal db names isTab parts star then parts else stripPartsG nc db parts star

def stripIdentG (nc : Norm) (db : Name) (names : List Name) (par : Par) (s : Slot) (parts : List Name) (star : Bool)
    (alias : Option (List Name)) : List Name × Option (List Name) :=
  let parts' := stripPartsNG nc db names (s == .tbl) parts star
  let alias' :=
    match par, s, alias, star with
    | .sel false, .tgt, none, false =>
      match parts'.getLast? with
      | some l => some [l]
      | none => none
    | _, _, a, _ => a
  (parts', alias')

mutual
def stripG (nc : Norm) (db : Name) (names : List Name) (par : Par) (s : Slot) : Node → Node
  | .ident parts star alias =>
    let r := stripIdentG nc db names par s parts star alias
    .ident r.1 star r.2
  | .leaf => .leaf
  | .native => .native
  | .func u ks => .func u (stripKidsG nc db names par ks)
  | .scope p ks => .scope p (stripKidsG nc db names p ks)
  | .plain ks => .plain (stripKidsG nc db names par ks)
def stripKidsG (nc : Norm) (db : Name) (names : List Name) (par : Par) : Kids → Kids
  | .nil => .nil
  | .cons .skip n ks => .cons .skip n (stripKidsG nc db names par ks)
  | .cons s n ks => .cons s (stripG nc db names par s n) (stripKidsG nc db names par ks)
end

/-- does the identifier carry the qualifier `db` in the eyes of normaliser `n` -/
def qualifiedByG (n : Norm) (db : Name) (parts : List Name) (star : Bool) : Bool :=
  match parts with
  | p :: _ => decide (identLen parts star > 1) && decide (n p = db)
  | [] => false

/-! ## the two pushdown sites -/

/-- `from_query`, pushdown branch: decision by the resolver side, rewrite by the cut side -/
def planTopG (nr nc : Norm) (names : List Name) (c : Catalog) (ctes : List Name) (q : Node) : Option (List Step) :=
  match checkSingleG nr c ctes (visit .arg q) with
  | some i => some [.fetch i (stripG nc i names .noFrom .arg q)]
  | none => none

/-- `PlanJoin.plan`, "send join to integration as is" branch -/
def planJoinG (nr nc : Norm) (names : List Name) (c : Catalog) (ctes : List Name) (q : Node) : Option (List Step) :=
  match checkSingleJoinG nr c ctes (visit .arg q) with
  | some i => some [.fetch i (stripG nc i names .noFrom .arg q)]
  | none => none

/-- routing of a table on the simple path (`get_integration_select_step`) -/
def routeSimpleG (nr nc : Norm) (c : Catalog) (parts : List Name) : Routed :=
  match resolveSimpleG nr c parts with
  | none => .planningError
  | some (db, _) => .fetch db (stripPartsG nc db parts false)

/-! ## a walker callback that does not descend below some node kind (C10 — round 6)

`query_traversal` stops descending below a node when the callback returns a replacement for it.  `find_objects` of
`get_query_info` must therefore return `None` everywhere; `visitStop` is the visit log of a callback that returns the
node itself at user-defined functions — it never sees what is written inside their arguments. -/
mutual
def visitStop (s : Slot) : Node → List Item
  | .ident parts _ _ => if s = .tbl then [.table parts] else []
  | .leaf => []
  | .native => if s = .tbl then [.native] else []
  | .func u ks => if u then [.udf] else visitStopKids ks
  | .scope _ ks => visitStopKids ks
  | .plain ks => visitStopKids ks
def visitStopKids : Kids → List Item
  | .nil => []
  | .cons .skip _ ks => visitStopKids ks
  | .cons s n ks => visitStop s n ++ visitStopKids ks
end

/-! ## the path-string constructor of `Identifier` (C11 — round 6)

`Identifier('a.b')` PARSES its argument (`path_str_to_parts`): on a string without back-quotes the parts are the
maximal runs of non-dot characters.  `Identifier(parts=['a.b'])` keeps the name as it is.  A planner-made identifier
for an existing NAME (an alias that repeats a column name, a table name put back into a select) must be built the
second way. -/
def pathPartsGo : Name → Name → List Name
  | acc, [] => if acc.isEmpty then [] else [acc.reverse]
  | acc, c :: r =>
    if c = dot then (if acc.isEmpty then pathPartsGo [] r else acc.reverse :: pathPartsGo [] r)
    else pathPartsGo (c :: acc) r

/-- `path_str_to_parts` on a string without back-quotes -/
def pathParts (n : Name) : List Name := pathPartsGo [] n

/-- a normaliser given character by character (what Python's `str.lower` answers on each non-ASCII character of one
case, sent along by the harness; ASCII `lowerC` elsewhere) — used by the driver.  (`str.lower` is character-wise except
for a capital sigma, which the generators do not use.) -/
def lowerByChar (tbl : List (Nat × List Nat)) : Norm := fun n =>
  n.flatMap fun c => match tbl.lookup c with
    | some l => l
    | none => [lowerC c]

end MindsVerif.Route
