import MindsVerif.Model.OPM
/-!
M9 (grouping part) — SQLAlchemy's parenthesisation policy as a function on operator trees.

`ClauseElement.self_group(against)` wraps an operand in a `Grouping` iff
`operators.is_precedent(operand.operator, against)`, i.e.

    _PRECEDENCE[operand.operator] <= _PRECEDENCE[against]
    unless  operand.operator is against  and  is_natural_self_precedent(operand.operator)

The renderer never looks at `parentheses` flags of the AST, so user parentheses are dropped first.
SQLAlchemy does not group the bounds of BETWEEN (`_between_impl`: `group=False`); since ec71c9a the
renderer does it itself (`lim.self_group(against=between_op)`), which is what `saParens` transcribes.  `and_` / `or_` flatten nested lists of the same operator, which prints like a
natural self precedent on both sides.

The ranks (`_PRECEDENCE`) and the natural flags are generated (`Gen/SaPrec.lean`).  Core Lean only.
-/
namespace MindsVerif.SaParen
open MindsVerif.OPM

structure Policy where
  rkBin : Nat → Nat
  rkPre : Nat → Nat
  rkBtw : Nat
  natural : Nat → Bool
  /-- the prefix operator groups *every* `BinaryExpression` operand, whatever its rank
  (`BinaryExpression._negate`: `self.self_group()._negate()` when the operator has no `negate`) -/
  preAll : Nat → Bool
  /-- the renderer itself groups both operands of this binary operator against a rank before
  building it: `(rank, exempt)`.  `||` (75aca2f): `arg.self_group(against=operators.mul)` = rank 8, and
  an operand built with `*` itself is exempt (`is_precedent(mul, mul)` is false: natural self precedent) -/
  extra : Nat → Option (Nat × Option Nat)

/-- `_PRECEDENCE` of the top operator of an operand (`none`: column, literal, `Grouping`) -/
def head (π : Policy) : Expr → Option Nat
  | .atom _ => none
  | .paren _ => none
  | .bin o _ _ => some (π.rkBin o)
  | .pre o _ => some (π.rkPre o)
  | .btw _ _ _ => some π.rkBtw

/-- `is_precedent(operand.operator, against)` for an operator of rank `against` that is not the
operand's own operator -/
def needs (π : Policy) (against : Nat) (e : Expr) : Bool :=
  match head π e with
  | none => false
  | some r => decide (r ≤ against)

/-- the operand is built with the very operator `o`, and `o` is a natural self precedent -/
def sameNat (π : Policy) (o : Nat) : Expr → Bool
  | .bin o' _ _ => o' == o && π.natural o
  | _ => false

/-- grouping of an operand of the binary operator `o` -/
def needsB (π : Policy) (o : Nat) (e : Expr) : Bool :=
  !sameNat π o e && (needs π (π.rkBin o) e ||
    (match π.extra o with
      | some (k, x) => needs π k e && !(match x, e with | some x, .bin o' _ _ => o' == x | _, _ => false)
      | none => false))

/-- the rank every bare operand of `o` exceeds (`_PRECEDENCE[o]`, or the renderer's own rank if larger) -/
def grp (π : Policy) (o : Nat) : Nat :=
  match π.extra o with
  | some (k, none) => max k (π.rkBin o)
  | _ => π.rkBin o

def isBin : Expr → Bool
  | .bin _ _ _ => true
  | _ => false

/-- grouping of the operand of the prefix operator `o` -/
def needsP (π : Policy) (o : Nat) (e : Expr) : Bool :=
  needs π (π.rkPre o) e || (π.preAll o && isBin e)

/-- the tree SQLAlchemy prints: user parentheses dropped, `Grouping`s inserted by `self_group` -/
def saParens (π : Policy) : Expr → Expr
  | .atom n => .atom n
  | .paren e => saParens π e
  | .pre o e => .pre o (wrapIf (needsP π o (saParens π e)) (saParens π e))
  | .bin o l r =>
    .bin o (wrapIf (needsB π o (saParens π l)) (saParens π l))
           (wrapIf (needsB π o (saParens π r)) (saParens π r))
  | .btw x y z =>
    .btw (wrapIf (needs π π.rkBtw (saParens π x)) (saParens π x))
         (wrapIf (needs π π.rkBtw (saParens π y)) (saParens π y))
         (wrapIf (needs π π.rkBtw (saParens π z)) (saParens π z))

/-- the trees for which the printed text is claimed to regroup to the *same tree*:
no right operand built with the parent's own natural-self-precedent operator
(`a + (b + c)` is printed `a + b + c`: another tree with the same value, see `Props/C06`). -/
def saOk (π : Policy) : Expr → Bool
  | .atom _ => true
  | .paren e => saOk π e
  | .pre _ e => saOk π e
  | .bin o l r => saOk π l && saOk π r && !sameNat π o (saParens π r)
  | .btw x y z => saOk π x && saOk π y && saOk π z

/-- productions of the fragment: (precedence in the engine, SQLAlchemy rank as an operand, rank its
own operands are grouped against) -/
def prods (π : Policy) (P : Table) (F : Fragment) : List (Prec × Nat × Nat) :=
  F.bins.map (fun o => (P.binProd o, π.rkBin o, grp π o)) ++
    F.pres.map (fun o => (P.preProd o, π.rkPre o, π.rkPre o)) ++ [(P.btwProd, π.rkBtw, π.rkBtw)]

/-- lookahead operator tokens of the fragment, with the same two ranks -/
def las (π : Policy) (P : Table) (F : Fragment) : List (Nat × Nat × Nat) :=
  F.bins.map (fun a => (a, π.rkBin a, grp π a)) ++ [(P.btwTok, π.rkBtw, π.rkBtw)]

/-- **Compatible**: wherever SQLAlchemy's ranks (and the renderer's own groupings) leave an operand
without parentheses, the target engine's precedence table `P` keeps it grouped.
Finite and decidable. -/
def compatible (π : Policy) (P : Table) (F : Fragment) : Bool :=
  (prods π P F).all (fun pr => (las π P F).all fun la =>
    (!decide (la.2.2 < pr.2.1) || resolve pr.1 (P.tokLevel la.1) == .reduce) &&
    (!decide (pr.2.2 < la.2.1) || resolve pr.1 (P.tokLevel la.1) == .shift)) &&
  F.bins.all (fun o => !π.natural o || resolve (P.binProd o) (P.tokLevel o) == .reduce) &&
  F.pres.all (fun o => P.isPre o) &&
  F.bins.all (fun o => o != P.btwTok) &&
  F.bins.contains P.andTok && decide (grp π P.andTok < π.rkBtw)

/-- tokens as text, for the driver -/
def render (name : Nat → String) (btw and_ : String) : Expr → String
  | .atom n => s!"c{n}"
  | .paren e => "(" ++ render name btw and_ e ++ ")"
  | .pre o e =>
    let s := render name btw and_ e
    if name o == "-" then "-" ++ s else name o ++ " " ++ s
  | .bin o l r => render name btw and_ l ++ " " ++ name o ++ " " ++ render name btw and_ r
  | .btw x y z =>
    render name btw and_ x ++ " " ++ btw ++ " " ++ render name btw and_ y ++ " " ++ and_ ++ " " ++
      render name btw and_ z

end MindsVerif.SaParen
