/-
C01 / L3 — the SELECT skeleton.  Core Lean only.

Transcribes
* the clause-accumulating grammar rules `select : select <KW> <payload>` of the three parsers
  (`mindsdb_sql/parser/parser.py`, `dialects/mysql/parser.py`, `dialects/mindsdb/parser.py`):
  every rule takes the `Select` built so far, calls `ensure_select_keyword_order(select, OP)`,
  performs its own payload check and assigns one (LIMIT a, b: two) attribute(s);
* `ensure_select_keyword_order` (`mindsdb_sql/parser/utils.py`) with Python truthiness of the
  attributes (`None`, `[]` are false; every AST node and the string `'FOR UPDATE'` are true);
* the clause order of `Select.get_string` (`mindsdb_sql/parser/ast/select/select.py`).

Payloads (`expr`, `from_table_aliased`, `constant`, `ordering_term`, `kw_parameter_list`, `ctes`) are
opaque values of a type `E`; the two payload tests the actions make are the functions of `Cfg`.
Also: set-operation chains (`union` rules of the MindsDB grammar and `CombiningQuery.get_string`).
-/
namespace MindsVerif.SelectSkel

/-- the keys of `op_to_attr` in `ensure_select_keyword_order` -/
inductive Op where
  | from_ | where_ | groupBy | having | orderBy | limit | offset | mode
  deriving DecidableEq, Repr

/-- `Select` restricted to the attributes the clause rules touch (alias / parentheses are L2 matters) -/
structure Sel (E : Type) where
  cte : Option E
  distinct : Bool
  targets : List E
  from_ : Option E
  where_ : Option E
  groupBy : Option (List E)
  having : Option E
  orderBy : Option (List E)
  limit : Option E
  offset : Option E
  mode : Bool
  usng : Option E
  deriving DecidableEq, Repr

/-- the payload tests of the actions: `isinstance(expr, Operation)` (WHERE, HAVING) and
`isinstance(constant.value, int)` (LIMIT, OFFSET) -/
structure Cfg (E : Type) where
  isOp : E → Bool
  isInt : E → Bool

/-- Python truthiness of a list-valued attribute -/
def truthyList {E : Type} : Option (List E) → Bool
  | some (_ :: _) => true
  | _ => false

/-- `op_to_attr[op]` taken as a truth value -/
def Sel.has {E : Type} (s : Sel E) : Op → Bool
  | .from_ => s.from_.isSome
  | .where_ => s.where_.isSome
  | .groupBy => truthyList s.groupBy
  | .having => s.having.isSome
  | .orderBy => truthyList s.orderBy
  | .limit => s.limit.isSome
  | .offset => s.offset.isSome
  | .mode => s.mode

def precedence : List Op := [.from_, .where_, .groupBy, .having, .orderBy, .limit, .offset, .mode]

def requirements : Op → List Op
  | .where_ => [.from_]
  | .groupBy => [.from_]
  | .orderBy => [.from_]
  | _ => []

inductive Err where
  | duplicate (op : Op)            -- "Duplicate {op} clause"
  | requires (op req : Op)         -- "{op} requires {req}"
  | before (op next : Op)          -- "{op} must go before {next}"
  | notOperation (op : Op)         -- WHERE / HAVING payload is not an Operation
  | notInt (op : Op)               -- LIMIT / OFFSET payload is not an int constant
  | offsetTwice                    -- "OFFSET already specified for this query"
  deriving DecidableEq, Repr

/-- `precedence[precedence.index(op):]` -/
def fromOp (op : Op) : List Op := precedence.dropWhile (· != op)

/-- `ensure_select_keyword_order(select, op)`; `none` = passes -/
def guard {E : Type} (s : Sel E) (op : Op) : Option Err :=
  if s.has op then some (.duplicate op)
  else match (requirements op).find? (fun r => !s.has r) with
    | some r => some (.requires op r)
    | none =>
      match (fromOp op).find? s.has with
      | some n => some (.before op n)
      | none => none

/-- one clause = one application of a rule `select : select KW payload` -/
inductive Clause (E : Type) where
  | from_ (e : E)
  | where_ (e : E)
  | groupBy (e : E) (es : List E)       -- `expr_list` is never empty
  | having (e : E)
  | orderBy (e : E) (es : List E)       -- `ordering_terms` is never empty
  | limit (e : E)
  | limit2 (off lim : E)                -- LIMIT off, lim
  | offset (e : E)
  | forUpdate
  | usng (u : E)
  deriving DecidableEq, Repr

def check {E : Type} (s : Sel E) (op : Op) : Except Err Unit :=
  match guard s op with
  | some e => .error e
  | none => .ok ()

/-- the semantic action of each rule, checks in source order -/
def step {E : Type} (c : Cfg E) (s : Sel E) : Clause E → Except Err (Sel E)
  | .from_ e => do check s .from_; pure { s with from_ := some e }
  | .where_ e => do
      check s .where_
      if c.isOp e then pure { s with where_ := some e } else .error (.notOperation .where_)
  | .groupBy e es => do check s .groupBy; pure { s with groupBy := some (e :: es) }
  | .having e => do
      check s .having
      if c.isOp e then pure { s with having := some e } else .error (.notOperation .having)
  | .orderBy e es => do check s .orderBy; pure { s with orderBy := some (e :: es) }
  | .limit e => do
      check s .limit
      if c.isInt e then pure { s with limit := some e } else .error (.notInt .limit)
  | .limit2 off lim => do
      check s .limit
      if c.isInt off && c.isInt lim then pure { s with offset := some off, limit := some lim }
      else .error (.notInt .limit)
  | .offset e => do
      if s.offset.isSome then .error .offsetTwice else
      check s .offset
      if c.isInt e then pure { s with offset := some e } else .error (.notInt .offset)
  | .forUpdate => do check s .mode; pure { s with mode := true }
  | .usng u => pure { s with usng := some u }

/-- `SELECT [DISTINCT] result_columns` (and `ctes select`, which only sets `cte`) -/
def init {E : Type} (cte : Option E) (distinct : Bool) (targets : List E) : Sel E :=
  { cte := cte, distinct := distinct, targets := targets, from_ := none, where_ := none, groupBy := none,
    having := none, orderBy := none, limit := none, offset := none, mode := false, usng := none }

def foldClauses {E : Type} (c : Cfg E) : Sel E → List (Clause E) → Except Err (Sel E)
  | s, [] => .ok s
  | s, x :: xs => match step c s x with
    | .ok s' => foldClauses c s' xs
    | .error e => .error e

/-- the parser on a skeleton: head, then the clause rules left to right -/
def parseSel {E : Type} (c : Cfg E) (cte : Option E) (distinct : Bool) (targets : List E)
    (cs : List (Clause E)) : Except Err (Sel E) :=
  foldClauses c (init cte distinct targets) cs

def optList {E : Type} (f : E → List E → Clause E) : Option (List E) → List (Clause E)
  | some (e :: es) => [f e es]
  | _ => []

def opt {E : Type} (f : E → Clause E) : Option E → List (Clause E)
  | some e => [f e]
  | none => []

/-- clause order of `Select.get_string` (LIMIT and OFFSET are always printed separately) -/
def Sel.clauses {E : Type} (s : Sel E) : List (Clause E) :=
  opt .from_ s.from_ ++ (opt .where_ s.where_ ++ (optList .groupBy s.groupBy ++ (opt .having s.having ++
    (optList .orderBy s.orderBy ++ (opt .limit s.limit ++ (opt .offset s.offset ++
      ((if s.mode then [Clause.forUpdate] else []) ++ opt .usng s.usng)))))))

/-- what the clause rules guarantee about every record they build (and what printing needs) -/
def Good {E : Type} (c : Cfg E) (s : Sel E) : Bool :=
  (!s.where_.isSome || s.from_.isSome) && (truthyList s.groupBy || s.groupBy.isNone) &&
  (!s.groupBy.isSome || s.from_.isSome) && (truthyList s.orderBy || s.orderBy.isNone) &&
  (!s.orderBy.isSome || s.from_.isSome) &&
  (match s.where_ with | some e => c.isOp e | none => true) &&
  (match s.having with | some e => c.isOp e | none => true) &&
  (match s.limit with | some e => c.isInt e | none => true) &&
  (match s.offset with | some e => c.isInt e | none => true)

/-! ### set operations (MindsDB grammar, since /repo bce2da8)
`union : select OP [ALL] select | union OP [ALL] select`, `select : ( select ) | ( union )`:
`( select )` returns the Select unchanged, `( union )` returns the set operation with `parentheses = True`;
`CombiningQuery.to_string = maybe_add_parentheses(left \n OP [ALL] \n right)`.
The parser is a stack machine over the token list: one frame per open parenthesis, holding the value built so far
and the pending operator (this is what the LALR parser does with the two `union` rules: left-nested chains). -/

inductive SetOp where
  | union | intersect | except
  deriving DecidableEq, Repr

inductive Q where
  | sel (n : Nat)
  | comb (op : SetOp) (unique : Bool) (paren : Bool) (l r : Q)
  deriving DecidableEq, Repr

inductive QTok where
  | sel (n : Nat)
  | op (o : SetOp) (unique : Bool)
  | lp
  | rp
  deriving DecidableEq, Repr

/-- `( select )` / `( union )` -/
def markParen : Q → Q
  | .sel n => .sel n
  | .comb o u _ l r => .comb o u true l r

structure Frame where
  acc : Option Q
  pend : Option (SetOp × Bool)
  deriving DecidableEq, Repr

def Frame.empty : Frame := ⟨none, none⟩

/-- an operand (a `select`) arrives in a frame -/
def feed (f : Frame) (v : Q) : Option Frame :=
  match f.acc, f.pend with
  | none, none => some ⟨some v, none⟩
  | some a, some (o, u) => some ⟨some (.comb o u false a v), none⟩
  | _, _ => none

def stepQ : List Frame → QTok → Option (List Frame)
  | f :: st, .sel n => (feed f (.sel n)).map (· :: st)
  | st, .lp => some (Frame.empty :: st)
  | ⟨some q, none⟩ :: f :: st, .rp => (feed f (markParen q)).map (· :: st)
  | ⟨some a, none⟩ :: st, .op o u => some (⟨some a, some (o, u)⟩ :: st)
  | _, _ => none

def runQ : List Frame → List QTok → Option (List Frame)
  | st, [] => some st
  | st, t :: ts => match stepQ st t with
    | some st' => runQ st' ts
    | none => none

def finishQ : List Frame → Option Q
  | [⟨some q, none⟩] => some q
  | _ => none

def parseQ (toks : List QTok) : Option Q :=
  match runQ [Frame.empty] toks with
  | some st => finishQ st
  | none => none

/-- the text inside the node's own parentheses -/
def printBody : Q → List QTok
  | .sel n => [.sel n]
  | .comb o u _ l r =>
    (match l with
      | .sel n => [.sel n]
      | .comb _ _ true _ _ => .lp :: printBody l ++ [.rp]
      | .comb _ _ false _ _ => printBody l) ++
    (.op o u ::
      (match r with
        | .sel n => [.sel n]
        | .comb _ _ true _ _ => .lp :: printBody r ++ [.rp]
        | .comb _ _ false _ _ => printBody r))

/-- `to_string` -/
def printQ : Q → List QTok
  | .sel n => [.sel n]
  | .comb o u true l r => .lp :: printBody (.comb o u true l r) ++ [.rp]
  | .comb o u false l r => printBody (.comb o u false l r)

/-- a `select` operand: a plain SELECT or a parenthesised set operation -/
def isOperand : Q → Bool
  | .sel _ => true
  | .comb _ _ p _ _ => p

/-- what the rules can build: the right operand of every set operation is a `select` -/
def wfQ : Q → Bool
  | .sel _ => true
  | .comb _ _ _ l r => wfQ l && wfQ r && isOperand r

end MindsVerif.SelectSkel
