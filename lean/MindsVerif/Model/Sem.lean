/-!
# M6 `Sem` (fragment for C08) — SQL values with NULL, 3-valued logic, rows, tables, joins of every kind,
filter, DISTINCT, `IN`-list semi-join filter, LIMIT/OFFSET, and a literal transcription of the pushdown
decisions of `mindsdb_sql/planner/plan_join.py` (`check_query_conditions`, `check_use_limit`,
`get_filters_from_join_conditions`, `process_table`) for the two-table fragment.

Core Lean only.  No floats.
-/
namespace MindsVerif.Sem

/-! ## values and three-valued logic -/

inductive Val
  | null
  | int (i : Int)
  | str (s : String)
  deriving DecidableEq, Repr, Inhabited

inductive TV
  | t | f | u
  deriving DecidableEq, Repr, Inhabited

def TV.and : TV → TV → TV
  | .f, _ => .f
  | _, .f => .f
  | .t, .t => .t
  | _, _ => .u

def TV.or : TV → TV → TV
  | .t, _ => .t
  | _, .t => .t
  | .f, .f => .f
  | _, _ => .u

def TV.not : TV → TV
  | .t => .f
  | .f => .t
  | .u => .u

def TV.ofBool (b : Bool) : TV := if b then .t else .f

inductive CmpOp
  | eq | ne | lt | le | gt | ge
  deriving DecidableEq, Repr

/-- comparison of two non-NULL values: integers by value, strings lexicographically, an integer sorts before
every string (sqlite's storage-class order) -/
def cmpNN (op : CmpOp) (ord : Ordering) : Bool :=
  match op, ord with
  | .eq, .eq => true | .eq, _ => false
  | .ne, .eq => false | .ne, _ => true
  | .lt, .lt => true | .lt, _ => false
  | .le, .gt => false | .le, _ => true
  | .gt, .gt => true | .gt, _ => false
  | .ge, .lt => false | .ge, _ => true

def ordOf {α : Type} [DecidableEq α] [LT α] [DecidableRel (α := α) (· < ·)] (a b : α) : Ordering :=
  if a = b then .eq else if a < b then .lt else .gt

def ordVal : Val → Val → Ordering
  | .int a, .int b => ordOf a b
  | .str a, .str b => ordOf a b
  | .int _, .str _ => .lt
  | .str _, .int _ => .gt
  | _, _ => .eq

/-- SQL comparison: NULL on either side gives UNKNOWN -/
def cmpVal (op : CmpOp) : Val → Val → TV
  | .null, _ => .u
  | _, .null => .u
  | a, b => TV.ofBool (cmpNN op (ordVal a b))

/-- SQL `v IN (vs)` -/
def sqlIn (v : Val) (vs : List Val) : TV :=
  if v = .null then .u
  else if v ∈ vs then .t
  else if Val.null ∈ vs then .u
  else .f

/-! ## rows, tables -/

/-- a column is (table index, column index) -/
abbrev Col := Nat × Nat
/-- a row is an association list -/
abbrev Row := List (Col × Val)
abbrev Table := List Row

def Row.get (r : Row) (c : Col) : Val :=
  match r.lookup c with
  | some v => v
  | none => .null

/-- SELECT DISTINCT on a list of values: first occurrences, in order -/
def distinct : List Val → List Val
  | [] => []
  | x :: xs => x :: (distinct xs).filter (fun y => !(y == x))

/-! ## joins, generic in the row combiner `mk` (`fun l r => l ++ r` for SQL rows) -/

section joins
variable {α β γ : Type}

def innerJoin (on : α → β → Bool) (mk : α → β → γ) (L : List α) (R : List β) : List γ :=
  L.flatMap fun l => (R.filter (on l)).map (mk l)

/-- rows of one left row in a LEFT JOIN: its matches, or itself padded with the all-NULL right row -/
def leftRows (on : α → β → Bool) (mk : α → β → γ) (nr : β) (R : List β) (l : α) : List γ :=
  if (R.filter (on l)).isEmpty then [mk l nr] else (R.filter (on l)).map (mk l)

def leftJoin (on : α → β → Bool) (mk : α → β → γ) (nr : β) (L : List α) (R : List β) : List γ :=
  L.flatMap (leftRows on mk nr R)

/-- right rows without any partner, padded with the all-NULL left row -/
def unmatchedR (on : α → β → Bool) (mk : α → β → γ) (nl : α) (L : List α) (R : List β) : List γ :=
  (R.filter fun r => !(L.any fun l => on l r)).map (mk nl)

def rightJoin (on : α → β → Bool) (mk : α → β → γ) (nl : α) (L : List α) (R : List β) : List γ :=
  innerJoin on mk L R ++ unmatchedR on mk nl L R

def fullJoin (on : α → β → Bool) (mk : α → β → γ) (nl : α) (nr : β) (L : List α) (R : List β) : List γ :=
  leftJoin on mk nr L R ++ unmatchedR on mk nl L R

end joins

/-- the fetch filter `c IN (SELECT DISTINCT c' FROM <left result>)` as the planner emits it: keeps a row iff the
IN predicate is TRUE -/
def semi (cR : Row → Val) (keys : List Val) (r : Row) : Bool := sqlIn (cR r) keys == .t

/-- LIMIT n OFFSET k -/
def limitOffset {α : Type} (n : Option Nat) (k : Nat) (rows : List α) : List α :=
  match n with
  | none => rows.drop k
  | some n => (rows.drop k).take n

/-- GROUP BY key with COUNT(*): distinct keys in first-occurrence order with their multiplicity -/
def groupCount (k : Row → Val) (T : Table) : List (Val × Nat) :=
  (distinct (T.map k)).map fun v => (v, (T.filter fun r => k r == v).length)

/-! ## condition trees of the two-table fragment

Columns are `(side, index)`: side 0 = left table, side 1 = right table.  A joined row is the pair `(l, r)`;
plain table rows are lists of values (`List Val`, column index = position). -/

abbrev TRow := List Val

def TRow.col (r : TRow) (i : Nat) : Val := r.getD i .null

inductive Expr
  | cmpC (op : CmpOp) (side : Nat) (col : Nat) (k : Val)   -- column <op> constant
  | cmpCC (op : CmpOp) (c0 : Nat) (c1 : Nat)                -- left.c0 <op> right.c1
  | isNull (side : Nat) (col : Nat)                         -- `col IS NULL` (BinaryOperation 'is' with a NullConstant)
  | and (a b : Expr)
  | or (a b : Expr)
  | not (a : Expr)
  deriving DecidableEq, Repr

def colOf (side col : Nat) (l r : TRow) : Val := if side = 0 then l.col col else r.col col

def Expr.eval : Expr → TRow → TRow → TV
  | .cmpC op s c k, l, r => cmpVal op (colOf s c l r) k
  | .cmpCC op c0 c1, l, r => cmpVal op (l.col c0) (r.col c1)
  | .isNull s c, l, r => TV.ofBool (colOf s c l r == .null)
  | .and a b, l, r => (a.eval l r).and (b.eval l r)
  | .or a b, l, r => (a.eval l r).or (b.eval l r)
  | .not a, l, r => (a.eval l r).not

/-- WHERE / ON keep a row iff the condition is TRUE -/
def Expr.holds (e : Expr) (l r : TRow) : Bool := e.eval l r == .t

/-! ## transcription of the pushdown decisions (plan_join.py)

`check_query_conditions` (after repo commit 8fa2a67) records the operator of every `BinaryOperation` of the WHERE
tree in `binary_ops` (walker, whole tree), but offers to `check_node_condition` only the TOP-LEVEL conjuncts of WHERE
(recursion through `and` nodes only): nothing under NOT, OR, a function or arithmetic is attributed to a table.
`process_table` (and, since 1a1b62e, `process_subselect`) drops the collected conditions if the string `'or'` occurs
anywhere in `binary_ops`. -/

/-- the comparisons `check_node_condition` stores, in visiting order: top-level conjuncts only -/
def Expr.collected : Expr → List Expr
  | .cmpC op s c k => [.cmpC op s c k]
  | .isNull s c => [.isNull s c]
  | .and a b => a.collected ++ b.collected
  | _ => []

/-- `'or' in binary_ops` (the walker descends everywhere, also below NOT) -/
def Expr.hasOr : Expr → Bool
  | .and a b => a.hasOr || b.hasOr
  | .or _ _ => true
  | .not a => a.hasOr
  | _ => false

def Expr.side : Expr → Nat
  | .cmpC _ s _ _ => s
  | .isNull s _ => s
  | _ => 2

/-- conditions pushed into the fetch of table `side` (`process_table`) -/
def pushedFor (side : Nat) : Option Expr → List Expr
  | none => []
  | some w => if w.hasOr then [] else w.collected.filter fun e => e.side == side

def holdsAll (es : List Expr) (l r : TRow) : Bool := es.all fun e => e.holds l r

inductive JoinKind
  | inner | left | right | full | leftOuter
  deriving DecidableEq, Repr

/-- `join.join_type.upper() != 'LEFT JOIN'`: only the spelling `LEFT JOIN` counts -/
def JoinKind.isLeftSpelling : JoinKind → Bool
  | .left => true
  | _ => false

/-- items of `join_sequence`: table, table, join, table, join, … -/
inductive SeqItem
  | table (plain : Bool)      -- plain = neither a model nor a sub-select
  | join (k : JoinKind)
  deriving DecidableEq, Repr

/-- the loop of `check_use_limit`; state = (join seen so far, use_limit).  Note that `join` is updated only when
a Join item is *passed*, and the Join item of a table comes *after* that table in the sequence: the second table
is therefore never checked, and table k+1 is checked against the join of table k. -/
def useLimitLoop : List SeqItem → Option JoinKind → Bool → Bool
  | [], _, u => u
  | .table plain :: rest, j, u =>
    let u' := match plain, j with
      | true, some k => if k.isLeftSpelling then u else false
      | _, _ => u
    useLimitLoop rest j u'
  | .join k :: rest, _, u => useLimitLoop rest (some k) u

/-- `check_use_limit` (after repo commit 1052add): LIMIT / ORDER BY may go into the first fetch only if the query has no
HAVING, no GROUP BY, no DISTINCT and no aggregate target (the fragment's `groupBy` flag stands for all of the last
three: its grouped form is `SELECT t0.x, count(*) … GROUP BY t0.x`); whether a LIMIT exists is not tested (without one
there is nothing to copy).  The join-kind loop is unchanged. -/
def checkUseLimit (hasHaving hasGroupBy _hasLimit : Bool) (seq : List SeqItem) : Bool :=
  if (!hasHaving) && (!hasGroupBy) then useLimitLoop seq none true else false

/-! ## the two-table fragment: query, plan skeleton, reference semantics, plan execution

`SELECT * FROM t0 <kind> JOIN t1 ON t0.c0 = t1.c1 [WHERE w] [GROUP BY …] [LIMIT n]` -/

structure Q2 where
  kind : JoinKind
  c0 : Nat
  c1 : Nat
  w : Option Expr
  limit : Option Nat
  groupBy : Bool := false
  having : Bool := false
  deriving DecidableEq, Repr

structure DB where
  t0 : List TRow
  t1 : List TRow
  n0 : Nat      -- number of columns (for the all-NULL rows of outer joins)
  n1 : Nat
  deriving DecidableEq, Repr

def nullRow (n : Nat) : TRow := List.replicate n .null

def eqOn (c0 c1 : Nat) (l r : TRow) : Bool := cmpVal .eq (l.col c0) (r.col c1) == .t

def joinK (k : JoinKind) (on : TRow → TRow → Bool) (db : DB) (L R : List TRow) : List (TRow × TRow) :=
  match k with
  | .inner => innerJoin on Prod.mk L R
  | .left | .leftOuter => leftJoin on Prod.mk (nullRow db.n1) L R
  | .right => rightJoin on Prod.mk (nullRow db.n0) L R
  | .full => fullJoin on Prod.mk (nullRow db.n0) (nullRow db.n1) L R

def whereOf (w : Option Expr) (p : TRow × TRow) : Bool :=
  match w with
  | none => true
  | some e => e.holds p.1 p.2

def limitOf {α : Type} (n : Option Nat) (rows : List α) : List α :=
  match n with
  | none => rows
  | some n => rows.take n

/-- the original query on one engine -/
def evalQuery (q : Q2) (db : DB) : List (TRow × TRow) :=
  limitOf q.limit ((joinK q.kind (eqOn q.c0 q.c1) db db.t0 db.t1).filter (whereOf q.w))

/-- plan skeleton as `PlanJoinTablesQuery.plan_join_tables` emits it for the fragment -/
structure Plan2 where
  push0 : List Expr          -- WHERE comparisons in the fetch of t0
  limit0 : Option Nat        -- LIMIT in the fetch of t0
  push1 : List Expr          -- WHERE comparisons in the fetch of t1
  semi1 : Bool               -- `c1 IN (SELECT DISTINCT c0 FROM fetch0)` in the fetch of t1
  kind : JoinKind
  c0 : Nat
  c1 : Nat
  w : Option Expr            -- the outer QueryStep re-applies the whole WHERE …
  limit : Option Nat         -- … and the LIMIT
  deriving DecidableEq, Repr

/-- `get_filters_from_join_conditions` (after repo commit 34967fc): no restriction (IN filter, ON constants) of the
right table of a RIGHT / FULL join; only top-level conjuncts of ON are looked at (the fragment's ON is one equality) -/
def semiAllowed : JoinKind → Bool
  | .right => false
  | .full => false
  | _ => true

/-- a pushed comparison that is never TRUE on an all-NULL row (`col <op> const`); `col IS NULL` is not
(`filter_accepts_null`: a BinaryOperation with operator `is`) -/
def Expr.nullRejecting : Expr → Bool
  | .cmpC _ _ _ _ => true
  | _ => false

/-- `mark_nullable_tables` (repo commit 15097fa) for two tables: LEFT / FULL pad the right table with NULLs, RIGHT / FULL
the left one -/
def nullableSide : JoinKind → Nat → Bool
  | .left, 1 => true
  | .leftOuter, 1 => true
  | .full, 1 => true
  | .right, 0 => true
  | .full, 0 => true
  | _, _ => false

/-- conditions pushed into the fetch of table `side` (`process_table` after 15097fa): on the null-supplying side only the
filters that reject NULLs are applied before the join -/
def pushedForK (k : JoinKind) (side : Nat) (w : Option Expr) : List Expr :=
  (pushedFor side w).filter fun e => !(nullableSide k side) || e.nullRejecting

/-- the top-level conjuncts of WHERE (`where_conjuncts` of `check_query_conditions`) -/
def Expr.conjuncts : Expr → List Expr
  | .and a b => a.conjuncts ++ b.conjuncts
  | e => [e]

/-- `where_is_applied_before_join` (repo commit f75cd04) for the first table: every top-level conjunct of WHERE is among
the filters evaluated in the fetch of table 0 -/
def whereApplied (k : JoinKind) (w : Option Expr) : Bool :=
  match w with
  | none => true
  | some e => e.conjuncts.all fun c => decide (c ∈ pushedForK k 0 w)

def plan (q : Q2) : Plan2 :=
  let useLimit := checkUseLimit q.having q.groupBy q.limit.isSome [.table true, .table true, .join q.kind]
  { push0 := pushedForK q.kind 0 q.w
    limit0 := if useLimit && whereApplied q.kind q.w then q.limit else none
    push1 := pushedForK q.kind 1 q.w
    semi1 := semiAllowed q.kind   -- ON is a single top-level equality: IN filter unless the join is RIGHT / FULL
    kind := q.kind, c0 := q.c0, c1 := q.c1, w := q.w, limit := q.limit }

/-! ### decidable side conditions of the fragment theorem (`Props/C08.lean: C08_partial_model`) -/

/-- a conjunction of column-vs-constant / IS NULL tests on table `side` only -/
def Expr.pureConj (side : Nat) : Expr → Bool
  | .cmpC _ s _ _ => s == side
  | .isNull s _ => s == side
  | .and a b => a.pureConj side && b.pureConj side
  | _ => false

/-- WHERE is absent or completely evaluated inside the fetch of the first table -/
def whereLeftOnly : Option Expr → Bool
  | none => true
  | some e => e.pureConj 0

def JoinKind.isLeft : JoinKind → Bool
  | .left => true
  | .leftOuter => true
  | _ => false

/-- LIMIT is either not pushed, or pushed below a LEFT join (WHERE is then completely evaluated in the first fetch:
the planner pushes LIMIT only when `whereApplied`) -/
def limitSound (q : Q2) : Bool :=
  (plan q).limit0.isNone || q.kind.isLeft

/-- the exact (decidable) hypothesis of `C08_partial_model`; since repo commit 15097fa no condition on outer joins is
left (filters that accept NULLs are no longer pushed to a null-supplying side), only the LIMIT clause -/
def planSound (q : Q2) : Bool := limitSound q

/-- step-by-step execution of the skeleton per the step docstrings -/
def execPlan (p : Plan2) (db : DB) : List (TRow × TRow) :=
  let f0 := limitOf p.limit0 (db.t0.filter fun l => holdsAll p.push0 l [])
  let keys := distinct (f0.map fun l => l.col p.c0)
  let f1 := db.t1.filter fun r => holdsAll p.push1 [] r && (!p.semi1 || sqlIn (r.col p.c1) keys == .t)
  limitOf p.limit ((joinK p.kind (eqOn p.c0 p.c1) db f0 f1).filter (whereOf p.w))

end MindsVerif.Sem
