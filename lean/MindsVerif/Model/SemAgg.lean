import MindsVerif.Model.Sem
/-!
# M6 `Sem`, select lists with aggregates (C08, round 5)

`PlanJoinTablesQuery.check_use_limit` and `QueryPlanner.plan_api_db_select` decide "is this an aggregated query?" by walking the
WHOLE select list with `query_traversal` (every `Function` node whose lower-cased name is one of `count sum min max avg std`,
at any depth: operands of arithmetic / comparisons, arguments of scalar functions, `CAST`, the condition / results / default of
`CASE`).  An aggregated query without GROUP BY returns ONE row computed over all joined rows; its LIMIT counts result rows, so it
may not be copied into the fetch of the first table (or into the api fetch).

This file: the target trees (`Tgt`), the recogniser as a structural recursion (`Tgt.hasAgg`, `selHasAgg`), the shallow variant
that only looks at the top node (`Tgt.topAgg`, what a "shared helper" refactoring did), evaluation of a select list over the
joined rows (`selectRows`: row-wise without aggregates, one row with), and the two-table fragment with a select list (`QA`,
`planA`, `execPlanA`, `evalQueryA`) on top of `Sem.plan` / `Sem.execPlan` / `Sem.evalQuery`.

Core Lean only.  Integers and NULL; `avg` / `std` are recognised but not evaluated (`.null`), the streams never evaluate them.
-/
namespace MindsVerif.Sem

/-- the six names `is_aggregate` knows -/
inductive AggFn
  | count | sum | min | max | avg | std
  deriving DecidableEq, Repr

/-- `node.op.lower() in ('count', 'sum', 'min', 'max', 'avg', 'std')` -/
def AggFn.ofName (name : String) : Option AggFn :=
  match name.toLower with
  | "count" => some .count
  | "sum" => some .sum
  | "min" => some .min
  | "max" => some .max
  | "avg" => some .avg
  | "std" => some .std
  | _ => none

inductive ArOp
  | add | sub | mul
  deriving DecidableEq, Repr

/-- a select-list entry -/
inductive Tgt
  | star                               -- `*` (argument of `count`)
  | col (side col : Nat)               -- Identifier
  | const (v : Val)                    -- Constant / NullConstant
  | agg (f : AggFn) (a : Tgt)          -- Function whose lower-cased name is one of the six
  | fn1 (a : Tgt)                      -- any other Function with one argument (evaluated as `abs`)
  | fn2 (a b : Tgt)                    -- any other Function with two arguments (evaluated as `coalesce`)
  | arith (op : ArOp) (a b : Tgt)      -- BinaryOperation `+ - *`
  | cmp (op : CmpOp) (a b : Tgt)       -- BinaryOperation comparison (value 1 / 0 / NULL)
  | cast (a : Tgt)                     -- TypeCast (`CAST(a AS integer)`)
  | case (c t e : Tgt)                 -- `CASE WHEN c THEN t ELSE e END`
  deriving DecidableEq, Repr

/-- `query_traversal(list(query.targets), is_aggregate)` found something: an aggregate call ANYWHERE in the tree -/
def Tgt.hasAgg : Tgt → Bool
  | .agg _ _ => true
  | .fn1 a => a.hasAgg
  | .fn2 a b => a.hasAgg || b.hasAgg
  | .arith _ a b => a.hasAgg || b.hasAgg
  | .cmp _ a b => a.hasAgg || b.hasAgg
  | .cast a => a.hasAgg
  | .case c t e => c.hasAgg || t.hasAgg || e.hasAgg
  | _ => false

/-- the shallow test `isinstance(target, Function) and target.op.lower() in AGGREGATE_FUNCTIONS` (top node only) -/
def Tgt.topAgg : Tgt → Bool
  | .agg _ _ => true
  | _ => false

/-- all sub-terms of a target, the term itself first -/
def Tgt.subterms : Tgt → List Tgt
  | .agg f a => .agg f a :: a.subterms
  | .fn1 a => .fn1 a :: a.subterms
  | .fn2 a b => .fn2 a b :: (a.subterms ++ b.subterms)
  | .arith o a b => .arith o a b :: (a.subterms ++ b.subterms)
  | .cmp o a b => .cmp o a b :: (a.subterms ++ b.subterms)
  | .cast a => .cast a :: a.subterms
  | .case c t e => .case c t e :: (c.subterms ++ t.subterms ++ e.subterms)
  | t => [t]

def selHasAgg (ts : List Tgt) : Bool := ts.any Tgt.hasAgg
def selTopAgg (ts : List Tgt) : Bool := ts.any Tgt.topAgg

/-! ## evaluation -/

def arithV (op : ArOp) : Val → Val → Val
  | .int a, .int b => match op with
    | .add => .int (a + b)
    | .sub => .int (a - b)
    | .mul => .int (a * b)
  | _, _ => .null

def absV : Val → Val
  | .int a => .int (Int.ofNat a.natAbs)
  | _ => .null

def coalesceV : Val → Val → Val
  | .null, b => b
  | a, _ => a

def cmpV (op : CmpOp) (a b : Val) : Val :=
  match cmpVal op a b with
  | .t => .int 1
  | .f => .int 0
  | .u => .null

def truthy : Val → Bool
  | .int i => i != 0
  | _ => false

/-- row level: the value of a target on one joined row (an aggregate call has no row-level value) -/
def Tgt.evalR : Tgt → TRow → TRow → Val
  | .star, _, _ => .null
  | .col s c, l, r => colOf s c l r
  | .const v, _, _ => v
  | .agg _ _, _, _ => .null
  | .fn1 a, l, r => absV (a.evalR l r)
  | .fn2 a b, l, r => coalesceV (a.evalR l r) (b.evalR l r)
  | .arith o a b, l, r => arithV o (a.evalR l r) (b.evalR l r)
  | .cmp o a b, l, r => cmpV o (a.evalR l r) (b.evalR l r)
  | .cast a, l, r => a.evalR l r
  | .case c t e, l, r => if truthy (c.evalR l r) then t.evalR l r else e.evalR l r

def nonNull (vs : List Val) : List Val := vs.filter fun v => !(v == .null)

def sumInts : List Val → Int
  | [] => 0
  | .int i :: vs => i + sumInts vs
  | _ :: vs => sumInts vs

/-- the smaller / larger of two non-NULL values in sqlite's order -/
def pickV (wantMax : Bool) (a b : Val) : Val :=
  match ordVal a b with
  | .lt => if wantMax then b else a
  | .gt => if wantMax then a else b
  | .eq => a

def foldV (wantMax : Bool) : List Val → Val
  | [] => .null
  | v :: vs => vs.foldl (pickV wantMax) v

/-- an aggregate over the argument values of the group (NULLs are skipped; `count` of nothing is 0, the others NULL) -/
def aggVals (f : AggFn) (vs : List Val) : Val :=
  match f with
  | .count => .int (Int.ofNat (nonNull vs).length)
  | .sum => if (nonNull vs).isEmpty then .null else .int (sumInts vs)
  | .min => foldV false (nonNull vs)
  | .max => foldV true (nonNull vs)
  | .avg => .null
  | .std => .null

/-- group level: the value of a target over ALL rows of the (single) group.  A bare column takes the first row's value
(sqlite picks some row; the streams generate no bare column next to an aggregate). -/
def Tgt.evalG : Tgt → List (TRow × TRow) → Val
  | .star, _ => .null
  | .col s c, rows => match rows with
    | [] => .null
    | p :: _ => colOf s c p.1 p.2
  | .const v, _ => v
  | .agg .count .star, rows => .int (Int.ofNat rows.length)
  | .agg f a, rows => aggVals f (rows.map fun p => a.evalR p.1 p.2)
  | .fn1 a, rows => absV (a.evalG rows)
  | .fn2 a b, rows => coalesceV (a.evalG rows) (b.evalG rows)
  | .arith o a b, rows => arithV o (a.evalG rows) (b.evalG rows)
  | .cmp o a b, rows => cmpV o (a.evalG rows) (b.evalG rows)
  | .cast a, rows => a.evalG rows
  | .case c t e, rows => if truthy (c.evalG rows) then t.evalG rows else e.evalG rows

def projRow (ts : List Tgt) (p : TRow × TRow) : TRow := ts.map fun t => t.evalR p.1 p.2

/-- `SELECT ts` over the joined and filtered rows: one row per input row, or — with an aggregate anywhere — ONE row -/
def selectRows (ts : List Tgt) (rows : List (TRow × TRow)) : List TRow :=
  if selHasAgg ts then [ts.map fun t => t.evalG rows] else rows.map (projRow ts)

/-! ## the two-table fragment with a select list
`SELECT ts FROM t0 <kind> JOIN t1 ON t0.c0 = t1.c1 [WHERE w] [LIMIT n]` (no GROUP BY / HAVING / DISTINCT) -/

structure QA where
  kind : JoinKind
  c0 : Nat
  c1 : Nat
  w : Option Expr
  limit : Option Nat
  targets : List Tgt
  deriving DecidableEq, Repr

/-- what `check_use_limit` sees: the `groupBy` flag of `Q2` stands for "GROUP BY / DISTINCT / an aggregate target" -/
def QA.toQ2 (q : QA) : Q2 :=
  { kind := q.kind, c0 := q.c0, c1 := q.c1, w := q.w, limit := q.limit, groupBy := selHasAgg q.targets, having := false }

/-- the same with the shallow recogniser (NOT the code; used for the counter-witness only) -/
def QA.toQ2Shallow (q : QA) : Q2 :=
  { kind := q.kind, c0 := q.c0, c1 := q.c1, w := q.w, limit := q.limit, groupBy := selTopAgg q.targets, having := false }

def planA (q : QA) : Plan2 := plan q.toQ2
def planAShallow (q : QA) : Plan2 := plan q.toQ2Shallow

/-- the original query on one engine: join, WHERE, select list, LIMIT -/
def evalQueryA (q : QA) (db : DB) : List TRow :=
  limitOf q.limit (selectRows q.targets (evalQuery { q.toQ2 with limit := none } db))

/-- the plan: fetches, join and WHERE as in `execPlan`; the outer QueryStep evaluates the select list and the LIMIT -/
def execPlanA (p : Plan2) (ts : List Tgt) (db : DB) : List TRow :=
  limitOf p.limit (selectRows ts (execPlan { p with limit := none } db))

/-! ## api integrations (`plan_api_db_select`): one table, the fetch keeps WHERE and — without aggregation — LIMIT -/

/-- rows of one table as "joined rows" with an empty right part -/
def asPairs (T : List TRow) : List (TRow × TRow) := T.map fun l => (l, [])

/-- `SELECT ts FROM t [LIMIT n]` on one engine -/
def evalApi (ts : List Tgt) (n : Option Nat) (T : List TRow) : List TRow :=
  limitOf n (selectRows ts (asPairs T))

/-- the split plan: the fetch returns the table's rows, cut to LIMIT rows iff `pushLimit`; the outer sub-select evaluates the
select list and the LIMIT again -/
def execApi (pushLimit : Bool) (ts : List Tgt) (n : Option Nat) (T : List TRow) : List TRow :=
  limitOf n (selectRows ts (asPairs (if pushLimit then limitOf n T else T)))

/-- the decision of `plan_api_db_select`: LIMIT goes into the fetch iff no aggregate occurs anywhere in the select list -/
def apiPushLimit (ts : List Tgt) : Bool := !selHasAgg ts

end MindsVerif.Sem
