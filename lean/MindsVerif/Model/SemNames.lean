import MindsVerif.Model.Sem
/-!
# M6 `Sem`, column NAMES (C08, round 6)

The index model `Sem.plan` refers to columns by position.  The planner works on names: `get_filters_from_join_conditions` strips
the table qualifier of the two sides of an ON equality to build `SELECT DISTINCT <col>` over the fetched dataframe and the
filter `<col> IN :result` inside the fetch of the other table; `process_table` does the same for the ORDER BY columns it pushes
together with LIMIT.  The code builds `Identifier(parts=[column.parts[-1]])`: ONE part, whatever characters the name has.
`Identifier(<str>)` instead PARSES the string as a dotted path — for a column that is really called `orders.id` it yields the
column `id` of something called `orders`.

This file: names as character lists (any characters: dots, spaces, back-quotes, upper case, keywords), identifiers as lists of
parts, the two ways of rebuilding a column (`bareColumn` = the code, `dottedColumn` = the re-parsing variant), name resolution
inside the fetch of one table (`Scope.resolve`), and the named form `QN` of the two-table fragment with its key columns.

Core Lean only.
-/
namespace MindsVerif.Sem

abbrev Name := List Char
/-- `Identifier.parts` -/
abbrev Ident := List Name

/-- `Identifier(parts=[column.parts[-1]])`: the column as it is called inside its own table -/
def bareColumn (c : Ident) : Ident :=
  match c.getLast? with
  | some n => [n]
  | none => []

/-- split at every dot (what parsing an unquoted dotted path does) -/
def splitDots : Name → List Name
  | [] => [[]]
  | ch :: cs =>
    if ch = '.' then [] :: splitDots cs
    else match splitDots cs with
      | [] => [[ch]]
      | p :: ps => (ch :: p) :: ps

/-- `Identifier(column.parts[-1])`: the last part parsed again as a dotted path (NOT the code) -/
def dottedColumn (c : Ident) : Ident :=
  match c.getLast? with
  | some n => splitDots n
  | none => []

def findCol (n : Name) : List Name → Option Nat
  | [] => none
  | c :: cs => if c = n then some 0 else (findCol n cs).map (· + 1)

/-- one table in a fetch or a dataframe: how it is called (alias, else table name) and its column names -/
structure Scope where
  alias : Name
  cols : List Name
  deriving DecidableEq, Repr

/-- which column an identifier denotes in the scope of one table: `col`, or `alias.col` -/
def Scope.resolve (s : Scope) : Ident → Option Nat
  | [n] => findCol n s.cols
  | [t, n] => if t = s.alias then findCol n s.cols else none
  | _ => none

/-- the named two-table fragment: `… FROM t0 AS l <kind> JOIN t1 AS r ON onL = onR [WHERE w] [LIMIT n]` -/
structure QN where
  kind : JoinKind
  l : Scope
  r : Scope
  onL : Ident
  onR : Ident
  w : Option Expr
  limit : Option Nat
  deriving DecidableEq, Repr

/-- the index form, when both sides of ON denote columns -/
def QN.toQ2 (q : QN) : Option Q2 :=
  match q.l.resolve q.onL, q.r.resolve q.onR with
  | some c0, some c1 => some { kind := q.kind, c0 := c0, c1 := c1, w := q.w, limit := q.limit }
  | _, _ => none

/-- the key columns of the plan: `SELECT DISTINCT <rebuilt onL>` over the first fetch, `<rebuilt onR> IN …` in the second,
for a given way of rebuilding the columns -/
def QN.planKeys (rebuild : Ident → Ident) (q : QN) : Option (Nat × Nat) :=
  match q.l.resolve (rebuild q.onL), q.r.resolve (rebuild q.onR) with
  | some c0, some c1 => some (c0, c1)
  | _, _ => none

end MindsVerif.Sem
