import MindsVerif.Model.Sem
/-!
# M6 `Sem`, one CTE name defined in several sibling scopes (C08, round 6 — old escapes)

`QueryPlanner.plan_cte` plans the body of every WITH clause it meets and stores `cte_results[name] = step.result` in ONE dict for
the whole statement: a later WITH clause that defines the same name REBINDS it.  For sibling scopes (branches of a set operation,
derived tables of a join) that is exactly lexical scoping: each scope's main select reads the rows of its own body.

A scope is (rows of its body, its main select as a function of the rows bound to the name).  `execScopes skip` threads the
current binding through the scopes in plan order; `skip = true` is the variant "a name that already has an entry is not planned
again" (NOT the code).  Core Lean only.
-/
namespace MindsVerif.Sem

abbrev Rows := List TRow
/-- one scope `WITH n AS (body) main`: the rows of `body`, and `main` as a function of the rows bound to `n` -/
abbrev ScopeQ := Rows × (Rows → Rows)

/-- the statement on one engine: every main select reads its own body (results concatenated in order) -/
def evalScopes (ss : List ScopeQ) : Rows := ss.flatMap fun s => s.2 s.1

/-- the plan: `cur` = the entry of the name in `cte_results` so far -/
def execScopes (skip : Bool) : List ScopeQ → Option Rows → Rows
  | [], _ => []
  | s :: rest, cur =>
    let bound := match cur with
      | some r => if skip then r else s.1
      | none => s.1
    s.2 bound ++ execScopes skip rest (some bound)

end MindsVerif.Sem
