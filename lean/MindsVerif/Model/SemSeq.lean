import MindsVerif.Model.Sem
/-! n-table left-deep join chains `t0 k1 t1 k2 t2 …`: literal transcription of
`PlanJoinTablesQuery.mark_nullable_tables` (repo commit 15097fa) over the join sequence, and a generic join by kind. -/
namespace MindsVerif.Sem

/-- LEFT / FULL: the right operand (the table just joined) is padded with NULLs -/
def JoinKind.padsRight : JoinKind → Bool
  | .left => true
  | .leftOuter => true
  | .full => true
  | _ => false

/-- RIGHT / FULL: the left operand (everything joined so far) is padded with NULLs -/
def JoinKind.padsLeft : JoinKind → Bool
  | .right => true
  | .full => true
  | _ => false

/-- the loop of `mark_nullable_tables`; `seen` = the `nullable` flags of the tables seen so far, in order.  For the Join
item of table k: `if kind in (LEFT, FULL): seen[-1].nullable = True`; `if kind in (RIGHT, FULL): for t in seen[:-1]:
t.nullable = True`. -/
def markNullableLoop : List JoinKind → List Bool → List Bool
  | [], seen => seen
  | k :: ks, seen =>
    markNullableLoop ks ((if k.padsLeft then seen.map (fun _ => true) else seen) ++ [k.padsRight])

/-- `nullable` flag of every table of the chain with join kinds `ks` (n = ks.length + 1 tables) -/
def markNullable (ks : List JoinKind) : List Bool := markNullableLoop ks [false]

/-- closed form for the tables after the first: padded by its own join, or by a later RIGHT / FULL join -/
def nullableTail : List JoinKind → List Bool
  | [] => []
  | k :: ks => (k.padsRight || ks.any JoinKind.padsLeft) :: nullableTail ks

/-- join of two row lists by kind, generic in the row types -/
def joinG {α β γ : Type} (k : JoinKind) (on : α → β → Bool) (mk : α → β → γ) (nl : α) (nr : β)
    (L : List α) (R : List β) : List γ :=
  match k with
  | .inner => innerJoin on mk L R
  | .left => leftJoin on mk nr L R
  | .leftOuter => leftJoin on mk nr L R
  | .right => rightJoin on mk nl L R
  | .full => fullJoin on mk nl nr L R

end MindsVerif.Sem
