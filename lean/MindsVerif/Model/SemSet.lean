import MindsVerif.Model.Sem
/-!
# M6 `Sem`, set operations across integrations (C08, round 5)

`QueryPlanner.plan_union` plans the two operands one after the other with `plan_select` (an operand that is a plain `Select`
over one table of a data integration becomes ONE `FetchDataframeStep` carrying the operand's own DISTINCT / GROUP BY / ORDER BY /
LIMIT / OFFSET; an operand that is itself a set operation is planned recursively) and adds a `UnionStep(left, right, unique,
operation)` that refers to the two result steps.  Nothing of an operand is changed.

This file: operands (`Opnd`), set-operation trees (`SetQ`), their meaning on one engine (`SetQ.eval`), the step list
(`SStep`, `planSet` = `plan_union` / `plan_select`), its execution per the step docstrings (`execSteps`, `execSetPlan`), and
the variant that adds DISTINCT to the operands of a non-ALL operation when they have no LIMIT (`planSetOpt`; NOT the code, used
for the counter-witness and for the theorem that says when that would be sound).

Core Lean only.
-/
namespace MindsVerif.Sem

/-- a database for set operations: tables by index -/
abbrev DBn := List (List TRow)

inductive SetOpK
  | union | unionAll | intersect | except
  deriving DecidableEq, Repr

/-- `query.unique` (no ALL) -/
def SetOpK.unique : SetOpK → Bool
  | .unionAll => false
  | _ => true

/-- one operand: `SELECT [DISTINCT] cols FROM t [ORDER BY …] [LIMIT n] [OFFSET k]`, or its grouped form
`SELECT cols, count(*) FROM t GROUP BY cols …`; `order` lists (output column, descending?) -/
structure Opnd where
  tbl : Nat
  cols : List Nat
  distinct : Bool := false
  group : Bool := false
  order : List (Nat × Bool) := []
  limit : Option Nat := none
  offset : Option Nat := none
  deriving DecidableEq, Repr

inductive SetQ
  | sel (o : Opnd)
  | op (k : SetOpK) (l r : SetQ)
  deriving DecidableEq, Repr

/-! ## meaning on one engine -/

/-- first occurrences (SELECT DISTINCT, UNION / INTERSECT / EXCEPT without ALL) -/
def dedupRows : List TRow → List TRow
  | [] => []
  | x :: xs => x :: (dedupRows xs).filter (fun y => !(y == x))

/-- sqlite's order of values: NULL first, then integers, then strings -/
def valCmp : Val → Val → Ordering
  | .null, .null => .eq
  | .null, _ => .lt
  | _, .null => .gt
  | a, b => ordVal a b

def flipOrd : Ordering → Ordering
  | .lt => .gt
  | .gt => .lt
  | .eq => .eq

/-- lexicographic comparison by the ORDER BY items -/
def keyCmp : List (Nat × Bool) → TRow → TRow → Ordering
  | [], _, _ => .eq
  | (i, desc) :: ks, a, b =>
    match valCmp (a.col i) (b.col i) with
    | .eq => keyCmp ks a b
    | o => if desc then flipOrd o else o

/-- stable insertion: `r` goes before the first row that is not smaller -/
def insertRow (ks : List (Nat × Bool)) (r : TRow) : List TRow → List TRow
  | [] => [r]
  | x :: xs => if keyCmp ks r x == .gt then x :: insertRow ks r xs else r :: x :: xs

def sortRows (ks : List (Nat × Bool)) : List TRow → List TRow
  | [] => []
  | r :: rs => insertRow ks r (sortRows ks rs)

def projCols (cols : List Nat) (r : TRow) : TRow := cols.map r.col

/-- `SELECT cols, count(*) … GROUP BY cols`: distinct keys in first-occurrence order with their multiplicity -/
def groupRows (cols : List Nat) (T : List TRow) : List TRow :=
  (dedupRows (T.map (projCols cols))).map fun k =>
    k ++ [Val.int (Int.ofNat ((T.filter fun r => projCols cols r == k).length))]

/-- the rows of an operand: project (or group), DISTINCT, ORDER BY, then skip OFFSET rows and keep LIMIT rows -/
def Opnd.eval (o : Opnd) (db : DBn) : List TRow :=
  let T := db.getD o.tbl []
  let rows := if o.group then groupRows o.cols T else T.map (projCols o.cols)
  let rows := if o.distinct then dedupRows rows else rows
  let rows := if o.order.isEmpty then rows else sortRows o.order rows
  limitOffset o.limit (o.offset.getD 0) rows

/-- UnionStep: `union` / `intersect` / `except`, `unique` = rows are de-duplicated -/
def SetOpK.apply : SetOpK → List TRow → List TRow → List TRow
  | .unionAll, A, B => A ++ B
  | .union, A, B => dedupRows (A ++ B)
  | .intersect, A, B => dedupRows (A.filter fun x => B.contains x)
  | .except, A, B => dedupRows (A.filter fun x => !B.contains x)

def SetQ.eval : SetQ → DBn → List TRow
  | .sel o, db => o.eval db
  | .op k l r, db => k.apply (l.eval db) (r.eval db)

/-! ## the plan -/

inductive SStep
  | fetch (o : Opnd)                          -- FetchDataframeStep(integration, query = the operand as written)
  | setop (k : SetOpK) (left right : Nat)     -- UnionStep(left=Result(left), right=Result(right), unique, operation)
  deriving DecidableEq, Repr

/-- `plan_select` / `plan_union`: `acc` = the steps added so far; returns all steps and the number of the result step -/
def planSet : SetQ → List SStep → List SStep × Nat
  | .sel o, acc => (acc ++ [.fetch o], acc.length)
  | .op k l r, acc =>
    let p1 := planSet l acc
    let p2 := planSet r p1.1
    (p2.1 ++ [.setop k p1.2 p2.2], p2.1.length)

/-- run steps in order; `res` = results of the steps before (indexed by step number) -/
def execSteps (db : DBn) : List SStep → List (List TRow) → List (List TRow)
  | [], res => res
  | .fetch o :: ss, res => execSteps db ss (res ++ [o.eval db])
  | .setop k l r :: ss, res => execSteps db ss (res ++ [k.apply (res.getD l []) (res.getD r [])])

def execSetPlan (p : List SStep × Nat) (db : DBn) : List TRow :=
  (execSteps db p.1 []).getD p.2 []

/-! ## the "let every source return distinct rows" variant (not the code) -/

/-- add DISTINCT to an operand that is a plain, un-grouped Select without LIMIT -/
def Opnd.optDistinct (o : Opnd) : Opnd :=
  if !o.group && o.limit.isNone then { o with distinct := true } else o

/-- `u` = "this is a direct operand of a set operation without ALL" -/
def planSetOpt : SetQ → Bool → List SStep → List SStep × Nat
  | .sel o, u, acc => (acc ++ [.fetch (if u then o.optDistinct else o)], acc.length)
  | .op k l r, _, acc =>
    let p1 := planSetOpt l k.unique acc
    let p2 := planSetOpt r k.unique p1.1
    (p2.1 ++ [.setop k p1.2 p2.2], p2.1.length)

/-- an operand without a row window: no LIMIT and no (non-zero) OFFSET -/
def Opnd.noWindow (o : Opnd) : Bool := o.limit.isNone && (o.offset.getD 0 == 0)

end MindsVerif.Sem
