/-!
`mindsdb_sql/parser/utils.py:to_single_line` — the text normaliser inside `ASTNode.__eq__`.

* pinned: `'\t'.join(line.strip() …)`, tabs → spaces, `' '.join(text.split())`: every run of whitespace
  becomes one space, the ends are stripped — *also inside quoted text* (known finding KF-C18-4);
* repaired (`fixes/C18_4.diff`): the same outside quotes; text inside `'…'`, `"…"`, `` `…` `` is kept verbatim
  (a backslash escapes the next character inside `'…'` and `"…"`).

Whitespace is ASCII whitespace here (`str.isspace` / `str.split` also know Unicode spaces and `\x1c–\x1f`;
the printers never produce them; the correspondence stream stays inside ASCII + a few letters).
-/
namespace MindsVerif.SingleLine

def isSp (c : Char) : Bool :=
  c == ' ' || c == '\n' || c == '\t' || c == '\r' || c == '\x0b' || c == '\x0c'

/-- pinned normaliser; `started` = something was emitted, `pending` = whitespace seen since -/
def collapseGo (started pending : Bool) : List Char → List Char
  | [] => []
  | c :: r =>
    if isSp c then collapseGo started true r
    else if pending && started then ' ' :: c :: collapseGo true false r
    else c :: collapseGo true false r

def isQuote (c : Char) : Bool := c == '\'' || c == '"' || c == '`'

/-- repaired normaliser; `q` = the open quote character, `esc` = previous character was an escaping backslash -/
def fixedGo (q : Option Char) (esc started pending : Bool) : List Char → List Char
  | [] => []
  | c :: r =>
    match q with
    | some qc =>
      if esc then c :: fixedGo (some qc) false true pending r
      else if c == '\\' && qc != '`' then c :: fixedGo (some qc) true true pending r
      else if c == qc then c :: fixedGo none false true pending r
      else c :: fixedGo (some qc) false true pending r
    | none =>
      if isSp c then fixedGo none false started true r
      else
        let q' := if isQuote c then some c else none
        if pending && started then ' ' :: c :: fixedGo q' false true false r
        else c :: fixedGo q' false true false r

def singleLinePinned (s : String) : String := String.ofList (collapseGo false false s.toList)
def singleLineFixed (s : String) : String := String.ofList (fixedGo none false false false s.toList)

end MindsVerif.SingleLine
