import MindsVerif.Model.Re
/-!
# `SlyLex` — the tokenize loop of `sly/lex.py` over the transcribed master regex

Transcribes `Lexer.tokenize` (sly/lex.py): at the current index, a character of `ignore` is skipped;
otherwise the master regex is tried (`firstMatch`: rule order, first alternative that matches); a match
sets `index = m.end()` and yields the token unless its rule is an `ignore_…` rule; no match and the
character is not a `literals` character: `error()` — all three lexers raise `LexError` there.

Not modelled (recorded by the translator and pinned by obligations on the generated data): `literals`
and `_remapping` are empty for the three lexers; token functions never move `self.index`
(correspondence stream `slylex` compares token boundaries with the real lexer); token *values* and
line numbers are outside this model (`Model/Lex.lean`, `Model/TokStr.lean`, `Model/Err.lean`).

SLY's only guard against a rule that matches the empty string is `_build`'s test on the EMPTY text
(`cpat.match('')`); a rule that is empty only in context passes it, `index` would not move and the loop would never end.  The model reports that as `hang`; `C02Lex` proves it cannot happen for rules that
pass `nonNull`, which the kernel decides on the regenerated rule list.
-/
namespace MindsVerif.SlyLex
open MindsVerif.Re

structure Rule where
  name : String
  re : Re
  /-- an `ignore_…` rule: matched text is dropped -/
  ignored : Bool
  deriving Repr, Inhabited

structure Cfg where
  rules : List Rule
  /-- `Lexer.ignore` -/
  ignore : CSet
  /-- code points matching `\w` under the lexer's flags -/
  word : CSet
  deriving Repr, Inhabited

/-- a piece of the text, in text order; the pieces of a finished run tile the whole text -/
inductive Seg where
  /-- one character of `ignore` -/
  | skip (c : Nat)
  /-- a match of rule `name`; `ignored` = it is not yielded -/
  | tok (name : String) (ignored : Bool) (text : List Nat)
  deriving Repr, DecidableEq, Inhabited

def Seg.text : Seg → List Nat
  | .skip c => [c]
  | .tok _ _ t => t

inductive Out where
  | ok (segs : List Seg)
  /-- `LexError` at `index` (no rule matches there, the character is not ignorable) -/
  | err (index : Nat) (segs : List Seg)
  /-- a rule matched the empty string: SLY would loop forever -/
  | hang (index : Nat) (rule : String)
  /-- out of fuel (never, see `C02Lex`) -/
  | stuck
  deriving Repr, DecidableEq, Inhabited

def firstMatch (w : CSet) : List Rule → Pos → Option (Rule × Pos)
  | [], _ => none
  | r :: rs, p =>
    match matchAt w r.re p with
    | some q => some (r, q)
    | none => firstMatch w rs p

/-- the consumed text between two positions of the same text -/
def between (p q : Pos) : List Nat := p.suf.take (p.suf.length - q.suf.length)

def lexLoop (c : Cfg) : Nat → Pos → List Seg → Out
  | 0, _, _ => .stuck
  | n + 1, p, acc =>
    match p.suf with
    | [] => .ok acc.reverse
    | ch :: t =>
      if c.ignore.mem ch then lexLoop c n ⟨ch :: p.pre, t⟩ (.skip ch :: acc)
      else
        match firstMatch c.word c.rules p with
        | some (r, q) =>
          if q.suf.length < p.suf.length then lexLoop c n q (.tok r.name r.ignored (between p q) :: acc)
          else .hang p.index r.name
        | none => .err p.index acc.reverse

def lex (c : Cfg) (s : List Nat) : Out := lexLoop c (s.length + 1) ⟨[], s⟩ []

/-- the yielded tokens: (type, start index, end index) -/
def tokensFrom : Nat → List Seg → List (String × Nat × Nat)
  | _, [] => []
  | i, .skip _ :: r => tokensFrom (i + 1) r
  | i, .tok n ig t :: r =>
    if ig then tokensFrom (i + t.length) r else (n, i, i + t.length) :: tokensFrom (i + t.length) r

def Cfg.allNonNull (c : Cfg) : Bool := c.rules.all fun r => nonNull r.re
def Cfg.allSupported (c : Cfg) : Bool := c.rules.all fun r => supported r.re

end MindsVerif.SlyLex
