import MindsVerif.Model.TS
/-!
# Specification side of C15: the query domain of the property and the intended row sets

Nothing here looks at `planTS`; these definitions are what the theorems in `Props/C15.lean` compare the
planner model against.
-/
namespace MindsVerif.TS

/-! ## the domain: `<time condition> AND <partition filters>` in any AND-nesting -/

/-- comparison operators; `inn` with a constant right operand is what `g IN (3)` parses to -/
def isCmp : Op → Bool
  | .gt | .ge | .eq | .lt | .le | .inn => true
  | _ => false

/-- a partition filter: `g_i <cmp> c`, `g_i IN (c, …)`, `g_i BETWEEN a AND b` on a group column -/
def isPF (nG : Nat) : W → Bool
  | .bin op (.ident (.grp i)) (.const _) => decide (i < nG) && isCmp op
  | .bin .inn (.ident (.grp i)) (.tuple _) => decide (i < nG)
  | .btw (.ident (.grp i)) (.const _) (.const _) => decide (i < nG)
  | _ => false

/-- an AND-tree of partition filters (no time condition) -/
def pfTree (nG : Nat) : W → Bool
  | .bin .and l r => pfTree nG l && pfTree nG r
  | w => isPF nG w

/-- the time-condition classes of the property (order column on the left, constant / LATEST on the right) -/
inductive TC
  | gt (c : Int) | ge (c : Int) | eq (c : Int) | lt (c : Int) | le (c : Int)
  | btw (a b : Int) | gtLatest | eqLatest
  deriving DecidableEq, Repr

def TC.toW : TC → W
  | .gt c => .bin .gt (.ident .time) (.const c)
  | .ge c => .bin .ge (.ident .time) (.const c)
  | .eq c => .bin .eq (.ident .time) (.const c)
  | .lt c => .bin .lt (.ident .time) (.const c)
  | .le c => .bin .le (.ident .time) (.const c)
  | .btw a b => .btw (.ident .time) (.const a) (.const b)
  | .gtLatest => .bin .gt (.ident .time) .latest
  | .eqLatest => .bin .eq (.ident .time) .latest

/-- an AND-tree with exactly one leaf equal to the time condition `tf`, all other leaves partition filters -/
def tcTree (nG : Nat) (tf : W) : W → Bool
  | .bin .and l r => (tcTree nG tf l && pfTree nG r) || (pfTree nG l && tcTree nG tf r)
  | w => decide (w = tf)

/-- `Dom nG tc w`: the user's WHERE `w` is in the domain of the property with time-condition class `tc` -/
def Dom (nG : Nat) : Option TC → Option W → Bool
  | none, none => true
  | none, some w => pfTree nG w
  | some tc, some w => tcTree nG tc.toW w
  | some _, none => false

/-! ## the intended row sets -/

/-- the user's partition filters: every conjunct of the WHERE other than the time condition `tf` is TRUE -/
def restSel (p : List Int) (tf : W) : W → Row → Bool
  | .bin .and l x, r => restSel p tf l r && restSel p tf x r
  | w, r => if w = tf then true else sel p w r

def restSelO (p : List Int) (tc : Option TC) (w : Option W) (r : Row) : Bool :=
  match w with
  | none => true
  | some w => restSel p ((tc.map TC.toW).getD .null) w r

/-- row `r` belongs to partition value `p` on group column `i` (SQL equality, both non-NULL) -/
def inPartAt (p : List Int) (r : Row) (i : Nat) : Bool :=
  match (r.g[i]?).join, p[i]? with
  | some a, some b => decide (a = b)
  | _, _ => false

def inPartFrom (p : List Int) (r : Row) : Nat → Nat → Bool
  | 0, _ => true
  | n + 1, i => inPartAt p r i && inPartFrom p r n (i + 1)

/-- `r.g[i] = p[i]` for every group column `i < nG` -/
def inPart (p : List Int) (nG : Nat) (r : Row) : Bool := inPartFrom p r nG 0

/-- the user's condition on the order column, on a non-NULL time value. For the exact-time classes
(`= c`, `> LATEST`, `= LATEST`) the property asks for "just the most recent `window` rows up to that
point", i.e. no condition rows and a window over `before`. -/
def TC.cond : TC → Int → Bool
  | .gt c, v => decide (v > c)
  | .ge c, v => decide (v ≥ c)
  | .eq _, _ => false
  | .lt c, v => decide (v < c)
  | .le c, v => decide (v ≤ c)
  | .btw a b, v => decide (a ≤ v) && decide (v ≤ b)
  | .gtLatest, _ => false
  | .eqLatest, _ => false

/-- rows preceding the lower bound of the condition (`none`: the condition has no lower bound) -/
def TC.before : TC → Option (Int → Bool)
  | .gt c => some (fun v => decide (v ≤ c))
  | .ge c => some (fun v => decide (v < c))
  | .eq c => some (fun v => decide (v ≤ c))
  | .lt _ => none
  | .le _ => none
  | .btw a _ => some (fun v => decide (v < a))
  | .gtLatest => some (fun _ => true)
  | .eqLatest => some (fun _ => true)

def onTime (f : Int → Bool) (r : Row) : Bool :=
  match r.t with
  | some v => f v
  | none => false

/-- non-NULL order value ∧ the user's partition filters ∧ the row is in partition `p` -/
def base (p : List Int) (nG : Nat) (tc : Option TC) (w : Option W) (r : Row) : Bool :=
  r.t.isSome && restSelO p tc w r && inPart p nG r

/-- `{r | cond r ∧ r.t ≠ NULL}` restricted by the partition filters, for partition `p` -/
def condRows (p : List Int) (nG : Nat) (tc : Option TC) (w : Option W) (T : List Row) : List Row :=
  T.filter (fun r => base p nG tc w r &&
    (match tc with | none => true | some tc => onTime tc.cond r))

/-- `{r | r.t precedes the lower bound ∧ r.t ≠ NULL}` restricted by the partition filters, for partition `p` -/
def candRows (p : List Int) (nG : Nat) (tc : Option TC) (w : Option W) (bf : Int → Bool) (T : List Row) :
    List Row :=
  T.filter (fun r => base p nG tc w r && onTime bf r)

/-- `L` is a valid choice of the `n` most recent rows of `cands`: it has `min n |cands|` elements, is part of
`cands` (as a multiset) and nothing left out is more recent than anything taken. Ties may be resolved in any
way. -/
def IsLastW (n : Nat) (cands L : List Row) : Prop :=
  ∃ rest, (L ++ rest).Perm cands ∧ L.length = min n cands.length ∧ ∀ a ∈ L, ∀ b ∈ rest, tge a b = true

/-- the window part of the specification for class `tc` -/
def WindowSpec (n : Nat) (p : List Int) (nG : Nat) (tc : Option TC) (w : Option W) (T L : List Row) : Prop :=
  match tc.bind TC.before with
  | none => L = []
  | some bf => IsLastW n (candRows p nG tc w bf T) L

/-! ## T15.3: independent reading of "only allowed operators / only order and group columns" -/

/-- every Operation node anywhere in the tree has an allowed operator -/
def opsOk : W → Bool
  | .bin op l r => allowedOp op && opsOk l && opsOk r
  | .btw x a b => opsOk x && opsOk a && opsOk b
  | .un _ => false
  | _ => true

/-- every column mentioned anywhere in the tree is the order column or a group column -/
def colsOk (nG : Nat) : W → Bool
  | .ident c => allowedCol nG c
  | .opaque f => !f
  | .bin _ l r => colsOk nG l && colsOk nG r
  | .btw x a b => colsOk nG x && colsOk nG a && colsOk nG b
  | .un x => colsOk nG x
  | _ => true

/-- the fragment on which `validate_ts_where_condition` sees every position: no column hidden in a
non-Operation node, third BETWEEN operand not an Operation -/
def visible : W → Bool
  | .opaque f => !f
  | .bin _ l r => visible l && visible r
  | .btw x a b => visible x && visible a && visible b && !b.isOperation
  | .un x => visible x
  | _ => true

/-- every operand of every AND anywhere in the tree is an Operation ("a condition") -/
def andOk : W → Bool
  | .bin op l r => (op != .and || (l.isOperation && r.isOperation)) && andOk l && andOk r
  | .btw x a b => andOk x && andOk a && andOk b
  | .un x => andOk x
  | _ => true

/-- every operand of AND is an Operation (so `find_time_filter` can read `.op`) -/
def andOperandsOps : W → Bool
  | .bin .and l r => l.isOperation && r.isOperation && andOperandsOps l && andOperandsOps r
  | _ => true

end MindsVerif.TS
