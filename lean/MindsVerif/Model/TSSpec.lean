import MindsVerif.Model.TS
/-!
# Specification side of C15: the query domain of the property and the intended row sets

Nothing here looks at `planTS`; these definitions are what the theorems in `Props/C15.lean` compare the
planner model against.
-/
namespace MindsVerif.TS

variable {α : Type} [DecidableEq α] [VOrd α]

/-! ## the domain: `<time condition> AND <partition filters>` in any AND-nesting -/

/-- comparison operators; `inn` with a constant right operand is what `g IN (3)` parses to -/
def isCmp : Op → Bool
  | .gt | .ge | .eq | .lt | .le | .inn => true
  | _ => false

/-- a partition filter: `g_i <cmp> c`, `g_i IN (c, …)`, `g_i BETWEEN a AND b` on a group column, or
`g_i IN (SELECT … FROM shops [WHERE w])` with any sub-query WHERE `w` whatsoever (it may spell the outer time
condition, use OR, functions, further sub-queries …) -/
def isPF (nG : Nat) : W α → Bool
  | .bin op (.ident (.grp i)) (.const _) => decide (i < nG) && isCmp op
  | .bin .inn (.ident (.grp i)) (.tuple _) => decide (i < nG)
  | .bin .inn (.ident (.grp i)) (.sub _ _) => decide (i < nG)
  | .btw (.ident (.grp i)) (.const _) (.const _) => decide (i < nG)
  | _ => false

/-- an AND-tree of partition filters (no time condition) -/
def pfTree (nG : Nat) : W α → Bool
  | .bin .and l r => pfTree nG l && pfTree nG r
  | w => isPF nG w

/-- the time-condition classes of the property (order column on the left, constant / LATEST on the right) -/
inductive TC (α : Type)
  | gt (c : α) | ge (c : α) | eq (c : α) | lt (c : α) | le (c : α)
  | btw (a b : α) | gtLatest | eqLatest
  deriving DecidableEq, Repr

def TC.toW : TC α → W α
  | .gt c => .bin .gt (.ident .time) (.const c)
  | .ge c => .bin .ge (.ident .time) (.const c)
  | .eq c => .bin .eq (.ident .time) (.const c)
  | .lt c => .bin .lt (.ident .time) (.const c)
  | .le c => .bin .le (.ident .time) (.const c)
  | .btw a b => .btw (.ident .time) (.const a) (.const b)
  | .gtLatest => .bin .gt (.ident .time) .latest
  | .eqLatest => .bin .eq (.ident .time) .latest

/-- the mirrored spellings of the time condition, order column on the right: `c < t`, `c <= t`, `c > t`, `c >= t`,
`c = t`, `LATEST < t`, `LATEST = t` (together with `TC` these are all sixteen spellings of the nine classes) -/
inductive RC (α : Type)
  | lt (c : α) | le (c : α) | gt (c : α) | ge (c : α) | eq (c : α) | ltLatest | eqLatest
  deriving DecidableEq, Repr

def RC.toW : RC α → W α
  | .lt c => .bin .lt (.const c) (.ident .time)
  | .le c => .bin .le (.const c) (.ident .time)
  | .gt c => .bin .gt (.const c) (.ident .time)
  | .ge c => .bin .ge (.const c) (.ident .time)
  | .eq c => .bin .eq (.const c) (.ident .time)
  | .ltLatest => .bin .lt .latest (.ident .time)
  | .eqLatest => .bin .eq .latest (.ident .time)

/-- the same condition with the order column on the left -/
def RC.mirror : RC α → TC α
  | .lt c => .gt c
  | .le c => .ge c
  | .gt c => .lt c
  | .ge c => .le c
  | .eq c => .eq c
  | .ltLatest => .gtLatest
  | .eqLatest => .eqLatest

/-- an AND-tree with exactly one leaf equal to the time condition `tf`, all other leaves partition filters -/
def tcTree (nG : Nat) (tf : W α) : W α → Bool
  | .bin .and l r => (tcTree nG tf l && pfTree nG r) || (pfTree nG l && tcTree nG tf r)
  | w => decide (w = tf)

/-- `Dom nG tc w`: the user's WHERE `w` is in the domain of the property with time-condition class `tc` -/
def Dom (nG : Nat) : Option (TC α) → Option (W α) → Bool
  | none, none => true
  | none, some w => pfTree nG w
  | some tc, some w => tcTree nG tc.toW w
  | some _, none => false

/-! ## the intended row sets -/

/-- the user's partition filters: every conjunct of the WHERE other than the time condition `tf` is TRUE -/
def restSel (e : Env α) (tf : W α) : W α → Row α → Bool
  | .bin .and l x, r => restSel e tf l r && restSel e tf x r
  | w, r => if w = tf then true else sel e w r

def restSelO (e : Env α) (tc : Option (TC α)) (w : Option (W α)) (r : Row α) : Bool :=
  match w with
  | none => true
  | some w => restSel e ((tc.map TC.toW).getD .null) w r

/-- row `r` belongs to the partition record `e.p` on group column `i`: the same group value, where NULL
is a group value like any other (this is what "for each partition value occurring in the data" means) -/
def inPartAt (e : Env α) (r : Row α) (i : Nat) : Bool :=
  decide ((r.g[i]?).join = (e.p[i]?).join)

def inPartFrom (e : Env α) (r : Row α) : Nat → Nat → Bool
  | 0, _ => true
  | n + 1, i => inPartAt e r i && inPartFrom e r n (i + 1)

/-- `r.g[i]` is `p[i]` for every group column `i < nG` -/
def inPart (e : Env α) (nG : Nat) (r : Row α) : Bool := inPartFrom e r nG 0

/-- the partition record has no NULL among the group values `i … i+n-1` -/
def nonNullFrom (e : Env α) : Nat → Nat → Bool
  | 0, _ => true
  | n + 1, i => ((e.p[i]?).join).isSome && nonNullFrom e n (i + 1)

/-- what the executor has to provide for the `$var[col]` placeholders to select the partition: either it
evaluates `col = $var[col]` null-safely, or the partition record contains no NULL -/
def envOk (e : Env α) (nG : Nat) : Bool := e.ns || nonNullFrom e nG 0

/-- the user's condition on the order column, on a non-NULL time value. For the exact-time classes
(`= c`, `> LATEST`, `= LATEST`) the property asks for "just the most recent `window` rows up to that
point", i.e. no condition rows and a window over `before`. -/
def TC.cond : TC α → α → Bool
  | .gt c, v => vgt v c
  | .ge c, v => vge v c
  | .eq _, _ => false
  | .lt c, v => vlt v c
  | .le c, v => vle v c
  | .btw a b, v => vge v a && vle v b
  | .gtLatest, _ => false
  | .eqLatest, _ => false

/-- rows preceding the lower bound of the condition (`none`: the condition has no lower bound) -/
def TC.before : TC α → Option (α → Bool)
  | .gt c => some (fun v => vle v c)
  | .ge c => some (fun v => vlt v c)
  | .eq c => some (fun v => vle v c)
  | .lt _ => none
  | .le _ => none
  | .btw a _ => some (fun v => vlt v a)
  | .gtLatest => some (fun _ => true)
  | .eqLatest => some (fun _ => true)

def onTime (f : α → Bool) (r : Row α) : Bool :=
  match r.t with
  | some v => f v
  | none => false

/-- non-NULL order value ∧ the user's partition filters ∧ the row is in partition `e` -/
def base (e : Env α) (nG : Nat) (tc : Option (TC α)) (w : Option (W α)) (r : Row α) : Bool :=
  r.t.isSome && restSelO e tc w r && inPart e nG r

/-- `{r | cond r ∧ r.t ≠ NULL}` restricted by the partition filters, for partition `e` -/
def condRows (e : Env α) (nG : Nat) (tc : Option (TC α)) (w : Option (W α)) (T : List (Row α)) : List (Row α) :=
  T.filter (fun r => base e nG tc w r &&
    (match tc with | none => true | some tc => onTime tc.cond r))

/-- `{r | r.t precedes the lower bound ∧ r.t ≠ NULL}` restricted by the partition filters, for partition `e` -/
def candRows (e : Env α) (nG : Nat) (tc : Option (TC α)) (w : Option (W α)) (bf : α → Bool) (T : List (Row α)) :
    List (Row α) :=
  T.filter (fun r => base e nG tc w r && onTime bf r)

/-- `L` is a valid choice of the `n` most recent rows of `cands`: it has `min n |cands|` elements, is part of
`cands` (as a multiset) and nothing left out is more recent than anything taken. Ties may be resolved in any
way. -/
def IsLastW (n : Nat) (cands L : List (Row α)) : Prop :=
  ∃ rest, (L ++ rest).Perm cands ∧ L.length = min n cands.length ∧ ∀ a ∈ L, ∀ b ∈ rest, tge a b = true

/-- the window part of the specification for class `tc` -/
def WindowSpec (n : Nat) (e : Env α) (nG : Nat) (tc : Option (TC α)) (w : Option (W α)) (T L : List (Row α)) : Prop :=
  match tc.bind TC.before with
  | none => L = []
  | some bf => IsLastW n (candRows e nG tc w bf T) L

/-! ## all sixteen spellings of the time condition, specified on the user's own WHERE -/

/-- a spelling of the time condition: column first (`TC`) or mirrored (`RC`: constant / LATEST first) -/
inductive TL (α : Type)
  | fwd (tc : TC α)
  | rev (rc : RC α)
  deriving DecidableEq, Repr

/-- the leaf as the user wrote it -/
def TL.toW : TL α → W α
  | .fwd tc => tc.toW
  | .rev rc => rc.toW

/-- what it means: one of the nine classes -/
def TL.cls : TL α → TC α
  | .fwd tc => tc
  | .rev rc => rc.mirror

/-- non-NULL order value ∧ every conjunct of the user's WHERE `w` other than the time leaf ∧ partition `e.p` -/
def baseL (e : Env α) (nG : Nat) (tl : TL α) (w : W α) (r : Row α) : Bool :=
  r.t.isSome && restSel e tl.toW w r && inPart e nG r

def condRowsL (e : Env α) (nG : Nat) (tl : TL α) (w : W α) (T : List (Row α)) : List (Row α) :=
  T.filter (fun r => baseL e nG tl w r && onTime tl.cls.cond r)

def candRowsL (e : Env α) (nG : Nat) (tl : TL α) (w : W α) (bf : α → Bool) (T : List (Row α)) : List (Row α) :=
  T.filter (fun r => baseL e nG tl w r && onTime bf r)

def WindowSpecL (n : Nat) (e : Env α) (nG : Nat) (tl : TL α) (w : W α) (T L : List (Row α)) : Prop :=
  match tl.cls.before with
  | none => L = []
  | some bf => IsLastW n (candRowsL e nG tl w bf T) L

/-! ## T15.3: independent reading of "only allowed operators / only order and group columns" -/

/-- every Operation node anywhere in the tree has an allowed operator -/
def opsOk : W α → Bool
  | .bin op l r => allowedOp op && opsOk l && opsOk r
  | .btw x a b => opsOk x && opsOk a && opsOk b
  | .un _ => false
  | _ => true

/-- every column mentioned anywhere in the tree is the order column or a group column -/
def colsOk (nG : Nat) : W α → Bool
  | .ident c => allowedCol nG c
  | .opaque f => !f
  | .cont f _ _ _ => !f
  | .bin _ l r => colsOk nG l && colsOk nG r
  | .btw x a b => colsOk nG x && colsOk nG a && colsOk nG b
  | .un x => colsOk nG x
  | _ => true

/-- the fragment on which `validate_ts_where_condition` sees every position: no column hidden in a
non-Operation node, third BETWEEN operand not an Operation -/
def visible : W α → Bool
  | .opaque f => !f
  | .cont f _ _ _ => !f
  | .bin _ l r => visible l && visible r
  | .btw x a b => visible x && visible a && visible b && !b.isOperation
  | .un x => visible x
  | _ => true

/-- every operand of every AND anywhere in the tree is an Operation ("a condition") -/
def andOk : W α → Bool
  | .bin op l r => (op != .and || (l.isOperation && r.isOperation)) && andOk l && andOk r
  | .btw x a b => andOk x && andOk a && andOk b
  | .un x => andOk x
  | _ => true

/-- every operand of AND is an Operation (so `find_time_filter` can read `.op`) -/
def andOperandsOps : W α → Bool
  | .bin .and l r => l.isOperation && r.isOperation && andOperandsOps l && andOperandsOps r
  | _ => true

/-! ## sub-queries and other closed nodes: what `replace_time_filter` may touch -/

/-- the closed nodes of a tree -- every sub-select and every Tuple / CAST / CASE / argument list, with everything written
inside it -- the outermost ones, in the order written -/
def closedNodes : W α → List (W α)
  | .sub k w => [.sub k w]
  | .cont f k x rest => [.cont f k x rest]
  | .bin _ l r => closedNodes l ++ closedNodes r
  | .btw x a b => closedNodes x ++ closedNodes a ++ closedNodes b
  | .un x => closedNodes x
  | _ => []

/-- the conjuncts of a WHERE: the leaves of its AND-nesting, in the order written -/
def conjuncts : W α → List (W α)
  | .bin .and l r => conjuncts l ++ conjuncts r
  | w => [w]

/-- the same AND-nesting with `f` applied to every conjunct -/
def mapConj (f : W α → W α) : W α → W α
  | .bin .and l r => .bin .and (mapConj f l) (mapConj f r)
  | w => f w

/-- a conjunct none of whose operands is itself an Operation: a comparison / IN between columns, constants, value
lists, sub-queries, CAST / CASE; or BETWEEN; or anything that is not a BinaryOperation -/
def flatCond : W α → Bool
  | .bin _ l r => !l.isOperation && !r.isOperation
  | _ => true

/-- an AND-nesting of such conjuncts (what `validate_ts_where_condition` accepts, minus conditions used as operands
of `=` / `IN`) -/
def flatTree : W α → Bool
  | .bin .and l r => flatTree l && flatTree r
  | w => flatCond w

/-- `replace_time_filter` written with the shared `query_traversal` instead of its own walk: every node is visited, one that
equals the time filter is replaced, otherwise the walk goes on into ALL its children -- the operands of BETWEEN, the WHERE of
a sub-select, the items of a value list, CAST / CASE operands. NOT what the library does (`replaceTF`):
`C15_witness_deep_replace`, `C15_witness_deep_rows`. -/
def replaceDeep (tf new : W α) : W α → W α
  | .bin op l r => if W.bin op l r = tf then new else .bin op (replaceDeep tf new l) (replaceDeep tf new r)
  | .btw x a b =>
    if W.btw x a b = tf then new else .btw (replaceDeep tf new x) (replaceDeep tf new a) (replaceDeep tf new b)
  | .un x => if W.un x = tf then new else .un (replaceDeep tf new x)
  | .sub k w => if W.sub k w = tf then new else .sub k (replaceDeep tf new w)
  | .cont f k x rest =>
    if W.cont f k x rest = tf then new else .cont f k (replaceDeep tf new x) (replaceDeep tf new rest)
  | w => if w = tf then new else w

end MindsVerif.TS
