import MindsVerif.Model.SlyLex
import MindsVerif.Model.LR
/-!
# `TextParse` — `parse_sql` from the text down: strip, lex, parse

`mindsdb_sql.parse_sql(sql, dialect)`:
```
sql = re.sub(r'[\s;]+$', '', sql)          -- `rstrip` over the tabulated class `stripSet`
tokens = lexer.tokenize(sql)               -- `SlyLex.lex` (a generator: a LexError surfaces when the parser pulls the
ast = parser.parse(tokens)                 --  token behind the last good one = `bad := true` of `LR.parse`)
```
composed from the two models.  Token names are mapped to the canonical terminal ids of `Gen/Tables_<d>` by their
position in `termNames` (exported with the same numbering).
-/
namespace MindsVerif.TextParse
open MindsVerif.Re MindsVerif.SlyLex MindsVerif.LR

/-- `re.sub('[class]+$', '', s)`: drop the trailing run of class characters -/
def rstrip (st : CSet) (s : List Nat) : List Nat := (s.reverse.dropWhile fun c => st.mem c).reverse

def tid (names : List String) (n : String) : Nat := names.idxOf n

/-- terminal ids of the yielded tokens -/
def ids (names : List String) (segs : List Seg) : List Nat := (tokensFrom 0 segs).map fun x => tid names x.1

structure Lang where
  cfg : SlyLex.Cfg
  strip : CSet
  names : List String
  tables : Tables
  mode : Mode

/-- outcome of `parse_sql` on a text: the lexer outcome and, unless the lexer hangs, the parser outcome -/
def parseSql (L : Lang) (s : List Nat) (fuel : Nat) : Out × Option Outcome :=
  let o := lex L.cfg (rstrip L.strip s)
  match o with
  | .ok segs => (o, some (parse L.tables L.mode false (ids L.names segs) fuel))
  | .err _ segs => (o, some (parse L.tables L.mode true (ids L.names segs) fuel))
  | _ => (o, none)

end MindsVerif.TextParse
