/-!
# M7 `Walk` — generic model of `mindsdb_sql/planner/utils.py: query_traversal`

Rose trees over the probed class schema (`Gen/Schema.lean`, Tie B) and a walker that follows the
control flow of `query_traversal`:

* the callback is called first, with the node and the flags `is_table`, `is_target`, `parent_query`;
* a non-`None` result is returned to the caller at once (no descent);
* otherwise the branch of the node's class runs: the *walk row* of the class lists, in order, which
  child slot is traversed, with which flags, whether `parent_query` becomes the node itself or is
  passed through, and what the caller does with a returned replacement
  (`same`: assigned to that child position; `discard`: dropped, as for `WindowFunction.function`;
  `outer` with `via`: `Select.cte` — the callback is not called on the `CommonTableExpression`
  entry but on its `query`, and a replacement takes the place of the whole entry, `… or cte`);
* `noneVisit`: the branch calls the traversal on the attribute without a `None` test
  (`Case.default`), so the callback is invoked with `None` when the slot is empty;
* the original node object is kept (mutated in place) and `None` is returned.

Replacements are nodes (the list-splicing of `Select.targets` and the `or` truthiness of empty
results are outside the model).  Recursion is structural: the transformers of the children are
computed first (as functions of flags and state) and then combined in walk-row order.
-/
namespace MindsVerif.Walk

/-- `cls`: class id, `slot`: slot id of this node within its parent (0 for a root),
`tag`: identity (preorder number in the serialisation), children in attribute order -/
inductive Node where
  | mk (cls slot tag : Nat) (kids : List Node)
deriving Repr, Inhabited

namespace Node
def cls : Node → Nat | .mk c _ _ _ => c
def slot : Node → Nat | .mk _ s _ _ => s
def tag : Node → Nat | .mk _ _ t _ => t
def kids : Node → List Node | .mk _ _ _ ks => ks
def setSlot (s : Nat) : Node → Node | .mk c _ t ks => .mk c s t ks
def setKids (ks : List Node) : Node → Node | .mk c s t _ => .mk c s t ks

mutual
/-- flat serialisation (for decidable comparison of trees) -/
def flat : Node → List Nat
  | .mk c s t ks => c :: s :: t :: flatL ks
def flatL : List Node → List Nat
  | [] => [0]
  | k :: ks => 1 :: (flat k ++ flatL ks)
end
end Node

inductive Kind | table | target | expr | query | container | name
deriving DecidableEq, Repr

/-- kinds of slots whose occupants the property requires to be visited -/
def Kind.required : Kind → Bool
  | .table | .target | .expr | .query => true
  | .container | .name => false

inductive PQ | self | inherit deriving DecidableEq, Repr
inductive Repl | same | discard | outer deriving DecidableEq, Repr

/-- one traversal made by the branch of a class -/
structure Entry where
  slot : Nat
  via : Option Nat
  isTable : Bool
  isTarget : Bool
  pq : PQ
  repl : Repl
  noneVisit : Bool
  orStyle : Bool     -- the branch writes `query_traversal(child, …) or child`: a *falsy* result is dropped
deriving DecidableEq, Repr

structure ClassRow where
  kinds : List Kind      -- kind of slot i
  print : List Nat       -- slots in the order in which `to_string()` prints them
  walk : List Entry      -- the branch of `query_traversal` for this class
  falsy : Bool           -- the class defines `__len__` / `__bool__`: an instance without children is falsy
deriving DecidableEq, Repr

def ClassRow.kind (r : ClassRow) (s : Nat) : Kind := r.kinds.getD s .name

abbrev Schema := List ClassRow

def Schema.row (σ : Schema) (c : Nat) : ClassRow := σ.getD c ⟨[], [], [], false⟩

/-- one call of the callback: the node (or `None`), the flags, the class of `parent_query`
(0 = `None`) and what the callback answered -/
structure Visit where
  node : Option Node
  isTable : Bool
  isTarget : Bool
  pq : Nat
  ans : Option Node
deriving Repr

def Visit.tag (v : Visit) : Option Nat := v.node.map Node.tag
/-- what the property talks about: which node, flagged how -/
def Visit.key (v : Visit) : Option Nat × Bool × Bool := (v.tag, v.isTable, v.isTarget)

/-- state-passing callback: `cb st node is_table is_target parent_query = (result, st')` -/
abbrev Cb (S : Type) := S → Option Node → Bool → Bool → Nat → Option Node × S

structure Out (S : Type) where
  repl : Option Node     -- what `query_traversal` returns
  self : Node            -- the (mutated) original node
  st : S
  log : List Visit
  truthy : Bool          -- Python truthiness of `repl` (what `… or child` looks at)

/-- a traversal still waiting for its flags, `parent_query` and the state -/
abbrev Tr (S : Type) := Bool → Bool → Nat → S → Out S

structure Item (S : Type) where
  node : Node
  tr : Tr S              -- `query_traversal(node, …)`
  via : Nat → Tr S       -- traversal of the child's own slot `q` without calling the callback on the child

variable {S : Type}

/-- what the branch stores at the child's position -/
def applyRepl (e : Entry) (k : Node) (o : Out S) : Node :=
  match o.repl with
  | none => o.self
  | some r =>
    if e.orStyle && !o.truthy then k        -- `query_traversal(child, …) or child` with a falsy result
    else match e.repl with
    | .discard => k
    | .outer => r.setSlot k.slot
    | .same => match e.via with
      | none => r.setSlot k.slot
      | some _ => o.self

/-- one `for` loop / one attribute of a branch: every child in slot `e.slot`, in list order -/
def runEntry (e : Entry) (pq' : Nat) : List (Item S) → List Node → S → List Node × S × List Visit
  | it :: its, c :: cs, st =>
    if it.node.slot = e.slot then
      let o := match e.via with
        | none => it.tr e.isTable e.isTarget pq' st
        | some q => it.via q e.isTable e.isTarget pq' st
      let r := runEntry e pq' its cs o.st
      (applyRepl e it.node o :: r.1, r.2.1, o.log ++ r.2.2)
    else
      let r := runEntry e pq' its cs st
      (c :: r.1, r.2.1, r.2.2)
  | _, cs, st => (cs, st, [])

/-- `parent_query` passed on by a branch: the node itself (`parent_query=node`) or the incoming one -/
def Entry.pqFor (e : Entry) (c pq : Nat) : Nat := match e.pq with | .self => c | .inherit => pq

def hasSlot (its : List (Item S)) (s : Nat) : Bool := its.any (fun it => it.node.slot == s)

/-- the branch of a class: its entries in order -/
def runRow (cb : Cb S) (c pq : Nat) : List Entry → List (Item S) → List Node → S → List Node × S × List Visit
  | [], _, cur, st => (cur, st, [])
  | e :: es, its, cur, st =>
    let pq' := e.pqFor c pq
    let r1 : List Node × S × List Visit :=
      if e.noneVisit && !hasSlot its e.slot then
        match cb st none e.isTable e.isTarget pq' with
        | (some r, st') => (cur ++ [r.setSlot e.slot], st', [⟨none, e.isTable, e.isTarget, pq', some r⟩])
        | (none, st') => (cur, st', [⟨none, e.isTable, e.isTarget, pq', none⟩])
      else runEntry e pq' its cur st
    let r2 := runRow cb c pq es its r1.1 r1.2.1
    (r2.1, r2.2.1, r1.2.2 ++ r2.2.2)

/-- Python truthiness of a node object: an instance of a class that defines `__len__` / `__bool__` is modelled as falsy
when it has no children (an empty container such as `Tuple(items=[])`), every other object is truthy -/
def truthyIn (σ : Schema) (n : Node) : Bool := !((σ.row n.cls).falsy && n.kids.isEmpty)

/-- Python's `a or b` for `a : Optional[node]`: `b` when `a` is `None` *or falsy* -/
def pyOr (truthy : Node → Bool) (a : Option Node) (b : Node) : Node :=
  match a with
  | some r => if truthy r then r else b
  | none => b

/-- body of `query_traversal` for a node whose children's traversals are `its` -/
def step (σ : Schema) (cb : Cb S) (c s t : Nat) (ks : List Node) (its : List (Item S)) : Tr S :=
  fun it ig pq st =>
    let r := cb st (some (.mk c s t ks)) it ig pq
    match r.1 with
    | some x => ⟨some x, .mk c s t ks, r.2, [⟨some (.mk c s t ks), it, ig, pq, some x⟩], truthyIn σ x⟩
    | none =>
      let w := runRow cb c pq (σ.row c).walk its ks r.2
      ⟨none, .mk c s t w.1, w.2.1, ⟨some (.mk c s t ks), it, ig, pq, none⟩ :: w.2.2, true⟩

/-- `query_traversal(child.<q>, …)` for the first grandchild in slot `q` (CTE: `cte.query`):
returns the result, the child's new children list, the state and the log -/
def viaRun (q : Nat) (a b : Bool) (pq : Nat) : List (Item S) → List Node → S → Option Node × List Node × S × List Visit
  | it :: its, g :: gs, st =>
    if it.node.slot = q then
      let o := it.tr a b pq st
      (o.repl, (match o.repl with | some r => r.setSlot g.slot | none => o.self) :: gs, o.st, o.log)
    else
      let r := viaRun q a b pq its gs st
      (r.1, g :: r.2.1, r.2.2.1, r.2.2.2)
  | _, gs, st => (none, gs, st, [])

def viaStep (c s t : Nat) (ks : List Node) (its : List (Item S)) : Nat → Tr S :=
  fun q a b pq st =>
    let r := viaRun q a b pq its ks st
    ⟨r.1, .mk c s t r.2.1, r.2.2.1, r.2.2.2, true⟩

mutual
def tr (σ : Schema) (cb : Cb S) : Node → Tr S
  | .mk c s t ks => step σ cb c s t ks (items σ cb ks)
def trVia (σ : Schema) (cb : Cb S) : Node → Nat → Tr S
  | .mk c s t ks => viaStep c s t ks (items σ cb ks)
def items (σ : Schema) (cb : Cb S) : List Node → List (Item S)
  | [] => []
  | k :: ks => ⟨k, tr σ cb k, trVia σ cb k⟩ :: items σ cb ks
end

/-- `query_traversal(t, cb)` as called by users: no flags, no parent query -/
def walk (σ : Schema) (cb : Cb S) (t : Node) (st : S) : Out S := tr σ cb t false false 0 st

/-- the tree after the call: the replacement if the root itself was replaced (the caller of the
library functions ignores it; `resultTree` is what a caller following the docstring uses) -/
def Out.resultTree (o : Out S) : Node := match o.repl with | some r => r | none => o.self

/-! ## The textual order (specification side) -/

/-- `self it ig`: the node itself (unless it is a mere container) with its flags, then its children -/
abbrev Exp := Bool → Bool → Bool → List (Option Nat × Bool × Bool)

/-- slots whose occupants matter: required ones are visited, containers are looked through -/
def Kind.relevant (k : Kind) : Bool := k.required || k == .container

/-- children in print-template order: for every printed slot of a required kind its occupants in list
order, flagged by the slot kind; for a printed container slot the children of its occupants -/
def combineP (r : ClassRow) (fs : List (Nat × Exp)) : List (Option Nat × Bool × Bool) :=
  (r.print.filter (fun p => (r.kind p).relevant)).flatMap fun p =>
    (fs.filter (fun f => f.1 = p)).flatMap fun f => f.2 (r.kind p).required (r.kind p == .table) (r.kind p == .target)

mutual
def expectedX (σ : Schema) : Node → Exp
  | .mk c _ t ks => fun self it ig =>
    (if self then [(some t, it, ig)] else []) ++ combineP (σ.row c) (expectedL σ ks)
def expectedL (σ : Schema) : List Node → List (Nat × Exp)
  | [] => []
  | k :: ks => (k.slot, expectedX σ k) :: expectedL σ ks
end

/-- textual preorder of the nodes the property requires to be visited, with the expected flags -/
def expected (σ : Schema) (t : Node) (it ig : Bool) : List (Option Nat × Bool × Bool) := expectedX σ t true it ig

/-! ## Print order of all nodes (what `to_string()` shows, for ordering by rendered position) -/

def combineT (r : ClassRow) (fs : List (Nat × List Nat)) : List Nat :=
  r.print.flatMap fun p => (fs.filter (fun f => f.1 = p)).flatMap (·.2)

mutual
/-- identities of all printed nodes in the order of their first printed position: the node, then for every printed
slot (of any kind) its occupants in list order -/
def textOrder (σ : Schema) : Node → List Nat
  | .mk c _ t ks => t :: combineT (σ.row c) (textOrderL σ ks)
def textOrderL (σ : Schema) : List Node → List (Nat × List Nat)
  | [] => []
  | k :: ks => (k.slot, textOrder σ k) :: textOrderL σ ks
end

/-! ## Decidable conditions on rows (Φ13) -/

def slotsOf : List Node → List Nat
  | [] => []
  | k :: ks => k.slot :: slotsOf ks

/-- the branch of a class, restricted to the slots that are occupied in a node, does what the
property says: the occupied traversed slots are exactly the occupied printed slots of a required or
container kind, in the same order; a required slot is traversed plainly with flags equal to its kind, a
container slot is looked through (`via`); a returned node is assigned back; `None` is never passed to the
visitor; every occupied relevant slot is printed (so that it has a textual position), once -/
def nodeOK (r : ClassRow) (present : List Nat) : Bool :=
  r.walk.all (fun e => (!e.noneVisit || present.contains e.slot)
                        && (!present.contains e.slot || e.repl == .same))
  && ((r.walk.filter (fun e => present.contains e.slot)).map (fun e => (e.slot, e.via.isNone, e.isTable, e.isTarget))
      == (r.print.filter (fun p => (r.kind p).relevant && present.contains p)).map
            (fun p => (p, (r.kind p).required, r.kind p == .table, r.kind p == .target)))
  && present.all (fun p => !(r.kind p).relevant || r.print.contains p)
  && (r.print.filter (fun p => (r.kind p).relevant && present.contains p)).Nodup

/-- the occupant of a container slot (class row `rk`, occupied slots `present`) as seen by the entry `e`
that looks through it: its only occupied relevant slot is the one traversed, it is required, holds exactly
one node, and the flags passed are those of its kind -/
def contCond (rk : ClassRow) (e : Entry) (present : List Nat) : Bool :=
  match e.via with
  | none => true
  | some q =>
    (rk.print.filter (fun p => (rk.kind p).relevant && present.contains p) == [q])
    && (rk.kind q).required && ((rk.kind q == .table) == e.isTable) && ((rk.kind q == .target) == e.isTarget)
    && (present.filter (· == q) == [q])
    && present.all (fun p => !(rk.kind p).relevant || rk.print.contains p)

/-- the row is right whatever slots are occupied -/
def rowOK (r : ClassRow) : Bool :=
  r.walk.all (fun e => !e.noneVisit && e.repl == .same)
  && (r.walk.map (fun e => (e.slot, e.via.isNone, e.isTable, e.isTarget))
      == (r.print.filter (fun p => (r.kind p).relevant)).map
            (fun p => (p, (r.kind p).required, r.kind p == .table, r.kind p == .target)))
  && (List.range r.kinds.length).all (fun p => !(r.kind p).relevant || r.print.contains p)
  && (r.print.filter (fun p => (r.kind p).relevant)).Nodup

mutual
/-- every node of the tree is in a class / slot configuration whose branch is right -/
def okTree (σ : Schema) : Node → Bool
  | .mk c _ _ ks => nodeOK (σ.row c) (slotsOf ks) && okKids σ (σ.row c) ks
/-- children in required slots are `okTree`; an occupant of a container slot satisfies `contCond` for the
entries that look through it and its own children are `okKids`; other children (names) are not traversed -/
def okKids (σ : Schema) (row : ClassRow) : List Node → Bool
  | [] => true
  | .mk c s t gs :: ks =>
    (if (row.kind s).required then okTree σ (.mk c s t gs)
     else if row.kind s == .container then
       row.walk.all (fun e => e.slot != s || contCond (σ.row c) e (slotsOf gs)) && okKids σ (σ.row c) gs
     else true)
    && okKids σ row ks
end

/-! ## Deviations: by what the probed schema differs from an OK one -/

inductive Dev | unvisited | order | via | replace | none | flagTable | flagTarget | multi | unprinted | extra
deriving DecidableEq, Repr

def idxOf (l : List Nat) (x : Nat) : Nat := l.findIdx (· == x)

/-- all `(slot, deviation)` pairs of one row -/
def rowDevs (r : ClassRow) : List (Nat × Dev) :=
  let ws := r.walk.map (·.slot)
  ((List.range r.kinds.length).flatMap fun s =>
      (if (r.kind s).required && !ws.contains s then [(s, Dev.unvisited)] else [])
      ++ (if (r.kind s).required && !r.print.contains s then [(s, Dev.unprinted)] else []))
  ++ ((List.range r.walk.length).flatMap fun i =>
      match r.walk[i]? with
      | none => []
      | some e =>
        let k := r.kind e.slot
        (if r.print.contains e.slot &&
            (r.walk.drop (i + 1)).any (fun b => r.print.contains b.slot && idxOf r.print b.slot < idxOf r.print e.slot)
          then [(e.slot, Dev.order)] else [])
        ++ (if e.via.isSome != (k == .container) then [(e.slot, Dev.via)] else [])
        ++ (if e.repl != .same then [(e.slot, Dev.replace)] else [])
        ++ (if e.noneVisit then [(e.slot, Dev.none)] else [])
        ++ (if k != .container && e.via.isNone && e.isTable != (k == .table) then [(e.slot, Dev.flagTable)] else [])
        ++ (if k != .container && e.via.isNone && e.isTarget != (k == .target) then [(e.slot, Dev.flagTarget)] else [])
        ++ (if (ws.take i).contains e.slot then [(e.slot, Dev.multi)] else [])
        ++ (if !k.required && k != .container then [(e.slot, Dev.extra)] else []))

/-- all `(class, slot, deviation)` triples of a schema -/
def schemaDevs (σ : Schema) : List (Nat × Nat × Dev) :=
  (List.range σ.length).flatMap fun c => (rowDevs (σ.row c)).map fun d => (c, d.1, d.2)

end MindsVerif.Walk
