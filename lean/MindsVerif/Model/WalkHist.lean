import MindsVerif.Model.Walk
import MindsVerif.Model.Params
/-!
# Depth and process history of the walker (specification side of the depth / history streams)

`Walk.walk σ cb t st` is a pure function of the schema, the visitor, the tree and the visitor's state.  Two things follow
that the code has to share and that the check ties to the code by streams of their own:

* **depth** — the walk is defined by structural recursion, for trees of every height (`height`); the theorems of
  `Props/C13.lean` quantify over all trees.  A walker that stops descending at some nesting depth is a *different* function:
  `trCut σ cb f` is the walker with a depth budget `f` (below the budget it returns `None` without calling the visitor, the
  branch is kept as it is).  `Lemmas/WalkDepth.lean`: it agrees with `tr` exactly on the trees that fit the budget.
* **history** — `Proc H` is a walker implementation with hidden process state `H` (module globals, counters, caches) that
  is threaded through successive top-level calls; `Job` is one call: a looking visitor, or a looking visitor that raises at
  a node (`abortLog`: the calls made are those of the looking visitor up to and including that node, then the exception
  leaves the walk).  `modelProc` is the model walker seen as such an implementation, `ctrProc` a walker with a depth
  counter kept in the process state that is not restored when a walk is left by an exception.
-/
namespace MindsVerif.Walk
open MindsVerif.Params

/-- the calls made when the visitor raises at node `x`: the calls of the walk up to and including the first call on `x` -/
def abortLog (x : Nat) : List Visit → List Visit
  | [] => []
  | v :: vs => if v.tag = some x then [v] else v :: abortLog x vs

/-- does the visitor raise at all (is `x` called)? -/
def aborts (x : Nat) (l : List Visit) : Bool := l.any (fun v => v.tag == some x)

mutual
/-- nesting depth of a tree (a leaf has height 1) -/
def height : Node → Nat
  | .mk _ _ _ ks => heightL ks + 1
def heightL : List Node → Nat
  | [] => 0
  | k :: ks => max (height k) (heightL ks)
end

variable {S : Type}

mutual
/-- the walker with a depth budget: `f` levels may still be entered; with no budget left the call returns `None` at once
(no call of the visitor, the branch stays as it is).  Looking through a container (`Select.cte` → `cte.query`) is a call made
by the branch of the container's parent, so it costs no level of its own. -/
def trCut (σ : Schema) (cb : Cb S) : Nat → Node → Tr S
  | 0, n => fun _ _ _ st => ⟨none, n, st, [], true⟩
  | f + 1, .mk c s t ks => step σ cb c s t ks (itemsCut σ cb f ks)
def trViaCut (σ : Schema) (cb : Cb S) : Nat → Node → Nat → Tr S
  | f, .mk c s t ks => viaStep c s t ks (itemsCut σ cb f ks)
def itemsCut (σ : Schema) (cb : Cb S) : Nat → List Node → List (Item S)
  | _, [] => []
  | f, k :: ks => ⟨k, trCut σ cb f k, trViaCut σ cb f k⟩ :: itemsCut σ cb f ks
end

/-- `query_traversal(t, cb)` of a walker that enters at most `f` levels -/
def walkCut (σ : Schema) (cb : Cb S) (f : Nat) (t : Node) (st : S) : Out S := trCut σ cb f t false false 0 st

/-! ## process history -/

/-- one top-level call: a visitor that only looks, or one that looks and raises at the node `x` -/
inductive Job where
  | look (t : Node)
  | abortAt (x : Nat) (t : Node)

/-- what the caller observes of a call: the calls of the visitor and whether the exception came out -/
structure Seen where
  calls : List (Option Nat × Bool × Bool)
  raised : Bool
deriving DecidableEq, Repr

/-- the specification: a function of the job alone -/
def specSeen (σ : Schema) : Job → Seen
  | .look t => ⟨(walk σ cbLog t ()).log.map Visit.key, false⟩
  | .abortAt x t => ⟨(abortLog x (walk σ cbLog t ()).log).map Visit.key, aborts x (walk σ cbLog t ()).log⟩

/-- a walker implementation with hidden process state `H` -/
abbrev Proc (H : Type) := H → Job → Seen × H

/-- the process state after a list of earlier calls -/
def stateAfter {H : Type} (p : Proc H) : H → List Job → H
  | h, [] => h
  | h, j :: js => stateAfter p (p h j).2 js

/-- what the caller sees of the call `j` made after the calls `pre` in a process that started in state `h` -/
def seenAfter {H : Type} (p : Proc H) (h : H) (pre : List Job) (j : Job) : Seen := (p (stateAfter p h pre) j).1

/-- no call can tell what was called before -/
def HistoryFree {H : Type} (p : Proc H) : Prop := ∀ h pre j, seenAfter p h pre j = seenAfter p h [] j

/-- the model walker as a process: there is nothing to remember -/
def modelProc (σ : Schema) : Proc Unit := fun h j => (specSeen σ j, h)

mutual
/-- number of nodes on the path from the root to the node `x` (0 when `x` is not in the tree): the number of walker calls that
are active while the visitor looks at `x` (trees without containers) -/
def pathLen (x : Nat) : Node → Nat
  | .mk _ _ t ks => if t = x then 1 else (match pathLenL x ks with | 0 => 0 | d + 1 => d + 2)
def pathLenL (x : Nat) : List Node → Nat
  | [] => 0
  | k :: ks => match pathLen x k with
    | 0 => pathLenL x ks
    | d + 1 => d + 1
end

/-- a walker that keeps its nesting depth in the process state `h`, stops descending at `lim`, and does not restore the
counter when the visitor's exception leaves the walk: the active calls stay counted -/
def ctrProc (σ : Schema) (lim : Nat) : Proc Nat := fun h j =>
  match j with
  | .look t => (⟨(walkCut σ cbLog (lim - h) t ()).log.map Visit.key, false⟩, h)
  | .abortAt x t =>
    let l := (walkCut σ cbLog (lim - h) t ()).log
    (⟨(abortLog x l).map Visit.key, aborts x l⟩, if aborts x l then h + pathLen x t else h)

end MindsVerif.Walk
