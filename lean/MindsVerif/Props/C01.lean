import MindsVerif.Lemmas.SelectSkel
import MindsVerif.Lemmas.SelectCompose
import MindsVerif.Lemmas.SetOps
import MindsVerif.Lemmas.SelectTokens
import MindsVerif.Lemmas.LitSeq
import MindsVerif.Lemmas.PrintHist
import MindsVerif.Gen.Reserved
import MindsVerif.Props.C03
import MindsVerif.Props.C18
import MindsVerif.Model.Lex
import MindsVerif.Gen.Lex_sqlite
import MindsVerif.Gen.Lex_mysql
import MindsVerif.Gen.Lex_mindsdb
/-!
# C01 — printing a parsed statement and re-parsing it yields the same tree

`C01_full parse print copy` is the property for one dialect, stated over the real pair
`parse = parse_sql(·, dialect)`, `print = ASTNode.to_string`, `copy = ASTNode.copy` (trees compared by `to_tree` and `str`).
No theorem of this file proves or refutes `C01_full` for the real pair: it ranges over every node class and every statement
kind, and the round-trip oracle of `tools/props/c01.py` still meets open known findings (`known_findings.json`, each with
`why_open`).  What is proved is layered; every layer theorem is for ALL inputs of its layer:

* **reduction of the `copy()` half** `C01_full_of_roundtrip_and_copy`: `C01_full` follows from the plain round trip plus
  "a copy prints like the original"; the latter is `C01_copy_print_stable` (= `C18.C18_copy_print_stable` on the heap
  model of `copy.deepcopy` with the live `Identifier.__deepcopy__` hook: every print-like observation of the copy equals that
  of the original, and no later mutation of the copy changes what the original prints).  In the layer instances below trees
  are values, so `copy = id`.
* **L1 atoms** are the C04 package.  Here: `C01_partial_literal_sequence` (a string constant ends where the printer ended
  it whatever follows: any sequence of constants with any separators is lexed back to the same values and boundaries; built on
  `Codec.roundtrip`, tied by the `literal-sequence` stream) and the regression obligations `C01_regress_parameter`,
  `C01_regress_variable` on the models of `Parameter.get_string` / `Variable.get_string` (tied by the `atom-printers` stream).
* **L2 expressions** `C01_partial_expr_<d>` (= `C03.roundtrip_<d>`): for EVERY token list the operator-precedence machine
  of the dialect accepts (any operators of the exported precedence table, any user parentheses), printing the tree with its
  stored `parentheses` flags and parsing again gives the same tree.  Tie to the LALR tables: `C03.phi3b_<d>`.
* **L3 SELECT skeleton** `C01_partial_select`: for EVERY sequence of clause-rule applications that the grammar actions accept
  (any order, duplicates, `LIMIT a, b`, `USING`, `FOR UPDATE`), the clauses `Select.get_string` emits for the resulting record
  pass `ensure_select_keyword_order` in that order and rebuild exactly the same record (`C01_partial_select_stable`,
  `C01_partial_select_good`, `C01_select_good`).  The "text" of this layer is the head + list of clause applications; no
  strings are involved.  Tie: `select-skeleton` stream (three dialects).
* **L3 set operations** `C01_partial_union : C01_full parseQ printQ id`: every token list the `union` rules of the MindsDB
  grammar accept — operands parenthesised or not on either side, nested to any depth — round-trips, parentheses flags
  included; `C01_partial_union_wf`, `C01_union_wf`; `C01_regress_union` (the grouping that was lost before /repo bce2da8).
  Tie: `set-operation-chains` stream.
* **L2 ∘ L3** `C01_partial_compose` (any payload parser / printer pair; payload round trip G2 as hypothesis),
  `C01_partial_select_expr_<d>` (G2 discharged for operator expressions), and the token level `C01_partial_tokens`,
  `C01_partial_tokens_compose`, `C01_review_tokens_select_expr` (G2 and non-emptiness discharged for operator expressions).
  **Limits of the token level**: tokens are TAGGED (`Tk.kw` / `Tk.comma` / `Tk.pay p`), so a payload token can by typing never be a
  clause keyword or a top-level comma; identifiers that collide with keywords, commas inside a payload (`f(a, b)`,
  `FROM a, b`) and keywords inside sub-selects are not expressible — that the real lexer + LALR parser tag the printed text this
  way is exactly the unproved glue G1.  `printTks` / `splitTks` / `parseSelTks` / `parseSelT` are Lean-only glue with no driver;
  their real counterpart is watched by the round-trip oracle only.

Glue that is NOT proved (exercised by the round-trip oracle on the real code):
 (G1) the LALR parser delimits clause payloads from clause keywords the way the skeleton / token level assume
      (clause keywords are reserved words: C04 Φ4; LALR driver: C05);
 (G2) payloads beyond L1 / L2 round-trip (function calls, CASE, CAST, sub-selects, joins … not modelled);
 (G3) statement kinds other than SELECT / set operations (DML, DDL, SHOW/SET/USE, MindsDB commands): no model.
-/
namespace MindsVerif.Props.C01
open MindsVerif MindsVerif.SelectSkel

/-- the property for one dialect: `parse` = the dialect's `parse_sql` (`none` = rejected),
`print` = `to_string`, `copy` = `ASTNode.copy`; trees are compared with the library's own
equality (to_tree + str), which is `=` on the model side -/
def C01_full {Text Tree : Type} (parse : Text → Option Tree) (print : Tree → Text) (copy : Tree → Tree) : Prop :=
  ∀ (txt : Text) (t : Tree), parse txt = some t →
    parse (print t) = some t ∧
    (∀ t', parse (print t) = some t' → print t' = print t) ∧
    parse (print (copy t)) = some t ∧ print (copy t) = print t

/-- **the `copy()` half of the quantifier**: `C01_full` is the round trip plus "a copy prints like the original" -/
theorem C01_full_of_roundtrip_and_copy {Text Tree : Type} (parse : Text → Option Tree) (print : Tree → Text)
    (copy : Tree → Tree) (hrt : ∀ txt t, parse txt = some t → parse (print t) = some t)
    (hcp : ∀ txt t, parse txt = some t → print (copy t) = print t) : C01_full parse print copy := by
  intro txt t h
  have k := hrt txt t h
  have c := hcp txt t h
  refine ⟨k, ?_, ?_, c⟩
  · intro t' h'
    rw [k] at h'
    cases h'
    rfl
  · rw [c]; exact k

/-- "a copy prints like the original", on the heap model of `copy.deepcopy` with the live `Identifier.__deepcopy__` hook
(C18): for every well-formed heap and value, every print-like (`Structural`: depends on a finite unfolding only, as
`to_string` / `to_tree` do) observation `F` of the copy equals that of the original — the hypothesis `hcp` above —,
and no mutation of the copy changes what the original prints. -/
theorem C01_copy_print_stable (h0 : Heap.Heap) (v : Heap.Val) (hwf : Heap.wfB h0 = true) (hv : v.okB h0.length = true)
    (hparen : Heap.parenAtomicB h0 = true) (hshape : Heap.identShapeB h0 = true)
    {β : Type} (F : Heap.Heap → Heap.Val → β) (hF : Heap.Structural F)
    (fuel : Nat) (h' : Heap.Heap) (v' : Heap.Val)
    (he : Heap.deepcopy Gen.CopyRows.identHook fuel h0 v = some (h', v')) :
    F h' v' = F h0 v ∧ (∀ b f, Heap.Reach h' v' b → F (Heap.mutate h' b f) v = F h0 v) :=
  let r := C18.C18_copy_print_stable h0 v hwf hv hparen hshape F hF fuel h' v' he
  ⟨r.1, r.2.2⟩

/-! ## L3: SELECT skeleton -/

/-- a skeleton source text = head + clause applications; a tree = `Sel E` -/
def parseSkel {E : Type} (c : Cfg E) (x : Option E × Bool × List E × List (Clause E)) : Option (Sel E) :=
  match parseSel c x.1 x.2.1 x.2.2.1 x.2.2.2 with
  | .ok s => some s
  | .error _ => none

def printSkel {E : Type} (s : Sel E) : Option E × Bool × List E × List (Clause E) :=
  (s.cte, s.distinct, s.targets, s.clauses)

/-- **C01 on the SELECT skeleton, for ALL accepted clause sequences** (copy = identity on values) -/
theorem C01_partial_select {E : Type} (c : Cfg E) : C01_full (parseSkel c) printSkel id := by
  intro txt t h
  obtain ⟨cte, d, ts, cs⟩ := txt
  have hp : parseSel c cte d ts cs = .ok t := by
    simp only [parseSkel] at h
    cases hq : parseSel c cte d ts cs with
    | ok s => rw [hq] at h; simp at h; rw [h]
    | error e => rw [hq] at h; simp at h
  have hh := fold_head c cs _ t hp
  have hr := select_roundtrip c cte d ts cs t hp
  simp only [init] at hh
  have key : parseSkel c (printSkel t) = some t := by
    simp only [parseSkel, printSkel, hh.1, hh.2.1, hh.2.2, hr]
  refine ⟨key, ?_, key, rfl⟩
  intro t' h'
  rw [key] at h'
  cases h'
  rfl

/-- for ALL records with the invariant: the printed clause order passes the guard and rebuilds the record -/
theorem C01_partial_select_good {E : Type} (c : Cfg E) (s : Sel E) (h : Good c s = true) :
    parseSel c s.cte s.distinct s.targets s.clauses = .ok s := print_parse c s h

/-- every record built by the clause rules has the invariant -/
theorem C01_select_good {E : Type} (c : Cfg E) (cte : Option E) (d : Bool) (ts : List E) (cs : List (Clause E))
    (s : Sel E) (h : parseSel c cte d ts cs = .ok s) : Good c s = true :=
  fold_good c cs _ s (init_good c cte d ts) h

/-- printing is stable: the re-parsed record prints the same clause list -/
theorem C01_partial_select_stable {E : Type} (c : Cfg E) (cte : Option E) (d : Bool) (ts : List E)
    (cs : List (Clause E)) (s s' : Sel E) (h : parseSel c cte d ts cs = .ok s)
    (h' : parseSel c cte d ts s.clauses = .ok s') : s'.clauses = s.clauses := by
  rw [select_roundtrip c cte d ts cs s h] at h'
  cases h'; rfl

/-! ## L3: set operations (repaired in /repo bce2da8: `( union )` keeps `parentheses = True`) -/

/-- **C01 on set operations, for ALL accepted token lists**: operands parenthesised or not, on either side,
nested to any depth, redundant parentheses — the printed tree is parsed back to the same tree (flags included) -/
theorem C01_partial_union : C01_full parseQ printQ id := by
  intro toks q h
  have key := setop_roundtrip toks q h
  refine ⟨key, ?_, key, rfl⟩
  intro t' h'
  rw [key] at h'
  cases h'
  rfl

/-- for ALL trees whose right operands are `select`s (plain or parenthesised) -/
theorem C01_partial_union_wf (q : Q) (h : wfQ q = true) : parseQ (printQ q) = some q := setop_roundtrip_wf q h

/-- every tree the rules build has that shape -/
theorem C01_union_wf (toks : List QTok) (q : Q) (h : parseQ toks = some q) : wfQ q = true := parse_wf toks q h

/-- regression for the former known finding (KF-C01-40 / -24 / -27 / -31, `C01_witness_union` of earlier rounds):
`SELECT 0 EXCEPT (SELECT 1 EXCEPT SELECT 2)` keeps its grouping through print and re-parse, and differs from the
un-parenthesised chain -/
def wUnionToks : List QTok := [.sel 0, .op .except true, .lp, .sel 1, .op .except true, .sel 2, .rp]
def wUnion : Q := .comb .except true false (.sel 0) (.comb .except true true (.sel 1) (.sel 2))

theorem C01_regress_union :
    parseQ wUnionToks = some wUnion ∧ printQ wUnion = wUnionToks ∧ parseQ (printQ wUnion) = some wUnion ∧
      parseQ [.sel 0, .op .except true, .sel 1, .op .except true, .sel 2] =
        some (.comb .except true false (.comb .except true false (.sel 0) (.sel 1)) (.sel 2)) := by
  decide

/-- redundant parentheses: `((SELECT 1 UNION SELECT 2))` and `(SELECT 1)` -/
example : parseQ [.lp, .lp, .sel 1, .op .union true, .sel 2, .rp, .rp] = some (.comb .union true true (.sel 1) (.sel 2)) := by decide
example : parseQ [.lp, .sel 1, .rp] = some (.sel 1) := by decide
example : parseQ [.sel 1, .op .union false] = none := by decide

/-! ## L2: expressions (re-exported from C03) -/

theorem C01_partial_expr_sqlite : C03.RoundTrip Gen.Prec_sqlite.P := C03.roundtrip_sqlite
theorem C01_partial_expr_mysql : C03.RoundTrip Gen.Prec_mysql.P := C03.roundtrip_mysql
theorem C01_partial_expr_mindsdb : C03.RoundTrip Gen.Prec_mindsdb.P := C03.roundtrip_mindsdb

/-! ## composition L2 ∘ L3 (glue G2 as a hypothesis, discharged for operator expressions) -/

/-- **composed statement**: a SELECT whose payloads are texts parsed by `f` and printed by `g`: for every good
record all of whose payloads round-trip through `g` / `f` (G2), parsing the printed statement gives the record back -/
theorem C01_partial_compose {T E : Type} (c : Cfg E) (f : T → Option E) (g : E → T) (s : Sel E)
    (hg : Good c s = true) (h : ∀ e ∈ s.payloads, f (g e) = some e) :
    parseSelT c f (s.cte.map g) s.distinct (s.targets.map g) (s.clauses.map (Clause.map g)) = some s :=
  compose_roundtrip c f g s hg h

/-- L2 ∘ L3: payloads = operator expressions of a dialect (token lists parsed by the operator-precedence
machine, printed with their stored parentheses flags).  Every good SELECT record whose payloads were produced by
the expression parser round-trips as a whole. -/
def SelectExprRT (P : OPM.Table) : Prop :=
  ∀ (c : Cfg OPM.Expr) (s : Sel OPM.Expr), Good c s = true →
    (∀ e ∈ s.payloads, ∃ toks, OPM.parse P toks [] none = some e) →
    parseSelT c (fun toks => OPM.parse P toks [] none) (s.cte.map (OPM.print P)) s.distinct
      (s.targets.map (OPM.print P)) (s.clauses.map (Clause.map (OPM.print P))) = some s

theorem C01_partial_select_expr (P : OPM.Table) (hP : C03.RoundTrip P) : SelectExprRT P :=
  fun c s hg h => compose_roundtrip c _ _ s hg (fun e he => by
    obtain ⟨toks, ht⟩ := h e he
    exact hP toks e ht)

theorem C01_partial_select_expr_sqlite : SelectExprRT Gen.Prec_sqlite.P := C01_partial_select_expr _ C03.roundtrip_sqlite
theorem C01_partial_select_expr_mysql : SelectExprRT Gen.Prec_mysql.P := C01_partial_select_expr _ C03.roundtrip_mysql
theorem C01_partial_select_expr_mindsdb : SelectExprRT Gen.Prec_mindsdb.P := C01_partial_select_expr _ C03.roundtrip_mindsdb

/-! ## token level of the skeleton (the glue G1 made explicit) -/

/-- the token sequence `Select.get_string` emits for a clause list (clause keywords, commas, payload tokens)
determines the clause list: cutting it at the keywords and commas gives the clauses back — for ALL clause lists
with non-empty payload token lists -/
theorem C01_partial_tokens {P : Type} (cs : List (Clause (List P))) (h : cs.all clauseOK = true) :
    splitTks (printTks cs) = some cs := split_print cs h

/-- **L1/L2 ∘ tokens ∘ L3**: from the printed token sequence of a good record back to the record, given only the
payload round trip (G2) and that no payload prints to the empty text.  What is left of G1: the LALR parser cuts the
text where `splitTks` cuts it (no payload token is read as a clause keyword or vice versa). -/
theorem C01_partial_tokens_compose {P E : Type} (c : Cfg E) (f : List P → Option E) (g : E → List P) (s : Sel E)
    (hg : Good c s = true) (h : ∀ e ∈ s.payloads, f (g e) = some e) (hne : ∀ e ∈ s.payloads, g e ≠ []) :
    parseSelTks c f (s.cte.map g) s.distinct (s.targets.map g) (printTks (s.clauses.map (Clause.map g))) = some s :=
  tokens_roundtrip c f g s hg h hne

/-- non-vacuity: `FROM t WHERE a = 1 GROUP BY a, b LIMIT 2, 3 FOR UPDATE` is cut back into its five clauses -/
example : splitTks (printTks [Clause.from_ [1], .where_ [2, 3, 4], .groupBy [2] [[5]], .limit2 [6] [7], .forUpdate]) =
    some [Clause.from_ [1], .where_ [2, 3, 4], .groupBy [2] [[5]], .limit2 [6] [7], .forUpdate] := by decide
/-- a payload-less clause is not a clause: `WHERE` followed directly by `LIMIT 1` is rejected -/
example : splitTks ([.kw .where_, .kw .limit, .pay 1] : List (Tk Nat)) = none := by decide

/-! ## L1 in sequence: several string constants in one statement -/

/-- **a literal ends where the printer ended it, whatever follows**: any sequence of string constants — any values,
also ones ending in backslashes or quotes — printed by `Constant.get_string` with any separators that do not begin
with a quote (`, `, ` AND b = `, `)` …, non-empty between two literals) is read back by the lexer model
(`QUOTE_STRING` match + `unescape_string`) as exactly those values with exactly those boundaries.
(Single literal with arbitrary continuation: `Codec.roundtrip` of the C04 package.) -/
theorem C01_partial_literal_sequence (items : List (List Char × List Char)) (h : LitSeq.sepsOK items = true) :
    LitSeq.readSeq (items.map (·.2)) (LitSeq.printSeq items) = some (items.map (·.1)) :=
  LitSeq.read_print items h

/-- `'d\\', 'a'` (the value `d\` followed by the value `a`): both values come back -/
example : LitSeq.readSeq [[',', ' '], []] (LitSeq.printSeq [(['d', '\\'], [',', ' ']), (['a'], [])]) =
    some [['d', '\\'], ['a']] := by decide +kernel

/-- sensitivity: a printer that leaves a trailing backslash single (`'d\'` for the value `d\`) makes the first
literal swallow its closing quote — the text is read as ONE literal running on to the next quote, so the sequence
is not read back -/
example : LitSeq.readSeq [[',', ' '], []] ['\'', 'd', '\\', '\'', ',', ' ', '\'', 'a', '\''] = none := by decide +kernel

/-! ## L1 atoms repaired in /repo (fa4fc42, 6a738d8): regression obligations on the model of the printers
(`Lex.parameterToString`, `Lex.variableToString` transcribe the repaired `get_string`s; the former defects —
`SELECT ?` printed `:?`, ``@`a b` `` printed `@a b` — are fixed known findings KF-C01-1 / KF-C01-6) -/

/-- `SELECT ?`: the placeholder prints as the PARAMETER lexeme.  `Lex.parameterToString` is compared with the real
`Parameter(v).to_string()` on every run (`atom-printers` stream: `?`, named placeholders), so a change of
`Parameter.get_string` diverges there; the pins below tie the lexeme. -/
theorem C01_regress_parameter : Lex.parameterToString ['?'] = ['?'] := by decide

example : Gen.Lex_sqlite.PARAMETER = "\\?" := by decide
example : Gen.Lex_mysql.PARAMETER = "\\?" := by decide
example : Gen.Lex_mindsdb.PARAMETER = "\\?" := by decide

/-- quoted variable names are printed quoted and lexed back to the same name with nothing left over
(plain, blank inside, back-quote inside, system variable) -/
theorem C01_regress_variable :
    Lex.lexVariable (Lex.variableToString false ['a', ' ', 'b']) = some (false, ['a', ' ', 'b'], []) ∧
    Lex.variableToString false ['a', ' ', 'b'] = ['@', '`', 'a', ' ', 'b', '`'] ∧
    Lex.lexVariable (Lex.variableToString false ['a', '.', 'b']) = some (false, ['a', '.', 'b'], []) ∧
    Lex.lexVariable (Lex.variableToString false ['a', '`', 'b']) = some (false, ['a', '`', 'b'], []) ∧
    Lex.lexVariable (Lex.variableToString true ['x', ' ', 'y']) = some (true, ['x', ' ', 'y'], []) := by
  decide

/-! ## non-vacuity -/

def cfgNat : Cfg Nat := { isOp := fun n => n % 2 == 0, isInt := fun n => n < 100 }

/-- `SELECT 1 FROM 2 WHERE 4 LIMIT 7, 8 FOR UPDATE` is accepted … -/
example : (parseSel cfgNat none false [1] [.from_ 2, .where_ 4, .limit2 7 8, .forUpdate]).toOption.isSome = true := by
  decide
/-- … written in another order it is rejected by the guard (`WHERE requires FROM`, `LIMIT must go before OFFSET`) -/
example : parseSel cfgNat none false [1] [.where_ 4, .from_ 2] = .error (.requires .where_ .from_) := rfl
example : parseSel cfgNat none false [1] [.offset 3, .limit 5] = .error (.before .limit .offset) := rfl
example : parseSel cfgNat none false [1] [.from_ 2, .from_ 2] = .error (.duplicate .from_) := rfl
/-- and `LIMIT 7, 8` is printed as `LIMIT 8 OFFSET 7` -/
example : (parseSel cfgNat none false [1] [.from_ 2, .limit2 7 8]).toOption.map Sel.clauses =
    some [.from_ 2, .limit 8, .offset 7] := by decide

/-! ## [review] additions

[review] Reading guide (what the statements above do and do not say).
* (addressed) the header no longer mentions `C01_witness_*`; no theorem here refutes or proves `C01_full` for the real
  `parse_sql` / `to_string`.
* In every layer instance of `C01_full` proved here `copy = id` (trees are values), so the two `copy` conjuncts repeat the
  first one; (addressed) the `copy()` half is now stated through `C01_full_of_roundtrip_and_copy` + `C01_copy_print_stable`
  (C18's heap model), and watched on the real code by the oracle (`copy-differs` / `copy-crash`).
* `C01_partial_select`: the "text" is the abstract head + list of clause-rule applications and "print" is the
  projection `printSkel`; the content is that the canonical clause order `Sel.clauses` passes the guard and rebuilds
  the record (no strings, keywords or whitespace are involved).
* `C01_partial_tokens(_compose)`: tokens are TAGGED (`Tk.kw` / `Tk.comma` / `Tk.pay p`), so a payload token can by
  construction never be a clause keyword or a top-level comma: keyword-colliding identifiers, commas inside a
  payload (`f(a, b)`, `FROM a, b`) and keywords inside sub-selects are outside what these two theorems speak about
  (this is the unproved glue G1).
* (addressed) `C01_regress_parameter` unfolds `Lex.parameterToString`; that function and `Lex.variableToString` are now
  evaluated by `Driver/LitSeq.lean` (`P` / `V` lines) and compared with `Parameter.to_string` / `Variable.to_string` in the
  `atom-printers` correspondence of `tools/props/c01.py`. -/

-- [review] non-vacuity of `C01_partial_select_expr_mindsdb` on a non-trivial instance:
-- `SELECT DISTINCT x0, -x8 FROM x9 WHERE x1 = x2 AND (x3 OR x4) ORDER BY x1 LIMIT x7`
-- (mindsdb operator ids: 66 a comparison (nonassoc 7), 5 AND, 131 OR, 111 prefix/binary minus).
def cfgX : Cfg OPM.Expr :=
  { isOp := fun e => match e with | .bin .. => true | .pre .. => true | .btw .. => true | _ => false,
    isInt := fun e => match e with | .atom _ => true | _ => false }
def wToks : List OPM.Tok := [.atom 1, .op 66, .atom 2, .op 5, .lpar, .atom 3, .op 131, .atom 4, .rpar]
def wExpr : OPM.Expr := .bin 5 (.bin 66 (.atom 1) (.atom 2)) (.paren (.bin 131 (.atom 3) (.atom 4)))
def wSel : Sel OPM.Expr :=
  { cte := none, distinct := true, targets := [.atom 0, .pre 111 (.atom 8)], from_ := some (.atom 9), where_ := some wExpr,
    groupBy := none, having := none, orderBy := some [.atom 1], limit := some (.atom 7), offset := none, mode := false, usng := none }

-- [review] the hypotheses hold (the WHERE payload is what the machine builds from the token list, user parentheses kept) …
example : OPM.parse Gen.Prec_mindsdb.P wToks [] none = some wExpr ∧ OPM.print Gen.Prec_mindsdb.P wExpr = wToks ∧
    Good cfgX wSel = true ∧
    (∀ e ∈ wSel.payloads, OPM.parse Gen.Prec_mindsdb.P (OPM.print Gen.Prec_mindsdb.P e) [] none = some e) ∧
    wSel.clauses.map (Clause.map (OPM.print Gen.Prec_mindsdb.P)) =
      [.from_ [.atom 9], .where_ wToks, .orderBy [.atom 1] [], .limit [.atom 7]] := by decide

-- [review] … and the theorem gives the statement-level round trip for it
example : parseSelT cfgX (fun toks => OPM.parse Gen.Prec_mindsdb.P toks [] none) none true
    [[.atom 0], [.op 111, .atom 8]] [.from_ [.atom 9], .where_ wToks, .orderBy [.atom 1] [], .limit [.atom 7]] = some wSel :=
  C01_partial_select_expr_mindsdb cfgX wSel (by decide)
    (fun e he => ⟨OPM.print Gen.Prec_mindsdb.P e, (by decide : ∀ e ∈ wSel.payloads,
      OPM.parse Gen.Prec_mindsdb.P (OPM.print Gen.Prec_mindsdb.P e) [] none = some e) e he⟩)

-- [review]
theorem C01_review_opm_print_ne (P : OPM.Table) (e : OPM.Expr) : OPM.print P e ≠ [] := by
  cases e <;> simp [OPM.print]

-- [review] the token-level composition with G2 and the non-emptiness side condition DISCHARGED for operator
-- expressions (`C01_partial_tokens_compose` leaves both as hypotheses and is not instantiated anywhere): from the
-- flat tagged token sequence of the printed clauses back to the record, for every good record whose payloads the
-- expression parser produced.
theorem C01_review_tokens_select_expr (P : OPM.Table) (hP : C03.RoundTrip P) (c : Cfg OPM.Expr) (s : Sel OPM.Expr)
    (hg : Good c s = true) (h : ∀ e ∈ s.payloads, ∃ toks, OPM.parse P toks [] none = some e) :
    parseSelTks c (fun toks => OPM.parse P toks [] none) (s.cte.map (OPM.print P)) s.distinct
      (s.targets.map (OPM.print P)) (printTks (s.clauses.map (Clause.map (OPM.print P)))) = some s :=
  tokens_roundtrip c _ _ s hg (fun e he => by obtain ⟨t, ht⟩ := h e he; exact hP t e ht)
    (fun e _ => C01_review_opm_print_ne P e)

-- [review] the flat token sequence of the instance above
example : printTks (wSel.clauses.map (Clause.map (OPM.print Gen.Prec_mindsdb.P))) =
    [.kw .from_, .pay (.atom 9), .kw .where_] ++ wToks.map .pay ++ [.kw .orderBy, .pay (.atom 1), .kw .limit, .pay (.atom 7)] := by
  decide
/-! ## Round 5: the printed form is a function of the tree alone (history independence)

`C01_full` speaks about ONE printer `print : Tree → Text`.  The library's printers are such functions in every model of
this framework; a printer that consults process state (a module-level table of remembered decisions, a per-class
attribute, an object identity) is a `PrintHist.SPrinter`, and the property it has to satisfy is `C01_hist`: the round trip
after EVERY history of earlier prints.  The seeded change C01_9 (back-quote decision of `parts_to_str` remembered under
`part.upper()`) is `PrintHist.identMemo pyUpper`.

* `C01_hist_pure`, `C01_hist_of_histIndep` — for a pure printer `C01_hist` is `C01_full`; for a history-independent one it
  follows from `C01_full` of the fresh process;
* `C01_print_history_free` — what the model of the live atom printers says: after any history the text is
  `atomPrint reserved a`, a whole run prints `h.map (atomPrint reserved)`.  Tie: `Driver/PrintHist.lean` evaluates
  `(atomPrinter reserved).texts` on whole histories, the `print-history` stream compares it with the real classes printing
  the same history in a fresh interpreter, in both orders;
* `C01_memo_histIndep_iff`, `C01_ident_memo_histIndep_iff`, `C01_ident_memo_harmless` — a remembered decision is history
  independent iff its key determines the decision (for ALL key functions and tables); then it prints `LexBq.partsToStr`;
* `C01_witness_history_upper` — the seeded printer on `strasse` then `straße`, `fi` then `ﬁ`. -/

/-- the property for a printer with process state: the round trip holds after every history of earlier prints -/
def C01_hist {σ Text Tree : Type} (parse : Text → Option Tree) (P : PrintHist.SPrinter σ Tree Text) (copy : Tree → Tree) : Prop :=
  ∀ h : List Tree, C01_full parse (P.after h) copy

theorem C01_hist_pure {Text Tree : Type} (parse : Text → Option Tree) (print : Tree → Text) (copy : Tree → Tree) :
    C01_hist parse (PrintHist.pure print) copy ↔ C01_full parse print copy :=
  ⟨fun h => h [], fun h _ => h⟩

/-- history independence reduces the property after every history to the property of a fresh process -/
theorem C01_hist_of_histIndep {σ Text Tree : Type} (parse : Text → Option Tree) (P : PrintHist.SPrinter σ Tree Text)
    (copy : Tree → Tree) (hi : PrintHist.HistIndep P) (h0 : C01_full parse (P.after []) copy) : C01_hist parse P copy := by
  intro h
  have e : P.after h = P.after [] := funext (hi h)
  rw [e]
  exact h0

/-- **what the model says about the live atom printers**: after ANY history the text printed for an atom is
`atomPrint reserved a`, and a whole run prints `h.map (atomPrint reserved)` -/
theorem C01_print_history_free (reserved : List (List Char)) (h : List PrintHist.Atom) (a : PrintHist.Atom) :
    (PrintHist.atomPrinter reserved).after h a = PrintHist.atomPrint reserved a ∧
    (PrintHist.atomPrinter reserved).texts h = h.map (PrintHist.atomPrint reserved) ∧
    PrintHist.HistIndep (PrintHist.atomPrinter reserved) :=
  ⟨rfl, PrintHist.pure_texts _ h, PrintHist.pure_histIndep _⟩

/-- a history-independent printer prints, in every run and from every reachable state, what a fresh process prints -/
theorem C01_texts_of_histIndep {σ Text Tree : Type} (P : PrintHist.SPrinter σ Tree Text) (hi : PrintHist.HistIndep P)
    (pre h : List Tree) : P.textsFrom (P.run P.init pre) h = h.map (P.after []) :=
  PrintHist.texts_of_histIndep P hi pre h

/-- **a remembered decision is history independent iff the key determines the decision** (any key, any decision) -/
theorem C01_memo_histIndep_iff {A K V : Type} [DecidableEq K] (key : A → K) (f : A → V) :
    PrintHist.HistIndep (PrintHist.memo key f) ↔ ∀ a b, key a = key b → f a = f b :=
  PrintHist.memo_histIndep_iff key f

/-- the same for `parts_to_str` over a remembered back-quote decision -/
theorem C01_ident_memo_histIndep_iff {K : Type} [DecidableEq K] (key : List Char → K) (reserved : List (List Char)) :
    PrintHist.HistIndep (PrintHist.identMemo key reserved) ↔
      ∀ p q, key p = key q → PrintHist.needsWrap reserved p = PrintHist.needsWrap reserved q :=
  PrintHist.identMemo_histIndep_iff key reserved

/-- the harmless refactoring: a table whose key determines the decision (e.g. the part itself) prints, after any
history, exactly `Identifier.parts_to_str` -/
theorem C01_ident_memo_harmless {K : Type} [DecidableEq K] (key : List Char → K) (reserved : List (List Char))
    (hdet : ∀ p q, key p = key q → PrintHist.needsWrap reserved p = PrintHist.needsWrap reserved q)
    (h : List (List (List Char))) (ps : List (List Char)) :
    (PrintHist.identMemo key reserved).after h ps = LexBq.partsToStr reserved ps :=
  PrintHist.identMemo_after key reserved hdet h ps

example (reserved : List (List Char)) (h : List (List (List Char))) (ps : List (List Char)) :
    (PrintHist.identMemo id reserved).after h ps = LexBq.partsToStr reserved ps :=
  C01_ident_memo_harmless id reserved (fun p q (e : p = q) => by rw [e]) h ps

/-- **witness (seeded change C01_9)**: the back-quote decision remembered under `part.upper()`, live reserved set.
Fresh process: `` `straße` `` / `` `ﬁ` ``; after `strasse` / `fi` were printed: `straße` / `ﬁ` without quotes; in the opposite
order the plain words get quotes they do not need. -/
theorem C01_witness_history_upper :
    let P := PrintHist.identMemo PrintHist.pyUpper Gen.Reserved.wordsC
    P.after [] ["straße".toList] = "`straße`".toList ∧
    P.after [["strasse".toList]] ["straße".toList] = "straße".toList ∧
    P.after [["fi".toList], ["t".toList, "strasse".toList]] ["ﬁ".toList, "straße".toList] = "ﬁ.straße".toList ∧
    P.after [["straße".toList]] ["strasse".toList] = "`strasse`".toList ∧
    LexBq.partsToStr Gen.Reserved.wordsC ["ﬁ".toList, "straße".toList] = "`ﬁ`.`straße`".toList := by
  decide +kernel

/-- the key of the witness does not determine the decision, the identity key does (non-vacuity of both directions) -/
example : PrintHist.pyUpper "straße".toList = PrintHist.pyUpper "strasse".toList ∧
    PrintHist.needsWrap Gen.Reserved.wordsC "straße".toList ≠ PrintHist.needsWrap Gen.Reserved.wordsC "strasse".toList := by
  decide +kernel

example : ¬ PrintHist.HistIndep (PrintHist.identMemo PrintHist.pyUpper Gen.Reserved.wordsC) := by
  rw [C01_ident_memo_histIndep_iff]
  intro h
  exact absurd (h "straße".toList "strasse".toList (by decide +kernel)) (by decide +kernel)

end MindsVerif.Props.C01
