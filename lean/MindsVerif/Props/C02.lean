import MindsVerif.Lemmas.LRSound
import MindsVerif.Gen.Valid_sqlite
import MindsVerif.Gen.Valid_mysql
import MindsVerif.Gen.Valid_mindsdb
/-!
# C02 — parsing ends with a tree or a parsing error, never a crash  (driver part)

What is proved here is the part of C02 that lives in the table-driven runtime:
for the regenerated tables the driver of `sly/yacc.py` never performs an out-of-range stack
access, a failing `goto[...]`/`actions[...]` lookup or reaches `RuntimeError('internal parser
error')` (`Outcome.stuck`), on any token list, in either error mode; a `None` result always
comes with recorded `error_info`, and the recorded bad-token index is inside the token list
(so `ErrorHandling` receives well-formed input).
The full statement also covers the ~750 semantic actions and termination; those are *not*
theorems here (see DESIGN.md §C02): they are covered by the correspondence / crash search.
-/
namespace MindsVerif.Props.C02
open MindsVerif.LR MindsVerif.Gen

/-- full driver-level statement -/
def C02_driver (T : Tables) : Prop :=
  ∀ (mode : Mode) (bad : Bool) (toks : List Nat) (fuel : Nat), (∀ x ∈ toks, x ≠ 0) →
    match parse T mode bad toks fuel with
    | .stuck _ => False
    | .none_ e _ => e ≠ none
    | .synErr e _ => (∀ i, e.bad = some i → i < toks.length) ∧ (e.bad = none → bad = false)
    | _ => True

theorem C02_driver_generic (T : Tables) (hv : T.valid = true) : C02_driver T := by
  intro mode bad toks fuel h0
  have := parse_good hv mode bad toks h0 fuel
  cases h : parse T mode bad toks fuel <;> rw [h] at this <;> simp_all [Good]

theorem C02_partial_sqlite : C02_driver Tables_sqlite.tables := C02_driver_generic _ Tables_sqlite.valid
theorem C02_partial_mysql : C02_driver Tables_mysql.tables := C02_driver_generic _ Tables_mysql.valid
theorem C02_partial_mindsdb : C02_driver Tables_mindsdb.tables := C02_driver_generic _ Tables_mindsdb.valid

end MindsVerif.Props.C02
