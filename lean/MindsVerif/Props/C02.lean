import MindsVerif.Lemmas.LRSound
import MindsVerif.Gen.Valid_sqlite
import MindsVerif.Gen.Valid_mysql
import MindsVerif.Gen.Valid_mindsdb
/-!
# C02 — parsing ends with a tree or a parsing error, never a crash  (driver part)

What is proved here is the part of C02 that lives in the table-driven runtime:
for the regenerated tables the driver of `sly/yacc.py` never performs an out-of-range stack
access, a failing `goto[...]`/`actions[...]` lookup or reaches `RuntimeError('internal parser
error')` (`Outcome.stuck`), on any token list, in either error mode; a `None` result always
comes with recorded `error_info`, and the recorded bad-token index is inside the token list
(so `ErrorHandling` receives well-formed input).
The full statement also covers the ~750 semantic actions and termination; those are *not*
theorems here (see DESIGN.md §C02): they are covered by the correspondence / crash search.
-/
namespace MindsVerif.Props.C02
open MindsVerif.LR MindsVerif.Gen

/-- full driver-level statement -/
def C02_driver (T : Tables) : Prop :=
  ∀ (mode : Mode) (bad : Bool) (toks : List Nat) (fuel : Nat), (∀ x ∈ toks, x ≠ 0) →
    match parse T mode bad toks fuel with
    | .stuck _ => False
    | .none_ e _ => e ≠ none
    | .synErr e _ => (∀ i, e.bad = some i → i < toks.length) ∧ (e.bad = none → bad = false)
    | _ => True

theorem C02_driver_generic (T : Tables) (hv : T.valid = true) : C02_driver T := by
  intro mode bad toks fuel h0
  have := parse_good hv mode bad toks h0 fuel
  cases h : parse T mode bad toks fuel <;> rw [h] at this <;> simp_all [Good]

theorem C02_partial_sqlite : C02_driver Tables_sqlite.tables := C02_driver_generic _ Tables_sqlite.valid
theorem C02_partial_mysql : C02_driver Tables_mysql.tables := C02_driver_generic _ Tables_mysql.valid
theorem C02_partial_mindsdb : C02_driver Tables_mindsdb.tables := C02_driver_generic _ Tables_mindsdb.valid

/-! ### [review] additions (reviewer rev-lr-opm): a stronger raise-mode clause and non-vacuity examples -/

-- [review]
theorem C02_review_doReduce_not_none (T : Tables) (c : Cfg) (p : Nat) (e : Option ErrInfo) (lg : List Nat) :
    doReduce T c p ≠ .inr (.none_ e lg) := by
  unfold doReduce
  cases T.prods.get? p with
  | none => simp
  | some pr =>
    simp only
    split
    · simp
    · cases T.rows.get? (topState (List.drop pr.rhs.length c.st)) with
      | none => simp
      | some r =>
        simp only
        cases r.goto pr.lhs <;> simp

-- [review]
theorem C02_review_fetch_err (bad : Bool) (c c' : Cfg) (l : LA) (h : fetch bad c = .inl (c', l)) :
    c'.err = c.err := by
  unfold fetch at h
  cases hla : c.la with
  | some l0 => simp [hla] at h; rw [← h.1]
  | none =>
    simp only [hla] at h
    cases hlas : c.las with
    | cons l0 ls => simp [hlas] at h; rw [← h.1]
    | nil =>
      simp only [hlas] at h
      cases hin : c.input with
      | cons t ts => simp [hin] at h; rw [← h.1]
      | nil =>
        simp only [hin] at h
        cases bad with
        | true => simp at h
        | false => simp at h; rw [← h.1]

-- [review]
theorem C02_review_fetch_inr (bad : Bool) (c : Cfg) (o : Outcome) (h : fetch bad c = .inr o) :
    ∃ lg, o = .lexErr lg := by
  unfold fetch at h
  cases hla : c.la with
  | some l0 => simp [hla] at h
  | none =>
    simp only [hla] at h
    cases hlas : c.las with
    | cons l0 ls => simp [hlas] at h
    | nil =>
      simp only [hlas] at h
      cases hin : c.input with
      | cons t ts => simp [hin] at h
      | nil =>
        simp only [hin] at h
        cases bad with
        | true => simp at h; exact ⟨_, h.symm⟩
        | false => simp at h

-- [review]
theorem C02_review_doError_raise (bad : Bool) (c : Cfg) (s : Nat) (l : LA) (e : Option ErrInfo) (lg : List Nat)
    (h : doError .raise bad c s l = .inr (.none_ e lg)) : e = c.err := by
  unfold doError errCallback at h
  by_cases hc : (c.errcount == 0 || c.errok) = true
  · simp [hc] at h
  · simp only [hc] at h
    simp only [Bool.false_eq_true, if_false] at h
    unfold recover at h
    simp only at h
    split at h
    · cases h
    · split at h
      · simp at h; exact h.1.symm
      · split at h
        · split at h <;> cases h
        · cases h


-- [review]
theorem C02_review_step_none_err (T : Tables) (bad : Bool) (c : Cfg) (e : Option ErrInfo) (lg : List Nat)
    (h : step T .raise bad c = .inr (.none_ e lg)) : e = c.err := by
  unfold step at h
  simp only at h
  cases hr : T.rows.get? (topState c.st) with
  | none => simp [hr] at h
  | some row =>
    simp only [hr] at h
    cases hd : row.dflt with
    | some p => simp only [hd] at h; exact absurd h (C02_review_doReduce_not_none T c p e lg)
    | none =>
      simp only [hd] at h
      cases hf : fetch bad c with
      | inr o =>
        obtain ⟨lg', rfl⟩ := C02_review_fetch_inr bad c o hf
        simp [hf] at h
      | inl cl =>
        obtain ⟨c1, l⟩ := cl
        have herr := C02_review_fetch_err bad c c1 l hf
        simp only [hf] at h
        cases ha : row.action l.term with
        | shift s' => simp [ha] at h
        | reduce p => simp only [ha] at h; exact absurd h (C02_review_doReduce_not_none T c1 p e lg)
        | accept =>
          simp only [ha] at h
          unfold doAccept at h
          split at h
          · simp at h; rw [← herr]; exact h.1.symm
          · simp at h
        | none =>
          simp only [ha] at h
          rw [← herr]
          exact C02_review_doError_raise bad c1 _ l e lg h

-- [review]
theorem C02_review_run_raise_never_none {T : Tables} (hv : Valid T) (toks : List Nat) (bad : Bool) :
    ∀ (fuel : Nat) (c : Cfg), Clean T toks bad c → ∀ e lg, run T .raise bad fuel c ≠ .none_ e lg := by
  intro fuel
  induction fuel with
  | zero => intro c _ e lg; simp [run]
  | succ n ih =>
    intro c hc e lg
    have hs := step_clean hv .raise hc
    unfold run
    cases hstep : step T .raise bad c with
    | inl c' =>
      rw [hstep] at hs
      simp only
      rcases hs with h | ⟨h, _⟩
      · exact ih c' h e lg
      · cases h
    | inr o =>
      rw [hstep] at hs
      simp only
      intro ho
      subst ho
      have := C02_review_step_none_err T bad c e lg hstep
      rw [hc.noerr] at this
      exact hs this

/-- [review] In the dialects whose `error()` raises (sqlite, mysql), `Parser.parse` never returns `None`:
`parse_sql` therefore never reaches `parser.error_info` (an attribute those parsers do not have — it would be an
`AttributeError`).  Stronger than the `.none_ e _ => e ≠ none` clause of `C02_driver`, which for raise mode only
says "if `None` is returned then error info was recorded". -/
theorem C02_review_raise_never_none (T : Tables) (hv : T.valid = true) (bad : Bool) (toks : List Nat)
    (h0 : ∀ x ∈ toks, x ≠ 0) (fuel : Nat) (e : Option ErrInfo) (lg : List Nat) :
    parse T .raise bad toks fuel ≠ .none_ e lg :=
  C02_review_run_raise_never_none (valid_of_eq hv) toks bad fuel _ (clean_init toks bad h0) e lg

theorem C02_review_raise_never_none_sqlite (bad : Bool) (toks : List Nat) (h0 : ∀ x ∈ toks, x ≠ 0) (fuel : Nat)
    (e : Option ErrInfo) (lg : List Nat) : parse Tables_sqlite.tables .raise bad toks fuel ≠ .none_ e lg :=
  C02_review_raise_never_none _ Tables_sqlite.valid bad toks h0 fuel e lg
theorem C02_review_raise_never_none_mysql (bad : Bool) (toks : List Nat) (h0 : ∀ x ∈ toks, x ≠ 0) (fuel : Nat)
    (e : Option ErrInfo) (lg : List Nat) : parse Tables_mysql.tables .raise bad toks fuel ≠ .none_ e lg :=
  C02_review_raise_never_none _ Tables_mysql.valid bad toks h0 fuel e lg

/-! [review] non-vacuity of the non-trivial branches of `C02_driver`: on the real tables the three error outcomes
do occur, with the well-formedness the theorem states (kernel-evaluated, independent of the theorem) -/
-- [review] mindsdb: first token doubled -> `None` with error info pointing at token 1
example : (match parse Tables_mindsdb.tables .drain false
    (Tables_mindsdb.sample.head! :: Tables_mindsdb.sample) 10000 with
    | .none_ (some e) _ => e.bad == some 1 | _ => false) = true := by decide +kernel
-- [review] mindsdb: truncated statement -> `None` with error info "end of input"
example : (match parse Tables_mindsdb.tables .drain false (Tables_mindsdb.sample.take 3) 10000 with
    | .none_ (some e) _ => e.bad == none | _ => false) = true := by decide +kernel
-- [review] sqlite: first token doubled -> error() raises, bad-token index 1 < length
example : (match parse Tables_sqlite.tables .raise false
    (Tables_sqlite.sample.head! :: Tables_sqlite.sample) 10000 with
    | .synErr e _ => e.bad == some 1 | _ => false) = true := by decide +kernel
-- [review] illegal character after a prefix of the statement -> the lexer's error surfaces
example : (match parse Tables_mindsdb.tables .drain true (Tables_mindsdb.sample.take 3) 10000 with
    | .lexErr _ => true | _ => false) = true := by decide +kernel
-- [review] the fuel the correspondence driver uses (200*(n+2)+1000) is far from exhausted on the sample: the
-- clause `.fuel => True` of `C02_driver` is what termination is NOT proved about
example : (match parse Tables_mindsdb.tables .drain false Tables_mindsdb.sample 200 with
    | .accept _ _ => true | _ => false) = true := by decide +kernel

end MindsVerif.Props.C02
