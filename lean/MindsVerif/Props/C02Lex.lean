import MindsVerif.Lemmas.SlyLexSound
import MindsVerif.Gen.LexRe_sqlite
import MindsVerif.Gen.LexRe_mysql
import MindsVerif.Gen.LexRe_mindsdb
/-!
# C02 / C05 / C19, lexer half — the SLY tokenize loop over the LIVE master regexes

Model: `Model/Re.lean` (backtracking matcher with `re`'s priority semantics) + `Model/SlyLex.lean` (the loop of
`sly/lex.py: Lexer.tokenize`).  Data: `Gen/LexRe_<dialect>.lean`, regenerated on every run from the compiled
master regex of the live lexer class (parse tree of Python's own `re._parser`; one-character atoms tabulated with
the real engine over all code points).  Tie: correspondence stream `slylex` (token types and boundaries, error
index) against the real lexers.

What is proved, for ALL texts (lists of code points, any length, any characters incl. lone surrogates):

* `C02_lexer_total_<d>`: the lexer run ends with a token list or with `LexError` at an index — it can neither
  hang on a zero-length match (SLY's only guard is `_build`'s test of the master regex on the EMPTY text, which a rule that is empty only in context — `\\d*\\b` — passes: `index` would not advance) nor run out of the fuel the model
  uses.  Needs `allNonNull` of the rule list, which the kernel decides on the regenerated rules.
* `C05_lexer_tiles`: the pieces of a finished run (skipped `ignore` characters, ignored rules' matches, tokens)
  concatenate to exactly the input text: no character is dropped or duplicated, for every rule list.
* `C05_lexer_chain`: the yielded tokens are in text order, non-empty, non-overlapping and inside the text.
* `C02_lexer_error_spec`: a `LexError` is raised exactly at the first index (behind the tiled prefix) whose
  character is not ignorable and where no rule matches; the index lies inside the text.

Not covered: token values / actions (see `Model/Lex.lean`, `Model/TokStr.lean`), line numbers (`Model/Err.lean`),
the message text of `MindsDBLexer.error`.
-/
namespace MindsVerif.Props.C02Lex
open MindsVerif.Re MindsVerif.SlyLex MindsVerif.Gen

/-- **full statement (lexer level)**: every run ends in `ok` or `err`, the pieces of an `ok` run tile the text,
the tokens form a chain, and an `err` is reported where nothing matches -/
def C02_lexer_full (c : Cfg) : Prop :=
  ∀ s : List Nat,
    ((∃ segs, lex c s = .ok segs) ∨ (∃ i segs, lex c s = .err i segs)) ∧
    (∀ segs, lex c s = .ok segs → flat segs = s ∧ Chain s.length 0 (tokensFrom 0 segs)) ∧
    (∀ i segs, lex c s = .err i segs → i < s.length ∧ flat segs = s.take i ∧
      ∃ ch, s[i]? = some ch ∧ c.ignore.mem ch = false ∧
        firstMatch c.word c.rules ⟨(s.take i).reverse, s.drop i⟩ = none)

/-- tiling, for every configuration -/
theorem C05_lexer_tiles (c : Cfg) (s : List Nat) (segs : List Seg) (h : lex c s = .ok segs) : flat segs = s :=
  lex_ok_tiles c s segs h

/-- token positions, for every configuration -/
theorem C05_lexer_chain (c : Cfg) (s : List Nat) (segs : List Seg) (h : lex c s = .ok segs) :
    Chain s.length 0 (tokensFrom 0 segs) := by
  have h1 := tokensFrom_chain segs 0 (lex_ok_tokNonempty c s segs h)
  rw [lex_ok_tiles c s segs h] at h1
  simpa using h1

/-- error position, for every configuration -/
theorem C02_lexer_error_spec (c : Cfg) (s : List Nat) (i : Nat) (segs : List Seg) (h : lex c s = .err i segs) :
    i < s.length ∧ flat segs = s.take i ∧
      ∃ ch, s[i]? = some ch ∧ c.ignore.mem ch = false ∧
        firstMatch c.word c.rules ⟨(s.take i).reverse, s.drop i⟩ = none := by
  obtain ⟨ch, t, e1, e2, e3, e4⟩ := lex_err_spec c s i segs h
  subst e1
  subst e2
  refine ⟨by simp, by simp, ch, by simp, e3, ?_⟩
  simpa using e4

/-- the generic theorem: `allNonNull` is all that is asked of the rule list -/
theorem C02_lexer_generic (c : Cfg) (hn : c.allNonNull = true) : C02_lexer_full c := by
  intro s
  exact ⟨lex_total c hn s,
    fun segs h => ⟨C05_lexer_tiles c s segs h, C05_lexer_chain c s segs h⟩,
    fun i segs h => C02_lexer_error_spec c s i segs h⟩

/-! ### obligations on the regenerated rule lists, decided by the kernel -/

theorem nonNull_sqlite : LexRe_sqlite.cfg.allNonNull = true := by decide +kernel
theorem nonNull_mysql : LexRe_mysql.cfg.allNonNull = true := by decide +kernel
theorem nonNull_mindsdb : LexRe_mindsdb.cfg.allNonNull = true := by decide +kernel

/-- every construct of the live master regexes was transcribed, and every repeat body consumes a character
(so the empty-iteration cut of the model, the one place where it could deviate from `sre`, is never taken) -/
theorem supported_sqlite : LexRe_sqlite.cfg.allSupported = true ∧ LexRe_sqlite.unsupported = [] := by decide +kernel
theorem supported_mysql : LexRe_mysql.cfg.allSupported = true ∧ LexRe_mysql.unsupported = [] := by decide +kernel
theorem supported_mindsdb : LexRe_mindsdb.cfg.allSupported = true ∧ LexRe_mindsdb.unsupported = [] := by decide +kernel

/-- the parts of `Lexer.tokenize` the model leaves out are not used by the live lexers -/
theorem no_literals_no_remapping :
    LexRe_sqlite.literals = [] ∧ LexRe_mysql.literals = [] ∧ LexRe_mindsdb.literals = [] ∧
    LexRe_sqlite.remapping = [] ∧ LexRe_mysql.remapping = [] ∧ LexRe_mindsdb.remapping = [] := by decide

theorem C02_lexer_total_sqlite : C02_lexer_full LexRe_sqlite.cfg := C02_lexer_generic _ nonNull_sqlite
theorem C02_lexer_total_mysql : C02_lexer_full LexRe_mysql.cfg := C02_lexer_generic _ nonNull_mysql
theorem C02_lexer_total_mindsdb : C02_lexer_full LexRe_mindsdb.cfg := C02_lexer_generic _ nonNull_mindsdb

/-! ### non-vacuity and regression witnesses -/

/-- a rule that can match the empty string makes SLY hang; the model exhibits it (why `allNonNull` is asked) -/
def hangCfg : Cfg := ⟨[⟨"OPT", .star true (.set [(97, 97)]), false⟩], [(32, 32)], []⟩
theorem C02_lexer_hang_witness : lex hangCfg [98] = .hang 0 "OPT" := by decide

/-- `select 1` under the live mindsdb rules -/
theorem C02_lexer_example_mindsdb :
    lex LexRe_mindsdb.cfg [115, 101, 108, 101, 99, 116, 32, 49] =
      .ok [.tok "SELECT" false [115, 101, 108, 101, 99, 116], .skip 32, .tok "INTEGER" false [49]] := by
  decide +kernel

/-- an illegal character: `select #` -/
theorem C02_lexer_example_err :
    lex LexRe_sqlite.cfg [115, 101, 108, 101, 99, 116, 32, 35] = .err 7 [.tok "SELECT" false [115, 101, 108, 101, 99, 116], .skip 32] := by
  decide +kernel

/-- IGNORECASE is Unicode-aware in the live lexers: `ſet` (U+017F) lexes as the keyword SET — data-level fact
of the regenerated atom sets, here as a regression witness of the tie -/
theorem C02_lexer_example_long_s :
    lex LexRe_mindsdb.cfg [383, 101, 116] = .ok [.tok "SET" false [383, 101, 116]] := by
  decide +kernel

/-! ### [review] the run IS the step relation of the loop, in the full text

`C02_lexer_full` says where the pieces lie (tiling, chain) and what their names are (`AllOK`), not that a piece is what the
master regex matches there.  `Steps` is the relational form of `Lexer.tokenize` — one turn = skip one `ignore` character,
or take the first rule (rule order) that matches AT THIS POSITION OF THE WHOLE TEXT (look-ahead and `\b` see all of it) —
and `C02_lexer_run_spec` / `C02_lexer_err_run_spec` state that an `ok` / `err` run is exactly a `Steps` chain from the start
to the end of the text / to the error index.  `Step` is a function of the position (`Step_functional`), so this pins every
piece. -/

-- [review]
inductive Step (c : Cfg) : Pos → Seg → Pos → Prop
  | skip (pre : List Nat) (ch : Nat) (t : List Nat) : c.ignore.mem ch = true →
      Step c ⟨pre, ch :: t⟩ (.skip ch) ⟨ch :: pre, t⟩
  | tok (p : Pos) (ch : Nat) (t : List Nat) (r : Rule) (q : Pos) : p.suf = ch :: t → c.ignore.mem ch = false →
      firstMatch c.word c.rules p = some (r, q) → q.suf.length < p.suf.length →
      Step c p (.tok r.name r.ignored (between p q)) q

-- [review]
inductive Steps (c : Cfg) : Pos → List Seg → Pos → Prop
  | nil (p : Pos) : Steps c p [] p
  | cons {p q e : Pos} {s : Seg} {segs : List Seg} : Step c p s q → Steps c q segs e → Steps c p (s :: segs) e

-- [review] one turn is determined by the position
theorem Step_functional {c : Cfg} {p q q' : Pos} {s s' : Seg} (h : Step c p s q) (h' : Step c p s' q') :
    s = s' ∧ q = q' := by
  cases h with
  | skip pre ch t hi =>
    cases h' with
    | skip _ _ _ _ => exact ⟨rfl, rfl⟩
    | tok _ ch' t' r' _ hs' hi' _ _ =>
      simp only [List.cons.injEq] at hs'
      obtain ⟨e1, _⟩ := hs'
      subst e1
      rw [hi] at hi'; cases hi'
  | tok _ ch t r _ hs hi hf hl =>
    cases h' with
    | skip pre' ch' t' hi' =>
      simp only [List.cons.injEq] at hs
      obtain ⟨e1, _⟩ := hs
      subst e1
      rw [hi] at hi'; cases hi'
    | tok _ ch' t' r' _ hs' hi' hf' hl' =>
      rw [hf] at hf'
      simp only [Option.some.injEq, Prod.mk.injEq] at hf'
      obtain ⟨e1, e2⟩ := hf'
      subst e1; subst e2
      exact ⟨rfl, rfl⟩

-- [review] a step chain consumes exactly the flattened pieces
theorem Step_text {c : Cfg} {p q : Pos} {s : Seg} (h : Step c p s q) :
    q.pre = s.text.reverse ++ p.pre ∧ p.suf = s.text ++ q.suf := by
  cases h with
  | skip pre ch t hi => simp [Seg.text]
  | tok _ ch t r _ hs hi hf hl =>
    obtain ⟨hb, hp⟩ := between_of_le (matchAt_le (firstMatch_spec hf).2)
    exact ⟨by simpa [Seg.text] using hp, by simpa [Seg.text] using hb.symm⟩

-- [review]
theorem Steps_text {c : Cfg} {p e : Pos} {segs : List Seg} (h : Steps c p segs e) :
    e.pre = (flat segs).reverse ++ p.pre ∧ p.suf = flat segs ++ e.suf := by
  induction h with
  | nil p => simp
  | cons hs _ ih =>
    obtain ⟨a1, a2⟩ := Step_text hs
    obtain ⟨b1, b2⟩ := ih
    constructor
    · rw [b1, a1]; simp [flat]
    · rw [a2, b2]; simp [flat]

-- [review]
theorem lexLoop_ok_steps (c : Cfg) : ∀ (n : Nat) (p : Pos) (acc segs : List Seg),
    lexLoop c n p acc = .ok segs → ∃ rest e, segs = acc.reverse ++ rest ∧ Steps c p rest e ∧ e.suf = [] := by
  intro n
  induction n with
  | zero => intro p acc segs h; simp [lexLoop] at h
  | succ n ih =>
    intro p acc segs h
    obtain ⟨pre, suf⟩ := p
    cases suf with
    | nil =>
      simp only [lexLoop, Out.ok.injEq] at h
      exact ⟨[], ⟨pre, []⟩, by simp [h], Steps.nil _, rfl⟩
    | cons ch t =>
      simp only [lexLoop] at h
      by_cases hi : c.ignore.mem ch = true
      · simp only [hi, if_true] at h
        obtain ⟨rest, e, h1, h2, h3⟩ := ih _ _ _ h
        exact ⟨.skip ch :: rest, e, by simp [h1], Steps.cons (Step.skip pre ch t hi) h2, h3⟩
      · simp only [hi, Bool.false_eq_true, if_false] at h
        cases hf : firstMatch c.word c.rules ⟨pre, ch :: t⟩ with
        | none => rw [hf] at h; simp at h
        | some rq =>
          obtain ⟨r, q⟩ := rq
          rw [hf] at h
          simp only at h
          by_cases hl : q.suf.length < t.length + 1
          · rw [if_pos (by simpa using hl)] at h
            obtain ⟨rest, e, h1, h2, h3⟩ := ih _ _ _ h
            refine ⟨_ :: rest, e, by simp [h1], Steps.cons (Step.tok ⟨pre, ch :: t⟩ ch t r q rfl (by simpa using hi) hf (by simpa using hl)) h2, h3⟩
          · rw [if_neg (by simpa using hl)] at h; cases h

-- [review]
theorem lexLoop_err_steps (c : Cfg) : ∀ (n : Nat) (p : Pos) (acc : List Seg) (i : Nat) (segs : List Seg),
    lexLoop c n p acc = .err i segs → ∃ rest e ch t, segs = acc.reverse ++ rest ∧ Steps c p rest e ∧
      e.suf = ch :: t ∧ c.ignore.mem ch = false ∧ firstMatch c.word c.rules e = none ∧ i = e.index := by
  intro n
  induction n with
  | zero => intro p acc i segs h; simp [lexLoop] at h
  | succ n ih =>
    intro p acc i segs h
    obtain ⟨pre, suf⟩ := p
    cases suf with
    | nil => simp [lexLoop] at h
    | cons ch t =>
      simp only [lexLoop] at h
      by_cases hi : c.ignore.mem ch = true
      · simp only [hi, if_true] at h
        obtain ⟨rest, e, ch', t', h1, h2, h3⟩ := ih _ _ _ _ h
        exact ⟨.skip ch :: rest, e, ch', t', by simp [h1], Steps.cons (Step.skip pre ch t hi) h2, h3⟩
      · simp only [hi, Bool.false_eq_true, if_false] at h
        cases hf : firstMatch c.word c.rules ⟨pre, ch :: t⟩ with
        | none =>
          rw [hf] at h
          simp only [Out.err.injEq] at h
          obtain ⟨e1, e2⟩ := h
          exact ⟨[], ⟨pre, ch :: t⟩, ch, t, by simp [e2], Steps.nil _, rfl, by simpa using hi, hf, e1.symm⟩
        | some rq =>
          obtain ⟨r, q⟩ := rq
          rw [hf] at h
          simp only at h
          by_cases hl : q.suf.length < t.length + 1
          · rw [if_pos (by simpa using hl)] at h
            obtain ⟨rest, e, ch', t', h1, h2, h3⟩ := ih _ _ _ _ h
            refine ⟨_ :: rest, e, ch', t', by simp [h1], Steps.cons (Step.tok ⟨pre, ch :: t⟩ ch t r q rfl (by simpa using hi) hf (by simpa using hl)) h2, h3⟩
          · rw [if_neg (by simpa using hl)] at h; cases h

/-- [review] **an `ok` run is the step chain from the start to the end of the text**: every piece is what the loop takes at
its position of the full text — a skipped `ignore` character, or the match of the FIRST rule (rule order) that matches there
(with that rule's name and ignore flag) — every configuration, every text -/
theorem C02_lexer_run_spec (c : Cfg) (s : List Nat) (segs : List Seg) (h : lex c s = .ok segs) :
    Steps c ⟨[], s⟩ segs ⟨s.reverse, []⟩ := by
  obtain ⟨rest, e, h1, h2, h3⟩ := lexLoop_ok_steps c _ _ _ _ h
  simp only [List.reverse_nil, List.nil_append] at h1
  subst h1
  obtain ⟨a, b⟩ := Steps_text h2
  obtain ⟨epre, esuf⟩ := e
  simp only at h3 a b
  subst h3
  simp only [List.append_nil] at a b
  subst b
  subst a
  exact h2

/-- [review] **the pieces before a `LexError` are the step chain from the start to the error index** — stronger than
`C02_lexer_error_spec`: the tokens read before the error are exactly what the loop takes in the full text (not only a tiling
of `s.take i`), and the chain cannot be continued at `i` -/
theorem C02_lexer_err_run_spec (c : Cfg) (s : List Nat) (i : Nat) (segs : List Seg) (h : lex c s = .err i segs) :
    Steps c ⟨[], s⟩ segs ⟨(s.take i).reverse, s.drop i⟩ ∧
      ∃ ch t, s.drop i = ch :: t ∧ c.ignore.mem ch = false ∧
        firstMatch c.word c.rules ⟨(s.take i).reverse, s.drop i⟩ = none := by
  obtain ⟨rest, e, ch, t, h1, h2, h3, h4, h5, h6⟩ := lexLoop_err_steps c _ _ _ _ _ h
  simp only [List.reverse_nil, List.nil_append] at h1
  subst h1
  obtain ⟨a, b⟩ := Steps_text h2
  obtain ⟨epre, esuf⟩ := e
  simp only [List.append_nil] at a b h3
  have hi : i = (flat segs).length := by simp [h6, Pos.index, a]
  have e1 : s.take i = flat segs := by rw [hi, b]; simp
  have e2 : s.drop i = esuf := by rw [hi, b]; simp
  rw [e1, e2, ← a]
  exact ⟨h2, ch, t, h3, h4, h5⟩

/-- [review] the step chain is unique: two runs over the same text from the same position agree piece by piece as far as
both go (so `C02_lexer_run_spec` determines `segs`) -/
theorem Steps_unique {c : Cfg} {p e e' : Pos} {segs segs' : List Seg} (h : Steps c p segs e) (h' : Steps c p segs' e')
    (hl : segs.length = segs'.length) : segs = segs' ∧ e = e' := by
  induction h generalizing segs' e' with
  | nil p =>
    cases h' with
    | nil _ => exact ⟨rfl, rfl⟩
    | cons _ _ => simp at hl
  | cons hs _ ih =>
    cases h' with
    | nil _ => simp at hl
    | cons hs' ht' =>
      obtain ⟨a, b⟩ := Step_functional hs hs'
      subst a; subst b
      obtain ⟨x, y⟩ := ih ht' (by simpa using hl)
      exact ⟨by rw [x], y⟩

/-! ### [review] non-vacuity on realistic inputs -/

-- [review] the text ``SELECT 'it''s' /* c⏎ */ FROM `t 1` -- x⏎WHERE a>=1.5`` (string with a doubled quote, block comment over
-- two lines, quoted name with a blank, line comment, operators without separators) under the live mindsdb rules: the
-- yielded tokens with their boundaries, as the real lexer gives them
def reviewText : List Nat := [83, 69, 76, 69, 67, 84, 32, 39, 105, 116, 39, 39, 115, 39, 32, 47, 42, 32, 99, 10, 32, 42, 47, 32, 70,
  82, 79, 77, 32, 96, 116, 32, 49, 96, 32, 45, 45, 32, 120, 10, 87, 72, 69, 82, 69, 32, 97, 62, 61, 49, 46, 53]

-- [review]
theorem review_multi_token_mindsdb :
    (match lex LexRe_mindsdb.cfg reviewText with
     | .ok segs => tokensFrom 0 segs
     | _ => []) =
    [("SELECT", 0, 6), ("QUOTE_STRING", 7, 14), ("FROM", 24, 28), ("ID", 29, 34), ("WHERE", 40, 45), ("ID", 46, 47),
     ("GEQ", 47, 49), ("FLOAT", 49, 52)] := by
  decide +kernel

-- [review] the ignored pieces are in the run too (the comment as an ignored `tok`, `\n` as `newline` in mindsdb where
-- it is not an `ignore` character, as `skip` in sqlite where it is)
theorem review_ignored_pieces :
    lex LexRe_mindsdb.cfg [97, 10, 98] = .ok [.tok "ID" false [97], .tok "newline" true [10], .tok "ID" false [98]] ∧
    lex LexRe_sqlite.cfg [97, 10, 98] = .ok [.tok "ID" false [97], .skip 10, .tok "ID" false [98]] := by
  decide +kernel

-- [review] the hypotheses of `C02_lexer_err_run_spec` are met by real inputs: an unterminated string (mindsdb) and a NUL
-- inside a word (mysql); the tokens before the error are kept
theorem review_err_examples :
    lex LexRe_mindsdb.cfg [115, 101, 108, 101, 99, 116, 32, 39, 97, 98, 99] =
      .err 7 [.tok "SELECT" false [115, 101, 108, 101, 99, 116], .skip 32] ∧
    lex LexRe_mysql.cfg [115, 101, 108, 101, 99, 116, 32, 97, 0, 98] =
      .err 8 [.tok "SELECT" false [115, 101, 108, 101, 99, 116], .skip 32, .tok "ID" false [97]] := by
  decide +kernel

-- [review] the step relation is informative on the multi-token text: its first piece is the SELECT keyword, taken because
-- `firstMatch` of the whole rule list says so at position 0 of the full text
theorem review_steps_informative (segs : List Seg) (h : lex LexRe_mindsdb.cfg reviewText = .ok segs) :
    ∃ s rest q, segs = s :: rest ∧ Step LexRe_mindsdb.cfg ⟨[], reviewText⟩ s q := by
  have hs := C02_lexer_run_spec _ _ _ h
  cases hs with
  | cons h1 _ => exact ⟨_, _, _, rfl, h1⟩

-- [review] `Re.m` against the one `\B` quirk of CPython < 3.14 (`\B` never matches in an EMPTY text, SRE_AT_NON_BOUNDARY
-- returns 0 when beginning == end): the model says it matches.  Not reachable from `lex` (the loop returns before it
-- calls the regex on an empty rest, and the empty text is `ok []`), and no live rule has `\B`; recorded as a model note.
theorem review_nonboundary_on_empty_text : matchAt [] (.bound true) ⟨[], []⟩ = some ⟨[], []⟩ := by decide

end MindsVerif.Props.C02Lex
