import MindsVerif.Lemmas.SlyLexSound
import MindsVerif.Gen.LexRe_sqlite
import MindsVerif.Gen.LexRe_mysql
import MindsVerif.Gen.LexRe_mindsdb
/-!
# C02 / C05 / C19, lexer half — the SLY tokenize loop over the LIVE master regexes

Model: `Model/Re.lean` (backtracking matcher with `re`'s priority semantics) + `Model/SlyLex.lean` (the loop of
`sly/lex.py: Lexer.tokenize`).  Data: `Gen/LexRe_<dialect>.lean`, regenerated on every run from the compiled
master regex of the live lexer class (parse tree of Python's own `re._parser`; one-character atoms tabulated with
the real engine over all code points).  Tie: correspondence stream `slylex` (token types and boundaries, error
index) against the real lexers.

What is proved, for ALL texts (lists of code points, any length, any characters incl. lone surrogates):

* `C02_lexer_total_<d>`: the lexer run ends with a token list or with `LexError` at an index — it can neither
  hang on a zero-length match (SLY has no guard: `index` would not advance) nor run out of the fuel the model
  uses.  Needs `allNonNull` of the rule list, which the kernel decides on the regenerated rules.
* `C05_lexer_tiles`: the pieces of a finished run (skipped `ignore` characters, ignored rules' matches, tokens)
  concatenate to exactly the input text: no character is dropped or duplicated, for every rule list.
* `C05_lexer_chain`: the yielded tokens are in text order, non-empty, non-overlapping and inside the text.
* `C02_lexer_error_spec`: a `LexError` is raised exactly at the first index (behind the tiled prefix) whose
  character is not ignorable and where no rule matches; the index lies inside the text.

Not covered: token values / actions (see `Model/Lex.lean`, `Model/TokStr.lean`), line numbers (`Model/Err.lean`),
the message text of `MindsDBLexer.error`.
-/
namespace MindsVerif.Props.C02Lex
open MindsVerif.Re MindsVerif.SlyLex MindsVerif.Gen

/-- **full statement (lexer level)**: every run ends in `ok` or `err`, the pieces of an `ok` run tile the text,
the tokens form a chain, and an `err` is reported where nothing matches -/
def C02_lexer_full (c : Cfg) : Prop :=
  ∀ s : List Nat,
    ((∃ segs, lex c s = .ok segs) ∨ (∃ i segs, lex c s = .err i segs)) ∧
    (∀ segs, lex c s = .ok segs → flat segs = s ∧ Chain s.length 0 (tokensFrom 0 segs)) ∧
    (∀ i segs, lex c s = .err i segs → i < s.length ∧ flat segs = s.take i ∧
      ∃ ch, s[i]? = some ch ∧ c.ignore.mem ch = false ∧
        firstMatch c.word c.rules ⟨(s.take i).reverse, s.drop i⟩ = none)

/-- tiling, for every configuration -/
theorem C05_lexer_tiles (c : Cfg) (s : List Nat) (segs : List Seg) (h : lex c s = .ok segs) : flat segs = s :=
  lex_ok_tiles c s segs h

/-- token positions, for every configuration -/
theorem C05_lexer_chain (c : Cfg) (s : List Nat) (segs : List Seg) (h : lex c s = .ok segs) :
    Chain s.length 0 (tokensFrom 0 segs) := by
  have h1 := tokensFrom_chain segs 0 (lex_ok_tokNonempty c s segs h)
  rw [lex_ok_tiles c s segs h] at h1
  simpa using h1

/-- error position, for every configuration -/
theorem C02_lexer_error_spec (c : Cfg) (s : List Nat) (i : Nat) (segs : List Seg) (h : lex c s = .err i segs) :
    i < s.length ∧ flat segs = s.take i ∧
      ∃ ch, s[i]? = some ch ∧ c.ignore.mem ch = false ∧
        firstMatch c.word c.rules ⟨(s.take i).reverse, s.drop i⟩ = none := by
  obtain ⟨ch, t, e1, e2, e3, e4⟩ := lex_err_spec c s i segs h
  subst e1
  subst e2
  refine ⟨by simp, by simp, ch, by simp, e3, ?_⟩
  simpa using e4

/-- the generic theorem: `allNonNull` is all that is asked of the rule list -/
theorem C02_lexer_generic (c : Cfg) (hn : c.allNonNull = true) : C02_lexer_full c := by
  intro s
  exact ⟨lex_total c hn s,
    fun segs h => ⟨C05_lexer_tiles c s segs h, C05_lexer_chain c s segs h⟩,
    fun i segs h => C02_lexer_error_spec c s i segs h⟩

/-! ### obligations on the regenerated rule lists, decided by the kernel -/

theorem nonNull_sqlite : LexRe_sqlite.cfg.allNonNull = true := by decide +kernel
theorem nonNull_mysql : LexRe_mysql.cfg.allNonNull = true := by decide +kernel
theorem nonNull_mindsdb : LexRe_mindsdb.cfg.allNonNull = true := by decide +kernel

/-- every construct of the live master regexes was transcribed, and every repeat body consumes a character
(so the empty-iteration cut of the model, the one place where it could deviate from `sre`, is never taken) -/
theorem supported_sqlite : LexRe_sqlite.cfg.allSupported = true ∧ LexRe_sqlite.unsupported = [] := by decide +kernel
theorem supported_mysql : LexRe_mysql.cfg.allSupported = true ∧ LexRe_mysql.unsupported = [] := by decide +kernel
theorem supported_mindsdb : LexRe_mindsdb.cfg.allSupported = true ∧ LexRe_mindsdb.unsupported = [] := by decide +kernel

/-- the parts of `Lexer.tokenize` the model leaves out are not used by the live lexers -/
theorem no_literals_no_remapping :
    LexRe_sqlite.literals = [] ∧ LexRe_mysql.literals = [] ∧ LexRe_mindsdb.literals = [] ∧
    LexRe_sqlite.remapping = [] ∧ LexRe_mysql.remapping = [] ∧ LexRe_mindsdb.remapping = [] := by decide

theorem C02_lexer_total_sqlite : C02_lexer_full LexRe_sqlite.cfg := C02_lexer_generic _ nonNull_sqlite
theorem C02_lexer_total_mysql : C02_lexer_full LexRe_mysql.cfg := C02_lexer_generic _ nonNull_mysql
theorem C02_lexer_total_mindsdb : C02_lexer_full LexRe_mindsdb.cfg := C02_lexer_generic _ nonNull_mindsdb

/-! ### non-vacuity and regression witnesses -/

/-- a rule that can match the empty string makes SLY hang; the model exhibits it (why `allNonNull` is asked) -/
def hangCfg : Cfg := ⟨[⟨"OPT", .star true (.set [(97, 97)]), false⟩], [(32, 32)], []⟩
theorem C02_lexer_hang_witness : lex hangCfg [98] = .hang 0 "OPT" := by decide

/-- `select 1` under the live mindsdb rules -/
theorem C02_lexer_example_mindsdb :
    lex LexRe_mindsdb.cfg [115, 101, 108, 101, 99, 116, 32, 49] =
      .ok [.tok "SELECT" false [115, 101, 108, 101, 99, 116], .skip 32, .tok "INTEGER" false [49]] := by
  decide +kernel

/-- an illegal character: `select #` -/
theorem C02_lexer_example_err :
    lex LexRe_sqlite.cfg [115, 101, 108, 101, 99, 116, 32, 35] = .err 7 [.tok "SELECT" false [115, 101, 108, 101, 99, 116], .skip 32] := by
  decide +kernel

/-- IGNORECASE is Unicode-aware in the live lexers: `ſet` (U+017F) lexes as the keyword SET — data-level fact
of the regenerated atom sets, here as a regression witness of the tie -/
theorem C02_lexer_example_long_s :
    lex LexRe_mindsdb.cfg [383, 101, 116] = .ok [.tok "SET" false [383, 101, 116]] := by
  decide +kernel

end MindsVerif.Props.C02Lex
