import MindsVerif.Lemmas.OPMSql
import MindsVerif.Lemmas.OPMCanon
import MindsVerif.Lemmas.AstBuild
import MindsVerif.Gen.CtorPin
import MindsVerif.Gen.Prec_sqlite
import MindsVerif.Gen.Prec_mysql
import MindsVerif.Gen.Prec_mindsdb
import MindsVerif.Gen.Tables_sqlite
import MindsVerif.Gen.Tables_mysql
import MindsVerif.Gen.Tables_mindsdb
/-!
# C03 — operators group by standard SQL precedence and associativity in every dialect

`OPM.parse P` is the grouping computed by a parser whose shift/reduce decisions are SLY's
`resolve` over the precedence data `P` of a dialect.  `P`, the strata `S` and the fragment `F`
are regenerated from the live grammar on every run (`Gen/Prec_<d>.lean`).

* `C03_<d>`  (unbounded): every expression of the fragment — any size, with any user-written
  parentheses — printed with exactly the parentheses the stratified SQL grammar requires, is parsed
  back to exactly that tree: operands are grouped as SQL defines, chains associate to the left,
  user parentheses are kept.  (`addParens` parenthesises a comparison/predicate that is a direct
  operand of another one, which is the property's side condition.)
* `phi3a_<d>` : the finite precedence obligation (`sqlOrder`) on the exported table, by kernel evaluation.
* `phi3b_<d>` : table conformance — in *every* state of the real LALR automaton whose accessing
  symbol is `expr`, the action on each fragment operator is what the machine's `reduceWhile`
  does (for all states, not a sample), by kernel evaluation on the generated tables.
-/
namespace MindsVerif.Props.C03
open MindsVerif.OPM MindsVerif.OPMConf MindsVerif.Gen MindsVerif.AstBuild

/-- full statement for precedence data `P` -/
def C03_full (P : Table) (S : Strata) (F : Fragment) : Prop :=
  ∀ e : Expr, inFragment F e = true →
    parse P (print P (addParens S e)) [] none = some (addParens S e) ∧
    strip (addParens S e) = strip e

theorem C03_generic (P : Table) (S : Strata) (F : Fragment) (h : sqlOrder P S F = true) :
    C03_full P S F :=
  fun e he => ⟨sql_roundtrip P S F h e he, strip_addParens S e⟩

theorem phi3a_sqlite : sqlOrder Prec_sqlite.P Prec_sqlite.S Prec_sqlite.F = true := by decide +kernel
theorem phi3a_mysql : sqlOrder Prec_mysql.P Prec_mysql.S Prec_mysql.F = true := by decide +kernel
theorem phi3a_mindsdb : sqlOrder Prec_mindsdb.P Prec_mindsdb.S Prec_mindsdb.F = true := by decide +kernel

theorem C03_sqlite : C03_full Prec_sqlite.P Prec_sqlite.S Prec_sqlite.F := C03_generic _ _ _ phi3a_sqlite
theorem C03_mysql : C03_full Prec_mysql.P Prec_mysql.S Prec_mysql.F := C03_generic _ _ _ phi3a_mysql
theorem C03_mindsdb : C03_full Prec_mindsdb.P Prec_mindsdb.S Prec_mindsdb.F := C03_generic _ _ _ phi3a_mindsdb

theorem phi3b_sqlite : conforms Prec_sqlite.spec Tables_sqlite.tables = true := by decide +kernel
theorem phi3b_mysql : conforms Prec_mysql.spec Tables_mysql.tables = true := by decide +kernel
theorem phi3b_mindsdb : conforms Prec_mindsdb.spec Tables_mindsdb.tables = true := by decide +kernel

/-- Φ3c: reduce/reduce conflicts among operator rules (settled by yacc / SLY by the ORDER of the rules in the grammar
file) are won by the longest rule in every `expr` state of the real tables — `expr IS NOT expr .` over `NOT expr .`,
`expr BETWEEN expr AND expr .` over `expr AND expr .` — so the grouping does not depend on where a rule stands in
the file; and the translator's list of operator-shaped productions misses none of the real table (`Model/OPMConf2.lean`).
The two-token spellings (`expr IS NOT expr`, `expr NOT IN expr`: `Prec_<d>.splitOps`) are ordinary members of
`F.bins`, so Φ3a / Φ3b / `C03_<d>` cover their `%prec` and their table cells as well. -/
theorem phi3c_sqlite : rrLongest Prec_sqlite.spec Tables_sqlite.tables = true ∧
    opProdsComplete Prec_sqlite.spec Tables_sqlite.tables = true := by decide +kernel
theorem phi3c_mysql : rrLongest Prec_mysql.spec Tables_mysql.tables = true ∧
    opProdsComplete Prec_mysql.spec Tables_mysql.tables = true := by decide +kernel
theorem phi3c_mindsdb : rrLongest Prec_mindsdb.spec Tables_mindsdb.tables = true ∧
    opProdsComplete Prec_mindsdb.spec Tables_mindsdb.tables = true := by decide +kernel
/-- every two-token spelling the grammar has is in the fragment (and so under Φ3a / Φ3b / Level B) -/
example : (Prec_mindsdb.splitOps.all fun c => Prec_mindsdb.F.bins.contains c.1) = true ∧
    (Prec_sqlite.splitOps.all fun c => Prec_sqlite.F.bins.contains c.1) = true ∧
    (Prec_mysql.splitOps.all fun c => Prec_mysql.F.bins.contains c.1) = true := by decide

/-! ### the value the actions build (`Model/AstBuild.lean`) -/

/-- full statement one level up: the VALUE the grammar actions build from what the machine parses — through node
constructors `K` — reads back (as the harness reads a `BinaryOperation` / `UnaryOperation` / `BetweenOperation` tree)
as the SQL grouping, parentheses directly around parentheses collapsed to the one flag the node has -/
def C03_value_full (P : Table) (S : Strata) (F : Fragment) (K : Ctors) : Prop :=
  ∀ e : Expr, inFragment F e = true →
    (parse P (print P (addParens S e)) [] none).map (fun t => read (act K t)) = some (norm (addParens S e))

/-- … holds for EVERY faithful constructor triple: nothing but "the node holds what it was given" is needed of the
AST classes, at any size -/
theorem C03_value (P : Table) (S : Strata) (F : Fragment) (h : sqlOrder P S F = true) (K : Ctors)
    (hK : K.Faithful) : C03_value_full P S F K := by
  intro e he
  rw [(C03_generic P S F h e he).1]
  simp [read_act hK]

theorem C03_value_sqlite (K : Ctors) (hK : K.Faithful) : C03_value_full Prec_sqlite.P Prec_sqlite.S Prec_sqlite.F K :=
  C03_value _ _ _ phi3a_sqlite K hK
theorem C03_value_mysql (K : Ctors) (hK : K.Faithful) : C03_value_full Prec_mysql.P Prec_mysql.S Prec_mysql.F K :=
  C03_value _ _ _ phi3a_mysql K hK
theorem C03_value_mindsdb (K : Ctors) (hK : K.Faithful) : C03_value_full Prec_mindsdb.P Prec_mindsdb.S Prec_mindsdb.F K :=
  C03_value _ _ _ phi3a_mindsdb K hK

/-- the hypothesis is needed: a constructor that rotates a chain once its left spine is `limit` deep — taking an
un-parenthesised AND under OR for part of the chain — builds `a AND (b OR c)`-shaped values for `a AND b OR c`
(here `limit = 1`; with `limit = 128` the first wrong value needs 129 operators) -/
theorem C03_value_witness : ¬ C03_value_full Prec_mindsdb.P Prec_mindsdb.S Prec_mindsdb.F (rotating 1) := by
  intro h
  have := h (.bin Prec_mindsdb.P.andTok (.atom 0) (.atom 1) |> fun l => .bin 131 l (.atom 2)) (by decide)
  revert this
  decide
/-- … while small trees are untouched by a deep limit (why only LONG chains see such a change) -/
example : (parse Prec_mindsdb.P (print Prec_mindsdb.P (.bin 131 (.bin 5 (.atom 0) (.atom 1)) (.atom 2))) [] none).map
    (fun t => read (act (rotating 128) t)) = some (.bin 131 (.bin 5 (.atom 0) (.atom 1)) (.atom 2)) := by decide

/-- the pin on the live constructors (probing translator `tools/extract/x_ctorpin.py`, regenerated every run): every
probe — left-deep, right-deep and alternating chains of every operator the actions pass, prefix nests, BETWEEN nests,
built one node at a time to depth ≥ 1300 (the associative chains to 6000) — returned at every depth a node holding
exactly the given operator and argument objects, un-parenthesised, children unchanged -/
theorem ctor_pin : ctorPinOK 1300
    [(0, "and"), (0, "or"), (0, "+"), (0, "-"), (0, "*"), (0, "/"), (0, "%"), (0, "="), (0, "<>"), (0, "!="), (0, "<"),
     (0, "<="), (0, ">"), (0, ">="), (0, "in"), (0, "not in"), (0, "like"), (0, "not like"), (0, "is"), (0, "is not"),
     (0, "and/or"), (0, "or/and"), (0, "+/-"), (1, "not"), (1, "-"), (2, "between")] CtorPin.rows = true := by decide

/-- "keeps user-written parentheses", and the expression layer of C01: for EVERY token list the
machine accepts (any operators, any parentheses), printing the tree and parsing it again gives the
same tree — for the precedence data of each dialect. -/
def RoundTrip (P : Table) : Prop :=
  ∀ (toks : List Tok) (e : Expr), parse P toks [] none = some e → parse P (print P e) [] none = some e

theorem roundtrip_sqlite : RoundTrip Prec_sqlite.P := fun t e h => print_parse_roundtrip _ (by decide) t e h
theorem roundtrip_mysql : RoundTrip Prec_mysql.P := fun t e h => print_parse_roundtrip _ (by decide) t e h
theorem roundtrip_mindsdb : RoundTrip Prec_mindsdb.P := fun t e h => print_parse_roundtrip _ (by decide) t e h

-- [review] precision: `missingOps` (tools/extract/more.py) lists only operators whose TOKEN exists in the dialect's
-- terminal set but which have no `expr o expr` production; an operator whose token the dialect does not have at
-- all is not reported (sqlite / mysql have no `NOT_LIKE` token and reject `a NOT LIKE b`; their fragment `F` simply
-- does not contain it).  So this pins "no listed operator token is left without a production", not "each dialect
-- has all listed operators".
/-- every operator the property lists has a production in each dialect -/
theorem ops_present : Prec_sqlite.missingOps = [] ∧ Prec_mysql.missingOps = [] ∧ Prec_mindsdb.missingOps = [] := by
  decide

/-! non-vacuity: a concrete fragment tree of the mindsdb dialect (`a OR b AND c`, operators by their
generated ids) satisfies the hypotheses and is regrouped correctly -/
example : Prec_mindsdb.F.bins ≠ [] := by decide

-- [review] NOTE: the `example` above proves only `F.bins ≠ []`, not what its doc-comment announces; the
-- concrete instances follow.

/-! [review] concrete non-vacuity of `C03_<d>` (the example above only shows `F.bins ≠ []`).
mindsdb operator ids: OR 131, AND 5, NOT 119, `>` 68, `+` 141, `*` 176, `-` 111, BETWEEN 10;
sqlite / mysql: `>` 52, `+` 100, `%` 80, `=` 40, `-` 79, AND 4, BETWEEN 8. -/

-- [review] `a OR b AND c` (tree `a OR (b AND c)`): in the fragment, needs no parentheses, and the machine
-- regroups the FLAT token list to exactly this tree
example :
    let e := Expr.bin 131 (.atom 0) (.bin 5 (.atom 1) (.atom 2))
    inFragment Prec_mindsdb.F e = true ∧ addParens Prec_mindsdb.S e = e ∧
    print Prec_mindsdb.P e = [.atom 0, .op 131, .atom 1, .op 5, .atom 2] ∧
    parse Prec_mindsdb.P [.atom 0, .op 131, .atom 1, .op 5, .atom 2] [] none = some e := by decide
-- [review] the other grouping `(a OR b) AND c` gets its parentheses from `addParens` and is kept
example :
    let e := Expr.bin 5 (.bin 131 (.atom 0) (.atom 1)) (.atom 2)
    inFragment Prec_mindsdb.F e = true ∧
    addParens Prec_mindsdb.S e = .bin 5 (.paren (.bin 131 (.atom 0) (.atom 1))) (.atom 2) ∧
    parse Prec_mindsdb.P (print Prec_mindsdb.P (addParens Prec_mindsdb.S e)) [] none =
      some (addParens Prec_mindsdb.S e) := by decide
-- [review] `a + b * c AND NOT d > - e`  ↦  `(a + (b * c)) AND (NOT (d > (- e)))`
example : parse Prec_mindsdb.P
      [.atom 0, .op 141, .atom 1, .op 176, .atom 2, .op 5, .op 119, .atom 3, .op 68, .op 111, .atom 4] [] none =
    some (.bin 5 (.bin 141 (.atom 0) (.bin 176 (.atom 1) (.atom 2)))
                 (.pre 119 (.bin 68 (.atom 3) (.pre 111 (.atom 4))))) := by decide
-- [review] the two defects named in the property text, on the (repaired) sqlite and mysql precedence data:
-- `a > b + c` ↦ `a > (b + c)` and `a % b = c` ↦ `(a % b) = c`
example : parse Prec_sqlite.P [.atom 0, .op 52, .atom 1, .op 100, .atom 2] [] none =
    some (.bin 52 (.atom 0) (.bin 100 (.atom 1) (.atom 2))) := by decide
example : parse Prec_sqlite.P [.atom 0, .op 80, .atom 1, .op 40, .atom 2] [] none =
    some (.bin 40 (.bin 80 (.atom 0) (.atom 1)) (.atom 2)) := by decide
example : parse Prec_mysql.P [.atom 0, .op 52, .atom 1, .op 100, .atom 2] [] none =
    some (.bin 52 (.atom 0) (.bin 100 (.atom 1) (.atom 2))) := by decide
example : parse Prec_mysql.P [.atom 0, .op 80, .atom 1, .op 40, .atom 2] [] none =
    some (.bin 40 (.bin 80 (.atom 0) (.atom 1)) (.atom 2)) := by decide
-- [review] left-associative chain `a - b - c` and `a BETWEEN b AND c AND d` ↦ `(a BETWEEN b AND c) AND d`
example : parse Prec_sqlite.P [.atom 0, .op 79, .atom 1, .op 79, .atom 2] [] none =
    some (.bin 79 (.bin 79 (.atom 0) (.atom 1)) (.atom 2)) := by decide
example : parse Prec_mindsdb.P [.atom 0, .op 10, .atom 1, .op 5, .atom 2, .op 5, .atom 3] [] none =
    some (.bin 5 (.btw (.atom 0) (.atom 1) (.atom 2)) (.atom 3)) := by decide
-- [review] the side condition of the property is what `addParens` encodes and no more: a comparison directly under
-- a comparison gets parentheses (`a < b > c` is printed `(a < b) > c`), nothing else about it is assumed
example : addParens Prec_mindsdb.S (.bin 68 (.bin 103 (.atom 0) (.atom 1)) (.atom 2)) =
    .bin 68 (.paren (.bin 103 (.atom 0) (.atom 1))) (.atom 2) := by decide

end MindsVerif.Props.C03
