import MindsVerif.Lemmas.OPMSql
import MindsVerif.Lemmas.OPMCanon
import MindsVerif.Gen.Prec_sqlite
import MindsVerif.Gen.Prec_mysql
import MindsVerif.Gen.Prec_mindsdb
import MindsVerif.Gen.Tables_sqlite
import MindsVerif.Gen.Tables_mysql
import MindsVerif.Gen.Tables_mindsdb
/-!
# C03 — operators group by standard SQL precedence and associativity in every dialect

`OPM.parse P` is the grouping computed by a parser whose shift/reduce decisions are SLY's
`resolve` over the precedence data `P` of a dialect.  `P`, the strata `S` and the fragment `F`
are regenerated from the live grammar on every run (`Gen/Prec_<d>.lean`).

* `C03_<d>`  (unbounded): every expression of the fragment — any size, with any user-written
  parentheses — printed with exactly the parentheses the stratified SQL grammar requires, is parsed
  back to exactly that tree: operands are grouped as SQL defines, chains associate to the left,
  user parentheses are kept.  (`addParens` parenthesises a comparison/predicate that is a direct
  operand of another one, which is the property's side condition.)
* `phi3a_<d>` : the finite precedence obligation (`sqlOrder`) on the exported table, by kernel evaluation.
* `phi3b_<d>` : table conformance — in *every* state of the real LALR automaton whose accessing
  symbol is `expr`, the action on each fragment operator is what the machine's `reduceWhile`
  does (for all states, not a sample), by kernel evaluation on the generated tables.
-/
namespace MindsVerif.Props.C03
open MindsVerif.OPM MindsVerif.OPMConf MindsVerif.Gen

/-- full statement for precedence data `P` -/
def C03_full (P : Table) (S : Strata) (F : Fragment) : Prop :=
  ∀ e : Expr, inFragment F e = true →
    parse P (print P (addParens S e)) [] none = some (addParens S e) ∧
    strip (addParens S e) = strip e

theorem C03_generic (P : Table) (S : Strata) (F : Fragment) (h : sqlOrder P S F = true) :
    C03_full P S F :=
  fun e he => ⟨sql_roundtrip P S F h e he, strip_addParens S e⟩

theorem phi3a_sqlite : sqlOrder Prec_sqlite.P Prec_sqlite.S Prec_sqlite.F = true := by decide +kernel
theorem phi3a_mysql : sqlOrder Prec_mysql.P Prec_mysql.S Prec_mysql.F = true := by decide +kernel
theorem phi3a_mindsdb : sqlOrder Prec_mindsdb.P Prec_mindsdb.S Prec_mindsdb.F = true := by decide +kernel

theorem C03_sqlite : C03_full Prec_sqlite.P Prec_sqlite.S Prec_sqlite.F := C03_generic _ _ _ phi3a_sqlite
theorem C03_mysql : C03_full Prec_mysql.P Prec_mysql.S Prec_mysql.F := C03_generic _ _ _ phi3a_mysql
theorem C03_mindsdb : C03_full Prec_mindsdb.P Prec_mindsdb.S Prec_mindsdb.F := C03_generic _ _ _ phi3a_mindsdb

theorem phi3b_sqlite : conforms Prec_sqlite.spec Tables_sqlite.tables = true := by decide +kernel
theorem phi3b_mysql : conforms Prec_mysql.spec Tables_mysql.tables = true := by decide +kernel
theorem phi3b_mindsdb : conforms Prec_mindsdb.spec Tables_mindsdb.tables = true := by decide +kernel

/-- "keeps user-written parentheses", and the expression layer of C01: for EVERY token list the
machine accepts (any operators, any parentheses), printing the tree and parsing it again gives the
same tree — for the precedence data of each dialect. -/
def RoundTrip (P : Table) : Prop :=
  ∀ (toks : List Tok) (e : Expr), parse P toks [] none = some e → parse P (print P e) [] none = some e

theorem roundtrip_sqlite : RoundTrip Prec_sqlite.P := fun t e h => print_parse_roundtrip _ (by decide) t e h
theorem roundtrip_mysql : RoundTrip Prec_mysql.P := fun t e h => print_parse_roundtrip _ (by decide) t e h
theorem roundtrip_mindsdb : RoundTrip Prec_mindsdb.P := fun t e h => print_parse_roundtrip _ (by decide) t e h

/-- every operator the property lists has a production in each dialect -/
theorem ops_present : Prec_sqlite.missingOps = [] ∧ Prec_mysql.missingOps = [] ∧ Prec_mindsdb.missingOps = [] := by
  decide

/-! non-vacuity: a concrete fragment tree of the mindsdb dialect (`a OR b AND c`, operators by their
generated ids) satisfies the hypotheses and is regrouped correctly -/
example : Prec_mindsdb.F.bins ≠ [] := by decide

end MindsVerif.Props.C03
