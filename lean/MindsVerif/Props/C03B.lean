import MindsVerif.Lemmas.ExprSim
import MindsVerif.Lemmas.ExprAbs
import MindsVerif.Gen.ExprSim_sqlite
import MindsVerif.Gen.ExprSim_mysql
import MindsVerif.Gen.ExprSim_mindsdb
/-!
# C03, Level B — the real LALR driver over the real tables builds the SQL grouping

C03 (Level A) proves that the operator-precedence machine `OPM.parse` groups every fragment
expression as SQL defines, and Φ3b compares single table cells with the machine's decisions.
This file states the SIMULATION: the model of `sly.yacc.Parser.parse` (`LR.step` / `LR.run`) over
the translator-generated tables of each dialect, started in an expression context, performs on the
tokens of `print (addParens S e)` exactly `simSteps` shifts / reductions and leaves the parse tree
`tree (addParens S e)` (built from the production numbers named by the certificate and checked
against the grammar; `abs` maps it back to `addParens S e`) on top of the untouched stack, in state `goto(u, expr)`, with the closing
lookahead pending.  All stages are done: atoms, parentheses, binary operators, prefix operators
(`MINUS` with `%prec UMINUS`, `NOT`) and `BETWEEN … AND`.

All table-specific facts come from `ExprSim.certOK tables P F cert = true`, evaluated by the kernel on
`Gen/ExprSim_<d>.lean` (regenerated from the live parser on every run).

Fragment: the whole C03 fragment of each dialect, including the two-token operator `NOT IN` of
sqlite / mysql (announced by the lookahead `NOT`; mindsdb lexes it as the single token `NOT_IN`).
Atoms are `ID` tokens (`ID → id → identifier → expr`).
-/
namespace MindsVerif.Props.C03B
open MindsVerif.LR MindsVerif.OPM MindsVerif.ExprSim MindsVerif.Gen

/-- full statement: for every fragment expression `e`, every expression-start state `u` of the
certificate in which nothing is pending (`Kind.top`: statement contexts and `LPAREN`), every
configuration `c` of the driver whose top state is `u` with no lookahead pending (any stack below,
any error bookkeeping), every closing lookahead `l` of `u` (a terminal `a` with the input continuing
`a :: rest`, or the end of the input) — the driver makes exactly `simSteps` non-final steps and
reaches `afterExpr c v (tree …) l rest …`: stack `(goto(u,expr), tree) :: c.st`, lookahead `l` pending,
input `rest`, the reductions of the tree logged in postorder; `LR.run` continues from there; and the
tree abstracts (`abs`, through the production numbers) to `addParens S e` up to the identity of atoms. -/
def C03B_full (T : Tables) (C : Cert) (P : Table) (S : Strata) (F : Fragment) : Prop :=
  ∀ (mode : Mode) (bad : Bool) (e : Expr), inFragment F e = true →
  ∀ (u : Nat) (ent : Entry), C.starts.get? u = some ent → ent.kind = .top →
  ∀ (c : Cfg), topState c.st = u → c.la = none → c.las = [] →
  ∀ (tail rest : List Nat) (l : LA) (dc : Nat),
    fetchOf bad tail = some (l, rest, dc) → Closer ent l →
    c.input = toks C P (addParens S e) ++ tail →
    ∃ v, gotoExpr T C u = some v ∧
      runN T mode bad (simSteps C (addParens S e)) c =
        some (afterExpr c v (tree C P (addParens S e)) l rest (toks C P (addParens S e)).length dc) ∧
      (∀ k, run T mode bad (simSteps C (addParens S e) + k) c =
        run T mode bad k
          (afterExpr c v (tree C P (addParens S e)) l rest (toks C P (addParens S e)).length dc)) ∧
      abs C P F (tree C P (addParens S e)) = some (eraseAtoms (addParens S e))

/-- the same for every CANONICAL tree (`OPM.canon`: SLY's resolution regroups none of its children;
e.g. every tree `OPM.parse` returns), in ANY expression-start state whose pending frame shifts the
left spine of the tree, for any valid lookahead (operator or closer) that reduces its right spine;
`preOK`: prefix operators stand only where the start state of that role opens them (`Cert.preBan` lists
the exceptions, e.g. mindsdb: `NOT` directly after `expr IS` belongs to the two-token `IS NOT`) -/
def C03B_canon_full (T : Tables) (C : Cert) (P : Table) (F : Fragment) : Prop :=
  ∀ (mode : Mode) (bad : Bool) (e : Expr), canon P e = true → inFragment F e = true →
  ∀ (u : Nat) (ent : Entry), C.starts.get? u = some ent → CtxShifts P ent.kind (leftOps P e) →
    preOK C ent.kind e = true →
  ∀ (c : Cfg), topState c.st = u → c.la = none → c.las = [] →
  ∀ (tail rest : List Nat) (l : LA) (dc : Nat),
    fetchOf bad tail = some (l, rest, dc) → Valid C P F ent l → Reduces C P F (rightProds P e) l →
    c.input = toks C P e ++ tail →
    ∃ v, gotoExpr T C u = some v ∧
      runN T mode bad (simSteps C e) c =
        some (afterExpr c v (tree C P e) l rest (toks C P e).length dc) ∧
      abs C P F (tree C P e) = some (eraseAtoms e)

theorem C03B_canon_generic (T : Tables) (C : Cert) (P : Table) (F : Fragment)
    (hC : certOK T P F C = true) : C03B_canon_full T C P F :=
  fun _ _ e hcan hfr _ _ hs hctx hpo c htop hla hlas _ _ _ _ hf hval hred hin =>
    let ⟨v, hv, h⟩ := sim_canon hC e hcan hfr hs hctx hpo c htop hla hlas hf hval hred hin
    ⟨v, hv, h, abs_tree hC e hfr⟩

theorem C03B_generic (T : Tables) (C : Cert) (P : Table) (S : Strata) (F : Fragment)
    (hC : certOK T P F C = true) (hO : sqlOrder P S F = true) (hPC : preCompat C S F = true) :
    C03B_full T C P S F := by
  intro mode bad e hfr u ent hs hk c htop hla hlas tail rest l dc hf hcl hin
  obtain ⟨v, hv, h⟩ := sim_sql (mode := mode) hC S hO hPC e hfr hs hk c htop hla hlas hf hcl hin
  exact ⟨v, hv, h, fun k => run_of_runN h k,
    abs_tree hC _ (by rw [inFragment_addParens]; exact hfr)⟩

/-! ### the three dialects -/

/-- Φ3a on the Level-B fragment -/
theorem phi3a_B_sqlite : sqlOrder Prec_sqlite.P Prec_sqlite.S ExprSim_sqlite.F = true := by decide +kernel
theorem phi3a_B_mysql : sqlOrder Prec_mysql.P Prec_mysql.S ExprSim_mysql.F = true := by decide +kernel
theorem phi3a_B_mindsdb : sqlOrder Prec_mindsdb.P Prec_mindsdb.S ExprSim_mindsdb.F = true := by decide +kernel

/-- the prefix positions a dialect does not open (`cert.preBan`) are never used by `addParens` -/
theorem preCompat_sqlite : preCompat ExprSim_sqlite.cert Prec_sqlite.S ExprSim_sqlite.F = true := by decide +kernel
theorem preCompat_mysql : preCompat ExprSim_mysql.cert Prec_mysql.S ExprSim_mysql.F = true := by decide +kernel
theorem preCompat_mindsdb : preCompat ExprSim_mindsdb.cert Prec_mindsdb.S ExprSim_mindsdb.F = true := by decide +kernel

theorem C03B_sqlite :
    C03B_full Tables_sqlite.tables ExprSim_sqlite.cert Prec_sqlite.P Prec_sqlite.S ExprSim_sqlite.F :=
  C03B_generic _ _ _ _ _ ExprSim_sqlite.cert_ok phi3a_B_sqlite preCompat_sqlite
theorem C03B_mysql :
    C03B_full Tables_mysql.tables ExprSim_mysql.cert Prec_mysql.P Prec_mysql.S ExprSim_mysql.F :=
  C03B_generic _ _ _ _ _ ExprSim_mysql.cert_ok phi3a_B_mysql preCompat_mysql
theorem C03B_mindsdb :
    C03B_full Tables_mindsdb.tables ExprSim_mindsdb.cert Prec_mindsdb.P Prec_mindsdb.S ExprSim_mindsdb.F :=
  C03B_generic _ _ _ _ _ ExprSim_mindsdb.cert_ok phi3a_B_mindsdb preCompat_mindsdb

theorem C03B_canon_sqlite :
    C03B_canon_full Tables_sqlite.tables ExprSim_sqlite.cert Prec_sqlite.P ExprSim_sqlite.F :=
  C03B_canon_generic _ _ _ _ ExprSim_sqlite.cert_ok
theorem C03B_canon_mysql :
    C03B_canon_full Tables_mysql.tables ExprSim_mysql.cert Prec_mysql.P ExprSim_mysql.F :=
  C03B_canon_generic _ _ _ _ ExprSim_mysql.cert_ok
theorem C03B_canon_mindsdb :
    C03B_canon_full Tables_mindsdb.tables ExprSim_mindsdb.cert Prec_mindsdb.P ExprSim_mindsdb.F :=
  C03B_canon_generic _ _ _ _ ExprSim_mindsdb.cert_ok

/-! ### end to end: `SELECT <expr> FROM …` from the initial configuration of `LR.parse` -/

/-- the real driver, started on `SELECT <tokens of addParens S e> FROM rest` from `LR.initCfg`,
passes after `1 + simSteps` steps through the configuration whose stack is
`[(goto(selectStart, expr), tree), (selectStart, SELECT)]` with `FROM` pending and the reductions of
the tree logged in postorder -/
def SelectCtx (T : Tables) (C : Cert) (P : Table) (S : Strata) (F : Fragment)
    (tSel tFrom uSel : Nat) : Prop :=
  ∀ (mode : Mode) (bad : Bool) (e : Expr), inFragment F e = true → ∀ (rest : List Nat),
    ∃ v, gotoExpr T C uSel = some v ∧ ∀ k,
      run T mode bad (1 + simSteps C (addParens S e) + k)
        (initCfg (tSel :: (toks C P (addParens S e) ++ tFrom :: rest))) =
      run T mode bad k
        ⟨[(v, tree C P (addParens S e)), (uSel, .leaf tSel)], rest, some (.tok tFrom), [],
          0, false, (toks C P (addParens S e)).length + 2, none,
          (tree C P (addParens S e)).postorder.reverse⟩

theorem selectCtx_generic (T : Tables) (C : Cert) (P : Table) (S : Strata) (F : Fragment)
    (tSel tFrom uSel : Nat) (hC : certOK T P F C = true) (hO : sqlOrder P S F = true)
    (hPC : preCompat C S F = true) (h1 : shiftsTo T 0 tSel uSel = true) (h2 : topStartWith C uSel tFrom = true) :
    SelectCtx T C P S F tSel tFrom uSel := by
  intro mode bad e hfr rest
  obtain ⟨v, hv, h⟩ := sim_sql_ctx (mode := mode) (bad := bad) hC S hO hPC h1 h2 e hfr
    (initCfg (tSel :: (toks C P (addParens S e) ++ tFrom :: rest))) rfl rfl rfl rest rfl
  refine ⟨v, hv, fun k => ?_⟩
  rw [run_of_runN h k]
  simp only [initCfg, List.append_nil, Nat.zero_sub, Nat.zero_add]
  congr 2
  omega

theorem C03B_select_sqlite :
    SelectCtx Tables_sqlite.tables ExprSim_sqlite.cert Prec_sqlite.P Prec_sqlite.S ExprSim_sqlite.F
      ExprSim_sqlite.tokSELECT ExprSim_sqlite.tokFROM ExprSim_sqlite.selectStart :=
  selectCtx_generic _ _ _ _ _ _ _ _ ExprSim_sqlite.cert_ok phi3a_B_sqlite preCompat_sqlite
    (by decide +kernel) (by decide +kernel)
theorem C03B_select_mysql :
    SelectCtx Tables_mysql.tables ExprSim_mysql.cert Prec_mysql.P Prec_mysql.S ExprSim_mysql.F
      ExprSim_mysql.tokSELECT ExprSim_mysql.tokFROM ExprSim_mysql.selectStart :=
  selectCtx_generic _ _ _ _ _ _ _ _ ExprSim_mysql.cert_ok phi3a_B_mysql preCompat_mysql
    (by decide +kernel) (by decide +kernel)
theorem C03B_select_mindsdb :
    SelectCtx Tables_mindsdb.tables ExprSim_mindsdb.cert Prec_mindsdb.P Prec_mindsdb.S ExprSim_mindsdb.F
      ExprSim_mindsdb.tokSELECT ExprSim_mindsdb.tokFROM ExprSim_mindsdb.selectStart :=
  selectCtx_generic _ _ _ _ _ _ _ _ ExprSim_mindsdb.cert_ok phi3a_B_mindsdb preCompat_mindsdb
    (by decide +kernel) (by decide +kernel)

/-! ### what the Level-B fragment is -/

/-- the Level-B fragment is the whole C03 fragment in every dialect -/
example : ExprSim_mindsdb.F.bins = Prec_mindsdb.F.bins ∧ ExprSim_mindsdb.F.pres = Prec_mindsdb.F.pres := by
  decide
example : ExprSim_sqlite.F.bins = Prec_sqlite.F.bins ∧ ExprSim_sqlite.F.pres = Prec_sqlite.F.pres := by
  decide
example : ExprSim_mysql.F.bins = Prec_mysql.F.bins ∧ ExprSim_mysql.F.pres = Prec_mysql.F.pres := by
  decide
/-- the two-token operators of the certificate (`NOT IN` in sqlite / mysql, `IS NOT` in mindsdb — whatever rules
`expr T1 T2 expr` the live grammar has) are exactly those the precedence translator found, with the same terminals -/
def splitOf (C : Cert) (F : Fragment) : List (Nat × Nat × Nat) :=
  F.bins.filterMap fun o => (C.opRest o).map fun t => (o, C.opTerm o, t)
example : splitOf ExprSim_sqlite.cert ExprSim_sqlite.F = Prec_sqlite.splitOps ∧
    splitOf ExprSim_mysql.cert ExprSim_mysql.F = Prec_mysql.splitOps ∧
    splitOf ExprSim_mindsdb.cert ExprSim_mindsdb.F = Prec_mindsdb.splitOps := by decide
/-- each dialect has at least one (so the two-token path of the simulation is exercised on real tables) -/
example : Prec_sqlite.splitOps ≠ [] ∧ Prec_mysql.splitOps ≠ [] ∧ Prec_mindsdb.splitOps ≠ [] := by decide

/-! ### non-vacuity -/

/-- every expression context of the C03 correspondence stream that the dialect has (select list,
WHERE, ON, HAVING, function argument, CASE branch, parenthesis) is a `top` start state of the
certificate with at least one closer -/
def contextsOK (C : Cert) (ctxs : List (String × Nat)) : Bool :=
  ctxs.all fun cu =>
    match C.starts.get? cu.2 with
    | some ent => ent.kind == .top && ent.cl != 0
    | none => false

example : contextsOK ExprSim_sqlite.cert ExprSim_sqlite.contexts = true ∧
    ExprSim_sqlite.contexts.length = 6 := by decide +kernel
example : contextsOK ExprSim_mysql.cert ExprSim_mysql.contexts = true ∧
    ExprSim_mysql.contexts.length = 7 := by decide +kernel
example : contextsOK ExprSim_mindsdb.cert ExprSim_mindsdb.contexts = true ∧
    ExprSim_mindsdb.contexts.length = 7 := by decide +kernel

/-- what `runN` gives on the concrete tokens of `SELECT <e> FROM t`, projected to decidable data:
state stack, reduction log, remaining input, lookahead, abstraction of the tree on top -/
def observe (T : Tables) (C : Cert) (P : Table) (F : Fragment) (tSel tFrom : Nat) (e : Expr) :
    Option ((List Nat × List Nat) × (List Nat × Option LA) × Option Expr) :=
  (runN T .raise false (1 + simSteps C e)
    (initCfg (tSel :: (toks C P e ++ [tFrom, C.atomTok])))).map
    fun c => ((c.st.map (·.1), c.log), (c.input, c.la), c.st.head?.bind fun x => abs C P F x.2)

def expected (T : Tables) (C : Cert) (P : Table) (tFrom uSel : Nat) (e : Expr) :
    Option ((List Nat × List Nat) × (List Nat × Option LA) × Option Expr) :=
  some (([(gotoExpr T C uSel).getD 0, uSel], (tree C P e).postorder.reverse), ([C.atomTok],
    some (.tok tFrom)), some (eraseAtoms e))

/-- `a + b * c`, run by the kernel on the real tables (independent of the theorem) -/
example : observe Tables_sqlite.tables ExprSim_sqlite.cert Prec_sqlite.P ExprSim_sqlite.F ExprSim_sqlite.tokSELECT
      ExprSim_sqlite.tokFROM (addParens Prec_sqlite.S ExprSim_sqlite.ex1) =
    expected Tables_sqlite.tables ExprSim_sqlite.cert Prec_sqlite.P ExprSim_sqlite.tokFROM
      ExprSim_sqlite.selectStart (addParens Prec_sqlite.S ExprSim_sqlite.ex1) := by decide +kernel
/-- `(a OR b) AND NOT c BETWEEN (d = e) AND - f * (g + h)` -/
example : observe Tables_sqlite.tables ExprSim_sqlite.cert Prec_sqlite.P ExprSim_sqlite.F ExprSim_sqlite.tokSELECT
      ExprSim_sqlite.tokFROM (addParens Prec_sqlite.S ExprSim_sqlite.ex2) =
    expected Tables_sqlite.tables ExprSim_sqlite.cert Prec_sqlite.P ExprSim_sqlite.tokFROM
      ExprSim_sqlite.selectStart (addParens Prec_sqlite.S ExprSim_sqlite.ex2) := by decide +kernel
example : observe Tables_mysql.tables ExprSim_mysql.cert Prec_mysql.P ExprSim_mysql.F ExprSim_mysql.tokSELECT
      ExprSim_mysql.tokFROM (addParens Prec_mysql.S ExprSim_mysql.ex2) =
    expected Tables_mysql.tables ExprSim_mysql.cert Prec_mysql.P ExprSim_mysql.tokFROM
      ExprSim_mysql.selectStart (addParens Prec_mysql.S ExprSim_mysql.ex2) := by decide +kernel
example : observe Tables_mindsdb.tables ExprSim_mindsdb.cert Prec_mindsdb.P ExprSim_mindsdb.F ExprSim_mindsdb.tokSELECT
      ExprSim_mindsdb.tokFROM (addParens Prec_mindsdb.S ExprSim_mindsdb.ex1) =
    expected Tables_mindsdb.tables ExprSim_mindsdb.cert Prec_mindsdb.P ExprSim_mindsdb.tokFROM
      ExprSim_mindsdb.selectStart (addParens Prec_mindsdb.S ExprSim_mindsdb.ex1) := by decide +kernel
example : observe Tables_mindsdb.tables ExprSim_mindsdb.cert Prec_mindsdb.P ExprSim_mindsdb.F ExprSim_mindsdb.tokSELECT
      ExprSim_mindsdb.tokFROM (addParens Prec_mindsdb.S ExprSim_mindsdb.ex2) =
    expected Tables_mindsdb.tables ExprSim_mindsdb.cert Prec_mindsdb.P ExprSim_mindsdb.tokFROM
      ExprSim_mindsdb.selectStart (addParens Prec_mindsdb.S ExprSim_mindsdb.ex2) := by decide +kernel

/-- `a NOT IN b + c AND d` (two-token operator) in sqlite -/
example : observe Tables_sqlite.tables ExprSim_sqlite.cert Prec_sqlite.P ExprSim_sqlite.F ExprSim_sqlite.tokSELECT
      ExprSim_sqlite.tokFROM (addParens Prec_sqlite.S ExprSim_sqlite.ex3) =
    expected Tables_sqlite.tables ExprSim_sqlite.cert Prec_sqlite.P ExprSim_sqlite.tokFROM
      ExprSim_sqlite.selectStart (addParens Prec_sqlite.S ExprSim_sqlite.ex3) := by decide +kernel

/-- `a IS NOT b + c OR NOT d` with `IS`, `NOT` as two terminals (mindsdb: rule `expr IS NOT expr`, whose completed
state also holds `NOT expr .` — the reduce/reduce conflict must go to the two-token rule) -/
example : observe Tables_mindsdb.tables ExprSim_mindsdb.cert Prec_mindsdb.P ExprSim_mindsdb.F ExprSim_mindsdb.tokSELECT
      ExprSim_mindsdb.tokFROM (addParens Prec_mindsdb.S ExprSim_mindsdb.ex4) =
    expected Tables_mindsdb.tables ExprSim_mindsdb.cert Prec_mindsdb.P ExprSim_mindsdb.tokFROM
      ExprSim_mindsdb.selectStart (addParens Prec_mindsdb.S ExprSim_mindsdb.ex4) := by decide +kernel
example : inFragment ExprSim_mindsdb.F ExprSim_mindsdb.ex4 = true := by decide

/-- the hypothesis `canon` is not vacuous and not redundant: without its parentheses `ex2` is not
canonical and the driver does NOT build its tree -/
example : canon Prec_mindsdb.P ExprSim_mindsdb.ex2 = false ∧
    observe Tables_mindsdb.tables ExprSim_mindsdb.cert Prec_mindsdb.P ExprSim_mindsdb.F ExprSim_mindsdb.tokSELECT
      ExprSim_mindsdb.tokFROM ExprSim_mindsdb.ex2 ≠
    expected Tables_mindsdb.tables ExprSim_mindsdb.cert Prec_mindsdb.P ExprSim_mindsdb.tokFROM
      ExprSim_mindsdb.selectStart ExprSim_mindsdb.ex2 := by decide +kernel

example : inFragment ExprSim_mindsdb.F ExprSim_mindsdb.ex2 = true ∧
    inFragment ExprSim_sqlite.F ExprSim_sqlite.ex2 = true ∧
    inFragment ExprSim_mysql.F ExprSim_mysql.ex2 = true := by decide

/-! ### [review] additions (reviewer rev-lr-opm): the whole statement, run to acceptance -/

/-- [review] `xs` occurs as a contiguous block of `ys` -/
def reviewInfix (xs : List Nat) : List Nat → Bool
  | [] => xs.isEmpty
  | y :: ys => LR.isPrefix xs (y :: ys) || reviewInfix xs ys

/-- [review] run `LR.parse` on `SELECT <e> FROM <id>` to the end: accepted, frontier = all tokens, and the
reductions of `tree C P e` form one contiguous block of the log -/
def reviewFullRun (T : Tables) (C : Cert) (P : Table) (mode : Mode) (tSel tFrom : Nat) (e : Expr) : Bool :=
  match parse T mode false (tSel :: (toks C P e ++ [tFrom, C.atomTok])) 10000 with
  | .accept t log =>
    t.yield == tSel :: (toks C P e ++ [tFrom, C.atomTok]) &&
    reviewInfix (tree C P e).postorder log.reverse
  | _ => false

/-- [review] end to end, continuing the `observe` examples to the end of the statement: the WHOLE statement
`SELECT (a OR b) AND NOT c BETWEEN (d = e) AND - f * (g + h) FROM t` is accepted by the driver on the real
mindsdb / sqlite tables, its frontier is the whole token list, and the reductions of the predicted expression tree
occur as one contiguous block of the semantic-action log -/
example : reviewFullRun Tables_mindsdb.tables ExprSim_mindsdb.cert Prec_mindsdb.P .drain ExprSim_mindsdb.tokSELECT
    ExprSim_mindsdb.tokFROM (addParens Prec_mindsdb.S ExprSim_mindsdb.ex2) = true := by decide +kernel
example : reviewFullRun Tables_sqlite.tables ExprSim_sqlite.cert Prec_sqlite.P .raise ExprSim_sqlite.tokSELECT
    ExprSim_sqlite.tokFROM (addParens Prec_sqlite.S ExprSim_sqlite.ex2) = true := by decide +kernel
-- [review] ... while for the un-parenthesised print of `ex2` (a different grouping) the check fails: the driver does
-- not perform the reductions of `ex2`'s own tree
example : reviewFullRun Tables_mindsdb.tables ExprSim_mindsdb.cert Prec_mindsdb.P .drain ExprSim_mindsdb.tokSELECT
    ExprSim_mindsdb.tokFROM ExprSim_mindsdb.ex2 = false := by decide +kernel

end MindsVerif.Props.C03B
