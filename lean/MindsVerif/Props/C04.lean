import MindsVerif.Lemmas.DecodeMain
import MindsVerif.Lemmas.Encode
import MindsVerif.Lemmas.Ident
import MindsVerif.Lemmas.Codec
import MindsVerif.Lemmas.IdentBq
import MindsVerif.Lemmas.Variable
import MindsVerif.Lemmas.PreLex
import MindsVerif.Lemmas.Hist
import MindsVerif.Lemmas.CodecDq
import MindsVerif.Model.LexTab
import MindsVerif.Gen.Lex_sqlite
import MindsVerif.Gen.Lex_mysql
import MindsVerif.Gen.Lex_mindsdb
import MindsVerif.Gen.Reserved
/-!
# C04 — string, number and identifier tokens keep exactly the value the SQL text denotes

Specification: `Denote` (what a literal *is* — `items` — and what it denotes), independent of the code.

**Theorems about the models tied to the live code** (which model is live is itself an obligation: `C04_live_models`):
* strings — `Model/Codec.lean` (one left-to-right `unescape_string` in the three grammars, the same string regexes in
  the three lexers, `Constant.get_string` escaping backslashes): `C04_codec_decode`, `C04_codec_encode`,
  `C04_codec_roundtrip` — the FULL statements, all strings, all dialects, no hypotheses; `C04_scan_quote` /
  `C04_scan_dquote` (token boundary of the live regexes on every specification literal);
* identifiers — `Model/LexBq.lean` (back-quote inside a part doubled): `C04_identifier_bq_{generic,mindsdb,mysql,sqlite}`
  (every list of non-empty parts), Φ4 obligations `phi4_*`, `phi4h_*` on the generated keyword tables;
* numbers — `C04_review_integer_lex` (print → scanner model `lexNumber`, every natural number, all dialects),
  `C04_integer`; floats are probe-only;
* variables — `C04_variable` (every denotable name), `C04_witness_variable`.

**History / regression theorems about the OLD variants** (all named `C04_old_*`; `Model/Lex.lean`: chained `replace` +
`strip` in MindsDB, escape-less sqlite / mysql lexers, printer without backslash escaping, identifier codec without the
doubled back-quote): the `C04_old_*_partial` theorems delimit exactly where that code was right, the
`C04_old_witness_*` theorems exhibit the defects that were repaired, `C04_old_identifier_*` is the identifier round
trip of the old printer.  They remain true statements about `Lex`; no stream drives these functions any more.
-/
namespace MindsVerif.Props.C04
open MindsVerif MindsVerif.Py MindsVerif.Lex MindsVerif.Denote MindsVerif.Literal MindsVerif.Gen

/-! ## full statements (visible, not all provable) -/

/-- decoding, single-quoted, dialect `d`: every literal of the specification grammar, followed by anything
that does not continue it, is read as one token whose constant holds the denoted value -/
def C04_full_decode (d : Dialect) : Prop :=
  ∀ (items : List Item) (rest : List Char), WF '\'' true items → rest.head? ≠ some '\'' →
    readString d (srcLit '\'' items ++ rest) = some (denote '\'' items, rest)

def C04_full_decode_dquote (d : Dialect) : Prop :=
  ∀ (items : List Item) (rest : List Char), WF '"' false items →
    readString d (srcLit '"' items ++ rest) = some (denote '"' items, rest)

/-- encoding: the printed form of every string value is one literal of the specification grammar that
denotes the value -/
def C04_full_encode : Prop :=
  ∀ (v rest : List Char), rest.head? ≠ some '\'' →
    ∃ items, Denote.scan '\'' true (constantToString v ++ rest) = some (items, rest) ∧ denote '\'' items = v

/-- identifiers: every list of non-empty parts prints to a path that is read back as the same parts -/
def C04_full_ident (K : KwTable) (reserved : List (List Char)) : Prop :=
  ∀ parts : List (List Char), parts ≠ [] → (∀ p ∈ parts, p ≠ []) →
    lexIdentPath K (partsToStr reserved parts) = some parts

/-! ## History: T4.1 decoding by the codec before 2843e02 (`Model/Lex.lean`) -/

-- [review] NOTE on what is live at review time (`Gen.RenderPins.codecFixed = true`, `bqDoubled = true`): the string
-- regexes of `C04_scan_quote` / `C04_scan_dquote` (`Lex.mQuote`, `Lex.mDQuote`) ARE the live ones in all three lexers
-- (stream `scan` drives `scanq/scandq mindsdb`), so these two are not history although they stand in this section;
-- the decoders `quoteString` / `unescQuote` / `Lex.constantToString` used by the `_partial` theorems are history.
-- For identifiers the live (tied) model is `LexBq` (`parts2` / `ident2`): the main identifier theorems for the live
-- code are `C04_identifier_bq_*` below; `C04_identifier_{mindsdb,mysql,sqlite}`, `C04_old_witness_ident` and
-- `C04_old_witness_backquote` speak about `Lex.partsToStr` / `Lex.lexIdentPath`, which no stream drives any more.

/-- the MindsDB `QUOTE_STRING` regex, with Python's backtracking, matches exactly a specification literal
(for *every* literal, including the known-finding classes: the token boundary is always right) -/
theorem C04_scan_quote (items : List Item) (rest : List Char) (hw : WF '\'' true items)
    (hr : rest.head? ≠ some '\'') :
    lexQuote .mindsdb (srcLit '\'' items ++ rest) =
      some ⟨srcLit '\'' items, srcLit '\'' items, rest⟩ := by
  simp [srcLit, lexQuote, mQuote_src rest hr items hw]

theorem C04_scan_dquote (items : List Item) (rest : List Char) (hw : WF '"' false items) :
    lexDQuote .mindsdb (srcLit '"' items ++ rest) =
      some ⟨srcLit '"' items, srcLit '"' items, rest⟩ := by
  simp [srcLit, lexDQuote, mDQuote_src rest items hw]

/-- **T4.1 (MindsDB, single quotes), partial.** Missing w.r.t. `C04_full_decode .mindsdb`: literals containing
the escape `\\` (KF-C04-1), literals whose value starts or ends with a quote (KF-C04-2), an escaped
quote directly followed by another escaped/doubled quote (KF-C04-3; the code fails only when the run holds
two `\'`, the hypothesis is slightly stronger). -/
theorem C04_old_decode_partial (items : List Item) (rest : List Char) (hw : WF '\'' true items)
    (hr : rest.head? ≠ some '\'')
    (h1 : hasEscBackslash items = false) (h2 : edgeQuote '\'' items = false)
    (h3 : escQuoteRun '\'' items = false) :
    readString .mindsdb (srcLit '\'' items ++ rest) = some (denote '\'' items, rest) := by
  have hs := C04_scan_quote items rest hw hr
  have hd := decodeQuote_mindsdb items hw h1 h2 h3
  simp only [decodeQuote] at hd
  have e : srcLit '\'' items ++ rest = '\'' :: (srcBody '\'' items ++ ['\''] ++ rest) := by simp [srcLit]
  rw [e] at hs ⊢
  simp only [readString, hs, Option.map_some, hd]

/-- **T4.1 (MindsDB, double quotes), partial**: outside KF-C04-1 / KF-C04-2. -/
theorem C04_old_decode_dquote_partial (items : List Item) (rest : List Char) (hw : WF '"' false items)
    (h1 : hasEscBackslash items = false) (h2 : edgeQuote '"' items = false) :
    readString .mindsdb (srcLit '"' items ++ rest) = some (denote '"' items, rest) := by
  have hs := C04_scan_dquote items rest hw
  have hd := decodeDQuote_mindsdb items hw h1 h2
  simp only [decodeDQuote] at hd
  have e : srcLit '"' items ++ rest = '"' :: (srcBody '"' items ++ ['"'] ++ rest) := by simp [srcLit]
  rw [e] at hs ⊢
  simp only [readString, hs, Option.map_some, hd]

/-- **T4.1 (sqlite, mysql), partial**: the escape-less lexers are right exactly on literals that use no
escape (KF-C04-4 is the complement). Both quote kinds. -/
theorem C04_old_decode_simple_partial (d : Dialect) (hd : d ≠ .mindsdb) (items : List Item) (rest : List Char) :
    (WF '\'' true items → usesEscape items = false →
      readString d (srcLit '\'' items ++ rest) = some (denote '\'' items, rest)) ∧
    (WF '"' false items → usesEscape items = false →
      readString d (srcLit '"' items ++ rest) = some (denote '"' items, rest)) := by
  have key : ∀ (q : Char) (dbl : Bool), (q = '\'' ∨ q = '"') → WF q dbl items → usesEscape items = false →
      mSimple q (srcBody q items ++ q :: rest) = some (srcBody q items, rest) ∧
      strip [q] (q :: srcBody q items ++ [q]) = denote q items := by
    intro q dbl hq hw hu
    obtain ⟨e1, e2⟩ := src_eq_denote q dbl hq items hw hu
    refine ⟨mSimple_body q rest _ e2, ?_⟩
    rw [← e1]
    apply strip_delims
    · intro c t e; exact e2 c (by simp [e])
    · intro c t e; exact e2 c (by simp [e])
  constructor
  · intro hw hu
    obtain ⟨k1, k2⟩ := key '\'' true (Or.inl rfl) hw hu
    simp only [List.cons_append] at k2
    cases d <;> first | exact absurd rfl hd | simp [srcLit, readString, lexQuote, unescQuote, quoteString, k1, k2]
  · intro hw hu
    obtain ⟨k1, k2⟩ := key '"' false (Or.inr rfl) hw hu
    simp only [List.cons_append] at k2
    cases d <;> first | exact absurd rfl hd | simp [srcLit, readString, lexDQuote, unescDQuote, dquoteString, k1, k2]

/-! ## History: T4.2 encoding before 2843e02 -/

/-- **T4.2, partial.** `Constant.get_string` of a value in which every backslash is followed by a character
other than `\`, `'`, `"` is one specification literal denoting the value. Missing: the other values
(KF-C04-5: the printer never escapes a backslash). -/
theorem C04_old_encode_partial (v rest : List Char) (hv : encOK v = true) (hr : rest.head? ≠ some '\'') :
    Denote.scan '\'' true (constantToString v ++ rest) = some (encItems v, rest) ∧
      denote '\'' (encItems v) = v := by
  obtain ⟨e1, e2, e3⟩ := enc_main v hv
  refine ⟨?_, e3⟩
  have := scanGo_src '\'' true (by decide) rest hr (encItems v) e2
  simp [constantToString, Denote.scan, e1, this]

/-! ## History: `decode (encode v) = v` for the codec before 2843e02 -/

/-- **MindsDB round trip, partial.** `parse (Constant(v).to_string())` holds `v` again for every value in which every
backslash is followed by a character other than `\ ' "` (else KF-C04-5), that does not start or end with a
quote (`edgeQuote` of its printed items, KF-C04-2) and has no two adjacent quotes (`escQuoteRun`, KF-C04-3). -/
theorem C04_old_roundtrip_mindsdb_partial (v rest : List Char) (hv : encOK v = true) (hr : rest.head? ≠ some '\'')
    (h2 : edgeQuote '\'' (Denote.encItems v) = false) (h3 : escQuoteRun '\'' (Denote.encItems v) = false) :
    readString .mindsdb (constantToString v ++ rest) = some (v, rest) :=
  Codec.roundtrip_mindsdb v rest hv hr h2 h3

/-- **sqlite / mysql round trip, partial.** Exactly the values without a single quote are read back (any
backslashes included); a quote prints as `\'`, which these lexers do not read (KF-C04-4). -/
theorem C04_old_roundtrip_simple_partial (d : Dialect) (hd : d ≠ .mindsdb) (v rest : List Char)
    (hv : ∀ c ∈ v, c ≠ '\'') : readString d (constantToString v ++ rest) = some (v, rest) :=
  Codec.roundtrip_simple d hd v rest hv

/-- the round trip fails in each excluded class -/
theorem C04_old_witness_roundtrip :
    readString .mindsdb (constantToString ['a', '\'', '\'', 'b']) = some (['a', '\'', 'b'], []) ∧
    readString .mindsdb (constantToString ['\'', 'a']) = some (['a'], []) ∧
    readString .mindsdb (constantToString ['\\']) = some ([], []) ∧
    readString .sqlite (constantToString ['a', '\'', 'b']) = some (['a', '\\'], ['b', '\'']) := by decide

/-! ## MAIN: the live codec (/repo 2843e02, `Model/Codec.lean`): the FULL statements hold, in every dialect

These are theorems about the code of 2843e02 (one scan `unescape_string` in the three grammars, the MindsDB string
regexes in the three lexers, `Constant.get_string` escaping backslashes).  The check ties `Codec` to the live code as
soon as `Gen.RenderPins.codecFixed = true` (or under `VERIF_REPO=<patched tree>`). -/

/-- full decoding statement for a reader -/
def C04_full_decode_reader (read : List Char → Option (List Char × List Char)) : Prop :=
  (∀ (items : List Item) (rest : List Char), WF '\'' true items → rest.head? ≠ some '\'' →
    read (srcLit '\'' items ++ rest) = some (denote '\'' items, rest)) ∧
  (∀ (items : List Item) (rest : List Char), WF '"' false items →
    read (srcLit '"' items ++ rest) = some (denote '"' items, rest))

/-- **T4.1 (codec), full**: every specification literal, single or double quoted, any escapes -/
theorem C04_codec_decode : C04_full_decode_reader Codec.readString :=
  ⟨fun items rest hw hr => Codec.read_src items rest hw hr, fun items rest hw => Codec.read_src_dquote items rest hw⟩

/-- **T4.2 (codec), full**: every string value prints to one specification literal denoting it -/
theorem C04_codec_encode (v rest : List Char) (hr : rest.head? ≠ some '\'') :
    Denote.scan '\'' true (Codec.constantToString v ++ rest) = some (Codec.encItems v, rest) ∧
      denote '\'' (Codec.encItems v) = v := by
  obtain ⟨e1, e2, e3⟩ := Codec.enc_body v
  refine ⟨?_, e3⟩
  have := scanGo_src '\'' true (by decide) rest hr (Codec.encItems v) e2
  simp [Codec.constantToString, Denote.scan, e1, this]

/-- **`decode (encode v) = v` (codec), full**: all strings, all three dialects -/
theorem C04_codec_roundtrip (v rest : List Char) (hr : rest.head? ≠ some '\'') :
    Codec.readString (Codec.constantToString v ++ rest) = some (v, rest) :=
  Codec.roundtrip v rest hr

/-- the inputs of the witnesses above under the codec -/
example : Codec.readString (srcLit '\'' [.qq]) = some (['\''], []) ∧
    Codec.readString (srcLit '\'' [.ch 'a', .esc '\\', .ch 'b']) = some (['a', '\\', 'b'], []) ∧
    Codec.readString (srcLit '\'' [.ch 'a', .esc '\'', .esc '\'', .ch 'b']) = some (['a', '\'', '\'', 'b'], []) ∧
    Codec.readString (Codec.constantToString ['\\']) = some (['\\'], []) := by decide

-- [review] non-vacuity of `C04_codec_decode`: a well-formed literal with every item kind (leading and trailing `''`,
-- `\\`, `\'`, a non-escape `\n` pair), followed by text; and the empty literal
example : WF '\'' true [.qq, .ch 'a', .esc '\\', .esc '\'', .esc 'n', .qq] ∧
    Codec.readString (srcLit '\'' [.qq, .ch 'a', .esc '\\', .esc '\'', .esc 'n', .qq] ++ " ,".toList) =
      some ("'a\\'\\n'".toList, " ,".toList) := by decide
example : Codec.readString ("''".toList) = some ([], []) := by decide  -- [review]

/-! ## T4.4 integers -/

/-- the decimal text of every natural number consists of digits (so `\d+` matches all of it) and the
`integer` action `int(p[0])` returns the number -/
theorem C04_integer (n : Nat) :
    (Nat.repr n).toList.all Lex.isDigit = true ∧ digitsValue (Nat.repr n).toList = n :=
  ⟨repr_all_digits n, digitsValue_repr n⟩

-- [review] `C04_integer` does not mention the number scanner `lexNumber` (the model of ID-before-FLOAT-before-INTEGER
-- that the `number` correspondence stream ties to the real lexers).  The stronger statement: in every dialect the
-- decimal text of every natural number is ONE INTEGER token, nothing left over, whose value is the number.
theorem C04_review_digit_not_idLetter (c : Char) (h : Lex.isDigit c = true) : isIdLetter c = false := by
  have hd : c.isDigit = true := h
  have h1 : c.isAlpha = false := by
    cases ha : c.isAlpha with
    | false => rfl
    | true => have := Ident.alpha_not_digit c ha; rw [hd] at this; cases this
  have h2 : c ≠ '_' := by intro e; subst e; revert hd; decide
  have h3 : c ≠ '$' := by intro e; subst e; revert hd; decide
  have h4 : icExtra c = false := by
    unfold icExtra
    have a1 : c ≠ 'İ' := by intro e; subst e; revert hd; decide
    have a2 : c ≠ 'ı' := by intro e; subst e; revert hd; decide
    have a3 : c ≠ 'ſ' := by intro e; subst e; revert hd; decide
    have a4 : c ≠ 'K' := by intro e; subst e; revert hd; decide
    simp [a1, a2, a3, a4]
  simp [isIdLetter, h1, h2, h3, h4]

/-- [review] print → lex of every natural number, all dialects, through the scanner model -/
theorem C04_review_integer_lex (d : Dialect) (n : Nat) :
    lexNumber d (Nat.repr n).toList = some (.int n, []) := by
  obtain ⟨hall, hval⟩ := C04_integer n
  generalize hs : (Nat.repr n).toList = s at hall hval
  have hne : s ≠ [] := by
    rw [← hs, Nat.toList_repr]
    intro e
    have := congrArg List.length e
    simp at this
  have hd : ∀ c ∈ s, Lex.isDigit c = true := by simpa [List.all_eq_true] using hall
  have tk := Ident.takeWhile_all Lex.isDigit s [] hd (by intro y t e; cases e)
  simp only [List.append_nil] at tk
  have tk2 := Ident.takeWhile_all isIdChar s [] (by
    intro c hc; have := hd c hc; simp [isIdChar, Lex.isDigit] at this ⊢; exact Or.inr this) (by intro y t e; cases e)
  simp only [List.append_nil] at tk2
  have hany : s.any isIdLetter = false := by
    rw [List.any_eq_false]
    intro c hc; simp [C04_review_digit_not_idLetter c (hd c hc)]
  simp [lexNumber, tk.1, tk.2, tk2.1, hne, hany, hval]

/-! ## pins: what the hand models assume about the source -/
/-- (SLY's `@_` decorator stores each pattern wrapped in one group) -/
-- repo commit 73323f7: same matches as `'(?:\\\\.|[^'])*(?:''(?:\\\\.|[^'])*)*'` / `"(?:\\\\.|[^"])*"` (what `Lex.mQuote` / `mDQuote`
-- transcribe), written with look-aheads so that the match is not exponential on unterminated literals
example : Lex_mindsdb.QUOTE_STRING = "('(?:\\\\.(?=[^']*')|[^'])*(?:''(?=[^']*')(?:\\\\.(?=[^']*')|[^'])*)*')" := by decide
example : Lex_mindsdb.DQUOTE_STRING = "(\"(?:\\\\.(?=[^\"]*\")|[^\"])*\")" := by decide
/-- which models are tied to the live code: the one-scan string codec (`Model/Codec.lean`) and the identifier codec with
doubled back-quotes (`Model/LexBq.lean`).  A tree that falls back to an old variant breaks this obligation (the
`C04_old_*` theorems would then be the applicable ones, and the check ties `Model/Lex.lean` again). -/
theorem C04_live_models : RenderPins.codecFixed = true ∧ RenderPins.bqDoubled = true := by decide

/-- sqlite / mysql string regexes: either the escape-less ones of the pinned tree, or — once
`docs/proposed_fixes/C04_2.diff` is live (`codecFixed`) — the same regexes as the MindsDB lexer -/
example :
    (RenderPins.codecFixed = false ∧
      Lex_sqlite.QUOTE_STRING = "('[^']*')" ∧ Lex_mysql.QUOTE_STRING = "('[^']*')" ∧
      Lex_sqlite.DQUOTE_STRING = "(\"[^\"]*\")" ∧ Lex_mysql.DQUOTE_STRING = "(\"[^\"]*\")") ∨
    (RenderPins.codecFixed = true ∧
      Lex_sqlite.QUOTE_STRING = Lex_mindsdb.QUOTE_STRING ∧ Lex_mysql.QUOTE_STRING = Lex_mindsdb.QUOTE_STRING ∧
      Lex_sqlite.DQUOTE_STRING = Lex_mindsdb.DQUOTE_STRING ∧ Lex_mysql.DQUOTE_STRING = Lex_mindsdb.DQUOTE_STRING) := by
  decide
/-- `ID` of the three lexers: back-quoted alternative without (pinned tree) or with (`bqDoubled`,
`docs/proposed_fixes/C04_4.diff`) the doubled back-quote; same state as `path_str_parts_regex` -/
example :
    (RenderPins.bqDoubled = false ∧
      Lex_mindsdb.ID = "((?:([a-zA-Z_$0-9]*[a-zA-Z_$]+[a-zA-Z_$0-9]*)|(?:`([^`]+)`)))" ∧
      Reserved.pathParts = "(?:(?:(`[^`]+`))|([^.]+))") ∨
    (RenderPins.bqDoubled = true ∧
      Lex_mindsdb.ID = "((?:([a-zA-Z_$0-9]*[a-zA-Z_$]+[a-zA-Z_$0-9]*)|(?:`((?:[^`]|``)+)`)))" ∧
      Reserved.pathParts = "(?:(?:(`(?:[^`]|``)+`))|([^.]+))") := by decide
example : Lex_sqlite.ID = Lex_mindsdb.ID ∧ Lex_mysql.ID = Lex_mindsdb.ID := by decide
example : Lex_mindsdb.FLOAT = "(\\d+\\.\\d+)" ∧ Lex_sqlite.FLOAT = "(\\d+\\.\\d*)" ∧ Lex_mysql.FLOAT = "(\\d+\\.\\d*)" := by decide
example : Lex_mindsdb.INTEGER = "(\\d+)" ∧ Lex_sqlite.INTEGER = "(\\d+)" ∧ Lex_mysql.INTEGER = "(\\d+)" := by decide
example : Lex_mindsdb.VARIABLE = "(@[a-zA-Z_.$]+)|(@'[a-zA-Z_.$][^']*')|(@`[a-zA-Z_.$][^`]*`)|(@\"[a-zA-Z_.$][^\"]*\")" ∧
    Lex_mysql.VARIABLE = Lex_mindsdb.VARIABLE := by decide
example : Lex_mindsdb.DOT = "\\." ∧ Lex_mindsdb.PARAMETER = "\\?" := by decide
example : Lex_mindsdb.ignoreCase = true ∧ Lex_sqlite.ignoreCase = true ∧ Lex_mysql.ignoreCase = true := by decide
/-- the token-producing rules with Python actions are exactly the modelled ones (a new action on another token shows
up here; actions of ignored rules — newline / comment line counting — are not literal matters) -/
example : Lex_mindsdb.valueTokenFuncs = ["DQUOTE_STRING","FLOAT","ID","INTEGER","QUOTE_STRING","SYSTEM_VARIABLE","VARIABLE"] ∧
    Lex_mysql.valueTokenFuncs = Lex_mindsdb.valueTokenFuncs ∧
    Lex_sqlite.valueTokenFuncs = ["DQUOTE_STRING","FLOAT","ID","INTEGER","QUOTE_STRING"] := by decide
example : Reserved.noWrap = "[a-zA-Z_][a-zA-Z_0-9]*" ∧ Reserved.noWrapFlags = 32 := by decide
example : Reserved.pathPartsFlags = 32 := by decide
-- (the source text of `Constant.get_string` is exported to `Gen.RenderPins` as information only: a pin on source
-- text would turn every harmless refactoring into a broken obligation; the encoder is tied by correspondence)

/-! ## Φ4 — keywords are reserved or `id` alternatives, except exactly the known-finding words -/
def reservedL : List (List Char) := Reserved.wordsC
def K_sqlite : KwTable := kwTable Lex_sqlite.rulesC Lex_sqlite.idAlts
def K_mysql : KwTable := kwTable Lex_mysql.rulesC Lex_mysql.idAlts
def K_mindsdb : KwTable := kwTable Lex_mindsdb.rulesC Lex_mindsdb.idAlts

/-- **Φ4** (fixed: 6326372 reserved ML_ENGINE, KNOWLEDGE_BASE, PRIMARY_KEY, PERSIST_ONLY, SEARCH_PATH): in every
dialect NO single-word keyword is both unreserved and not an `id` alternative (a new such keyword, or a
keyword regex of an unforeseen shape, breaks this obligation) -/
theorem phi4_mindsdb : offenders K_mindsdb reservedL = [] := by decide +kernel
theorem phi4_mysql : offenders K_mysql reservedL = [] := by decide +kernel
theorem phi4_sqlite : offenders K_sqlite reservedL = [] := by decide +kernel

/-! ## T4.3 identifiers -/

/-- **T4.3 (generic).** If every keyword word of the dialect is reserved, an `id` alternative or one of the words
`kf` (`kf = []` on the current tree), then every list of parts that are non-empty, contain no back-quote
(KF-C04-7) and are not (case-insensitively) one of the `kf` words prints to a path that lexer + `id` /
`identifier` actions + `path_str_to_parts` read back as the same parts: case preserved, split only at unquoted
dots, keywords / digits-first / dotted / blank / non-ASCII parts all included. -/
theorem C04_old_identifier_partial (K : KwTable) (reserved kf : List (List Char))
    (h : Ident.phi4 K reserved kf = true) (parts : List (List Char)) (hne : parts ≠ [])
    (hp : ∀ p ∈ parts, Ident.PartOK kf p) :
    lexIdentPath K (partsToStr reserved parts) = some parts :=
  Ident.ident_roundtrip K reserved kf h parts hne hp

theorem phi4h_mindsdb : Ident.phi4 K_mindsdb reservedL [] = true := by decide +kernel
theorem phi4h_mysql : Ident.phi4 K_mysql reservedL [] = true := by decide +kernel
theorem phi4h_sqlite : Ident.phi4 K_sqlite reservedL [] = true := by decide +kernel

/-- representable part: non-empty, no back-quote (the only exclusion left: KF-C04-7) -/
abbrev PartRep (p : List Char) : Prop := p ≠ [] ∧ ∀ x ∈ p, x ≠ '`'

theorem partOK_of_rep {p : List Char} (h : PartRep p) : Ident.PartOK [] p := ⟨h.1, h.2, rfl⟩

theorem C04_old_identifier_mindsdb (parts : List (List Char)) (hne : parts ≠ []) (hp : ∀ p ∈ parts, PartRep p) :
    lexIdentPath K_mindsdb (partsToStr reservedL parts) = some parts :=
  C04_old_identifier_partial _ _ _ phi4h_mindsdb parts hne fun p h => partOK_of_rep (hp p h)
theorem C04_old_identifier_mysql (parts : List (List Char)) (hne : parts ≠ []) (hp : ∀ p ∈ parts, PartRep p) :
    lexIdentPath K_mysql (partsToStr reservedL parts) = some parts :=
  C04_old_identifier_partial _ _ _ phi4h_mysql parts hne fun p h => partOK_of_rep (hp p h)
theorem C04_old_identifier_sqlite (parts : List (List Char)) (hne : parts ≠ []) (hp : ∀ p ∈ parts, PartRep p) :
    lexIdentPath K_sqlite (partsToStr reservedL parts) = some parts :=
  C04_old_identifier_partial _ _ _ phi4h_sqlite parts hne fun p h => partOK_of_rep (hp p h)

/-! ## T4.3 for the identifier codec of `docs/proposed_fixes/C04_4.diff` (`Model/LexBq.lean`): back-quotes doubled

Theorems about the proposed code; tied to the live code when `Gen.RenderPins.bqDoubled = true`.  The only
exclusion left is the empty part (`` `` `` is no identifier in any SQL dialect). -/

theorem C04_identifier_bq_generic (K : KwTable) (reserved kf : List (List Char))
    (h : Ident.phi4 K reserved kf = true) (parts : List (List Char)) (hne : parts ≠ [])
    (hp : ∀ p ∈ parts, IdentBq.PartOK kf p) :
    LexBq.lexIdentPath K (LexBq.partsToStr reserved parts) = some parts :=
  IdentBq.ident_roundtrip K reserved kf h parts hne hp

theorem C04_identifier_bq_mindsdb (parts : List (List Char)) (hne : parts ≠ []) (hp : ∀ p ∈ parts, p ≠ []) :
    LexBq.lexIdentPath K_mindsdb (LexBq.partsToStr reservedL parts) = some parts :=
  C04_identifier_bq_generic _ _ _ phi4h_mindsdb parts hne fun p h => ⟨hp p h, rfl⟩
theorem C04_identifier_bq_mysql (parts : List (List Char)) (hne : parts ≠ []) (hp : ∀ p ∈ parts, p ≠ []) :
    LexBq.lexIdentPath K_mysql (LexBq.partsToStr reservedL parts) = some parts :=
  C04_identifier_bq_generic _ _ _ phi4h_mysql parts hne fun p h => ⟨hp p h, rfl⟩
theorem C04_identifier_bq_sqlite (parts : List (List Char)) (hne : parts ≠ []) (hp : ∀ p ∈ parts, p ≠ []) :
    LexBq.lexIdentPath K_sqlite (LexBq.partsToStr reservedL parts) = some parts :=
  C04_identifier_bq_generic _ _ _ phi4h_sqlite parts hne fun p h => ⟨hp p h, rfl⟩

/-- the witness of KF-C04-7 under the doubled codec, and the remaining exclusion -/
example : LexBq.partsToStr reservedL [['a', '`', 'b']] = ['`', 'a', '`', '`', 'b', '`'] ∧
    LexBq.lexIdentPath K_mindsdb (LexBq.partsToStr reservedL [['a', '`', 'b'], ['`']]) = some [['a', '`', 'b'], ['`']] ∧
    LexBq.lexIdentPath K_mindsdb (LexBq.partsToStr reservedL [[]]) = none := by decide +kernel

-- [review] non-vacuity of `C04_identifier_bq_mindsdb` on the classes named in the property's quantifier: a keyword, a
-- blank, a dot inside a part, digits-first, a back-quote, non-ASCII, mixed case (printed form and read-back shown)
example : LexBq.partsToStr reservedL ["select".toList, "a b".toList, "x.y".toList, "1a".toList, "a`b".toList, "É".toList, "Tbl".toList]
      = "`select`.`a b`.`x.y`.`1a`.`a``b`.`É`.Tbl".toList ∧
    LexBq.lexIdentPath K_mindsdb (LexBq.partsToStr reservedL
      ["select".toList, "a b".toList, "x.y".toList, "1a".toList, "a`b".toList, "É".toList, "Tbl".toList]) =
      some ["select".toList, "a b".toList, "x.y".toList, "1a".toList, "a`b".toList, "É".toList, "Tbl".toList] := by
  decide +kernel

/-! ## variables: the name codec (`Variable.get_string` ∘ VARIABLE / SYSTEM_VARIABLE rules + decoding) -/

/-- full statement: every variable name placed in a tree prints to text that is read back as that variable -/
def C04_full_variable : Prop :=
  ∀ (sys : Bool) (v : List Char), lexVariable (variableToString sys v) = some (sys, v, [])

/-- **variable codec, all denotable names.** `VarOK v` = the names some source text denotes (what the lexers can
produce): first character in the lexers' class `[a-zA-Z_.$]`, and bare-printable or free of one of the three quote
characters.  For every such name, user or system variable, followed by anything that is not a name character:
print, then lex + decode, returns the flag and the name.  (Printer: bare iff the name fully matches `[a-zA-Z_.$]+`
— no digits, exactly the class of the bare token rule — else quoted with a quote that does not occur in it.) -/
theorem C04_variable (sys : Bool) (v rest : List Char) (hv : VarCodec.VarOK v = true)
    (hr : ∀ y t, rest = y :: t → isVarChar y = false) :
    lexVariable (variableToString sys v ++ rest) = some (sys, v, rest) :=
  VarCodec.roundtrip sys v rest hv hr

/-- names with a digit are printed quoted and read back (`var1`, `utf8mb4`); names outside `VarOK` (digit first,
empty) have no source form at all: the lexers reject ``@`1a` `` -/
theorem C04_witness_variable :
    variableToString false ['v', 'a', 'r', '1'] = ['@', '`', 'v', 'a', 'r', '1', '`'] ∧
    lexVariable (variableToString true ['u', 't', 'f', '8', 'm', 'b', '4']) = some (true, ['u', 't', 'f', '8', 'm', 'b', '4'], []) ∧
    lexVariable ['@', 'v', 'a', 'r', '1'] = some (false, ['v', 'a', 'r'], ['1']) ∧
    ¬ C04_full_variable := by
  refine ⟨by decide, by decide, by decide, ?_⟩
  intro h
  have := h false ['1', 'a']
  revert this; decide

example : VarCodec.VarOK ['v', 'a', 'r', '1'] = true ∧ VarCodec.VarOK ['a', ' ', '`', '"'] = true ∧
    VarCodec.VarOK ['1', 'a'] = false := by decide
example : Lex_mindsdb.SYSTEM_VARIABLE = "(@@[a-zA-Z_.$]+)|(@@'[a-zA-Z_.$][^']*')|(@@`[a-zA-Z_.$][^`]*`)|(@@\"[a-zA-Z_.$][^\"]*\")" ∧
    Lex_mysql.SYSTEM_VARIABLE = Lex_mindsdb.SYSTEM_VARIABLE := by decide

/-! ## regression examples: the defects of the old codec (all fixed), and the one open class (KF-C04-7) -/

/-- KF-C04-2: `''''` denotes one quote, the decoder returns the empty string -/
theorem C04_old_witness_edge : ¬ C04_full_decode .mindsdb := by
  intro h
  have := h [.qq] [] (by decide) (by decide)
  revert this; decide

/-- KF-C04-1: `'a\\b'` denotes `a\b`, the decoder keeps both backslashes -/
theorem C04_old_witness_escbs :
    readString .mindsdb (srcLit '\'' [.ch 'a', .esc '\\', .ch 'b']) ≠
      some (denote '\'' [.ch 'a', .esc '\\', .ch 'b'], []) := by decide

/-- KF-C04-3: `'a\'\'b'` denotes `a''b`, the decoder returns `a'b` -/
theorem C04_old_witness_run :
    readString .mindsdb (srcLit '\'' [.ch 'a', .esc '\'', .esc '\'', .ch 'b']) = some (['a', '\'', 'b'], []) ∧
      denote '\'' [.ch 'a', .esc '\'', .esc '\'', .ch 'b'] = ['a', '\'', '\'', 'b'] := by decide

/-- KF-C04-4: `'a''b'` in sqlite / mysql: the token ends after `'a'` -/
theorem C04_old_witness_simple : ¬ C04_full_decode .sqlite ∧ ¬ C04_full_decode .mysql := by
  constructor <;> intro h <;>
    · have := h [.ch 'a', .qq, .ch 'b'] [] (by decide) (by decide)
      revert this; decide

/-- KF-C04-5: the value `\` prints as `'\'`, which is not a terminated literal -/
theorem C04_old_witness_encode : ¬ C04_full_encode := by
  intro h
  obtain ⟨items, hs, _⟩ := h ['\\'] [] (by decide)
  have hn : Denote.scan '\'' true (constantToString ['\\'] ++ []) = none := by decide
  rw [hn] at hs
  exact absurd hs (by simp)

/-- regression example for the repaired KF-C04-6 (fixed: 6326372): `primary_key` is printed back-quoted and read back -/
theorem C04_old_witness_ident :
    partsToStr reservedL [['p','r','i','m','a','r','y','_','k','e','y']] = ['`','p','r','i','m','a','r','y','_','k','e','y','`'] ∧
    lexIdentPath K_mindsdb (partsToStr reservedL [['p','r','i','m','a','r','y','_','k','e','y']]) =
      some [['p','r','i','m','a','r','y','_','k','e','y']] := by decide +kernel

-- [review] doc fix: this is now HISTORY too — a statement about `Lex.partsToStr` / `Lex.lexIdentPath` (identifier codec
-- before the doubled back-quote).  The live code (`bqDoubled = true`) reads ``a`b`` back: see the example after
-- `C04_identifier_bq_sqlite`.
/-- KF-C04-7 (history, codec without doubled back-quotes): a part containing a back-quote is not read back -/
theorem C04_old_witness_backquote : ¬ C04_full_ident K_mindsdb reservedL := by
  intro h
  have := h [['a', '`', 'b']] (by decide) (by decide)
  revert this; decide +kernel

/-! ## non-vacuity of the hypotheses -/
example : WF '\'' true [.ch 'i', .ch 't', .qq, .ch 's', .esc 'n', .esc '"'] ∧
    hasEscBackslash [.ch 'i', .ch 't', .qq, .ch 's', .esc 'n', .esc '"'] = false ∧
    edgeQuote '\'' [.ch 'i', .ch 't', .qq, .ch 's', .esc 'n', .esc '"'] = false ∧
    escQuoteRun '\'' [.ch 'i', .ch 't', .qq, .ch 's', .esc 'n', .esc '"'] = false := by decide
example : readString .mindsdb (srcLit '\'' [.ch 'i', .ch 't', .qq, .ch 's', .esc 'n', .esc '"'] ++ [' ', 'x']) =
    some (['i', 't', '\'', 's', '\\', 'n', '"'], [' ', 'x']) := by decide
example : encOK ['i', 't', '\'', 's', ' ', '\\', 'n'] = true := by decide
example : usesEscape [.ch 'a', .esc 'n'] = false := by decide
example : PartRep ['s', 'e', 'l', 'e', 'c', 't'] ∧ PartRep ['a', '.', ' ', '1'] := by
  refine ⟨⟨by decide, by decide⟩, ⟨by decide, by decide⟩⟩

/-! ## Round 5 (a): the text between `parse_sql`'s argument and the lexer

The codec theorems above speak about the text THE LEXER gets.  `parse_sql` first rewrites its argument
(`re.sub(r'[\s;]+$', '', sql)`, model `PreLex.preLex`, tied by the `prelex` stream which captures what the real
`parse_sql` hands to `lexer.tokenize`).  The theorems below close that gap: whatever stands in front of a token that
ends in a character outside `[\s;]` — every string literal ends in its quote, every quoted identifier in its
back-quote — and whatever run of white space / semicolons follows it, the lexer receives the token code point by
code point (CR, LF, TAB, VT, FF, FS–US, NEL, LS, PS inside it included), and the reader returns the denoted value. -/

/-- the pre-lexing step keeps every token that ends in a character outside `[\s;]`, with all that precedes it -/
theorem C04_prelex_exact (pre tok trail : List Char) (c : Char) (hc : PreLex.isTrail c = false)
    (ht : ∀ x ∈ trail, PreLex.isTrail x = true) :
    PreLex.preLex (pre ++ (tok ++ [c]) ++ trail) = pre ++ (tok ++ [c]) := by
  have e : pre ++ (tok ++ [c]) ++ trail = (pre ++ tok) ++ [c] ++ trail := by simp
  rw [e, PreLex.preLex_keep _ _ c hc ht]; simp

/-- the text handed to the lexer is a prefix of the statement: nothing before the cut is changed -/
theorem C04_prelex_prefix (s : List Char) : PreLex.preLex s <+: s := PreLex.preLex_prefix s

/-- **`parse_sql` on a statement ending in a string literal** (any text before it, any white space / `;` behind it):
the lexer input is `pre ++ literal`, and the reader, started where the literal starts, returns exactly the value the
literal denotes — for EVERY specification literal, whatever code points it contains -/
theorem C04_prelex_literal (pre trail : List Char) (items : List Item)
    (ht : ∀ x ∈ trail, PreLex.isTrail x = true) :
    (WF '\'' true items →
      PreLex.preLex (pre ++ srcLit '\'' items ++ trail) = pre ++ srcLit '\'' items ∧
      Codec.readString ((PreLex.preLex (pre ++ srcLit '\'' items ++ trail)).drop pre.length) =
        some (denote '\'' items, [])) ∧
    (WF '"' false items →
      PreLex.preLex (pre ++ srcLit '"' items ++ trail) = pre ++ srcLit '"' items ∧
      Codec.readString ((PreLex.preLex (pre ++ srcLit '"' items ++ trail)).drop pre.length) =
        some (denote '"' items, [])) := by
  have e1 : PreLex.preLex (pre ++ srcLit '\'' items ++ trail) = pre ++ srcLit '\'' items := by
    have := C04_prelex_exact pre ('\'' :: srcBody '\'' items) trail '\'' (by decide) ht
    simpa [srcLit] using this
  have e2 : PreLex.preLex (pre ++ srcLit '"' items ++ trail) = pre ++ srcLit '"' items := by
    have := C04_prelex_exact pre ('"' :: srcBody '"' items) trail '"' (by decide) ht
    simpa [srcLit] using this
  refine ⟨fun hw => ⟨e1, ?_⟩, fun hw => ⟨e2, ?_⟩⟩
  · rw [e1, List.drop_left]
    simpa using Codec.read_src items [] hw (by simp)
  · rw [e2, List.drop_left]
    simpa using Codec.read_src_dquote items [] hw

/-- CR LF, LF CR, TAB, VT, FF, U+001C–U+001F, NEL, LS, PS between the quotes of a literal and the back-quotes of an
identifier, Windows line ends between the tokens and behind the statement -/
example : Codec.readString ((PreLex.preLex "select 'a\r\nb\n\r\t\x0b\x0c\x1c\x1d\x1e\x1f\u0085  ' ;\r\n".toList).drop 7) =
    some ("a\r\nb\n\r\t\x0b\x0c\x1c\x1d\x1e\x1f\u0085  ".toList, []) := by decide +kernel
example : PreLex.preLex "select\r\n`a\r\nb` ;\r\n;".toList = "select\r\n`a\r\nb`".toList ∧
    LexBq.lexIdentPath K_mindsdb "`a\r\nb`".toList = some ["a\r\nb".toList] := by decide +kernel

/-! ## Round 5 (b): the printed form of a node is a function of the state it holds NOW

`Model/Hist.lean`: a history is a list of observations (print, `==`, `to_tree`, copy) and in-place edits.  The live
printers compute the text from the current attributes (`Hist.runLive`; tied to real `Identifier` objects by the
`ident-history` stream).  Consequences, for ALL histories: every text observed is the rendering of the parts held at
that moment and is read back as exactly those parts; observations are pure; and any printer that remembers its text
is equivalent to the live one iff it forgets on every edit that changes the printed form. -/

abbrev IdOp := Hist.ListOp (List Char)

/-- **identifier histories** (generic in the keyword table): whatever sequence of `parts` edits (assign, pop, insert,
append, item assignment, extend, reverse) and observations an `Identifier` went through, each text it printed is
`parts_to_str` of the parts it held at that moment and the lexer + grammar read it back as exactly those parts -/
theorem C04_history_identifier (K : KwTable) (reserved kf : List (List Char)) (h : Ident.phi4 K reserved kf = true)
    (evs : List (Hist.Ev IdOp)) (s0 : List (List Char)) (p : List (List Char) × List Char)
    (hp : p ∈ (Hist.states Hist.ListOp.apply evs s0).zip
      (Hist.runLive Hist.ListOp.apply (LexBq.partsToStr reserved) evs s0))
    (hne : p.1 ≠ []) (hparts : ∀ q ∈ p.1, IdentBq.PartOK kf q) :
    p.2 = LexBq.partsToStr reserved p.1 ∧ LexBq.lexIdentPath K p.2 = some p.1 := by
  have e := Hist.live_current Hist.ListOp.apply (LexBq.partsToStr reserved) evs s0 p hp
  exact ⟨e, by rw [e]; exact IdentBq.ident_roundtrip K reserved kf h p.1 hne hparts⟩

theorem C04_history_identifier_mindsdb (evs : List (Hist.Ev IdOp)) (s0 : List (List Char))
    (p : List (List Char) × List Char)
    (hp : p ∈ (Hist.states Hist.ListOp.apply evs s0).zip
      (Hist.runLive Hist.ListOp.apply (LexBq.partsToStr reservedL) evs s0))
    (hne : p.1 ≠ []) (hparts : ∀ q ∈ p.1, q ≠ []) :
    LexBq.lexIdentPath K_mindsdb p.2 = some p.1 :=
  (C04_history_identifier _ _ _ phi4h_mindsdb evs s0 p hp hne fun q hq => ⟨hparts q hq, rfl⟩).2
theorem C04_history_identifier_mysql (evs : List (Hist.Ev IdOp)) (s0 : List (List Char))
    (p : List (List Char) × List Char)
    (hp : p ∈ (Hist.states Hist.ListOp.apply evs s0).zip
      (Hist.runLive Hist.ListOp.apply (LexBq.partsToStr reservedL) evs s0))
    (hne : p.1 ≠ []) (hparts : ∀ q ∈ p.1, q ≠ []) :
    LexBq.lexIdentPath K_mysql p.2 = some p.1 :=
  (C04_history_identifier _ _ _ phi4h_mysql evs s0 p hp hne fun q hq => ⟨hparts q hq, rfl⟩).2
theorem C04_history_identifier_sqlite (evs : List (Hist.Ev IdOp)) (s0 : List (List Char))
    (p : List (List Char) × List Char)
    (hp : p ∈ (Hist.states Hist.ListOp.apply evs s0).zip
      (Hist.runLive Hist.ListOp.apply (LexBq.partsToStr reservedL) evs s0))
    (hne : p.1 ≠ []) (hparts : ∀ q ∈ p.1, q ≠ []) :
    LexBq.lexIdentPath K_sqlite p.2 = some p.1 :=
  (C04_history_identifier _ _ _ phi4h_sqlite evs s0 p hp hne fun q hq => ⟨hparts q hq, rfl⟩).2

/-- **string constants under re-assignment of `value`** (`param.value = …`, `Constant.value = …`): every printed text
is read back as the value held at that moment -/
theorem C04_history_constant (evs : List (Hist.Ev (List Char))) (v0 rest : List Char)
    (p : List Char × List Char) (hr : rest.head? ≠ some '\'')
    (hp : p ∈ (Hist.states (fun v _ => v) evs v0).zip (Hist.runLive (fun v _ => v) Codec.constantToString evs v0)) :
    Codec.readString (p.2 ++ rest) = some (p.1, rest) := by
  rw [Hist.live_current (fun v _ => v) Codec.constantToString evs v0 p hp]
  exact Codec.roundtrip p.1 rest hr

/-- **observations are pure** (any node, any printer of the live kind): the text printed after a history is the text
an object prints that went through the same edits and was never looked at -/
theorem C04_history_obs_pure {ω σ τ : Type} (step : ω → σ → σ) (pr : σ → τ) (evs : List (Hist.Ev ω)) (s : σ) :
    (Hist.runLive step pr (evs ++ [.obs]) s).getLast? = (Hist.runLive step pr (Hist.edits evs ++ [.obs]) s).getLast? :=
  Hist.live_obs_pure step pr evs s

/-- **which remembered texts are harmless**: a printer that keeps its text and forgets it on the edits `inv` selects
prints, on all histories, what the live printer prints iff every edit it does NOT forget on leaves the printed form
unchanged (a cache keyed on the tuple of parts qualifies; "forget in the setter of `parts`" does not: `pop`) -/
theorem C04_memo_iff {ω σ τ : Type} (step : ω → σ → σ) (pr : σ → τ) (inv : ω → Bool) :
    (∀ evs s, Hist.runMemo step pr inv evs s none = Hist.runLive step pr evs s) ↔
      (∀ o s, inv o = false → pr (step o s) = pr s) :=
  Hist.memo_iff step pr inv

/-- the class of the escaped change, in the model: text remembered until `parts` is re-assigned; after
`parts.pop(0)` the identifier holding `['My Tab']` still prints ``Int1.`My Tab` ``, which denotes the OLD path -/
theorem C04_witness_stale_cache :
    Hist.runMemo Hist.ListOp.apply (LexBq.partsToStr reservedL) Hist.invOnAssign
      [.act (.assign ["Int1".toList, "My Tab".toList]), .obs, .act (.pop 0), .obs] [] none =
      ["Int1.`My Tab`".toList, "Int1.`My Tab`".toList] ∧
    Hist.states Hist.ListOp.apply
      [.act (.assign ["Int1".toList, "My Tab".toList]), .obs, .act (.pop 0), .obs] ([] : List (List Char)) =
      [["Int1".toList, "My Tab".toList], ["My Tab".toList]] ∧
    LexBq.lexIdentPath K_mindsdb "Int1.`My Tab`".toList = some ["Int1".toList, "My Tab".toList] ∧
    ¬ (∀ evs s, Hist.runMemo Hist.ListOp.apply (LexBq.partsToStr reservedL) Hist.invOnAssign evs s none =
        Hist.runLive Hist.ListOp.apply (LexBq.partsToStr reservedL) evs s) := by
  refine ⟨by decide +kernel, by decide +kernel, by decide +kernel, ?_⟩
  intro H
  have := (C04_memo_iff _ _ _).mp H (.pop 0) ["Int1".toList, "My Tab".toList] rfl
  revert this; decide +kernel

/-- non-vacuity: the live machine on the same history prints the current path, which is read back -/
example : Hist.runLive Hist.ListOp.apply (LexBq.partsToStr reservedL)
      [.act (.assign ["Int1".toList, "My Tab".toList]), .obs, .act (.pop 0), .obs,
       .act (.insert 0 "Proj.A".toList), .obs, .act (.setItem 1 "NAME".toList), .obs] [] =
      ["Int1.`My Tab`".toList, "`My Tab`".toList, "`Proj.A`.`My Tab`".toList, "`Proj.A`.NAME".toList] := by
  decide +kernel

/-! ## Round 6: constant slots — a constant reaches the text through the printer of the node that HOLDS it

`Insert.to_value` (VALUES cells), `Update` (SET values), `Case`, `Function`, `Tuple`, `BetweenOperation`, `TypeCast`, `Set`,
`Show … LIKE`, LIMIT / OFFSET, and the `USING` / `PARAMETERS` dictionaries (raw Python strings printed by `json_to_sql`,
model `Codec.jsonStrToSql`).  Which positions exist is discovered at run time (`tools/harness/slots.py`); the `slot-print`
stream checks, slot by slot and value by value, that the statement text is `pre ++ printer v ++ post` with `printer` one of
the two modelled string printers and `(pre, post)` the frame of the slot.  For such a text, for EVERY value: -/

/-- a slot printed with the library codec: the reader started where the literal starts returns exactly the value and
stops exactly where the frame continues (any frame whose continuation does not start with a quote) -/
theorem C04_slot_readback (pre post v : List Char) (hp : post.head? ≠ some '\'') :
    Codec.readString ((pre ++ Codec.constantToString v ++ post).drop pre.length) = some (v, post) := by
  rw [List.append_assoc, List.drop_left]
  exact Codec.roundtrip v post hp

/-- the second string printer (`json_to_sql`, double quotes): every string is read back, any continuation -/
theorem C04_codec_roundtrip_dq (v rest : List Char) :
    Codec.readString (Codec.jsonStrToSql v ++ rest) = some (v, rest) := Codec.roundtrip_dq v rest

theorem C04_slot_readback_dq (pre post v : List Char) :
    Codec.readString ((pre ++ Codec.jsonStrToSql v ++ post).drop pre.length) = some (v, post) := by
  rw [List.append_assoc, List.drop_left]
  exact Codec.roundtrip_dq v post

/-- the class of the escaped change (a cell printed with Python's `repr`): `repr('a\nb')` is the text `'a\nb'` with the
two characters backslash, `n` — a well-formed literal that denotes ANOTHER value; the two model printers on the same
value are read back -/
theorem C04_witness_repr_cell :
    Codec.readString "'a\\nb'".toList = some ("a\\nb".toList, []) ∧ "a\\nb".toList ≠ "a\nb".toList ∧
    Codec.readString (Codec.constantToString "a\nb\x00 ".toList) = some ("a\nb\x00 ".toList, []) ∧
    Codec.readString (Codec.jsonStrToSql "a\nb\"\\".toList) = some ("a\nb\"\\".toList, []) := by decide +kernel

end MindsVerif.Props.C04
